package main

// C17 — Published sites reveal nothing about living people when told not to.
//
//  (T)  component correspondence through the public constructors (IndividualName, IndividualDates,
//       IndividualLink, IndividualButton, PageIndividual, the list-page row filter) and IsLiving,
//       against the Lean model (`c17…` requests).
//  (S)  site level: every private string of every person is a unique marker token; the site is
//       published (child process, in-memory FileWriter) with hide / placeholder × page-group
//       subsets × jobs; all file names and contents are searched for the markers of living people,
//       links are resolved against the living people's page names of a show-mode run, and for hide
//       a second document that differs only in the living people's data must publish byte for byte
//       the same site. People who are not living must be fully published in every mode.

import (
	"strconv"
	"bytes"
	"encoding/json"
	"fmt"
	"os"
	"os/exec"
	"regexp"
	"runtime"
	"sort"
	"strings"
	"sync"
	"time"

	"github.com/elliotchance/gedcom/v39"
	"github.com/elliotchance/gedcom/v39/html"
	"github.com/elliotchance/gedcom/v39/html/core"
)

// ---------------------------------------------------------------------------------------------
// child process: publish one document into memory

type c17Job struct {
	Gedcom string  `json:"gedcom"`
	Vis    string  `json:"vis"`
	Groups [6]bool `json:"groups"` // individuals, places, families, surnames, sources, statistics
	Jobs   int     `json:"jobs"`
}

type c17Site struct {
	Files map[string]string `json:"files"`
	Order []string          `json:"order"`
	Err   string            `json:"err"`
	Dup   []string          `json:"dup"` // names written more than once
}

type c17Writer struct {
	mu   sync.Mutex
	site *c17Site
}

func (w *c17Writer) WriteFile(file *core.File) error {
	var buf bytes.Buffer
	if _, err := file.Component.WriteHTMLTo(&buf); err != nil {
		return err
	}
	w.mu.Lock()
	defer w.mu.Unlock()
	if _, ok := w.site.Files[file.Name]; ok {
		w.site.Dup = append(w.site.Dup, file.Name)
	}
	w.site.Files[file.Name] = buf.String()
	w.site.Order = append(w.site.Order, file.Name)
	return nil
}

func init() {
	workers["c17pub"] = func(args []string) int {
		var job c17Job
		if err := json.NewDecoder(os.Stdin).Decode(&job); err != nil {
			fmt.Fprintln(os.Stderr, err)
			return 2
		}
		site := &c17Site{Files: map[string]string{}}
		doc, err := gedcom.NewDocumentFromString(job.Gedcom)
		if err != nil {
			site.Err = "decode: " + err.Error()
		} else {
			opts := &html.PublishShowOptions{
				ShowIndividuals: job.Groups[0], ShowPlaces: job.Groups[1], ShowFamilies: job.Groups[2],
				ShowSurnames: job.Groups[3], ShowSources: job.Groups[4], ShowStatistics: job.Groups[5],
				LivingVisibility: html.NewLivingVisibility(job.Vis),
			}
			if err := html.NewPublisher(doc, opts).Publish(&c17Writer{site: site}, job.Jobs); err != nil {
				site.Err = "publish: " + err.Error()
			}
		}
		json.NewEncoder(os.Stdout).Encode(site)
		return 0
	}
}

// c17hist: several publishes of ONE decoded document object in ONE process, in the given order of
// visibilities (a later publish must not be influenced by an earlier one, e.g. through caches that
// are keyed by the document).
type c17HistJob struct {
	Gedcom  string   `json:"gedcom"`
	History []string `json:"history"`
	Groups  [6]bool  `json:"groups"`
	Jobs    int      `json:"jobs"`
}

// an edit of a document between two publishes and who is living after it
type c17Edit struct {
	step      string
	nowLiving func(p *c17Person) bool
}

func init() {
	workers["c17hist"] = func(args []string) int {
		var job c17HistJob
		if err := json.NewDecoder(os.Stdin).Decode(&job); err != nil {
			fmt.Fprintln(os.Stderr, err)
			return 2
		}
		var sites []*c17Site
		doc, err := gedcom.NewDocumentFromString(job.Gedcom)
		for _, vis := range job.History {
			site := &c17Site{Files: map[string]string{}}
			if strings.HasPrefix(vis, "maxage=") {
				// an edit between two publishes: Document.MaxLivingAge decides who is living
				if err == nil {
					age, _ := strconv.ParseFloat(strings.TrimPrefix(vis, "maxage="), 64)
					doc.MaxLivingAge = age
				}
				sites = append(sites, site)
				continue
			}
			if strings.HasPrefix(vis, "jobs=") {
				// the following publishes use another number of workers
				if n, e := strconv.Atoi(strings.TrimPrefix(vis, "jobs=")); e == nil && n > 0 {
					job.Jobs = n
				}
				sites = append(sites, site)
				continue
			}
			if strings.HasPrefix(vis, "die=") || strings.HasPrefix(vis, "delete=") || strings.HasPrefix(vis, "repoint=") {
				// in-place edits of the document between two publishes:
				//   die=<ptr>            a death is recorded: `1 DEAT Y` added to the individual
				//   delete=<ptr>         the individual is removed from the document
				//   repoint=<fam>=<ptr>  the husband of the family becomes another individual
				if err == nil {
					kv := strings.SplitN(vis, "=", 3)
					for _, p := range doc.Individuals() {
						if p.Pointer() != kv[1] {
							continue
						}
						switch kv[0] {
						case "die":
							p.AddNode(gedcom.NewDeathNode("Y"))
						case "delete":
							doc.DeleteNode(p)
						}
						break
					}
					if kv[0] == "repoint" && len(kv) == 3 {
						for _, f := range doc.Families() {
							if f.Pointer() == kv[1] {
								f.SetHusbandPointer(kv[2])
							}
						}
					}
				}
				sites = append(sites, site)
				continue
			}
			if strings.HasPrefix(vis, "redate=") {
				// an edit between two publishes: the DATE below the first BIRT of a person is corrected
				parts := strings.SplitN(strings.TrimPrefix(vis, "redate="), "=", 2)
				if err == nil && len(parts) == 2 {
					for _, p := range doc.Individuals() {
						if p.Pointer() != parts[0] {
							continue
						}
						if bs := p.Births(); len(bs) > 0 {
							nodes := gedcom.Nodes{gedcom.NewDateNode(parts[1])}
							for _, n := range bs[0].Nodes() {
								if !n.Tag().Is(gedcom.TagDate) {
									nodes = append(nodes, n)
								}
							}
							bs[0].SetNodes(nodes)
						}
					}
				}
				sites = append(sites, site)
				continue
			}
			if err != nil {
				site.Err = "decode: " + err.Error()
			} else {
				opts := &html.PublishShowOptions{
					ShowIndividuals: job.Groups[0], ShowPlaces: job.Groups[1], ShowFamilies: job.Groups[2],
					ShowSurnames: job.Groups[3], ShowSources: job.Groups[4], ShowStatistics: job.Groups[5],
					LivingVisibility: html.NewLivingVisibility(vis),
				}
				if e := html.NewPublisher(doc, opts).Publish(&c17Writer{site: site}, job.Jobs); e != nil {
					site.Err = "publish: " + e.Error()
				}
			}
			sites = append(sites, site)
		}
		json.NewEncoder(os.Stdout).Encode(sites)
		return 0
	}
}

// fail fast: after three child publishes have hung, the remaining ones are not started (each would
// wait for its time limit; the hang is already reported with its input)
var (
	c17HangMu sync.Mutex
	c17Hangs  int
)

func c17TooManyHangs() bool {
	c17HangMu.Lock()
	defer c17HangMu.Unlock()
	return c17Hangs >= 3
}

func c17NoteHang() {
	c17HangMu.Lock()
	c17Hangs++
	c17HangMu.Unlock()
}

// c17RunWorker runs a worker of this binary in a child process with the job on stdin.
func c17RunWorker(name string, job interface{}, result interface{}) string {
	if c17TooManyHangs() {
		return "skipped: three earlier child publishes timed out"
	}
	in, _ := json.Marshal(job)
	cmd := exec.Command(os.Getenv("GVH_BIN"), "worker", name)
	cmd.Stdin = bytes.NewReader(in)
	var out, errb bytes.Buffer
	cmd.Stdout, cmd.Stderr = &out, &errb
	done := make(chan error, 1)
	if err := cmd.Start(); err != nil {
		return "start: " + err.Error()
	}
	go func() { done <- cmd.Wait() }()
	select {
	case err := <-done:
		if err != nil {
			msg := errb.String()
			if i := strings.Index(msg, "\n\n"); i > 0 {
				msg = msg[:i]
			}
			return "crash: " + strings.TrimSpace(msg)
		}
	case <-time.After(120 * time.Second):
		cmd.Process.Kill()
		c17NoteHang()
		return "timeout"
	}
	if err := json.Unmarshal(out.Bytes(), result); err != nil {
		return "bad worker output: " + err.Error()
	}
	return ""
}

// c17Publish runs one job in a child process (a goroutine panic in publish kills the process, and
// html.surnames is a process-global cache: one process per site).
func c17Publish(job c17Job) (*c17Site, string) {
	if c17TooManyHangs() {
		return nil, "skipped: three earlier child publishes timed out"
	}
	in, _ := json.Marshal(job)
	cmd := exec.Command(os.Getenv("GVH_BIN"), "worker", "c17pub")
	cmd.Stdin = bytes.NewReader(in)
	var out, errb bytes.Buffer
	cmd.Stdout, cmd.Stderr = &out, &errb
	done := make(chan error, 1)
	if err := cmd.Start(); err != nil {
		return nil, "start: " + err.Error()
	}
	go func() { done <- cmd.Wait() }()
	select {
	case err := <-done:
		if err != nil {
			msg := errb.String()
			if i := strings.Index(msg, "\n\n"); i > 0 {
				msg = msg[:i]
			}
			return nil, "crash: " + strings.TrimSpace(msg)
		}
	case <-time.After(60 * time.Second):
		cmd.Process.Kill()
		c17NoteHang()
		return nil, "timeout"
	}
	var site c17Site
	if err := json.Unmarshal(out.Bytes(), &site); err != nil {
		return nil, "bad worker output: " + err.Error()
	}
	if site.Err != "" {
		return &site, site.Err
	}
	return &site, ""
}

// ---------------------------------------------------------------------------------------------
// generator: family graphs whose private strings are marker tokens

type c17Person struct {
	id      int
	kind    string // dead-deat | dead-age | living-young | living-nodates | living-burial | living-age-rule
	living  bool
	given   string
	surname string
	altG    string // "" = no second NAME
	altS    string
	nick    string
	sex     string
	birth   string // DATE value or ""
	birthPl string
	death   string // DATE of DEAT ("" with kind dead-deat = "1 DEAT Y")
	deathPl string
	burial  string
	resiPl  string
	role    map[string]bool
	asso    int             // index of an associated person (ASSO), -1 = none
	shapes  []c17ExtraShape // where the person has further places (fixed: the structure of the record)
	extras  []c17Extra      // their dates and places (private strings)
}

// a further DATE/PLAC pair of a person, at one of the positions where Document.Places() finds a
// place: below any event tag, below an attribute, below a custom tag, one or two levels deeper, or
// directly below the INDI record.
type c17ExtraShape struct {
	tag, value string
	nest       []string // tags between the level-1 node and the PLAC ("ADDR", "_X", …)
	hasDate    bool
}

type c17Extra struct{ date, place string }

var (
	// event tags (Tag.IsEvent) that do not change the living test (no BIRT/BAPM/BAPL/CHR/DEAT)
	c17EventTags = []string{"ADOP", "BARM", "BASM", "BLES", "BURI", "CENS", "CHRA", "CONF", "CREM", "EMIG", "EVEN", "FCOM", "GRAD",
		"IMMI", "NATU", "ORDN", "PROB", "RESI", "RETI", "WILL", "ENDL", "SLGC"}
	// individual attributes: the same DATE/PLAC detail, but not events
	c17AttrTags   = []string{"OCCU", "EDUC", "RELI", "TITL", "PROP", "NATI", "CAST", "DSCR", "IDNO", "SSN", "NCHI", "NMR", "FACT"}
	c17CustomTags = []string{"_MILT", "_DEG", "_CUSTOM", "ZZZ"}
	c17NestTags   = [][]string{nil, nil, nil, {"ADDR"}, {"_DETAIL"}, {"ADDR", "_SUB"}, {"NOTE"}}
)

func c17Shapes(r *Rand) []c17ExtraShape {
	var out []c17ExtraShape
	for k := []int{0, 0, 1, 1, 2, 3}[r.Intn(6)]; k > 0; k-- {
		sh := c17ExtraShape{hasDate: r.Chance(3, 4), nest: c17NestTags[r.Intn(len(c17NestTags))]}
		switch r.Intn(7) {
		case 0, 1:
			sh.tag = r.Pick(c17EventTags)
		case 2, 3, 4:
			sh.tag, sh.value = r.Pick(c17AttrTags), r.Pick([]string{"", "value", "7"})
		case 5:
			sh.tag, sh.value = r.Pick(c17CustomTags), r.Pick([]string{"", "x"})
		default:
			sh.tag = "" // the PLAC directly below the INDI record
			sh.nest, sh.hasDate = nil, false
		}
		out = append(out, sh)
	}
	return out
}

type c17Family struct {
	husb, wife int // -1 none
	chil       []int
	marr       string
	marrPl     string
	div        bool // 1 DIV (c17stats.go)
	marrBare   bool // 1 MARR without a date
}

type c17Doc struct {
	people []*c17Person
	fams   []*c17Family
	source bool
	more   []c17Source // further SOUR records (c17stats.go)
}

func c17tok(r *Rand, kind string, i int) string {
	// distinctive, alphabetic first letter varies so that several index letters occur
	first := "bcdfghjklmnprstvw"[r.Intn(17)]
	return fmt.Sprintf("%c%sq%02dz%c", first-32, kind, i, 'a'+byte(r.Intn(26)))
}

var c17Months = []string{"Jan", "Feb", "Mar", "Apr", "May", "Jun", "Jul", "Aug", "Sep", "Oct", "Nov", "Dec"}

func c17date(r *Rand, ylo, yhi int) string {
	y := r.Range(ylo, yhi)
	switch r.Intn(4) {
	case 0:
		return fmt.Sprintf("%d", y)
	case 1:
		return fmt.Sprintf("%s %d", c17Months[r.Intn(12)], y)
	}
	return fmt.Sprintf("%d %s %d", 1+r.Intn(28), c17Months[r.Intn(12)], y)
}

var c17Kinds = []string{"dead-deat", "dead-deat", "dead-age", "living-young", "living-young", "living-nodates", "living-burial", "living-age-rule",
	"living-unreadable-birth", "living-exact-threshold", "dead-just-past-threshold"}

// birth dates that exist but cannot be interpreted (worth 0 years): the person's age is unknown, so
// without a death they are living. c17EmptyDate stands for a `2 DATE` line without a value.
const c17EmptyDate = "<empty>"

var c17UnreadableDates = []string{"(in the year of the great flood)", "UNKNOWN", "?? ??? 19??", c17EmptyDate, "date unknown", "Abt. ????"}

// c17private fills the private strings of p (names, dates, places) keeping its living status.
func c17private(r *Rand, p *c17Person, now int, gen int) {
	tag := fmt.Sprintf("%c", 'x'+byte(gen)) // generation of the tokens: doc A / doc B
	i := p.id
	p.given = c17tok(r, "gv"+tag, i)
	p.surname = c17tok(r, "sn"+tag, i)
	p.altG, p.altS, p.nick = "", "", ""
	if r.Chance(1, 3) {
		p.altG, p.altS = c17tok(r, "ag"+tag, i), c17tok(r, "as"+tag, i)
	}
	if r.Chance(1, 4) {
		p.nick = c17tok(r, "nk"+tag, i)
	}
	p.birth, p.death, p.burial, p.birthPl, p.deathPl, p.resiPl = "", "", "", "", "", ""
	place := func() string {
		if r.Chance(2, 3) {
			return c17tok(r, "pl"+tag, i) + ", " + r.Pick([]string{"Australia", "Tasmania", "Oz"})
		}
		return ""
	}
	switch p.kind {
	case "dead-deat":
		if r.Chance(3, 4) {
			p.birth, p.birthPl = c17date(r, 1800, now-40), place()
		}
		if r.Chance(3, 4) {
			p.death, p.deathPl = c17date(r, now-39, now-1), place()
		}
	case "dead-age":
		p.birth, p.birthPl = c17date(r, 1700, now-102), place()
	case "living-young":
		p.birth, p.birthPl = c17date(r, now-90, now-1), place()
	case "living-nodates":
		if r.Bool() {
			p.resiPl = place()
		}
	case "living-burial":
		if r.Bool() {
			p.birth, p.birthPl = c17date(r, now-90, now-20), place()
		}
		p.burial = c17date(r, now-19, now-1)
	case "living-age-rule":
		p.birth, p.birthPl = fmt.Sprintf("%d %s %d", 1+r.Intn(28), c17Months[r.Intn(12)], now-r.Range(95, 99)), place()
	case "living-exact-threshold":
		// born exactly MaxLivingAge (100) years before the current year: age = 100 is still living
		p.birth, p.birthPl = fmt.Sprintf("1 Jan %d", now-100), place()
	case "dead-just-past-threshold":
		// one day older: 100 years and a day
		p.birth, p.birthPl = fmt.Sprintf("31 Dec %d", now-101), place()
	case "living-unreadable-birth":
		p.birth, p.birthPl = r.Pick(c17UnreadableDates), place()
	}
	if r.Chance(1, 4) {
		p.resiPl = place()
	}
	p.extras = nil
	for range p.shapes {
		p.extras = append(p.extras, c17Extra{date: c17date(r, 1900, now-1), place: c17tok(r, "pl"+tag, i) + ", " + r.Pick([]string{"Australia", "Oz"})})
	}
}

func c17Gen(r *Rand, now int) *c17Doc {
	d := &c17Doc{source: r.Chance(1, 3)}
	n := r.Range(2, 9)
	for i := 0; i < n; i++ {
		p := &c17Person{id: i, kind: r.Pick(c17Kinds), sex: r.Pick([]string{"M", "F", "", "U"}), role: map[string]bool{}}
		p.living = strings.HasPrefix(p.kind, "living")
		p.shapes = c17Shapes(r)
		p.asso = -1
		if r.Chance(1, 4) {
			p.asso = r.Intn(n)
		}
		c17private(r, p, now, 0)
		d.people = append(d.people, p)
	}
	// at least one living and one dead person
	if !d.people[0].living {
		d.people[0].kind = "living-young"
		d.people[0].living = true
		c17private(r, d.people[0], now, 0)
	}
	if d.people[1].living {
		d.people[1].kind = "dead-deat"
		d.people[1].living = false
		c17private(r, d.people[1], now, 0)
	}
	// shared surnames / places between a living and a dead person
	for _, p := range d.people {
		if r.Chance(1, 3) {
			q := d.people[r.Intn(n)]
			p.surname = q.surname
			p.role["shares-surname"], q.role["shares-surname"] = true, true
		}
		if p.birthPl != "" && r.Chance(1, 4) {
			q := d.people[r.Intn(n)]
			if q.birthPl != "" {
				p.birthPl = q.birthPl
				p.role["shares-place"], q.role["shares-place"] = true, true
			}
		}
	}
	// a living person with the full name of a dead person recorded later in the file (the page key
	// of the dead person is then the second candidate of getUniqueKey)
	if r.Chance(1, 4) {
		for i, p := range d.people {
			if !p.living {
				continue
			}
			for _, q := range d.people[i+1:] {
				if !q.living {
					p.given, p.surname = q.given, q.surname
					p.role["namesake-of-dead"], q.role["namesake-of-living"] = true, true
					break
				}
			}
			break
		}
	}
	nf := r.Range(1, 4)
	for f := 0; f < nf; f++ {
		fam := &c17Family{husb: -1, wife: -1}
		if r.Chance(5, 6) {
			fam.husb = r.Intn(n)
			d.people[fam.husb].role["spouse"] = true
		} else if r.Bool() {
			fam.husb = -2 // a partner that is referenced but not recorded
		}
		if r.Chance(5, 6) {
			fam.wife = r.Intn(n)
			d.people[fam.wife].role["spouse"] = true
		}
		for k := r.Intn(5); k > 0; k-- {
			c := r.Intn(n)
			fam.chil = append(fam.chil, c)
			d.people[c].role["child"] = true
			if fam.husb >= 0 {
				d.people[fam.husb].role["parent"] = true
			}
			if fam.wife >= 0 {
				d.people[fam.wife].role["parent"] = true
			}
		}
		if r.Bool() {
			fam.marr = c17date(r, 1900, now-1)
			if r.Bool() {
				fam.marrPl = "Marrtown, Oz"
			}
		}
		d.fams = append(d.fams, fam)
	}
	for _, p := range d.people {
		if !p.role["spouse"] && !p.role["child"] {
			p.role["unconnected"] = true
		}
	}
	// further sources, divorces (drawn from a side generator: the draws above and below are unchanged)
	d.more = c17GenSources(r)
	c17GenFamilyEvents(r, d.fams)
	return d
}

// c17Variant returns a copy in which only the private strings of living people differ: every name,
// nickname, alternative name, event date and place that is present gets another value (the events
// and fields that exist, the living status and all links stay as they are).
func c17Variant(r *Rand, d *c17Doc, now int) *c17Doc {
	v := &c17Doc{fams: d.fams, source: d.source, more: d.more}
	for _, p := range d.people {
		q := *p
		if q.living {
			var f c17Person = q
			for try := 0; try < 50; try++ { // re-draw until the same fields are present
				c17private(r, &f, now, 1)
				if (f.birth != "") == (p.birth != "") && (f.burial != "") == (p.burial != "") {
					break
				}
			}
			keep := func(old, fresh, fallback string) string {
				if old == "" {
					return ""
				}
				if fresh == "" {
					return fallback
				}
				return fresh
			}
			q.given, q.surname = f.given, f.surname
			q.altG = keep(p.altG, f.altG, c17tok(r, "agy", p.id))
			q.altS = keep(p.altS, f.altS, c17tok(r, "asy", p.id))
			q.nick = keep(p.nick, f.nick, c17tok(r, "nky", p.id))
			q.birth = keep(p.birth, f.birth, p.birth)
			q.burial = keep(p.burial, f.burial, p.burial)
			pl := func() string { return c17tok(r, "ply", p.id) + ", Oz" }
			q.birthPl = keep(p.birthPl, f.birthPl, pl())
			q.resiPl = keep(p.resiPl, f.resiPl, pl())
			q.extras = f.extras // same positions (shapes), other dates and places
		}
		v.people = append(v.people, &q)
	}
	return v
}

func (p *c17Person) ptr() string { return fmt.Sprintf("I%d", p.id+1) }

func (d *c17Doc) Text() string {
	var b strings.Builder
	w := func(format string, a ...interface{}) { fmt.Fprintf(&b, format+"\n", a...) }
	w("0 HEAD")
	for _, p := range d.people {
		w("0 @%s@ INDI", p.ptr())
		w("1 NAME %s /%s/", p.given, p.surname)
		if p.nick != "" {
			w("2 NICK %s", p.nick)
		}
		if p.altG != "" {
			w("1 NAME %s /%s/", p.altG, p.altS)
			w("2 TYPE aka")
		}
		if p.sex != "" {
			w("1 SEX %s", p.sex)
		}
		if p.birth != "" {
			w("1 BIRT")
			if p.birth == c17EmptyDate {
				w("2 DATE")
			} else {
				w("2 DATE %s", p.birth)
			}
			if p.birthPl != "" {
				w("2 PLAC %s", p.birthPl)
			}
			if d.source {
				w("2 SOUR @S1@")
			}
		}
		if p.kind == "dead-deat" {
			if p.death == "" {
				w("1 DEAT Y")
			} else {
				w("1 DEAT")
				w("2 DATE %s", p.death)
				if p.deathPl != "" {
					w("2 PLAC %s", p.deathPl)
				}
			}
		}
		if p.burial != "" {
			w("1 BURI")
			w("2 DATE %s", p.burial)
		}
		if p.resiPl != "" {
			w("1 RESI")
			w("2 PLAC %s", p.resiPl)
		}
		for k, sh := range p.shapes {
			if k >= len(p.extras) {
				break
			}
			level := 1
			if sh.tag != "" {
				if sh.value != "" {
					w("1 %s %s", sh.tag, sh.value)
				} else {
					w("1 %s", sh.tag)
				}
				level = 2
				if sh.hasDate {
					w("2 DATE %s", p.extras[k].date)
				}
				for _, nt := range sh.nest {
					w("%d %s", level, nt)
					level++
				}
			}
			w("%d PLAC %s", level, p.extras[k].place)
		}
		if p.asso >= 0 && p.asso < len(d.people) {
			w("1 ASSO @%s@", d.people[p.asso].ptr())
			w("2 RELA Godparent")
		}
		for fi, f := range d.fams {
			for _, c := range f.chil {
				if c == p.id {
					w("1 FAMC @F%d@", fi+1)
				}
			}
			if f.husb == p.id || f.wife == p.id {
				w("1 FAMS @F%d@", fi+1)
			}
		}
	}
	if d.source {
		w("0 @S1@ SOUR")
		w("1 TITL Parish register")
	}
	for _, src := range d.more {
		w("0 @%s@ SOUR", src.ptr)
		for _, l := range src.lines {
			w("%s", l)
		}
	}
	for fi, f := range d.fams {
		w("0 @F%d@ FAM", fi+1)
		if f.husb >= 0 {
			w("1 HUSB @%s@", d.people[f.husb].ptr())
		} else if f.husb == -2 {
			w("1 HUSB @I99@")
		}
		if f.wife >= 0 {
			w("1 WIFE @%s@", d.people[f.wife].ptr())
		}
		for _, c := range f.chil {
			w("1 CHIL @%s@", d.people[c].ptr())
		}
		if f.marr != "" {
			w("1 MARR")
			w("2 DATE %s", f.marr)
			if f.marrPl != "" {
				w("2 PLAC %s", f.marrPl)
			}
		} else if f.marrBare {
			w("1 MARR")
		}
		if f.div {
			w("1 DIV Y")
		}
	}
	w("0 TRLR")
	return b.String()
}

// ---------------------------------------------------------------------------------------------
// oracle helpers

var c17Href = regexp.MustCompile(`(?:href="|location\.href=')([^"'#][^"']*)`)

func c17PageKind(name string) string {
	switch {
	case name == "surnames.html":
		return "surname-list"
	case name == "places.html":
		return "place-list"
	case name == "families.html":
		return "family-list"
	case name == "sources.html":
		return "source-list"
	case name == "statistics.html":
		return "statistics"
	case strings.HasPrefix(name, "individuals-"):
		return "individual-list"
	case strings.Contains(name, "plx") || strings.Contains(name, "ply"):
		return "place-page"
	case strings.Contains(name, "gvx") || strings.Contains(name, "gvy"):
		return "individual-page"
	case regexp.MustCompile(`^[Ss]\d+\.html$`).MatchString(name):
		return "source-page"
	}
	return "other-page"
}

type c17Marker struct {
	token, kind string
	person      int
}

// c17Markers lists the name tokens that belong to living people only.
func c17Markers(d *c17Doc) []c17Marker {
	deadHas := map[string]bool{}
	for _, p := range d.people {
		if !p.living {
			for _, t := range []string{p.given, p.surname, p.altG, p.altS, p.nick} {
				deadHas[strings.ToLower(t)] = true
			}
		}
	}
	var ms []c17Marker
	for _, p := range d.people {
		if !p.living {
			continue
		}
		add := func(tok, kind string) {
			if tok != "" && !deadHas[strings.ToLower(tok)] {
				ms = append(ms, c17Marker{strings.ToLower(tok), kind, p.id})
			}
		}
		add(p.given, "given-name")
		add(p.surname, "surname")
		add(p.altG, "alternative-name")
		add(p.altS, "alternative-name")
		add(p.nick, "nickname")
	}
	return ms
}

func c17GroupsString(g [6]bool) string {
	names := []string{"individuals", "places", "families", "surnames", "sources", "statistics"}
	var on []string
	for i, b := range g {
		if b {
			on = append(on, names[i])
		}
	}
	if len(on) == 0 {
		return "none"
	}
	return strings.Join(on, "+")
}

func init() {
	runners["C17"] = func(c *Ctx) {
		c.Rule = "family graphs (2-9 people, 1-4 families) whose names/nicknames/alternative names/places are unique marker tokens, living people in every role (child, spouse, parent, unconnected, sharing a surname or place with a dead person, living only by the age rule, burial without death, no dates, unreadable birth date) x {hide, placeholder} x page-group subsets x jobs 1-4; distinct = (living kind, role, visibility, page groups)"
		now := time.Now().Year()
		c17Components(c, now)
		c17SpecialSites(c, now)
		c17Spellingsstream(c, now)
		c17SharedPointerSites(c, now)

		ndocs := c.N(150, 1600)
		type siteRun struct {
			doc            *c17Doc
			variant        *c17Doc
			groups         [6]bool
			jobs           int
			show, ph       *c17Site
			hideA, hideB   *c17Site
			eShow, ePh     string
			eHideA, eHideB string
			hist           [][]*c17Site // publish histories on one document object in one process
			eHist          []string
			edits          []c17Edit              // edits of the document between two publishes
			ageHist        map[string][]*c17Site // "<vis> -> <edit> -> <vis>" and "fresh: <edit> -> <vis>"
			eAgeHist       map[string]string
		}
		histories := [][]string{{"show", "hide"}, {"show", "placeholder"}, {"placeholder", "hide"}, {"hide", "show", "hide"},
			{"placeholder", "show", "placeholder"}, {"hide", "jobs=4", "hide"}, {"show", "jobs=1", "placeholder", "jobs=3", "hide"}}
		// MaxLivingAge = 0: everybody without a death is living
		ageHistories := [][2]string{{"hide", "hide"}, {"placeholder", "placeholder"}, {"show", "hide"}, {"show", "placeholder"}}
		boundary := c17BoundaryDocs(c.R.Fork("boundary"), now)
		runs := make([]*siteRun, ndocs+len(boundary))
		for i := range runs {
			r := c.R.Fork(fmt.Sprintf("doc%d", i))
			var d *c17Doc
			if i >= ndocs {
				d = boundary[i-ndocs]
			} else {
				d = c17Gen(r, now)
			}
			sr := &siteRun{doc: d, variant: c17Variant(r, d, now), jobs: 1 + r.Intn(4)}
			gm := 63 // all groups on for two thirds of the documents, random subsets otherwise
			if i%3 == 2 && i < ndocs {
				gm = r.Intn(64)
			}
			for k := 0; k < 6; k++ {
				sr.groups[k] = gm&(1<<k) != 0
			}
			runs[i] = sr
		}
		// publish: 4 child processes per document, 16 at a time
		sem := make(chan struct{}, func() int {
			n := runtime.NumCPU()
			if n > 16 {
				n = 16
			}
			return n
		}())
		var wg sync.WaitGroup
		pub := func(d *c17Doc, vis string, sr *siteRun, site **c17Site, e *string) {
			wg.Add(1)
			go func() {
				defer wg.Done()
				sem <- struct{}{}
				defer func() { <-sem }()
				*site, *e = c17Publish(c17Job{Gedcom: d.Text(), Vis: vis, Groups: sr.groups, Jobs: sr.jobs})
			}()
		}
		for _, sr := range runs {
			pub(sr.doc, "show", sr, &sr.show, &sr.eShow)
			pub(sr.doc, "placeholder", sr, &sr.ph, &sr.ePh)
			pub(sr.doc, "hide", sr, &sr.hideA, &sr.eHideA)
			pub(sr.variant, "hide", sr, &sr.hideB, &sr.eHideB)
		}
		for i, sr := range runs {
			if (c.Quick() && i%3 != 0) || i >= ndocs {
				continue
			}
			sr.hist = make([][]*c17Site, len(histories))
			sr.eHist = make([]string, len(histories))
			for h := range histories {
				h, sr := h, sr
				wg.Add(1)
				go func() {
					defer wg.Done()
					sem <- struct{}{}
					defer func() { <-sem }()
					sr.eHist[h] = c17RunWorker("c17hist", c17HistJob{Gedcom: sr.doc.Text(), History: histories[h], Groups: sr.groups, Jobs: sr.jobs}, &sr.hist[h])
				}()
			}
		}
		var ageMu sync.Mutex
		for i, sr := range runs {
			if (c.Quick() && i%6 != 0) || i >= ndocs {
				continue
			}
			sr := sr
			// the edits: MaxLivingAge = 0 (everybody without a death is living), and the birth year of
			// somebody who counts as dead by age corrected to 30 years ago
			sr.edits = []c17Edit{{step: "maxage=0", nowLiving: func(p *c17Person) bool { return p.kind != "dead-deat" }}}
			for _, p := range sr.doc.people {
				if p.kind == "dead-age" {
					id := p.id
					sr.edits = append(sr.edits, c17Edit{step: fmt.Sprintf("redate=%s=5 May %d", p.ptr(), now-30),
						nowLiving: func(q *c17Person) bool { return q.living || q.id == id }})
					break
				}
			}
			// other MaxLivingAge values: compared with a fresh document only (who is living then is what
			// the fresh document says)
			for _, age := range []string{"1", "100", "101"} {
				sr.edits = append(sr.edits, c17Edit{step: "maxage=" + age})
			}
			// a death is recorded for a living person; a living person is deleted; a dead one is deleted;
			// the husband of the first family becomes a living person
			var firstLiving, firstDead *c17Person
			for _, p := range sr.doc.people {
				if p.living && firstLiving == nil {
					firstLiving = p
				}
				if !p.living && firstDead == nil {
					firstDead = p
				}
			}
			if firstLiving != nil {
				id := firstLiving.id
				sr.edits = append(sr.edits,
					c17Edit{step: "die=" + firstLiving.ptr(), nowLiving: func(q *c17Person) bool { return q.living && q.id != id }},
					c17Edit{step: "delete=" + firstLiving.ptr(), nowLiving: func(q *c17Person) bool { return q.living }},
					c17Edit{step: "repoint=F1=" + firstLiving.ptr(), nowLiving: func(q *c17Person) bool { return q.living }})
			}
			if firstDead != nil {
				sr.edits = append(sr.edits, c17Edit{step: "delete=" + firstDead.ptr(), nowLiving: func(q *c17Person) bool { return q.living }})
			}
			// quick tier: MaxLivingAge = 0 always, two of the other edits in rotation
			if c.Quick() && len(sr.edits) > 3 {
				rest := sr.edits[1:]
				k := (i / 6) % len(rest)
				sr.edits = []c17Edit{sr.edits[0], rest[k], rest[(k+3)%len(rest)]}
			}
			sr.ageHist = map[string][]*c17Site{}
			sr.eAgeHist = map[string]string{}
			run := func(key string, history []string) {
				wg.Add(1)
				go func() {
					defer wg.Done()
					sem <- struct{}{}
					defer func() { <-sem }()
					var sites []*c17Site
					e := c17RunWorker("c17hist", c17HistJob{Gedcom: sr.doc.Text(), History: history, Groups: sr.groups, Jobs: sr.jobs}, &sites)
					ageMu.Lock()
					sr.ageHist[key], sr.eAgeHist[key] = sites, e
					ageMu.Unlock()
				}()
			}
			for ei, ed := range sr.edits {
				for pi, pair := range ageHistories {
					if ei > 0 && pi != 0 && pi != 3 {
						continue // other edits: hide -> edit -> hide and show -> edit -> placeholder
					}
					run(pair[0]+" -> "+ed.step+" -> "+pair[1], []string{pair[0], ed.step, pair[1]})
				}
				for _, vis := range []string{"hide", "placeholder"} {
					run("fresh: "+ed.step+" -> "+vis, []string{ed.step, vis})
				}
			}
		}
		wg.Wait()

		for _, sr := range runs {
			d := sr.doc
			text := d.Text()
			gs := c17GroupsString(sr.groups)
			input := func(extra map[string]interface{}) map[string]interface{} {
				m := map[string]interface{}{"gedcom": text, "page_groups": gs, "jobs": sr.jobs}
				for k, v := range extra {
					m[k] = v
				}
				return m
			}
			for _, e := range []struct{ vis, err string }{{"show", sr.eShow}, {"placeholder", sr.ePh}, {"hide", sr.eHideA}, {"hide (variant)", sr.eHideB}} {
				c.Eval()
				if e.err != "" {
					c.Oracle("", "publish fails: "+e.vis, input(map[string]interface{}{"living": e.vis}), e.err, "a site")
				}
			}
			if sr.eShow != "" || sr.ePh != "" || sr.eHideA != "" || sr.eHideB != "" {
				continue
			}
			for _, p := range d.people {
				for role := range p.role {
					c.Count("role=" + map[bool]string{true: "living", false: "dead"}[p.living] + "/" + role)
					c.Nontrivial(p.kind + "/" + role + "/" + gs)
				}
				c.Count("kind=" + p.kind)
				for _, sh := range p.shapes {
					pos := "directly below INDI"
					switch {
					case sh.tag == "":
					case strings.HasPrefix(sh.tag, "_") || sh.tag == "ZZZ":
						pos = "custom tag"
					case func() bool {
						for _, t := range c17AttrTags {
							if t == sh.tag {
								return true
							}
						}
						return false
					}():
						pos = "attribute"
					default:
						pos = "event"
					}
					if len(sh.nest) > 0 {
						pos += fmt.Sprintf(", %d level(s) deeper", len(sh.nest))
					}
					c.Count("place of a " + map[bool]string{true: "living", false: "dead"}[p.living] + " person: " + pos)
				}
			}
			c.Count("groups=" + gs)
			c.Count(fmt.Sprintf("jobs=%d", sr.jobs))
			if len(c.Samples) < 2 {
				c.Sample(map[string]interface{}{"gedcom": text, "page_groups": gs})
			}

			// (T) page assembly: the model predicts the skeleton of every visibility-dependent page
			showPages := map[string]int{} // show-mode page name -> person (document order)
			modePages := map[string]map[string]int{} // per visibility: page name -> person that owns it
			{
				// (the boundary documents, > 60 people, go through the oracles only: the page model in the
				// Lean driver is quadratic in the number of people per page)
				if gdoc, err := gedcom.NewDocumentFromString(text); err == nil && len(d.people) <= 60 {
					if abs, rank, ranks, err := c17Abstract(gdoc, sr.show, sr.groups[1]); err != nil {
						c.Oracle("", "the page abstraction could not be read", input(nil), err.Error(), "an abstraction")
					} else {
						showPages = rank
						modePages = ranks
						ob := ""
						for _, g := range sr.groups {
							ob += bit(g)
						}
						for _, m := range []struct {
							vis  string
							site *c17Site
						}{{"show", sr.show}, {"placeholder", sr.ph}, {"hide", sr.hideA}} {
							c.Tie(fmt.Sprintf("c17site %s %s %s", m.vis, ob, abs), c17SiteSkeleton(m.site, ranks[m.vis], c17SourcePagesOf(gdoc)))
							c.Eval()
							c.Count("site-skeleton/" + m.vis)
						}
						// (T)+(S) statistics, source list, source pages, header counts
						nl := 0
						for _, p := range d.people {
							if p.living {
								nl++
							}
						}
						c17StatsCheck(c, gdoc, abs, ob, sr.groups, map[string]*c17Site{"show": sr.show, "placeholder": sr.ph, "hide": sr.hideA},
							len(d.people), nl, input)
					}
				}
			}

			// pages of living people in the show-mode site (targets that must not be linked / exist)
			livingPages := map[string]int{}
			for name, i := range showPages {
				if i < len(d.people) && d.people[i].living {
					if _, ok := sr.show.Files[name]; ok {
						livingPages[name] = i
					}
				}
			}

			for _, mode := range []struct {
				vis  string
				site *c17Site
				doc  *c17Doc
			}{{"placeholder", sr.ph, d}, {"hide", sr.hideA, d}, {"hide", sr.hideB, sr.variant}} {
				markers := c17Markers(mode.doc)
				names := make([]string, 0, len(mode.site.Files))
				for name := range mode.site.Files {
					names = append(names, name)
				}
				sort.Strings(names)
				for _, name := range names {
					content := strings.ToLower(mode.site.Files[name])
					lname := strings.ToLower(name)
					kind := c17PageKind(lname)
					for _, m := range markers {
						p := mode.doc.people[m.person]
						if strings.Contains(lname, m.token) {
							key := fmt.Sprintf("C17-%s-%s-in-file-name-%s", mode.vis, m.kind, kind)
							c.Oracle(key, fmt.Sprintf("%s mode: a file is named after a living person (%s)", mode.vis, kind),
								input(map[string]interface{}{"living": mode.vis, "file": name, "marker": m.token, "person": p.ptr(), "living_kind": p.kind}),
								"file "+name+" exists", "no page for a living person")
						}
						if strings.Contains(content, m.token) {
							key := fmt.Sprintf("C17-%s-%s-on-%s", mode.vis, m.kind, kind)
							c.Oracle(key, fmt.Sprintf("%s mode: %s of a living person is written to a %s", mode.vis, m.kind, kind),
								input(map[string]interface{}{"living": mode.vis, "file": name, "marker": m.token, "person": p.ptr(), "living_kind": p.kind}),
								c17Snippet(content, m.token), "the marker occurs nowhere")
						}
					}
					// links
					for _, m := range c17Href.FindAllStringSubmatch(mode.site.Files[name], -1) {
						target := m[1]
						if _, reused := modePages[mode.vis][target]; reused {
							continue // in this mode the name belongs to somebody who gets a page (a namesake)
						}
						if pid, ok := livingPages[target]; ok && mode.doc == d {
							p := d.people[pid]
							c.Oracle(fmt.Sprintf("C17-%s-link-to-living-on-%s", mode.vis, kind),
								mode.vis+" mode: a link points to the page of a living person",
								input(map[string]interface{}{"living": mode.vis, "file": name, "target": target, "person": p.ptr()}),
								"href "+target, "href \"#\" or no link")
						}
					}
				}
				for target, pid := range livingPages {
					if _, reused := modePages[mode.vis][target]; reused {
						continue
					}
					if _, ok := mode.site.Files[target]; ok && mode.doc == d {
						c.Oracle(fmt.Sprintf("C17-%s-page-for-living", mode.vis), mode.vis+" mode: a page is generated for a living person",
							input(map[string]interface{}{"living": mode.vis, "file": target, "person": d.people[pid].ptr()}), "file exists", "no page")
					}
				}
			}

			// hide: byte for byte independent of the living people's data
			c17CompareSites(c, sr.hideA, sr.hideB, func(extra map[string]interface{}) map[string]interface{} {
				extra["gedcom_variant"] = sr.variant.Text()
				extra["living"] = "hide"
				return input(extra)
			})

			// publish histories: the same document object published several times in one process; every
			// publish must give the site a freshly decoded copy gives under the same visibility
			fresh := map[string]*c17Site{"show": sr.show, "placeholder": sr.ph, "hide": sr.hideA}
			for h, sites := range sr.hist {
				hname := strings.Join(histories[h], " -> ")
				c.Eval()
				if sr.eHist[h] != "" || len(sites) != len(histories[h]) {
					c.Oracle("", "publish history fails: "+hname, input(map[string]interface{}{"history": hname}), sr.eHist[h], "a site per publish")
					continue
				}
				c.Count("history=" + hname)
				c.Nontrivial("history/" + hname + "/" + gs)
				for k, site := range sites {
					vis := histories[h][k]
					if strings.Contains(vis, "=") {
						continue // a pseudo-step (jobs=N), not a publish
					}
					step := fmt.Sprintf("publish %d (%s) of the history %s on one document object", k+1, vis, hname)
					in := func(extra map[string]interface{}) map[string]interface{} {
						extra["history"] = hname
						extra["living"] = vis
						return input(extra)
					}
					if site.Err != "" {
						c.Oracle("", step+" fails", in(map[string]interface{}{}), site.Err, "a site")
						continue
					}
					if vis != "show" {
						for _, m := range c17Markers(d) {
							for name, content := range site.Files {
								if strings.Contains(strings.ToLower(name), m.token) || strings.Contains(strings.ToLower(content), m.token) {
									c.Oracle("", fmt.Sprintf("%s mode after an earlier publish of the same document: %s of a living person is written (%s)", vis, m.kind, c17PageKind(strings.ToLower(name))),
										in(map[string]interface{}{"file": name, "marker": m.token, "person": d.people[m.person].ptr()}),
										c17Snippet(strings.ToLower(content), m.token), "the marker occurs nowhere")
								}
							}
						}
					}
					for name, want := range fresh[vis].Files {
						got, ok := site.Files[name]
						if !ok {
							c.Oracle("", step+": a file of the fresh publish is missing", in(map[string]interface{}{"file": name}), "missing", "same files as a fresh publish")
						} else if got != want {
							i := 0
							for i < len(got) && i < len(want) && got[i] == want[i] {
								i++
							}
							lo, hiG, hiW := i-80, i+60, i+60
							if lo < 0 {
								lo = 0
							}
							if hiG > len(got) {
								hiG = len(got)
							}
							if hiW > len(want) {
								hiW = len(want)
							}
							c.Oracle("", step+": a page differs from the fresh publish ("+c17PageKind(strings.ToLower(name))+")", in(map[string]interface{}{"file": name}),
								"…"+got[lo:hiG]+"… vs fresh …"+want[lo:hiW]+"…", "byte for byte equal")
						}
					}
					for name := range site.Files {
						if _, ok := fresh[vis].Files[name]; !ok {
							c.Oracle("", step+": a file that a fresh publish does not write", in(map[string]interface{}{"file": name}), "extra file", "same files as a fresh publish")
						}
					}
				}
			}

			// an edit between two publishes of the same document object (MaxLivingAge = 0: everybody without
			// a death is living; a corrected birth year): the next publish must hide the people who are
			// living now, exactly like a fresh document with the same edit
			for ei, ed := range sr.edits {
				var markers0 []c17Marker
				if ed.nowLiving != nil {
					d0 := &c17Doc{fams: d.fams, source: d.source}
					for _, p := range d.people {
						q := *p
						q.living = ed.nowLiving(p)
						d0.people = append(d0.people, &q)
					}
					markers0 = c17Markers(d0)
					if strings.HasPrefix(ed.step, "delete=") || strings.HasPrefix(ed.step, "die=") {
						// the names of a deleted dead person, or of somebody who has just died, may still be
						// shared tokens: only tokens that belong to people living after the edit count
					}
				}
				for pi, pair := range ageHistories {
					if ei > 0 && pi != 0 && pi != 3 {
						continue
					}
					hname := pair[0] + " -> " + ed.step + " -> " + pair[1]
					vis := pair[1]
					c.Eval()
					sites, freshSites := sr.ageHist[hname], sr.ageHist["fresh: "+ed.step+" -> "+vis]
					if sr.eAgeHist[hname] != "" || len(sites) != 3 || len(freshSites) != 2 {
						c.Oracle("", "publish history fails", input(map[string]interface{}{"history": hname}), sr.eAgeHist[hname], "a site per publish")
						continue
					}
					kind := strings.SplitN(ed.step, "=", 2)[0]
					c.Count("history=" + pair[0] + " -> " + kind + " -> " + pair[1])
					c.Nontrivial("history/" + pair[0] + "/" + kind + "/" + pair[1] + "/" + gs)
					last, want := sites[2], freshSites[1]
					in := func(extra map[string]interface{}) map[string]interface{} {
						extra["history"] = hname + "   (one *gedcom.Document in one process; maxage=N: doc.MaxLivingAge = N; redate=P=D: the DATE below the first BIRT of @P@ replaced through BirthNode.SetNodes; die=P: AddNode(NewDeathNode(\"Y\")) on @P@; delete=P: doc.DeleteNode(@P@); repoint=F=P: family @F@ SetHusbandPointer(P))"
						extra["living"] = vis
						return input(extra)
					}
					what := map[string]string{"maxage": "Document.MaxLivingAge was changed", "redate": "a birth date was corrected", "die": "a death was recorded",
						"delete": "an individual was deleted", "repoint": "the husband of a family was changed"}[kind]
					for _, m := range markers0 {
						for name, content := range last.Files {
							if strings.Contains(strings.ToLower(name), m.token) || strings.Contains(strings.ToLower(content), m.token) {
								c.Oracle("", fmt.Sprintf("%s mode after %s between two publishes: %s of a now living person is written (%s)", vis, what, m.kind, c17PageKind(strings.ToLower(name))),
									in(map[string]interface{}{"file": name, "marker": m.token, "person": d.people[m.person].ptr(), "living_kind": d.people[m.person].kind}),
									c17Snippet(strings.ToLower(content), m.token), "the marker occurs nowhere")
							}
						}
					}
					if diff := c17DiffSites(last.Files, want.Files); diff != "" {
						c.Oracle("", "the publish after "+what+" differs from the publish of a fresh document with the same edit", in(map[string]interface{}{}), diff, "byte for byte equal")
					}
				}
			}

			// people who are not living remain fully published in every mode
			for _, mode := range []struct {
				vis  string
				site *c17Site
			}{{"show", sr.show}, {"placeholder", sr.ph}, {"hide", sr.hideA}} {
				if !sr.groups[0] {
					break
				}
				for _, p := range d.people {
					if p.living {
						continue
					}
					tok := strings.ToLower(p.given)
					page, listed := "", false
					for name, content := range mode.site.Files {
						if strings.Contains(strings.ToLower(name), tok) {
							page = name
						}
						if strings.HasPrefix(name, "individuals-") && strings.Contains(strings.ToLower(content), tok) {
							listed = true
						}
					}
					in := input(map[string]interface{}{"living": mode.vis, "person": p.ptr(), "name": p.given + " " + p.surname})
					if page == "" {
						c.Oracle("", mode.vis+" mode: a person who is not living has no page", in, "no file named after "+p.given, "a page")
					} else if !strings.Contains(mode.site.Files[page], p.given+" "+p.surname) {
						c.Oracle("", mode.vis+" mode: the page of a person who is not living does not show the name", in, page, "name on the page")
					}
					if !listed {
						c.Oracle("", mode.vis+" mode: a person who is not living is missing from the individual list pages", in, "not listed", "listed")
					}
					// every place of the person — below events, attributes, custom tags, nested deeper, directly
					// below the record — has its page, and the row there names the person
					if sr.groups[1] {
						for k, ex := range p.extras {
							ptok := strings.ToLower(strings.SplitN(ex.place, ",", 2)[0])
							found, named := false, false
							for name, content := range mode.site.Files {
								if strings.HasPrefix(strings.ToLower(name), ptok) {
									found = true
									named = strings.Contains(strings.ToLower(content), tok)
								}
							}
							pos := p.shapes[k].tag
							if pos == "" {
								pos = "INDI"
							}
							pos += "/" + strings.Join(append(append([]string{}, p.shapes[k].nest...), "PLAC"), "/")
							pin := input(map[string]interface{}{"living": mode.vis, "person": p.ptr(), "name": p.given + " " + p.surname, "place": ex.place, "place_position": pos})
							if !found {
								c.Oracle("", mode.vis+" mode: a place of a person who is not living has no page", pin, ex.place+" ("+pos+")", "a place page")
							} else if !named {
								c.Oracle("", mode.vis+" mode: the place page of a person who is not living does not name the person", pin, ex.place+" ("+pos+")", "a row with the person")
							}
						}
					}
					if sr.groups[3] && !strings.Contains(mode.site.Files["surnames.html"], p.surname) {
						c.Oracle("", mode.vis+" mode: the surname of a person who is not living is missing from the surname list", in, "not listed", "listed")
					}
				}
			}
		}
		c17MultiPublishers(c, now)
		if c17TooManyHangs() {
			c.Notes = append(c.Notes, "fail fast: child publishes were skipped after three of them ended in a timeout (see the failing inputs)")
		}
		c.Notes = append(c.Notes, fmt.Sprintf("%d documents, %d sites published in child processes", ndocs, 4*ndocs))
		c.Untied = append(c.Untied, "which component each page uses where (composition of pages) is covered by the marker search and the hide-mode comparison only")
	}
}

func c17Snippet(content, token string) string {
	i := strings.Index(content, token)
	lo, hi := i-60, i+len(token)+40
	if lo < 0 {
		lo = 0
	}
	if hi > len(content) {
		hi = len(content)
	}
	return "…" + content[lo:hi] + "…"
}

// c17CompareSites reports every difference between the two hide-mode sites.
func c17CompareSites(c *Ctx, a, b *c17Site, input func(map[string]interface{}) map[string]interface{}) {
	seen := map[string]bool{}
	for name, ca := range a.Files {
		seen[name] = true
		cb, ok := b.Files[name]
		kind := c17PageKind(strings.ToLower(name))
		if !ok {
			c.Oracle("C17-hide-file-set-depends-on-living-data-"+kind, "hide mode: the set of files depends on the living people's data ("+kind+")",
				input(map[string]interface{}{"file": name}), "only published for the first document", "same files")
			continue
		}
		if ca != cb {
			i := 0
			for i < len(ca) && i < len(cb) && ca[i] == cb[i] {
				i++
			}
			lo := i - 80
			if lo < 0 {
				lo = 0
			}
			cut := func(s string) string {
				hi := i + 60
				if hi > len(s) {
					hi = len(s)
				}
				return s[lo:hi]
			}
			c.Oracle("C17-hide-content-depends-on-living-data-"+kind, "hide mode: a "+kind+" depends on the living people's data",
				input(map[string]interface{}{"file": name}), "…"+cut(ca)+"… vs …"+cut(cb)+"…", "byte for byte equal")
		}
	}
	for name := range b.Files {
		if !seen[name] {
			kind := c17PageKind(strings.ToLower(name))
			c.Oracle("C17-hide-file-set-depends-on-living-data-"+kind, "hide mode: the set of files depends on the living people's data ("+kind+")",
				input(map[string]interface{}{"file": name}), "only published for the variant document", "same files")
		}
	}
}

// c17Components is filled in by c17comp.go (component correspondence).
var c17Components = func(c *Ctx, now int) {}
