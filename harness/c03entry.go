package main

import (
	"fmt"
	"io/ioutil"
	"os"
	"path/filepath"
	"strings"

	"github.com/elliotchance/gedcom/v39"
)

// The two documented entry points (document.go): NewDocumentFromString and
// NewDocumentFromGEDCOMFile decode with default options; each must give a document or an error
// naming the same line as a decoder made by hand for the same bytes — never neither, never both.

func c03entryObserve(f func() (*gedcom.Document, error)) (obs string) {
	defer func() {
		if r := recover(); r != nil {
			msg := fmt.Sprint(r)
			if strings.HasPrefix(msg, "indent is too large") {
				obs = "panic indentTooLarge"
			} else {
				obs = "panic other: " + msg
			}
		}
	}()
	d, err := f()
	switch {
	case err != nil && d != nil:
		return "both a document and an error"
	case err != nil:
		if m := decLineNo.FindStringSubmatch(err.Error()); m != nil {
			return "err " + m[1]
		}
		return "err ? " + err.Error()
	case d == nil:
		return "neither a document nor an error"
	}
	return "ok bom=" + bit(d.HasBOM) + " " + dumpNodes(d.Nodes())
}

func c03entry(c *Ctx, dir string, texts []string) {
	for i, text := range texts {
		want, _ := decObserve(text, false, false)
		if strings.HasPrefix(want, "hang") {
			continue
		}
		fromString := c03entryObserve(func() (*gedcom.Document, error) { return gedcom.NewDocumentFromString(text) })
		path := filepath.Join(dir, "e.ged")
		if err := ioutil.WriteFile(path, []byte(text), 0o644); err != nil {
			continue
		}
		fromFile := c03entryObserve(func() (*gedcom.Document, error) { return gedcom.NewDocumentFromGEDCOMFile(path) })
		c.Eval()
		c.Count("entry:" + strings.Fields(want)[0])
		in := map[string]interface{}{"text": text, "n": i}
		if fromString != want {
			c.Oracle("", "NewDocumentFromString does not give what a decoder with default options gives for the same bytes", in, clip(fromString), clip(want))
		}
		if fromFile != want {
			c.Oracle("", "NewDocumentFromGEDCOMFile does not give what a decoder with default options gives for the same bytes", in, clip(fromFile), clip(want))
		}
	}
	// a file that does not exist is an error, not a crash and not an empty document
	missing := c03entryObserve(func() (*gedcom.Document, error) {
		return gedcom.NewDocumentFromGEDCOMFile(filepath.Join(dir, "no-such-file.ged"))
	})
	if !strings.HasPrefix(missing, "err") {
		c.Oracle("", "NewDocumentFromGEDCOMFile on a missing file does not return an error", map[string]string{"path": "no-such-file.ged"}, missing, "err")
	}
	os.Remove(filepath.Join(dir, "e.ged"))
}

func clip(s string) string {
	if len(s) > 300 {
		return s[:300] + "…"
	}
	return s
}
