package main

import (
	"fmt"
	"math"
	"math/big"
	"strconv"
	"strings"
	"time"

	"github.com/elliotchance/gedcom/v39"
)

// civilDays is an independent days-from-civil computation (Hinnant's algorithm; shares no code
// with Go's time package or with the Lean model): days since 1970-01-01.
func civilDays(y, m, d int) int64 {
	yy := int64(y)
	if m <= 2 {
		yy--
	}
	var era int64
	if yy >= 0 {
		era = yy / 400
	} else {
		era = (yy - 399) / 400
	}
	yoe := yy - era*400
	mm := int64(m)
	var mp int64
	if mm > 2 {
		mp = mm - 3
	} else {
		mp = mm + 9
	}
	doy := (153*mp+2)/5 + int64(d) - 1
	doe := yoe*365 + yoe/4 - yoe/100 + doy
	return era*146097 + doe - 719468
}

func civilLeap(y int) bool { return y%4 == 0 && (y%100 != 0 || y%400 == 0) }

func civilDim(m, y int) int {
	switch m {
	case 2:
		if civilLeap(y) {
			return 29
		}
		return 28
	case 4, 6, 9, 11:
		return 30
	}
	return 31
}

// c05date evaluates one date: correspondence request + oracle on the implementation.
func c05date(c *Ctx, g gdate) {
	ds := g.Date()
	de := g.Date()
	de.IsEndOfRange = true
	st, en := ds.Time(), de.Time()
	yrs := ds.Years()
	c.Tie("date "+g.String(), fmt.Sprintf("%d %d %d %d %.12f", st.Unix(), st.Nanosecond(), en.Unix(), en.Nanosecond(), yrs))
	// the float64 value itself against the binary64 model (Model/Float64.lean): exact, bit for bit
	c.Tie("yearsf "+g.String(), c05f64(yrs))
	c.Eval()
	c.Count("granularity=" + gran(g))
	c.Nontrivial(g.String())
	// (S) bounds against the independent civil computation
	var first, last int64
	var days int64
	switch gran(g) {
	case "y":
		first, last = civilDays(g.y, 1, 1), civilDays(g.y, 12, 31)
		days = 365
		if civilLeap(g.y) {
			days = 366
		}
	case "m":
		first, last = civilDays(g.y, g.m, 1), civilDays(g.y, g.m, civilDim(g.m, g.y))
		days = int64(civilDim(g.m, g.y))
	default:
		first = civilDays(g.y, g.m, g.d)
		last, days = first, 1
	}
	in := map[string]string{"date": g.String()}
	if st.Unix() != first*86400 || st.Nanosecond() != 0 {
		c.Oracle("", "start bound is not 00:00:00 on the first day of the period", in,
			st.UTC().Format(time.RFC3339Nano), fmt.Sprintf("unix %d", first*86400))
	}
	if en.Unix() != (last+1)*86400-1 || en.Nanosecond() != 999999999 {
		c.Oracle("", "end bound is not the last nanosecond of the last day of the period", in,
			en.UTC().Format(time.RFC3339Nano), fmt.Sprintf("unix %d.999999999", (last+1)*86400-1))
	}
	if en.Before(st) {
		c.Oracle("", "start bound after end bound", in, st.String()+" / "+en.String(), "start <= end")
	}
	// period length: compare in seconds to avoid Duration overflow for nothing (a year fits easily)
	if got := en.Unix() + 1 - st.Unix(); got != days*86400 {
		c.Oracle("", "period does not have the calendar's true length", in,
			fmt.Sprintf("%d s", got), fmt.Sprintf("%d s (%d days)", days*86400, days))
	}
}

// c05f64 prints a finite non-negative float64 exactly, in lowest terms: "mant frac" = mant / 2^frac.
func c05f64(x float64) string {
	if x < 0 || math.IsInf(x, 0) || math.IsNaN(x) {
		return fmt.Sprintf("not-finite-nonnegative %v", x)
	}
	r := new(big.Rat).SetFloat64(x)
	den := r.Denom()
	frac := den.BitLen() - 1
	if new(big.Int).Lsh(big.NewInt(1), uint(frac)).Cmp(den) != 0 {
		return "denominator-not-a-power-of-two " + r.String()
	}
	return r.Num().String() + " " + strconv.Itoa(frac)
}

func c05compare(req, impl, model string) bool {
	switch {
	case strings.HasPrefix(req, "date "):
		var sSec, sNs, eSec, eNs int64
		var yrs float64
		if _, err := fmt.Sscan(impl, &sSec, &sNs, &eSec, &eNs, &yrs); err != nil {
			return false
		}
		f := strings.Fields(model)
		if len(f) != 6 {
			return false
		}
		var v [6]int64
		for i := range f {
			x, err := strconv.ParseInt(f[i], 10, 64)
			if err != nil {
				return false
			}
			v[i] = x
		}
		first, last, year, num, den := v[0], v[1], v[3], v[4], v[5]
		if sSec != first*86400 || sNs != 0 || eSec != (last+1)*86400-1 || eNs != 999999999 {
			return false
		}
		exact := new(big.Rat).Add(big.NewRat(year, 1), big.NewRat(num, den))
		ef, _ := exact.Float64()
		return math.Abs(ef-yrs) < 1e-9
	case strings.HasPrefix(req, "before "):
		// model: "<lt><gt><eq>"; exact ties between dates of different shape are inconclusive under
		// float64 rounding and are not compared
		if len(model) == 3 && model[2] == '1' && !strings.HasSuffix(req, " same") {
			return true
		}
		return len(model) >= 2 && impl == model[:2]
	}
	return impl == model
}

func c05before(c *Ctx, a, b gdate) {
	da, db := a.Date(), b.Date()
	bef, aft := da.IsBefore(db), da.IsAfter(db)
	// the range-end flag must not matter: before/after compare dates, not instants
	for _, fl := range [][2]bool{{false, true}, {true, false}, {true, true}} {
		xa, xb := da, db
		xa.IsEndOfRange, xb.IsEndOfRange = fl[0], fl[1]
		if b2, a2 := xa.IsBefore(xb), xa.IsAfter(xb); b2 != bef || a2 != aft {
			c.Oracle("", "IsBefore/IsAfter depend on the IsEndOfRange flags of the operands",
				map[string]interface{}{"a": a.String(), "b": b.String(), "a_is_end": fl[0], "b_is_end": fl[1]},
				bit(b2)+bit(a2), bit(bef)+bit(aft)+" (both flags false)")
		}
	}
	// neither may the constraint words: before/after is the order of the periods, and a date is
	// never both before and after another, nor after (or before) a date of the same period
	for k := 1; k < 16; k += 1 + (a.d+b.d+a.m)%3 {
		xa, xb := da, db
		xa.Constraint, xb.Constraint = gedcom.DateConstraint(k%4), gedcom.DateConstraint(k/4)
		if b2, a2 := xa.IsBefore(xb), xa.IsAfter(xb); b2 != bef || a2 != aft {
			c.Oracle("", "IsBefore/IsAfter depend on the constraint words (Abt./Bef./Aft.) of the operands",
				map[string]interface{}{"a": a.String(), "b": b.String(), "a_constraint": k % 4, "b_constraint": k / 4},
				bit(b2)+bit(a2), bit(bef)+bit(aft)+" (both exact)")
			break
		}
	}
	// the same through date ranges and DATE nodes (a single date is the range from itself to itself:
	// DateRange.IsBefore compares the starts, IsAfter the ends)
	{
		ra, rb := gedcom.NewDateRange(da, da), gedcom.NewDateRange(db, db)
		if b2, a2 := ra.IsBefore(rb), ra.IsAfter(rb); b2 != bef || a2 != aft {
			c.Oracle("", "DateRange.IsBefore/IsAfter of two single dates differ from the dates' own", map[string]string{"a": a.String(), "b": b.String()},
				bit(b2)+bit(a2), bit(bef)+bit(aft))
		}
		na, nb := gedcom.NewDateNode(da.String()), gedcom.NewDateNode(db.String())
		if b2, a2 := na.IsBefore(nb), na.IsAfter(nb); b2 != bef || a2 != aft {
			c.Oracle("", "DateNode.IsBefore/IsAfter of two single dates differ from the dates' own", map[string]string{"a": da.String(), "b": db.String()},
				bit(b2)+bit(a2), bit(bef)+bit(aft))
		}
	}
	if bef && aft {
		c.Oracle("", "a date is both before and after another", map[string]string{"a": a.String(), "b": b.String()}, "11", "at most one")
	}
	if a == b && (bef || aft) {
		c.Oracle("", "a date is before or after itself", map[string]string{"a": a.String()}, bit(bef)+bit(aft), "00")
	}
	if ya, yb := da.Years(), db.Years(); bef != (ya < yb) || aft != (ya > yb) {
		c.Oracle("", "IsBefore/IsAfter disagree with the order of Years()", map[string]string{"a": a.String(), "b": b.String()},
			bit(bef)+bit(aft), bit(ya < yb)+bit(ya > yb))
	}
	tag := ""
	if gran(a) == gran(b) {
		tag = " same"
	}
	c.Tie("before "+a.String()+" "+b.String()+tag, bit(bef)+bit(aft))
	// the same question decided on the binary64 model: no inconclusive ties
	c.Tie("beforef "+a.String()+" "+b.String(), bit(bef)+bit(aft))
	c.Eval()
	c.Count("before:" + gran(a) + gran(b))
	if gran(a) == "d" && gran(b) == "d" {
		x, y := civilDays(a.y, a.m, a.d), civilDays(b.y, b.m, b.d)
		if bef != (x < y) || aft != (x > y) {
			c.Oracle("", "IsBefore/IsAfter disagree with calendar order",
				map[string]string{"a": a.String(), "b": b.String()}, bit(bef)+bit(aft), bit(x < y)+bit(x > y))
		}
	}
}

// c05year covers every day, month and the year itself of one year, including the (d, d+1) pairs
// and the (first, partial, last) triples on the implementation's float64 values.
func c05year(c *Ctx, y int) {
	prev := math.Inf(-1)
	if y > 1 {
		prev = gedcom.Date{Day: 31, Month: 12, Year: y - 1}.Years()
	}
	prevS := fmt.Sprintf("31 12 %d", y-1)
	prevG, havePrev := gdate{31, 12, y - 1}, y > 1
	yo := gdate{0, 0, y}
	c05date(c, yo)
	for m := 1; m <= 12; m++ {
		mo := gdate{0, m, y}
		c05date(c, mo)
		n := civilDim(m, y)
		for d := 1; d <= n; d++ {
			g := gdate{d, m, y}
			c05date(c, g)
			v := g.Date().Years()
			if !(prev < v) {
				c.Oracle("", "Years is not strictly increasing from one day to the next",
					map[string]string{"day": prevS, "next": g.String()}, fmt.Sprintf("%.17g then %.17g", prev, v), "strictly increasing")
			}
			// before/after on every pair of consecutive days, the year boundary included
			if havePrev {
				c05before(c, prevG, g)
				c05before(c, g, prevG)
				c05similarity(c, prevG, g)
			}
			prev, prevS = v, g.String()
			prevG, havePrev = g, true
		}
		f, p, l := gdate{1, m, y}.Date().Years(), mo.Date().Years(), gdate{n, m, y}.Date().Years()
		if !(f <= p && p <= l) {
			c.Oracle("", "Years of a month-year date lies outside its month", map[string]string{"date": mo.String()},
				fmt.Sprintf("%.17g %.17g %.17g", f, p, l), "first <= partial <= last")
		}
	}
	f, p, l := gdate{1, 1, y}.Date().Years(), yo.Date().Years(), gdate{31, 12, y}.Date().Years()
	if !(f <= p && p <= l) {
		c.Oracle("", "Years of a year-only date lies outside its year", map[string]string{"date": yo.String()},
			fmt.Sprintf("%.17g %.17g %.17g", f, p, l), "first <= partial <= last")
	}
}

// c05similarity: the Years scale is what DateRange.Similarity works on, so two different days never
// score 1, the score does not depend on how the range was built (from Date values or from text),
// and it is the documented parabola of the Years difference.
func c05similarity(c *Ctx, a, b gdate) {
	da, db := a.Date(), b.Date()
	ea, eb := da, db
	ea.IsEndOfRange, eb.IsEndOfRange = true, true
	fromDates := gedcom.NewDateRange(da, ea).Similarity(gedcom.NewDateRange(db, eb), gedcom.DefaultMaxYearsForSimilarity)
	fromText := gedcom.NewDateRangeWithString(da.String()).Similarity(gedcom.NewDateRangeWithString(db.String()), gedcom.DefaultMaxYearsForSimilarity)
	in := map[string]string{"a": a.String(), "b": b.String()}
	if fromDates != fromText {
		c.Oracle("", "DateRange.Similarity depends on how the ranges were built (Date values vs text)", in,
			fmt.Sprintf("%.17g (from Date values)", fromDates), fmt.Sprintf("%.17g (from text)", fromText))
	}
	if a != b && !(fromDates < 1) {
		c.Oracle("", "two different days have similarity 1", in, fmt.Sprintf("%.17g", fromDates), "< 1")
	}
	c.Count("similarity-pairs")
}

func init() {
	runners["C05"] = func(c *Ctx) {
		c.Compare = c05compare
		c.Rule = "every day, month-year and year-only date of the selected years (thorough: of all years 1..9999, i.e. the implementation's whole domain), both range ends; (d,d+1) pairs and (first,partial,last) triples on float64; random pairs for IsBefore/IsAfter and Minimum/Maximum; distinct = distinct dates"
		var years []int
		if c.Quick() {
			years = []int{1, 2, 3, 4, 5, 99, 100, 101, 399, 400, 401, 1000, 1581, 1582, 1583, 1599, 1600, 1699, 1700,
				1752, 1799, 1800, 1899, 1900, 1901, 1969, 1970, 1971, 1999, 2000, 2001, 2023, 2024, 2038, 2100, 2400,
				4000, 9996, 9997, 9998, 9999, 1601, 2025, 2401}
		} else {
			for y := 1; y <= 9999; y++ {
				years = append(years, y)
			}
			c.Exhaustive = true
		}
		for _, y := range years {
			c05year(c, y)
		}
		c.Sample(map[string]string{"request": "date 29 2 2000", "meaning": "29 Feb 2000, both range ends, Years"})
		c.Sample(map[string]string{"request": "date 0 2 1900", "meaning": "Feb 1900 (28 days)"})
		n := c.N(50000, 400000)
		for i := 0; i < n; i++ {
			g := randDate(c.R)
			if c.Quick() {
				c05date(c, g)
			}
			h := randDate(c.R)
			if c.R.Chance(1, 3) { // near neighbours
				h = g
				if h.d > 0 {
					t := time.Date(g.y, time.Month(g.m), g.d, 0, 0, 0, 0, time.UTC).AddDate(0, 0, c.R.Range(-2, 2))
					if t.Year() >= 1 && t.Year() <= 9999 {
						h = fromTime(t)
					}
				}
			}
			c05before(c, g, h)
			if g.d > 0 && h.d > 0 {
				c05similarity(c, g, h)
			}
		}
		// Minimum / Maximum over date nodes
		nm := c.N(5000, 100000)
		for i := 0; i < nm; i++ {
			k := 1 + c.R.Intn(6)
			var nodes gedcom.DateNodes
			var parts []string
			shape := c.R.Intn(3) // one granularity per list: exact ties across shapes are float-inconclusive
			for j := 0; j < k; j++ {
				g := randDate(c.R)
				if c.R.Chance(1, 2) {
					g = gdate{1 + c.R.Intn(28), 1 + c.R.Intn(12), 1900 + c.R.Intn(3)}
				}
				switch shape {
				case 0:
					g.d, g.m = 0, 0
				case 1:
					g.d = 0
					if g.m == 0 {
						g.m = 1 + c.R.Intn(12)
					}
				default:
					if g.m == 0 {
						g.m = 1 + c.R.Intn(12)
					}
					if g.d == 0 {
						g.d = 1 + c.R.Intn(28)
					}
				}
				nodes = append(nodes, gedcom.NewDateNode(canonDate(g)))
				parts = append(parts, g.String())
			}
			mn, mx := nodes.Minimum(), nodes.Maximum()
			idx := func(n *gedcom.DateNode) int {
				for i, x := range nodes {
					if x == n {
						return i
					}
				}
				return -1
			}
			c.Tie("minmax "+strings.Join(parts, " "), fmt.Sprintf("%d %d", idx(mn), idx(mx)))
			c.Eval()
			c.Count("minmax")
		}
	}
}

var monthAbbr = []string{"", "Jan", "Feb", "Mar", "Apr", "May", "Jun", "Jul", "Aug", "Sep", "Oct", "Nov", "Dec"}

func canonDate(g gdate) string {
	switch gran(g) {
	case "y":
		return strconv.Itoa(g.y)
	case "m":
		return monthAbbr[g.m] + " " + strconv.Itoa(g.y)
	}
	return fmt.Sprintf("%d %s %d", g.d, monthAbbr[g.m], g.y)
}
