package main

// Source translation for C13: the ORDERED list of cache-affecting statements of every mutator of
// the children of a node (SimpleNode / FamilyNode / IndividualNode .AddNode, .DeleteNode, .SetNodes)
// and of the root list (Document.DeleteNode, .SetNodes), and the version protocol of the two cached
// getters IndividualNode.Families() / Spouses(), read with go/ast and printed as Lean data
// (lean/Gedcom/Generated/CacheEffects.lean).  Model/CacheEff.lean interprets the lists on the cache
// model's state; Props/C13 proves that the interpretation *is* the model's step for these
// operations.  The translator never guesses: a statement outside the fragment becomes `.bad "<src>"`
// and is rejected by an obligation.

import (
	"fmt"
	"go/ast"
	"go/parser"
	"go/token"
	"path/filepath"
	"sort"
	"strconv"
	"strings"
)

type c13EffSrc struct {
	fset  *token.FileSet
	funcs map[string]*ast.FuncDecl // "Recv.Name"
	plain map[string]*ast.FuncDecl // package-level functions
	ptrVar string
}

func c13EffParse() (*c13EffSrc, error) {
	src := &c13EffSrc{fset: token.NewFileSet(), funcs: map[string]*ast.FuncDecl{}, plain: map[string]*ast.FuncDecl{}}
	names, err := filepath.Glob(filepath.Join(repoRoot(), "*.go"))
	if err != nil {
		return nil, err
	}
	sort.Strings(names)
	for _, n := range names {
		if strings.HasSuffix(n, "_test.go") {
			continue
		}
		f, err := parser.ParseFile(src.fset, n, nil, 0)
		if err != nil {
			return nil, err
		}
		for _, d := range f.Decls {
			if fd, ok := d.(*ast.FuncDecl); ok && fd.Recv != nil && len(fd.Recv.List) == 1 {
				src.funcs[c13RecvName(fd.Recv.List[0].Type)+"."+fd.Name.Name] = fd
			} else if ok && fd.Recv == nil {
				src.plain[fd.Name.Name] = fd
			}
		}
	}
	return src, nil
}

func c13Bad(txt string) string { return "⟨.always, .bad " + strconv.Quote(txt) + "⟩" }

// translate one method body into guarded effects.  recv = receiver variable, param = the (single)
// parameter name, guard = Lean guard constructor in force.
func (src *c13EffSrc) body(recvType, recv, param string, stmts []ast.Stmt, guard string, depth int) []string {
	var out []string
	emit := func(e string) { out = append(out, "⟨."+guard+", ."+e+"⟩") }
	ptrVar := src.ptrVar // local holding param.Pointer() (Document.addPointerToCache), also seen by nested blocks
	for _, st := range stmts {
		txt := printNode(src.fset, st)
		switch s := st.(type) {
		case *ast.SwitchStmt:
			// switch param.Tag() { case TagFamily: … }: the statements under the guard "the record is a family"
			if recvType != "Document" || guard != "always" || s.Init != nil || s.Tag == nil || printNode(src.fset, s.Tag) != param+".Tag()" {
				out = append(out, c13Bad("switch "+txt))
				continue
			}
			for _, cc := range s.Body.List {
				clause, ok := cc.(*ast.CaseClause)
				if !ok || len(clause.List) != 1 || printNode(src.fset, clause.List[0]) != "TagFamily" {
					out = append(out, c13Bad("case "+printNode(src.fset, cc)))
					continue
				}
				out = append(out, src.body(recvType, recv, param, clause.Body, "isFamily", depth)...)
			}
		case *ast.ExprStmt:
			call, ok := s.X.(*ast.CallExpr)
			if !ok {
				out = append(out, c13Bad(txt))
				continue
			}
			switch {
			case txt == "resetNodeCache()":
				emit("resetNodeCache")
			case recvType != "SimpleNode" && param != "" && (txt == recv+".SimpleNode.AddNode("+param+")" || txt == recv+".SimpleNode.SetNodes("+param+")"):
				emit("super ." + lowerFirst(strings.TrimSuffix(strings.TrimPrefix(txt, recv+".SimpleNode."), "("+param+")")))
			case recvType == "FamilyNode" && txt == recv+".resetCache()":
				emit("resetOwnFamily")
			case recvType == "Document" && txt == recv+".buildPointerCache()":
				emit("rebuildPointers")
			case recvType == "Document" && guard == "hasPointer" && ptrVar != "" && txt == recv+".pointerCache.Store("+ptrVar+", "+param+")":
				emit("storePointer")
			case strings.HasPrefix(txt, recv+".") && strings.HasSuffix(txt, "Mutex.Lock()") && strings.Count(txt, ".") == 2:
				emit("lock")
			case strings.HasPrefix(txt, recv+".") && strings.HasSuffix(txt, "Mutex.Unlock()") && strings.Count(txt, ".") == 2:
				emit("unlock")
			default:
				// a helper of the same receiver that is handed the parameter on: its body, inlined
				if sel, ok := call.Fun.(*ast.SelectorExpr); ok && len(call.Args) == 1 && param != "" && printNode(src.fset, call.Args[0]) == param && depth > 0 {
					if x, ok := sel.X.(*ast.Ident); ok && x.Name == recv {
						if h, ok := src.funcs[recvType+"."+sel.Sel.Name]; ok && h.Body != nil && !ast.IsExported(sel.Sel.Name) &&
							h.Type.Params != nil && len(h.Type.Params.List) == 1 && len(h.Type.Params.List[0].Names) == 1 &&
							(h.Type.Results == nil || len(h.Type.Results.List) == 0) && len(h.Recv.List[0].Names) == 1 {
							out = append(out, src.body(recvType, h.Recv.List[0].Names[0].Name, h.Type.Params.List[0].Names[0].Name, h.Body.List, guard, depth-1)...)
							continue
						}
					}
				}
				// a helper of the same receiver without arguments: its body, inlined
				if sel, ok := call.Fun.(*ast.SelectorExpr); ok && len(call.Args) == 0 && depth > 0 {
					if x, ok := sel.X.(*ast.Ident); ok && x.Name == recv {
						if h, ok := src.funcs[recvType+"."+sel.Sel.Name]; ok && h.Body != nil &&
							(h.Type.Params == nil || len(h.Type.Params.List) == 0) &&
							(h.Type.Results == nil || len(h.Type.Results.List) == 0) &&
							len(h.Recv.List[0].Names) == 1 && !ast.IsExported(sel.Sel.Name) {
							out = append(out, src.body(recvType, h.Recv.List[0].Names[0].Name, "", h.Body.List, guard, depth-1)...)
							continue
						}
					}
				}
				out = append(out, c13Bad(txt))
			}
		case *ast.AssignStmt:
			switch {
			case param != "" && txt == recv+".children = append("+recv+".children, "+param+")":
				emit("kidsAppend")
			case param != "" && txt == recv+".children, didDelete = "+recv+".children.deleteNode("+param+")":
				emit("kidsErase")
			case param != "" && txt == recv+".children = "+param:
				emit("kidsSet")
			case recvType == "Document" && param != "" && txt == recv+".nodes, didDelete = "+recv+".nodes.deleteNode("+param+")":
				emit("rootsErase")
			case recvType == "Document" && param != "" && txt == recv+".nodes = "+param:
				emit("rootsSet")
			case recvType == "Document" && param != "" && txt == recv+".nodes = append("+recv+".nodes, "+param+")":
				emit("rootsAppend")
			case recvType == "Document" && param != "" && s.Tok == token.DEFINE && len(s.Lhs) == 1 && len(s.Rhs) == 1 &&
				printNode(src.fset, s.Rhs[0]) == param+".Pointer()":
				ptrVar = printNode(src.fset, s.Lhs[0])
				src.ptrVar = ptrVar
				emit("readPointer")
			case txt == "nodeCache = &sync.Map{}":
				emit("resetNodeCache")
			case recvType == "Document" && txt == recv+".families = nil":
				emit("clearFamilies")
			case recvType == "IndividualNode" && txt == recv+".cachedUniqueIDs = nil":
				emit("resetUniqueIDs")
			case recvType != "SimpleNode" && param != "" && txt == "didDelete = "+recv+".SimpleNode.DeleteNode("+param+")":
				emit("super .deleteNode")
			default:
				out = append(out, c13Bad(txt))
			}
		case *ast.IncDecStmt:
			if s.Tok == token.INC && ((recvType == "Document" && txt == recv+".familyLinksVersion++") ||
				(recvType == "FamilyNode" && txt == recv+".document.familyLinksVersion++")) {
				emit("bumpLinks")
			} else {
				out = append(out, c13Bad(txt))
			}
		case *ast.IfStmt:
			cond := printNode(src.fset, s.Cond)
			switch {
			case guard == "always" && s.Init == nil && s.Else == nil && recvType == "Document" && param != "" && cond == "!IsNil("+param+")":
				// the model never hands over nil: the body runs
				emit("nilCheck")
				out = append(out, src.body(recvType, recv, param, s.Body.List, guard, depth)...)
			case guard == "always" && s.Init == nil && s.Else == nil && recvType == "Document" && ptrVar != "" && cond == ptrVar+` != ""`:
				out = append(out, src.body(recvType, recv, param, s.Body.List, "hasPointer", depth)...)
			case guard == "always" && s.Init == nil && s.Else == nil && cond == "didDelete":
				out = append(out, src.body(recvType, recv, param, s.Body.List, "deleted", depth)...)
			case guard == "always" && s.Init == nil && s.Else == nil && recvType == "FamilyNode" && cond == recv+".document != nil":
				out = append(out, src.body(recvType, recv, param, s.Body.List, "hasDocument", depth)...)
			default:
				out = append(out, c13Bad("if "+cond))
			}
		case *ast.ReturnStmt:
			if len(s.Results) == 0 {
				emit("ret")
			} else {
				out = append(out, c13Bad(txt))
			}
		default:
			out = append(out, c13Bad(txt))
		}
	}
	return out
}

func (src *c13EffSrc) method(recvType, name string) string {
	fd, ok := src.funcs[recvType+"."+name]
	if !ok || fd.Body == nil || len(fd.Recv.List[0].Names) != 1 {
		return "[" + c13Bad("method "+recvType+"."+name+" not found") + "]"
	}
	param := ""
	if fd.Type.Params != nil && len(fd.Type.Params.List) == 1 && len(fd.Type.Params.List[0].Names) == 1 {
		param = fd.Type.Params.List[0].Names[0].Name
	}
	if param == "" {
		return "[" + c13Bad("method "+recvType+"."+name+" does not take one parameter") + "]"
	}
	src.ptrVar = ""
	effs := src.body(recvType, fd.Recv.List[0].Names[0].Name, param, fd.Body.List, "always", 2)
	src.ptrVar = ""
	return "[" + strings.Join(effs, ", ") + "]"
}

// getter translates the version protocol of a cached getter of IndividualNode.
func (src *c13EffSrc) getter(name string) string {
	bad := func(why string) string {
		return "⟨[], .bad " + strconv.Quote(why) + ", []⟩"
	}
	fd, ok := src.funcs["IndividualNode."+name]
	if !ok || fd.Body == nil || len(fd.Recv.List[0].Names) != 1 {
		return bad("IndividualNode." + name + " not found")
	}
	recv := fd.Recv.List[0].Names[0].Name
	result := ""
	if fd.Type.Results != nil && len(fd.Type.Results.List) == 1 && len(fd.Type.Results.List[0].Names) == 1 {
		result = fd.Type.Results.List[0].Names[0].Name
	}
	var snapshot, stores []string
	hit := ""
	nSnap, nHit, nDefer := 0, 0, 0
	for _, st := range fd.Body.List {
		switch s := st.(type) {
		case *ast.AssignStmt:
			// cached, version, remembered := node.cachedX, node.xVersion, node.x
			if s.Tok == token.DEFINE && len(s.Lhs) == 3 && len(s.Rhs) == 3 &&
				printNode(src.fset, s.Lhs[0]) == "cached" && printNode(src.fset, s.Lhs[1]) == "version" &&
				printNode(src.fset, s.Lhs[2]) == "remembered" {
				nSnap++
				for _, r := range s.Rhs {
					sel, ok := r.(*ast.SelectorExpr)
					if !ok {
						snapshot = append(snapshot, `"?"`)
						continue
					}
					if id, ok := sel.X.(*ast.Ident); ok && id.Name == recv {
						snapshot = append(snapshot, strconv.Quote(sel.Sel.Name))
					} else {
						snapshot = append(snapshot, `"?"`)
					}
				}
			}
		case *ast.IfStmt:
			cond := printNode(src.fset, s.Cond)
			if strings.Contains(cond, "cached") || strings.Contains(cond, "version") || strings.Contains(cond, "Version") {
				nHit++
				body := ""
				if len(s.Body.List) == 1 {
					body = printNode(src.fset, s.Body.List[0])
				}
				if s.Init == nil && s.Else == nil && cond == "cached && version == "+recv+".document.familyLinksVersion" && body == "return remembered" {
					hit = ".cachedAndVersionCurrent"
				} else {
					hit = ".bad " + strconv.Quote("if "+cond+" { "+body+" }")
				}
			}
		case *ast.DeferStmt:
			fl, ok := s.Call.Fun.(*ast.FuncLit)
			if !ok {
				continue
			}
			nDefer++
			for _, ds := range fl.Body.List {
				txt := printNode(src.fset, ds)
				as, ok := ds.(*ast.AssignStmt)
				if !ok {
					if strings.HasSuffix(txt, "Mutex.Lock()") || strings.HasSuffix(txt, "Mutex.Unlock()") {
						continue
					}
					stores = append(stores, `("?", .bad `+strconv.Quote(txt)+`)`)
					continue
				}
				if len(as.Lhs) != 1 || len(as.Rhs) != 1 {
					stores = append(stores, `("?", .bad `+strconv.Quote(txt)+`)`)
					continue
				}
				sel, ok := as.Lhs[0].(*ast.SelectorExpr)
				if !ok || printNode(src.fset, sel.X) != recv {
					stores = append(stores, `("?", .bad `+strconv.Quote(txt)+`)`)
					continue
				}
				rhs := printNode(src.fset, as.Rhs[0])
				val := ".bad " + strconv.Quote(rhs)
				switch {
				case result != "" && rhs == result:
					val = ".result"
				case rhs == "true":
					val = ".yes"
				case rhs == recv+".document.familyLinksVersion":
					val = ".docVersion"
				}
				stores = append(stores, "("+strconv.Quote(sel.Sel.Name)+", "+val+")")
			}
		}
	}
	if nSnap != 1 || nHit != 1 || nDefer != 1 || hit == "" {
		return bad(fmt.Sprintf("IndividualNode.%s: expected one snapshot, one hit test and one deferred store, found %d/%d/%d", name, nSnap, nHit, nDefer))
	}
	return "⟨[" + strings.Join(snapshot, ", ") + "], " + hit + ", [" + strings.Join(stores, ", ") + "]⟩"
}

// tagLoop translates DeleteNodesWithTag(node, tag): what the loop ranges over (a copy of the child
// list made before the loop, or the list itself), its test and its body.
func (src *c13EffSrc) tagLoop() string {
	q := strconv.Quote
	fd := src.plain["DeleteNodesWithTag"]
	if fd == nil || fd.Body == nil || fd.Type.Params == nil || len(fd.Type.Params.List) != 2 ||
		len(fd.Type.Params.List[0].Names) != 1 || len(fd.Type.Params.List[1].Names) != 1 {
		return "⟨.bad \"DeleteNodesWithTag not found\", .bad \"\", []⟩"
	}
	node, tag := fd.Type.Params.List[0].Names[0].Name, fd.Type.Params.List[1].Names[0].Name
	stmts := fd.Body.List
	over := ""
	copyVar := ""
	if len(stmts) == 2 {
		if as, ok := stmts[0].(*ast.AssignStmt); ok && len(as.Lhs) == 1 && len(as.Rhs) == 1 && as.Tok == token.DEFINE {
			if id, ok := as.Lhs[0].(*ast.Ident); ok && printNode(src.fset, as.Rhs[0]) == "append(Nodes{}, "+node+".Nodes()...)" {
				copyVar = id.Name
			}
		}
		if copyVar == "" {
			over = ".bad " + q(printNode(src.fset, stmts[0]))
		}
		stmts = stmts[1:]
	}
	if len(stmts) != 1 {
		return "⟨.bad " + q(fmt.Sprintf("%d statements", len(fd.Body.List))) + ", .bad \"\", []⟩"
	}
	rs, ok := stmts[0].(*ast.RangeStmt)
	if !ok || rs.Value == nil {
		return "⟨.bad " + q(printNode(src.fset, stmts[0])) + ", .bad \"\", []⟩"
	}
	v := printNode(src.fset, rs.Value)
	x := printNode(src.fset, rs.X)
	if over == "" {
		switch {
		case copyVar != "" && x == copyVar:
			over = ".copyOfKids"
		case x == node+".Nodes()":
			over = ".kidsInPlace"
		default:
			over = ".bad " + q("range "+x)
		}
	}
	test, body := ".bad "+q("no test"), []string{}
	if len(rs.Body.List) == 1 {
		if is, ok := rs.Body.List[0].(*ast.IfStmt); ok && is.Init == nil && is.Else == nil {
			if c := printNode(src.fset, is.Cond); c == v+".Tag().Is("+tag+")" {
				test = ".tagIs"
			} else {
				test = ".bad " + q(c)
			}
			for _, st := range is.Body.List {
				if t := printNode(src.fset, st); t == node+".DeleteNode("+v+")" {
					body = append(body, ".deleteNodeCall")
				} else {
					body = append(body, ".bad "+q(t))
				}
			}
		} else {
			test = ".bad " + q(printNode(src.fset, rs.Body.List[0]))
		}
	}
	return "⟨" + over + ", " + test + ", [" + strings.Join(body, ", ") + "]⟩"
}

func init() {
	extractors["CacheEffects"] = func() string {
		src, err := c13EffParse()
		if err != nil {
			return ""
		}
		var b strings.Builder
		b.WriteString("-- Source: the statements of SimpleNode/FamilyNode/IndividualNode .AddNode/.DeleteNode/.SetNodes and of\n")
		b.WriteString("-- Document.DeleteNode/.SetNodes in source order (helpers of the same receiver inlined, `if didDelete`\n")
		b.WriteString("-- / `if node.document != nil` as guards), and the version protocol of IndividualNode.Families()/\n")
		b.WriteString("-- Spouses(), read with go/ast (harness/extract_cacheeff.go).  A statement outside the fragment is `.bad`.\n")
		b.WriteString("import Gedcom.Model.CacheEff\nnamespace Gedcom.Generated\nopen Gedcom.CacheEff\n\n")
		for _, m := range []struct{ lean, typ, name string }{
			{"simpleAddNode", "SimpleNode", "AddNode"}, {"simpleDeleteNode", "SimpleNode", "DeleteNode"}, {"simpleSetNodes", "SimpleNode", "SetNodes"},
			{"familyAddNode", "FamilyNode", "AddNode"}, {"familyDeleteNode", "FamilyNode", "DeleteNode"}, {"familySetNodes", "FamilyNode", "SetNodes"},
			{"individualAddNode", "IndividualNode", "AddNode"}, {"individualDeleteNode", "IndividualNode", "DeleteNode"}, {"individualSetNodes", "IndividualNode", "SetNodes"},
			{"documentDeleteNode", "Document", "DeleteNode"}, {"documentSetNodes", "Document", "SetNodes"},
			{"documentAddNode", "Document", "AddNode"},
		} {
			fmt.Fprintf(&b, "/-- %s.%s -/\ndef %s : List GEff :=\n  %s\n\n", m.typ, m.name, m.lean, src.method(m.typ, m.name))
		}
		// which receiver types define the three methods at all (dynamic dispatch goes to these)
		b.WriteString("/-- the receiver types that define AddNode / DeleteNode / SetNodes -/\ndef overriders : List (String × List String) := [\n")
		for i, name := range []string{"AddNode", "DeleteNode", "SetNodes"} {
			var types []string
			for k := range src.funcs {
				if strings.HasSuffix(k, "."+name) {
					types = append(types, strconv.Quote(strings.TrimSuffix(k, "."+name)))
				}
			}
			sort.Strings(types)
			sep := ","
			if i == 2 {
				sep = ""
			}
			fmt.Fprintf(&b, "  (%q, [%s])%s\n", name, strings.Join(types, ", "), sep)
		}
		b.WriteString("]\n\n")
		fmt.Fprintf(&b, "/-- DeleteNodesWithTag(node, tag) (nodes.go): range, test, body of its loop -/\ndef deleteNodesWithTagLoop : TagLoop :=\n  %s\n\n", src.tagLoop())
		fmt.Fprintf(&b, "/-- IndividualNode.Families() -/\ndef getterFamilies : Getter :=\n  %s\n\n", src.getter("Families"))
		fmt.Fprintf(&b, "/-- IndividualNode.Spouses() -/\ndef getterSpouses : Getter :=\n  %s\n\n", src.getter("Spouses"))
		b.WriteString("end Gedcom.Generated\n")
		return b.String()
	}
}
