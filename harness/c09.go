package main

// C09 — Merging nodes loses nothing, invents nothing and copies.
//
// Correspondence: `mnodes` (MergeNodes) and `mslice` (MergeNodeSlices with the equality merge
// function and with functions that always / never merge); observation = result dump in which
// every object is labelled with the input object it is (`I<k>`) or as new (`N`), the length, the
// right-hand positions that were merged, whether any input object was written to, or `err` /
// `panic`.
// Oracle: nothing lost / nothing invented, length bounds, each element merged at most once and
// only left×right, self-merge adds nothing, freshness, inputs unchanged by the merge and by a
// later mutation of the result — all on the implementation, with the implementation's own Equals.

import (
	"fmt"
	"sort"
	"strings"

	"github.com/elliotchance/gedcom/v39"
)

const c09KeyDates = "C09-date-equality-not-an-equivalence"
const c09KeyRole = "C09-role-node-copied-below-its-family"
const c09KeyDeep = "C09-equal-siblings-below-children-dependent-equality"

// ---- building real nodes ----

func c09isRole(tag string) bool { return tag == "HUSB" || tag == "WIFE" || tag == "CHIL" }

func c09needsDoc(ts []*TNode) bool {
	need := false
	for _, t := range ts {
		c07preorder(t, func(n *TNode) {
			if n.Tag == "INDI" || n.Tag == "FAM" || c09isRole(n.Tag) {
				need = true
			}
		})
	}
	return need
}

func c09gedcom(sb *strings.Builder, t *TNode, lvl int) {
	fmt.Fprintf(sb, "%d ", lvl)
	if t.Ptr != "" {
		sb.WriteString("@" + t.Ptr + "@ ")
	}
	sb.WriteString(t.Tag)
	if t.Value != "" {
		sb.WriteString(" " + t.Value)
	}
	sb.WriteByte('\n')
	for _, k := range t.Kids {
		c09gedcom(sb, k, lvl+1)
	}
}

func c09text(ts ...*TNode) string {
	var sb strings.Builder
	for _, t := range ts {
		c09gedcom(&sb, t, 0)
	}
	return sb.String()
}

// c09realize builds the real nodes of a forest.  Trees without INDI / FAM / HUSB / WIFE / CHIL are
// built with gedcom.NewNode; the others are decoded from GEDCOM text behind a leading family
// record (so that a HUSB / WIFE / CHIL node outside any family can exist at all: the decoder
// gives it the last family seen).  The abstract forest returned is read back from the real nodes.
func c09realize(ts []*TNode) (gedcom.Nodes, []*TNode, bool) {
	if !c09needsDoc(ts) {
		var ns gedcom.Nodes
		for _, t := range ts {
			n, err := newPlain(t)
			if err != nil {
				return nil, nil, false
			}
			ns = append(ns, n)
		}
		return ns, ts, true
	}
	var ns gedcom.Nodes
	ok := true
	func() {
		defer func() {
			if recover() != nil {
				ok = false
			}
		}()
		doc, err := gedcom.NewDocumentFromString("0 @F0@ FAM\n" + c09text(ts...))
		if err != nil || len(doc.Nodes()) != len(ts)+1 {
			ok = false
			return
		}
		ns = append(ns, doc.Nodes()[1:]...)
	}()
	if !ok {
		return nil, nil, false
	}
	return ns, abstractNodes(ns), true
}

// c09looseRole: DeepCopy of the tree reaches a HUSB / WIFE / CHIL node before any FAM node.
func c09looseRole(t *TNode) bool {
	fam, loose := false, false
	c07preorder(t, func(n *TNode) {
		if n.Tag == "FAM" {
			fam = true
		} else if c09isRole(n.Tag) && !fam {
			loose = true
		}
	})
	return loose
}

func c09hasRole(ts ...*TNode) bool {
	has := false
	for _, t := range ts {
		c07preorder(t, func(n *TNode) {
			if c09isRole(n.Tag) {
				has = true
			}
		})
	}
	return has
}

// ---- snapshots of the inputs (identity, child lists, rendering) ----

type c09snap struct {
	index  map[gedcom.Node]int
	kids   map[gedcom.Node][]gedcom.Node
	render []string
	roots  []gedcom.Node
}

func c09snapshot(roots ...gedcom.Node) *c09snap {
	s := &c09snap{index: map[gedcom.Node]int{}, kids: map[gedcom.Node][]gedcom.Node{}, roots: roots}
	var walk func(n gedcom.Node)
	walk = func(n gedcom.Node) {
		if _, seen := s.index[n]; !seen {
			s.index[n] = len(s.index)
		}
		s.kids[n] = append([]gedcom.Node(nil), n.Nodes()...)
		for _, k := range n.Nodes() {
			walk(k)
		}
	}
	for _, r := range roots {
		walk(r)
		s.render = append(s.render, r.GEDCOMString(0))
	}
	return s
}

// written: some input object's child list is no longer what it was
func (s *c09snap) written() bool {
	for n, ks := range s.kids {
		now := n.Nodes()
		if len(now) != len(ks) {
			return true
		}
		for i := range ks {
			if now[i] != ks[i] {
				return true
			}
		}
	}
	return false
}

func (s *c09snap) rendersChanged() (int, string) {
	for i, r := range s.roots {
		if now := r.GEDCOMString(0); now != s.render[i] {
			return i, now
		}
	}
	return -1, ""
}

func (s *c09snap) dump(ns gedcom.Nodes) (string, bool) {
	var sb strings.Builder
	cnt := 0
	shared := false
	var walk func(n gedcom.Node, d int)
	walk = func(n gedcom.Node, d int) {
		cnt++
		o := "N"
		if k, ok := s.index[n]; ok {
			o = fmt.Sprintf("I%d", k)
			shared = true
		}
		fmt.Fprintf(&sb, " %d %s %s %s %s", d, o, hexs(n.Tag().Tag()), hexs(n.Value()), hexs(n.Pointer()))
		for _, k := range n.Nodes() {
			walk(k, d+1)
		}
	}
	for _, n := range ns {
		walk(n, 0)
	}
	return fmt.Sprint(cnt) + sb.String(), shared
}

// ---- relations used by the oracle (the implementation's own Equals) ----

func c09equal(a, b gedcom.Node) bool { return a.Equals(b) || b.Equals(a) }

// c09covers: input node x is represented by result node m — m is Equal to x and every child of x
// is represented by a child of m ("an equal node under an equal parent", recursively).
func c09covers(m, x gedcom.Node) bool {
	if !c09equal(m, x) {
		return false
	}
	return c09kidsCovered(m, x) == nil
}

// c09kidsCovered returns a child of x that no child of m represents (nil = all covered).
func c09kidsCovered(m, x gedcom.Node) gedcom.Node {
	for _, k := range x.Nodes() {
		ok := false
		for _, k2 := range m.Nodes() {
			if c09covers(k2, k) {
				ok = true
				break
			}
		}
		if !ok {
			return k
		}
	}
	return nil
}

func c09head(t *TNode) string { return hexs(t.Tag) + " " + hexs(t.Value) + " " + hexs(t.Ptr) }

// c09levels: the (depth, tag, value, pointer) of every node
func c09levels(set map[string]bool, t *TNode, d int) {
	set[fmt.Sprintf("%d %s", d, c09head(t))] = true
	for _, k := range t.Kids {
		c09levels(set, k, d+1)
	}
}

// c09invented returns a result node whose tag, value and pointer occur on no input node of the
// same depth.
func c09invented(inputs []*TNode, result []*TNode) *TNode {
	in := map[string]bool{}
	for _, t := range inputs {
		c09levels(in, t, 0)
	}
	var bad *TNode
	var walk func(t *TNode, d int)
	walk = func(t *TNode, d int) {
		if bad == nil && !in[fmt.Sprintf("%d %s", d, c09head(t))] {
			bad = t
		}
		for _, k := range t.Kids {
			walk(k, d+1)
		}
	}
	for _, t := range result {
		walk(t, 0)
	}
	return bad
}

func c09canon(t *TNode) string {
	var ks []string
	for _, k := range t.Kids {
		ks = append(ks, c09canon(k))
	}
	sort.Strings(ks)
	return "(" + c09head(t) + strings.Join(ks, "") + ")"
}

// c09deepKey: some RESI / EVEN node of the inputs that has no DATE child (its Equals then asks
// for deep equality of the PLAC children resp. of all children) has two Equal siblings
// somewhere below it.  Merging folds the children of Equal siblings together, so the merged
// RESI / EVEN node need not be Equal to the nodes it was made from.
func c09deepKey(ns ...gedcom.Node) string {
	found := false
	var walk func(n gedcom.Node, below bool)
	walk = func(n gedcom.Node, below bool) {
		if found {
			return
		}
		switch n.(type) {
		case *gedcom.ResidenceNode, *gedcom.EventNode:
			// a RESI / EVEN node with a DATE child is Equal by its dates (Lean: wideOK); only
			// a dateless one compares children deeply
			if len(gedcom.Dates(n)) == 0 {
				below = true
			}
		}
		ks := n.Nodes()
		if below {
			for i := range ks {
				for j := range ks {
					if i != j && ks[i].Equals(ks[j]) {
						found = true
						return
					}
				}
			}
		}
		for _, k := range ks {
			walk(k, below)
		}
	}
	for _, n := range ns {
		walk(n, false)
	}
	if found {
		return c09KeyDeep
	}
	return ""
}

// c09lostKey classifies a nothing-lost failure by the known findings its input falls under.
func c09lostKey(ts []*TNode, ns ...gedcom.Node) string {
	if c07guard(ts...) != "" {
		return c09KeyDates
	}
	return c09deepKey(ns...)
}

// c09noEqualSiblings: no two sibling nodes of the tree are Equal to each other (either direction).
func c09noEqualSiblings(n gedcom.Node) bool {
	ks := n.Nodes()
	for i := range ks {
		for j := range ks {
			if i != j && ks[i].Equals(ks[j]) {
				return false
			}
		}
	}
	for _, k := range ks {
		if !c09noEqualSiblings(k) {
			return false
		}
	}
	return true
}

func c09mutate(r *Rand, roots gedcom.Nodes) string {
	var all []gedcom.Node
	var walk func(n gedcom.Node)
	walk = func(n gedcom.Node) {
		all = append(all, n)
		for _, k := range n.Nodes() {
			walk(k)
		}
	}
	for _, n := range roots {
		walk(n)
	}
	if len(all) == 0 {
		return "nothing"
	}
	what := ""
	func() {
		defer func() { recover() }()
		for m := 0; m < 3; m++ {
			t := all[r.Intn(len(all))]
			switch r.Intn(3) {
			case 0:
				t.AddNode(gedcom.NewNode(gedcom.TagFromString("NOTE"), "mutation", ""))
				what += "add;"
			case 1:
				t.SetNodes(nil)
				what += "clear;"
			default:
				if ks := t.Nodes(); len(ks) > 0 {
					t.DeleteNode(ks[r.Intn(len(ks))])
					what += "delete;"
				}
			}
		}
	}()
	return what
}

// ---- MergeNodes ----

type c09nodesRun struct {
	adds     string
	obs      string
	m        gedcom.Node
	err      error
	panicked string
	dump     string
	shared   bool
	written  bool
}

// c09adds: what the call appended to the destination document — pointers of the records, in
// order ("-" = nothing); a record that is not an empty FAM is shown as "!<gedcom hex>".
func c09adds(dst *gedcom.Document, before int) string {
	ns := dst.Nodes()
	if len(ns) <= before {
		return "-"
	}
	var ps []string
	for _, n := range ns[before:] {
		if n.Tag().Tag() == "FAM" && len(n.Nodes()) == 0 && n.Value() == "" {
			ps = append(ps, hexs(n.Pointer()))
		} else {
			ps = append(ps, "!"+hexs(n.GEDCOMString(0)))
		}
	}
	return strings.Join(ps, ",")
}

// c09dest: a destination document that already holds a record (so that "before" is not empty)
func c09dest() (*gedcom.Document, int) {
	d := gedcom.NewDocument()
	d.AddNode(gedcom.NewNode(gedcom.TagFromString("NOTE"), "destination", "N1"))
	return d, len(d.Nodes())
}

func c09runNodes(l, r gedcom.Node, snap *c09snap) *c09nodesRun {
	o := &c09nodesRun{}
	dst, before := c09dest()
	func() {
		defer func() {
			if x := recover(); x != nil {
				o.panicked = fmt.Sprint(x)
			}
		}()
		o.m, o.err = gedcom.MergeNodes(l, r, dst)
	}()
	switch {
	case o.panicked != "":
		o.obs = "panic"
	case o.err != nil:
		o.obs = "err"
	default:
		o.dump, o.shared = snap.dump(gedcom.Nodes{o.m})
		o.written = snap.written()
		o.adds = c09adds(dst, before)
		o.obs = fmt.Sprintf("ok written=%s adds=%s %s", bit(o.written), o.adds, o.dump)
	}
	return o
}

func c09nodesCase(c *Ctx, tl0, tr0 *TNode, label string) {
	ns, ts, ok := c09realize([]*TNode{tl0, tr0})
	if !ok {
		c.Count("unbuildable")
		return
	}
	l, r, tl, tr := ns[0], ns[1], ts[0], ts[1]
	snap := c09snapshot(l, r)
	o := c09runNodes(l, r, snap)
	req := "mnodes " + encForest([]*TNode{tl, tr})
	in := map[string]string{"case": "MergeNodes " + label, "left": encTree(tl), "right": encTree(tr),
		"left_gedcom": snap.render[0], "right_gedcom": snap.render[1]}
	c.Eval()
	c.Tie(req, o.obs)
	if o.panicked != "" {
		key := ""
		if strings.Contains(o.panicked, "without a family") && c09hasRole(tl, tr) {
			key = c09KeyRole
		}
		c.Count("mnodes:" + label + "=panic")
		c.Nontrivial("mnodes/panic/" + label)
		c.Oracle(key, "MergeNodes panicked", in, o.panicked, "a node or an error")
		return
	}
	if o.err != nil {
		c.Count("mnodes:" + label + "=err")
		c.Nontrivial("mnodes/err")
		if tl.Tag == tr.Tag {
			c.Oracle("", "MergeNodes refused two nodes with the same tag", in, o.err.Error(), "a merged node")
		}
		return
	}
	m := o.m
	tm := abstractNode(m)
	c.Count("mnodes:" + label + "=ok")
	if o.adds != "-" {
		c.Count("mnodes:adds-to-destination")
		c.Nontrivial("mnodes/adds/" + fmt.Sprint(strings.Count(o.adds, ",")+1))
	}
	c.Count(fmt.Sprintf("mnodes:growth=%d", bitsLen(1+tm.Size()-tl.Size())))
	c.Nontrivial(fmt.Sprintf("mnodes/%s/%s/l%d r%d m%d", label, c09kindsig(tm), bitsLen(tl.Size()), bitsLen(tr.Size()), bitsLen(tm.Size())))
	// (S) freshness and purity
	if o.shared {
		c.Oracle("", "the merged tree shares a node with an input", in, o.dump, "only new nodes")
	}
	if o.written {
		c.Oracle("", "MergeNodes modified an input node", in, "child list of an input object changed", "inputs untouched")
	}
	if i, now := snap.rendersChanged(); i >= 0 {
		c.Oracle("", "MergeNodes changed the GEDCOM of an input", in, now, snap.render[i])
	}
	// (S) nothing lost / nothing invented
	key := c09lostKey([]*TNode{tl, tr}, l, r)
	if c09head(tl) != c09head(tm) {
		c.Oracle("", "the merged root differs from the left root", in, encTree(tm), "tag, value, pointer of the left node")
	}
	if k := c09kidsCovered(m, l); k != nil {
		c.Oracle(key, "a node of the left input is not represented in the result", in, "lost: "+k.GEDCOMString(1)+" result: "+m.GEDCOMString(0), "an equal node under an equal parent")
	}
	if k := c09kidsCovered(m, r); k != nil {
		c.Oracle(key, "a node of the right input is not represented in the result", in, "lost: "+k.GEDCOMString(1)+" result: "+m.GEDCOMString(0), "an equal node under an equal parent")
	}
	if y := c09invented([]*TNode{tl, tr}, []*TNode{tm}); y != nil {
		c.Oracle("", "a result node stems from no input node", in, encTree(y), "tag, value, pointer of an input node of the same depth")
	}
	if tm.Size() > tl.Size()+tr.Size()-1 {
		c.Oracle("", "the merged tree has more nodes than both inputs together", in, fmt.Sprint(tm.Size()), fmt.Sprintf("<= %d", tl.Size()+tr.Size()-1))
	}
	// (S) a later mutation of the result never shows through
	what := c09mutate(c.R, gedcom.Nodes{m})
	if i, now := snap.rendersChanged(); i >= 0 {
		in2 := map[string]string{"case": in["case"] + ", then mutate the result: " + what, "left": in["left"], "right": in["right"],
			"left_gedcom": in["left_gedcom"], "right_gedcom": in["right_gedcom"]}
		c.Oracle("", "changing the merged tree changed an input", in2, now, snap.render[i])
	}
}

func c09kindsig(t *TNode) string {
	s := c07kindsig(t)
	extra := map[string]bool{}
	c07preorder(t, func(n *TNode) {
		if n.Tag == "FAM" || n.Tag == "INDI" {
			extra[n.Tag] = true
		} else if c09isRole(n.Tag) {
			extra["role"] = true
		}
	})
	var ks []string
	for k := range extra {
		ks = append(ks, k)
	}
	sort.Strings(ks)
	return strings.Join(append([]string{s}, ks...), "+")
}

// c09pruneEqual drops siblings that could be Equal to an earlier sibling (same tag and, for the
// kinds whose Equals compares tag, value and pointer, the same value and pointer), at every level:
// the result has no two Equal siblings.
func c09pruneEqual(t *TNode) *TNode {
	o := &TNode{t.Tag, t.Value, t.Ptr, nil}
	seen := map[string]bool{}
	for _, k := range t.Kids {
		key := k.Tag
		if c07isPlain(k.Tag) {
			key = c09head(k)
		}
		if seen[key] {
			continue
		}
		seen[key] = true
		o.Kids = append(o.Kids, c09pruneEqual(k))
	}
	return o
}

func c09selfCase(c *Ctx, t0 *TNode, sameObject bool) {
	ns, ts, ok := c09realize([]*TNode{t0, t0})
	if !ok {
		return
	}
	l, r, t := ns[0], ns[1], ts[0]
	if sameObject {
		r = l
	}
	c.Eval()
	if !c09noEqualSiblings(l) {
		c.Count("self:equal-siblings")
		return
	}
	before := l.GEDCOMString(0)
	var m gedcom.Node
	var err error
	panicked := ""
	func() {
		defer func() {
			if x := recover(); x != nil {
				panicked = fmt.Sprint(x)
			}
		}()
		m, err = gedcom.MergeNodes(l, r, gedcom.NewDocument())
	}()
	in := map[string]string{"case": fmt.Sprintf("MergeNodes(t, t), same object=%v", sameObject), "tree": encTree(t), "gedcom": before}
	if panicked != "" {
		key := ""
		if strings.Contains(panicked, "without a family") && c09hasRole(t) {
			key = c09KeyRole
		}
		c.Oracle(key, "MergeNodes panicked", in, panicked, "a node or an error")
		return
	}
	if err != nil {
		c.Oracle("", "self-merge failed", in, err.Error(), "t")
		return
	}
	c.Count("self:checked")
	c.Nontrivial("self/" + c09kindsig(t))
	tm := abstractNode(m)
	key := ""
	if c07guard(t) != "" {
		key = c09KeyDates
	}
	if tm.Size() != t.Size() || c09canon(tm) != c09canon(t) {
		c.Oracle(key, "merging a tree without equal siblings with itself adds or changes something", in, m.GEDCOMString(0), before+" (up to order)")
	}
	if l.GEDCOMString(0) != before {
		c.Oracle("", "self-merge modified its input", in, l.GEDCOMString(0), before)
	}
}

func c09nilCases(c *Ctx) {
	n := gedcom.NewNode(gedcom.TagFromString("NOTE"), "a", "")
	var typedNil *gedcom.SimpleNode
	for i, pair := range [][2]gedcom.Node{{nil, n}, {n, nil}, {nil, nil}, {typedNil, n}, {n, typedNil}} {
		c.Eval()
		func() {
			defer func() {
				if x := recover(); x != nil {
					c.Oracle("", "MergeNodes panicked on a nil node", fmt.Sprintf("nil case %d", i), fmt.Sprint(x), "an error")
				}
			}()
			m, err := gedcom.MergeNodes(pair[0], pair[1], gedcom.NewDocument())
			if err == nil || !gedcom.IsNil(m) {
				c.Oracle("", "MergeNodes accepted a nil node", fmt.Sprintf("nil case %d", i), fmt.Sprint(m), "an error and a nil result")
			}
		}()
	}
	c.Count("mnodes:nil")
}

// ---- MergeNodeSlices ----

type c09call struct{ l, r, m gedcom.Node }

type c09sliceRun struct {
	nilEntries int
	adds     string
	obs      string
	res      gedcom.Nodes
	calls    []c09call
	panicked string
	dump     string
	shared   bool
	written  bool
}

// c09fnBase: "eq:typed3" -> "eq" (the name the model knows), 3 (declines with a typed nil pointer
// of the 3rd concrete node type; -1 = declines with a literal nil).
func c09fnBase(fn string) (string, int) {
	if i := strings.Index(fn, ":typed"); i >= 0 {
		k := 0
		fmt.Sscanf(fn[i+len(":typed"):], "%d", &k)
		return fn[:i], k
	}
	return fn, -1
}

func c09alwaysLike(base string) bool { return base == "always" || base == "sameptr" || base == "evenlen" }

// c09typedNil: "no merge" as a user-supplied function may well say it — a nil pointer of a concrete
// node type stored in the interface (not == nil, but IsNil).
func c09typedNil(k int) gedcom.Node {
	switch k % 6 {
	case 0:
		return (*gedcom.SimpleNode)(nil)
	case 1:
		return (*gedcom.IndividualNode)(nil)
	case 2:
		return (*gedcom.BirthNode)(nil)
	case 3:
		return (*gedcom.DateNode)(nil)
	case 4:
		return (*gedcom.FamilyNode)(nil)
	}
	return (*gedcom.NameNode)(nil)
}

func c09mergeFn(fn string, calls *[]c09call) gedcom.MergeFunction {
	base, typed := c09fnBase(fn)
	f := c09mergeFnBase(base, calls)
	if typed < 0 {
		return f
	}
	return func(l, r gedcom.Node, d *gedcom.Document) gedcom.Node {
		m := f(l, r, d)
		if gedcom.IsNil(m) {
			return c09typedNil(typed)
		}
		return m
	}
}

func c09mergeFnBase(fn string, calls *[]c09call) gedcom.MergeFunction {
	always := func(l, r gedcom.Node, d *gedcom.Document) gedcom.Node {
		n := gedcom.NewNode(l.Tag(), l.Value(), l.Pointer())
		for _, k := range l.Nodes() {
			n.AddNode(gedcom.DeepCopy(k, d))
		}
		for _, k := range r.Nodes() {
			n.AddNode(gedcom.DeepCopy(k, d))
		}
		*calls = append(*calls, c09call{l, r, n})
		return n
	}
	switch fn {
	case "sameptr": // merges (like "always") nodes with the same pointer, declines otherwise
		return func(l, r gedcom.Node, d *gedcom.Document) gedcom.Node {
			if l.Pointer() == r.Pointer() {
				return always(l, r, d)
			}
			return nil
		}
	case "evenlen": // merges when the right node's value has an even number of bytes
		return func(l, r gedcom.Node, d *gedcom.Document) gedcom.Node {
			if len(r.Value())%2 == 0 {
				return always(l, r, d)
			}
			return nil
		}
	}
	switch fn {
	case "eq":
		return func(l, r gedcom.Node, d *gedcom.Document) gedcom.Node {
			m := gedcom.EqualityMergeFunction(l, r, d)
			if !gedcom.IsNil(m) {
				*calls = append(*calls, c09call{l, r, m})
			}
			return m
		}
	case "never":
		return func(l, r gedcom.Node, d *gedcom.Document) gedcom.Node { return nil }
	}
	// always: a new node with the left node's tag, value and pointer and deep copies of the
	// children of both
	return func(l, r gedcom.Node, d *gedcom.Document) gedcom.Node {
		n := gedcom.NewNode(l.Tag(), l.Value(), l.Pointer())
		for _, k := range l.Nodes() {
			n.AddNode(gedcom.DeepCopy(k, d))
		}
		for _, k := range r.Nodes() {
			n.AddNode(gedcom.DeepCopy(k, d))
		}
		*calls = append(*calls, c09call{l, r, n})
		return n
	}
}

func c09runSlices(fn string, ls, rs gedcom.Nodes, snap *c09snap) *c09sliceRun {
	o := &c09sliceRun{}
	f := c09mergeFn(fn, &o.calls)
	rsBefore := append(gedcom.Nodes{}, rs...)
	dst, before := c09dest()
	func() {
		defer func() {
			if x := recover(); x != nil {
				o.panicked = fmt.Sprint(x)
			}
		}()
		o.res = gedcom.MergeNodeSlices(ls, rs, dst, f)
	}()
	if o.panicked != "" {
		o.obs = "panic"
		return o
	}
	for _, y := range o.res {
		if gedcom.IsNil(y) {
			o.nilEntries++
		}
	}
	if o.nilEntries > 0 {
		o.obs = fmt.Sprintf("nil-entries=%d len=%d", o.nilEntries, len(o.res))
		return o
	}
	var js []int
	taken := map[int]bool{} // the same object may occur several times in right: first free position
	for _, cl := range o.calls {
		for j, n := range rsBefore {
			if n == cl.r && !taken[j] {
				js = append(js, j)
				taken[j] = true
				break
			}
		}
	}
	sort.Ints(js)
	merged := "-"
	if len(js) > 0 {
		var ss []string
		for _, j := range js {
			ss = append(ss, fmt.Sprint(j))
		}
		merged = strings.Join(ss, ",")
	}
	o.dump, o.shared = snap.dump(o.res)
	o.written = snap.written()
	o.adds = c09adds(dst, before)
	o.obs = fmt.Sprintf("ok len=%d merged=%s written=%s adds=%s %s", len(o.res), merged, bit(o.written), o.adds, o.dump)
	return o
}

func c09sliceCase(c *Ctx, fn string, tls0, trs0 []*TNode, label string) {
	c09sliceCaseA(c, fn, tls0, trs0, label, nil)
}

// c09sliceCaseA: alias[i] = j (j <= i, positions in left ++ right) makes element i THE SAME NODE
// OBJECT as element j (nil = all elements distinct objects).  For the value-based model an aliased
// list is just a list with equal elements.
func c09sliceCaseA(c *Ctx, fn string, tls0, trs0 []*TNode, label string, alias []int) {
	all0 := append(append([]*TNode{}, tls0...), trs0...)
	for i, j := range alias {
		if i < len(all0) && j < i {
			all0[i] = all0[j]
		}
	}
	base, _ := c09fnBase(fn)
	if c09alwaysLike(base) && c09needsDoc(all0) {
		// the always-merge function of the harness builds its node with gedcom.NewNode, which
		// cannot create INDI / FAM / HUSB / WIFE / CHIL
		fn, base = "eq", "eq"
	}
	ns, ts, ok := c09realize(all0)
	if !ok {
		c.Count("unbuildable")
		return
	}
	if alias != nil {
		ns = append(gedcom.Nodes{}, ns...)
		ts = append([]*TNode{}, ts...)
		for i, j := range alias {
			if i < len(ns) && j < i {
				ns[i], ts[i] = ns[j], ts[j]
			}
		}
	}
	ls, rs := ns[:len(tls0):len(tls0)], ns[len(tls0):]
	tls, trs := ts[:len(tls0):len(tls0)], ts[len(tls0):]
	snap := c09snapshot(ns...)
	rsBefore := append(gedcom.Nodes{}, rs...)
	lsBefore := append(gedcom.Nodes{}, ls...)
	o := c09runSlices(fn, ls, rs, snap)
	req := "mslice " + base + " " + encForest(tls) + " " + encForest(trs)
	in := map[string]string{"case": "MergeNodeSlices/" + fn + " " + label, "left": encForest(tls), "right": encForest(trs),
		"left_gedcom": c09text(tls...), "right_gedcom": c09text(trs...)}
	if alias != nil {
		in["same_object"] = fmt.Sprintf("element i of left++right is the same node object as element alias[i]: %v", alias)
	}
	c.Eval()
	c.Tie(req, o.obs)
	if o.panicked != "" {
		key := ""
		if strings.Contains(o.panicked, "without a family") && c09hasRole(ts...) {
			key = c09KeyRole
		}
		c.Count("mslice:" + fn + "=panic")
		c.Nontrivial("mslice/panic/" + fn + "/" + label)
		c.Oracle(key, "MergeNodeSlices panicked", in, o.panicked, "a slice")
		return
	}
	if o.nilEntries > 0 {
		c.Count("mslice:" + fn + "=nil-entries")
		c.Oracle("", "the merged slice contains nil entries (a node was lost and nothing was put in its place)", in,
			fmt.Sprintf("%d nil of %d entries", o.nilEntries, len(o.res)), "every entry is a node")
		return
	}
	res, calls := o.res, o.calls
	if o.adds != "-" {
		c.Count("mslice:adds-to-destination")
		c.Nontrivial("mslice/adds/" + fmt.Sprint(strings.Count(o.adds, ",")+1))
	}
	c.Count(fmt.Sprintf("mslice:%s:merges=%d", fn, len(calls)))
	c.Nontrivial(fmt.Sprintf("mslice/%s/%s/l%d r%d n%d m%d", fn, label, len(tls), len(trs), len(res), len(calls)))
	// guarantees 1, 2: length bounds
	lo := len(tls)
	if len(trs) > lo {
		lo = len(trs)
	}
	if len(res) < lo || len(res) > len(tls)+len(trs) {
		c.Oracle("", "the merged slice is outside max(|l|,|r|) .. |l|+|r|", in, fmt.Sprint(len(res)), fmt.Sprintf("%d..%d", lo, len(tls)+len(trs)))
	}
	// guarantee 3: copies; inputs untouched (the slices themselves included)
	if o.shared {
		c.Oracle("", "the merged slice shares a node with an input", in, o.dump, "only new nodes")
	}
	if o.written {
		c.Oracle("", "MergeNodeSlices modified an input node", in, "child list of an input object changed", "inputs untouched")
	}
	for i := range rsBefore {
		if rs[i] != rsBefore[i] {
			c.Oracle("", "MergeNodeSlices reordered the right input slice", in, fmt.Sprint(i), "unchanged")
			break
		}
	}
	for i := range lsBefore {
		if ls[i] != lsBefore[i] {
			c.Oracle("", "MergeNodeSlices reordered the left input slice", in, fmt.Sprint(i), "unchanged")
			break
		}
	}
	// guarantees 4, 5: every merge pairs a not-yet-merged left node with a right node; each right
	// node is used at most once
	mergedOut := map[gedcom.Node]bool{}
	usedR := map[gedcom.Node]int{}
	isRight := map[gedcom.Node]int{} // how often the object occurs in the right slice
	for _, n := range rsBefore {
		isRight[n]++
	}
	for _, cl := range calls {
		if mergedOut[cl.l] {
			c.Oracle("", "a node that was already the result of a merge was merged again", in, cl.l.GEDCOMString(0), "merged at most once")
		}
		if usedR[cl.r] >= isRight[cl.r] && isRight[cl.r] > 0 {
			c.Oracle("", "a right node was merged more often than it occurs in the right slice", in, cl.r.GEDCOMString(0), "merged at most once")
		}
		if isRight[cl.r] == 0 {
			c.Oracle("", "the merge function was given a right argument that is not an element of the right slice", in, cl.r.GEDCOMString(0), "left x right only")
		}
		if _, isInput := snap.index[cl.l]; isInput {
			c.Oracle("", "the merge function was given an input object as its left argument", in, cl.l.GEDCOMString(0), "a copy of a left node")
		}
		mergedOut[cl.m] = true
		usedR[cl.r]++
	}
	if len(res) != len(tls)+len(trs)-len(calls) {
		c.Oracle("", "result length is not |l| + |r| - merges", in, fmt.Sprintf("%d merges=%d", len(res), len(calls)), fmt.Sprint(len(tls)+len(trs)-len(calls)))
	}
	// nothing lost: every input element is represented by a result element (for the always-merge
	// function a merged right element is represented by its children only: the merged node
	// carries the left node's tag, value and pointer by construction)
	key := c09lostKey(ts, ns...)
	for _, x := range ns {
		ok := false
		for _, y := range res {
			if c09covers(y, x) {
				ok = true
				break
			}
		}
		if !ok && c09alwaysLike(base) {
			// a merged node carries the left node's tag, value and pointer and the children of
			// both: both arguments are represented by their children (Equals of RESI / EVEN
			// looks at the children, so the merged node need not be Equal even to the left one)
			for _, cl := range calls {
				if cl.r == x && c09kidsCovered(cl.m, x) == nil {
					ok = true
				}
				if c09head(abstractNode(cl.l)) == c09head(abstractNode(x)) && c09kidsCovered(cl.m, x) == nil {
					ok = true
				}
			}
		}
		if !ok {
			c.Oracle(key, "an input element is not represented in the merged slice", in, x.GEDCOMString(0), "an equal node with equal descendants")
			break
		}
	}
	// nothing invented
	out := abstractNodes(res)
	if c09alwaysLike(base) {
		// children of a merged node come from the children of both arguments: compare from depth 1
		var inKids, outKids []*TNode
		for _, t := range ts {
			inKids = append(inKids, t.Kids...)
		}
		for _, t := range out {
			outKids = append(outKids, t.Kids...)
		}
		if y := c09invented(inKids, outKids); y != nil {
			c.Oracle("", "a result node stems from no input node", in, encTree(y), "tag, value, pointer of an input node of the same depth")
		}
		var heads []*TNode
		for _, t := range out {
			heads = append(heads, T(t.Tag, t.Value, t.Ptr))
		}
		out = heads
	}
	if y := c09invented(ts, out); y != nil {
		c.Oracle("", "a result node stems from no input node", in, encTree(y), "tag, value, pointer of an input node of the same depth")
	}
	what := c09mutate(c.R, res)
	if i, now := snap.rendersChanged(); i >= 0 {
		in["case"] += ", then mutate the result: " + what
		c.Oracle("", "changing the merged slice changed an input", in, now, snap.render[i])
	}
}

// ---- generators ----

// c09related derives a tree with the same root from t: some children kept, some changed deeper,
// some dropped, some new, some duplicated, order shuffled.
func c09related(g *c07gen, t *TNode) *TNode {
	r := g.r
	o := &TNode{t.Tag, t.Value, t.Ptr, nil}
	if r.Chance(1, 6) && t.Tag != "FAM" && t.Tag != "INDI" && !c09isRole(t.Tag) {
		o.Value = r.Pick(c07PlainValues)
	}
	for _, k := range t.Kids {
		switch x := r.Intn(10); {
		case x < 4:
			o.Kids = append(o.Kids, k.Clone())
		case x < 7:
			o.Kids = append(o.Kids, c09related(g, k))
		case x < 8:
			o.Kids = append(o.Kids, k.Clone(), k.Clone())
		}
	}
	for i := r.Intn(3); i > 0; i-- {
		if t.Tag == "FAM" && r.Bool() {
			o.Kids = append(o.Kids, c09role(g))
		} else {
			o.Kids = append(o.Kids, g.node(r.Intn(2)))
		}
	}
	return c07shuffle(r, o, 2)
}

func c09noRoles(ks []*TNode) []*TNode {
	var out []*TNode
	for _, k := range ks {
		if !c09isRole(k.Tag) {
			out = append(out, k)
		}
	}
	return out
}

var c09People = []string{"@I1@", "@I2@", "@I3@", "@I4@", "@I9@"}

func c09role(g *c07gen) *TNode {
	t := T(g.r.Pick([]string{"HUSB", "WIFE", "CHIL", "CHIL"}), g.r.Pick(c09People), "")
	if g.r.Chance(1, 4) {
		// a role line with a cross-reference identifier of its own (`1 @H1@ HUSB @I1@`): the
		// decoder accepts one on any line and Equals compares it
		t.Ptr = g.r.Pick([]string{"H1", "C1", "C2"})
	}
	if g.r.Chance(1, 4) {
		t.Kids = append(t.Kids, T("NOTE", g.r.Pick([]string{"a", "b"}), ""))
	}
	return t
}

// c09family: a FAM record with HUSB / WIFE / CHIL lines and ordinary facts.
func c09family(g *c07gen) *TNode {
	r := g.r
	t := T("FAM", "", r.Pick([]string{"F1", "F1", "F2"}))
	for i := r.Intn(5); i > 0; i-- {
		t.Kids = append(t.Kids, c09role(g))
	}
	for i := r.Intn(3); i > 0; i-- {
		t.Kids = append(t.Kids, g.node(r.Intn(2)))
	}
	if r.Chance(1, 2) {
		t.Kids = append(t.Kids, T("MARR", "", "", g.date()))
	}
	return c07shuffle(r, t, 2)
}

// c09individual: an INDI record.
func c09individual(g *c07gen) *TNode {
	r := g.r
	t := T("INDI", "", r.Pick([]string{"I1", "I1", "I2", "I3"}))
	t.Kids = append(t.Kids, T("NAME", r.Pick([]string{"A /B/", "C /D/"}), ""))
	for i := r.Intn(4); i > 0; i-- {
		t.Kids = append(t.Kids, g.node(r.Intn(3)))
	}
	return c07shuffle(r, t, 2)
}

func init() {
	runners["C09"] = func(c *Ctx) {
		c.Compare = c07tieCompare(c) // exact ties of Years() inside Date.Equals: inconclusive, counted
		c.Rule = "distinct = (operation and merge function, relation of the inputs, equality rules and record kinds present in the result, size classes of inputs and result / lengths and number of merges)"
		r := c.R
		tame := &c07gen{r: r}
		wild := &c07gen{r: r, wild: true}

		// pinned: the unmatched right child (defect 9) and a second equal right child merged into it
		c09nodesCase(c, T("X", "", ""), T("X", "", "", T("NOTE", "a", "")), "pinned")
		c09nodesCase(c, T("X", "", ""), T("X", "", "", T("NOTE", "a", "", T("A", "1", "")), T("NOTE", "a", "", T("B", "2", ""))), "pinned")
		// pinned: an unmatched HUSB of the right family (needs the family it is added to)
		c09nodesCase(c, T("FAM", "", "F1"), T("FAM", "", "F1", T("HUSB", "@I1@", "")), "pinned-family")
		c09nodesCase(c, T("FAM", "", "F1", T("WIFE", "@I2@", "")), T("FAM", "", "F1", T("HUSB", "@I1@", "H1"), T("CHIL", "@I3@", "C1", T("NOTE", "a", ""))), "pinned-family")
		c09nodesCase(c, T("FAM", "", "F1", T("WIFE", "@I2@", ""), T("CHIL", "@I3@", "")),
			T("FAM", "", "F1", T("HUSB", "@I1@", "", T("NOTE", "a", "")), T("CHIL", "@I3@", ""), T("CHIL", "@I4@", "")), "pinned-family")
		// pinned: RESI whose DATE children are replaced by a merge and then compared again (the
		// children-by-tag cache must not be stale)
		{
			t := T("NAME", "x", "",
				T("RESI", "", "", T("DATE", "1 Jan 1900", ""), T("SEX", "a", ""), T("PLAC", "a", "")),
				T("RESI", "", "", T("DATE", "Bef. Oct 1943", "")),
				T("RESI", "home", "", T("PLAC", "a", ""), T("DATE", "Bef. 5 Sep 1943", "")))
			c09nodesCase(c, t, t.Clone(), "pinned-resi")
		}
		// pinned: with dates whose equality is not transitive a date is merged away (known finding)
		c09nodesCase(c, T("X", "", "", T("N", "", "", T("DATE", "5 Sep 1943", ""))),
			T("X", "", "", T("N", "", "", T("DATE", "Bef. Oct 1943", "")), T("N", "", "", T("DATE", "3 Sep 1943", ""))), "pinned-dates")
		// pinned: a family below another node / HUSB lines as list elements: DeepCopy starts below
		// the family (known finding)
		c09nodesCase(c, T("X", "", "", T("FAM", "", "F1", T("HUSB", "@I1@", ""))), T("X", "", "", T("FAM", "", "F1", T("HUSB", "@I1@", ""))), "pinned-nested-family")
		c09sliceCase(c, "eq", []*TNode{T("HUSB", "@I1@", "")}, []*TNode{T("HUSB", "@I1@", "")}, "pinned-role-elements")
		// exact tie of Years() inside Date.Equals (Bef./Bef. compares Years()): inconclusive in the tie, oracles apply
		c09nodesCase(c, T("X", "", "", T("DATE", "Bef. 16 Dec 1880", "")), T("X", "", "", T("DATE", "Bef. Dec 1880", "")), "pinned-years-tie")
		c09nodesCase(c, T("X", "", "", T("DATE", "Aft. Dec 1880", "")), T("X", "", "", T("DATE", "16 Dec 1880", ""), T("DATE", "2 Jul 1881", "")), "pinned-years-tie")
		c09nilCases(c)

		// fixed boundary corpus (sizes, histories, bytes): c09c.go
		c09boundary(c)

		n := c.N(10000, 160000)
		for i := 0; i < n; i++ {
			g := tame
			if i%5 == 4 {
				g = wild
			}
			tl := g.tree()
			switch {
			case i%7 == 3:
				tl = c09family(g)
			case i%7 == 5:
				tl = c09individual(g)
			default:
				if len(tl.Kids) == 0 && r.Chance(2, 3) {
					tl.Kids = append(tl.Kids, g.node(1), g.node(1))
				}
			}
			if i < 4 {
				c.Sample(map[string]string{"left": c09text(tl)})
			}
			c.Count(fmt.Sprintf("size<=%d", 1<<uint(bitsLen(tl.Size()))))
			c.Count("root:" + map[bool]string{true: tl.Tag, false: "other"}[tl.Tag == "FAM" || tl.Tag == "INDI"])
			// MergeNodes: related, identical, independent (same root tag), different tags
			c09nodesCase(c, tl, c09related(g, tl), "related")
			if i%4 == 0 {
				c09nodesCase(c, tl, tl.Clone(), "identical")
				ind := g.tree()
				if tl.Tag == "FAM" {
					ind = c09family(g)
				} else if tl.Tag == "INDI" {
					ind = c09individual(g)
				}
				ind.Tag = tl.Tag
				c09nodesCase(c, tl, ind, "independent")
			}
			if i%16 == 0 {
				c09nodesCase(c, tl, g.tree(), "any")
				c09nodesCase(c, tl, T(tl.Tag, "", tl.Ptr), "empty-right")
				c09nodesCase(c, T(tl.Tag, "", tl.Ptr), tl, "empty-left")
			}
			if i%3 == 0 {
				c09selfCase(c, tl, false)
				c09selfCase(c, tl, true)
				if p := c09pruneEqual(tl); p.Size() != tl.Size() {
					c09selfCase(c, p, i%2 == 0)
				}
			}
			// MergeNodeSlices on the child lists and on lists of trees / records
			tr := c09related(g, tl)
			fn := []string{"eq", "eq", "always", "never"}[i%4]
			lk, rk := tl.Kids, tr.Kids
			if tl.Tag == "FAM" && !r.Chance(1, 8) {
				// HUSB / WIFE / CHIL as list elements panic in DeepCopy (known finding): mostly leave them out
				lk, rk = c09noRoles(lk), c09noRoles(rk)
			}
			c09sliceCase(c, fn, lk, rk, "related")
			if i%8 == 0 {
				c09sliceCase(c, fn, lk, nil, "empty-right")
				c09sliceCase(c, fn, nil, lk, "empty-left")
				c09sliceCase(c, fn, lk, c07shuffle(r, T("X", "", "", lk...), 4).Kids, "permuted")
				var a, b []*TNode
				elem := func() *TNode {
					switch r.Intn(6) {
					case 0:
						return c09family(g)
					case 1:
						return c09individual(g)
					}
					return g.node(r.Intn(3))
				}
				for k := r.Intn(5); k > 0; k-- {
					a = append(a, elem())
				}
				for k := r.Intn(5); k > 0; k-- {
					switch {
					case len(a) > 0 && r.Chance(1, 3):
						b = append(b, a[r.Intn(len(a))].Clone())
					case len(a) > 0 && r.Chance(1, 2):
						b = append(b, c09related(g, a[r.Intn(len(a))]))
					default:
						b = append(b, elem())
					}
				}
				c09sliceCase(c, "eq", a, b, "lists")
				c09sliceCase(c, "always", a, b, "lists")
				c09sliceCase(c, "never", a, b, "lists")
			}
		}
		// lists in which the same node object occurs several times
		c09aliased(c, tame, wild)
		// deep inputs
		c09deep(c, tame)
		// merge functions that decline with a typed nil pointer / merge only some pairs
		c09declining(c, tame)
		c.Notes = append(c.Notes,
			"INDI / FAM / HUSB / WIFE / CHIL nodes are decoded from GEDCOM text (they cannot be built with gedcom.NewNode); with them the always-merge function is replaced by the equality merge function",
			"the destination document is observed before/after: every record the call appends (empty FAM records from document.AddFamily inside Filter) is part of the observation",
			"not covered: nil elements inside lists; the pointer cache of the destination",
			"self-merge and nothing-lost are checked up to child order (the slice merge moves merged nodes to the end)")
	}

	evaluators["mnodes"] = func(a []string) string {
		f, err := decForest(strings.Join(a, " "))
		if err != nil || len(f) != 2 {
			return "bad-op"
		}
		ns, _, ok := c09realize(f)
		if !ok {
			return "unbuildable"
		}
		return c09runNodes(ns[0], ns[1], c09snapshot(ns...)).obs
	}
	evaluators["mslice"] = func(a []string) string {
		if len(a) < 3 {
			return "bad-op"
		}
		f, err := c09decTwoForests(a[1:])
		if err != nil {
			return "bad-op"
		}
		ns, _, ok := c09realize(append(append([]*TNode{}, f[0]...), f[1]...))
		if !ok {
			return "unbuildable"
		}
		k := len(f[0])
		return c09runSlices(a[0], ns[:k:k], ns[k:], c09snapshot(ns...)).obs
	}
}

// c09decTwoForests splits "<forest> <forest>" (token streams, each self-delimiting).
func c09decTwoForests(toks []string) ([2][]*TNode, error) {
	var out [2][]*TNode
	pos := 0
	var node func() (*TNode, error)
	node = func() (*TNode, error) {
		if pos+4 > len(toks) {
			return nil, fmt.Errorf("truncated")
		}
		t := &TNode{Tag: unhex(toks[pos]), Value: unhex(toks[pos+1]), Ptr: unhex(toks[pos+2])}
		var n int
		if _, err := fmt.Sscan(toks[pos+3], &n); err != nil {
			return nil, err
		}
		pos += 4
		for i := 0; i < n; i++ {
			k, err := node()
			if err != nil {
				return nil, err
			}
			t.Kids = append(t.Kids, k)
		}
		return t, nil
	}
	for w := 0; w < 2; w++ {
		if pos >= len(toks) {
			return out, fmt.Errorf("truncated")
		}
		var n int
		if _, err := fmt.Sscan(toks[pos], &n); err != nil {
			return out, err
		}
		pos++
		for i := 0; i < n; i++ {
			t, err := node()
			if err != nil {
				return out, err
			}
			out[w] = append(out[w], t)
		}
	}
	if pos != len(toks) {
		return out, fmt.Errorf("trailing tokens")
	}
	return out, nil
}
