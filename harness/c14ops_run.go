package main

// C14, round 4: (T) the root-package totality layer of Gedcom/Model/Totality.lean tied to the real
// functions in-process, and the report of the partial-operation sweep (harness/c14ops.go).

import (
	"context"
	"fmt"
	"os"
	"os/exec"
	"path/filepath"
	"regexp"
	"sort"
	"strconv"
	"strings"
	"sync"
	"sync/atomic"
	"time"

	"github.com/elliotchance/gedcom/v39"
	"github.com/elliotchance/gedcom/v39/q"
)

func c14hx(s string) string { return "h" + hexs(s) }

// c14ProgressDones runs the real Compare with a Notifier and returns the Done values of every
// message but the last one ("-" for none), or "panic"/"timeout".
func c14ProgressDones(n int, step int64, jobs int) string {
	return c14WithTimeout(20*time.Second, func() string {
		var b strings.Builder
		for i := 0; i < n; i++ {
			fmt.Fprintf(&b, "0 @I%d@ INDI\n1 NAME P%d /Fam%d/\n1 BIRT\n2 DATE %d\n", i, i, i%3, 1800+7*i)
		}
		left, err1 := gedcom.NewDocumentFromString(b.String())
		right, err2 := gedcom.NewDocumentFromString(b.String())
		if err1 != nil || err2 != nil {
			return "undecodable"
		}
		o := gedcom.NewIndividualNodesCompareOptions()
		o.NotifierStep = step
		o.Jobs = jobs
		ch := make(chan gedcom.Progress, 4)
		o.Notifier = ch
		var dones []string
		fin := make(chan struct{})
		go func() {
			for p := range ch {
				dones = append(dones, strconv.FormatInt(p.Done, 10))
			}
			close(fin)
		}()
		left.Individuals().Compare(right.Individuals(), o)
		<-fin
		if len(dones) > 0 { // an empty side sends no message at all
			dones = dones[:len(dones)-1]
		}
		if len(dones) == 0 {
			return "ok:-"
		}
		return "ok:" + strings.Join(dones, ",")
	})
}

// c14ProgressChild runs c14ProgressDones for every jobs value in one child process (gvh worker
// c14prog); a child that dies gives "panic: <first line of stderr>" for the cases it did not print.
func c14ProgressChild(n int, step int64, jobs []int) []string {
	exe, err := os.Executable()
	out := make([]string, len(jobs))
	if err != nil {
		for i := range out {
			out[i] = "no-executable"
		}
		return out
	}
	args := []string{"worker", "c14prog", strconv.Itoa(n), strconv.FormatInt(step, 10)}
	for _, j := range jobs {
		args = append(args, strconv.Itoa(j))
	}
	cmd := exec.Command(exe, args...)
	var stderr strings.Builder
	cmd.Stderr = &stderr
	b, _ := cmd.Output()
	lines := strings.Split(strings.TrimSpace(string(b)), "\n")
	first := ""
	for _, l := range strings.Split(stderr.String(), "\n") {
		if strings.HasPrefix(l, "panic:") || strings.HasPrefix(l, "fatal error:") {
			first = l
			break
		}
	}
	for i := range out {
		if i < len(lines) && lines[i] != "" {
			out[i] = lines[i]
		} else {
			out[i] = "panic: child process died: " + first
		}
	}
	return out
}

func init() {
	workers["c14prog"] = func(args []string) int {
		if len(args) < 3 {
			return 2
		}
		n, _ := strconv.Atoi(args[0])
		step, _ := strconv.ParseInt(args[1], 10, 64)
		for _, a := range args[2:] {
			j, _ := strconv.Atoi(a)
			fmt.Println(c14ProgressDones(n, step, j))
		}
		return 0
	}
}

func c14TotalityRuns(c *Ctx) {
	// ---- progress ticks: done % notifierStep() for every kind of step. The tick runs in a goroutine
	// of the library (a panic there cannot be recovered), so each case runs in a child process.
	jobsList := []int{-1, 0, 1, 3}
	for _, n := range []int{0, 1, 2, 3, 5, 8} {
		// the number of results, from a run that notifies every result
		base := c14ProgressChild(n, 1, []int{1})[0]
		results := 0
		if strings.HasPrefix(base, "ok:") && base != "ok:-" {
			results = len(strings.Split(base, ","))
		}
		for _, step := range []int64{-9, -1, 0, 1, 2, 3, 7, int64(results), int64(results) + 1, 1 << 40} {
			for ji, obs := range c14ProgressChild(n, step, jobsList) {
				jobs := jobsList[ji]
				c.Tie(fmt.Sprintf("c14tprog %d %d", step, results), obs)
				c.Eval()
				c.Count("progress-case")
				c.Nontrivial(fmt.Sprintf("progress step-sign=%d results=%d", c14sign(step), results))
				if !strings.HasPrefix(obs, "ok:") {
					c.Oracle("", "Compare with a Notifier does not finish with progress messages",
						map[string]string{"individuals": strconv.Itoa(n), "NotifierStep": strconv.FormatInt(step, 10), "Jobs": strconv.Itoa(jobs)}, obs, "progress messages")
				}
			}
		}
	}
	for _, j := range []int{-1 << 31, -5, -1, 0, 1, 2, 17, 1 << 20} {
		j := j
		obs := c14Rec(func() string {
			o := gedcom.NewIndividualNodesCompareOptions()
			o.Jobs = j
			return "ok:" + strconv.Itoa(o.ConcurrentJobs())
		})
		c.Tie(fmt.Sprintf("c14tjobs %d", j), obs)
		c.Eval()
		c.Count("jobs-case")
		if obs == "panic" || obs == "ok:0" || strings.HasPrefix(obs, "ok:-") {
			c.Oracle("", "ConcurrentJobs is not a positive number", map[string]string{"Jobs": strconv.Itoa(j)}, obs, ">= 1")
		}
	}

	// ---- MultipleSexesWarning: 0..5 SEX lines of every kind
	sexVals := []string{"M", "F", "U", "", "X", "m", " F "}
	for k := 0; k <= 5; k++ {
		for rep := 0; rep < c.N(6, 60); rep++ {
			var b strings.Builder
			b.WriteString("0 @I1@ INDI\n1 NAME A /B/\n")
			for i := 0; i < k; i++ {
				v := c.R.Pick(sexVals)
				if v == "" {
					b.WriteString("1 SEX\n")
				} else {
					b.WriteString("1 SEX " + v + "\n")
				}
			}
			text := b.String()
			var req []string
			obs := c14Rec(func() string {
				doc, err := gedcom.NewDocumentFromString(text)
				if err != nil {
					return "undecodable"
				}
				indi := doc.Individuals()[0]
				for _, n := range gedcom.NodesWithTag(indi, gedcom.TagSex) {
					req = append(req, c14hx(n.(*gedcom.SexNode).String()))
				}
				for _, w := range indi.Warnings() {
					if w.Name() == "MultipleSexes" {
						s := w.String()
						if i := strings.Index(s, "has multiple sexes; "); i >= 0 {
							return "ok:" + c14hx(s[i+len("has multiple sexes; "):])
						}
						return "unexpected:" + s
					}
				}
				return "ok:none"
			})
			c.Tie(strings.TrimSpace("c14tsexes "+strings.Join(req, " ")), obs)
			c.Eval()
			c.Count(fmt.Sprintf("sexes-case/k=%d", k))
			c.Nontrivial(fmt.Sprintf("sexes k=%d", k))
			if obs == "panic" {
				c.Oracle("", "the warnings of an individual with several SEX lines panic", map[string]string{"file": text}, "panic", "a warning or none")
			}
		}
	}

	// ---- NameNode.parts(): given name, surname, suffix without GIVN/SURN/NSFX children
	nameVals := []string{"", " ", "/", "//", "/ /", "a/b/c/d", "Ann /Smith/ Jr", "Ann /Smith", "/Smith/", "Ann", "  /  Two  Spaces  /  x ", "x / nbsp/", "\xff/\xfe/\xfd",
		"A /b/ /c/", "a//b", "/a/b/", "a/b", "///", "é /ü/ ß", "Ann\t/S/\tIII"}
	alphabet := []string{"/", " ", "  ", "a", "Z", "é", " ", "\xff", "-", "\t", "Jr"}
	for k := c.N(300, 6000); k > 0; k-- {
		var b strings.Builder
		for j := c.R.Intn(8); j > 0; j-- {
			b.WriteString(c.R.Pick(alphabet))
		}
		nameVals = append(nameVals, b.String())
	}
	for _, v := range nameVals {
		v := v
		obs := c14Rec(func() string {
			n := gedcom.NewNameNode(v)
			return "g=ok:" + hexs(n.GivenName()) + " s=ok:" + hexs(n.Surname()) + " x=ok:" + hexs(n.Suffix())
		})
		c.Tie("c14tname "+c14hx(v), obs)
		c.Eval()
		c.Count("nameparts-case")
		c.Nontrivial(fmt.Sprintf("nameparts slashes=%d", strings.Count(v, "/")))
		if obs == "panic" {
			c.Oracle("", "GivenName / Surname / Suffix panics on a NAME value", map[string]string{"name": v}, "panic", "three strings")
		}
	}

	// ---- PlaceNode.JurisdictionalEntities: 0..6 commas
	placeVals := []string{"", ",", ",,", ",,,", ",,,,", "a", "a,b", "a,b,c", "a, b ,c , d", "a,b,c,d,e", " Town , County,State ,  Country ", " x ,,,y"}
	for k := c.N(150, 3000); k > 0; k-- {
		var b strings.Builder
		for j := c.R.Intn(8); j > 0; j-- {
			b.WriteString(c.R.Pick([]string{",", ",", " ", "a", "Bé", " ", "\t"}))
		}
		placeVals = append(placeVals, b.String())
	}
	for _, v := range placeVals {
		v := v
		name := ""
		obs := c14Rec(func() string {
			p := gedcom.NewPlaceNode(v)
			name = p.JurisdictionalName()
			a, b, cc, d := p.JurisdictionalEntities()
			return "ok:" + c14hx(a) + "," + c14hx(b) + "," + c14hx(cc) + "," + c14hx(d)
		})
		c.Tie("c14tplace "+c14hx(name), obs)
		c.Eval()
		c.Count("placeparts-case")
		c.Nontrivial(fmt.Sprintf("placeparts commas=%d", strings.Count(v, ",")))
		if obs == "panic" {
			c.Oracle("", "JurisdictionalEntities panics on a PLAC value", map[string]string{"place": v}, "panic", "four strings")
		}
	}

	// ---- Date.String: the month abbreviation for every month number
	for _, m := range []int{-1 << 31, -13, -1, 0, 1, 2, 3, 4, 5, 6, 7, 8, 9, 10, 11, 12, 13, 14, 100, 1 << 31} {
		m := m
		obs := c14Rec(func() string {
			return "ok:" + c14hx(gedcom.Date{Month: time.Month(m)}.String())
		})
		c.Tie(fmt.Sprintf("c14tmonth %d", m), obs)
		c.Eval()
		c.Count("month-case")
		if obs == "panic" {
			c.Oracle("", "Date.String panics on a month number", map[string]string{"month": strconv.Itoa(m)}, "panic", "a string")
		}
	}
}

func c14sign(n int64) int {
	switch {
	case n < 0:
		return -1
	case n == 0:
		return 0
	}
	return 1
}

// c14ReportOps runs the sweep on the tree under test, ties its counts to the Lean table and puts
// the sites into the evidence; covered (file:line set, may be nil) marks the sites the
// instrumented binary executed.
func c14ReportOps(c *Ctx, covered map[string]bool) {
	s, err := c14SweepOps(c14OpsRepo())
	if err != nil {
		c.Notes = append(c.Notes, "partial-operation sweep failed: "+err.Error())
		c.Oracle("", "the partial-operation sweep could not load the tree under test", map[string]string{"error": err.Error()}, "error", "a table")
		return
	}
	n := map[string]int{}
	kinds := map[string]int{}
	reached, execTotal := 0, 0
	var notReached []string
	for _, o := range s.Ops {
		n[o.Class]++
		kinds[o.Kind+"/"+o.Class]++
		loc := fmt.Sprintf("%s/%s:%d %s: %s [%s]", o.Pkg, o.File, o.Line, o.Func, o.Expr, o.Kind)
		switch o.Class {
		case "unclassified":
			c.Oracle("", "a partial operation reachable from cmd/gedcom has neither a local guard, nor a totality theorem, nor a recorded reason (new unguarded site, or a recorded guard disappeared)",
				map[string]string{"site": loc, "key": o.Key()}, "unclassified", "local guard | invariant theorem | execution-only with a reason")
		case "exec":
			execTotal++
			if covered != nil {
				if covered[o.Pkg+"/"+o.File+":"+strconv.Itoa(o.Line)] {
					reached++
				} else {
					notReached = append(notReached, loc)
				}
			}
		}
	}
	c.Tie("c14tops", fmt.Sprintf("local=%d invariant=%d exec=%d unclassified=%d classified=%v named=true",
		n["local"], n["invariant"], n["exec"], n["unclassified"], n["unclassified"] == 0))
	var ks []string
	for k := range kinds {
		ks = append(ks, k)
	}
	sort.Strings(ks)
	c.mu.Lock()
	for _, k := range ks {
		c.Dist["partial-ops/"+k] += kinds[k]
	}
	c.mu.Unlock()
	c.Notes = append(c.Notes, fmt.Sprintf("partial-operation sweep: %d functions in the module packages imported by cmd/gedcom, %d reachable from the commands; %d sites: %d guarded locally, %d by a proved invariant, %d execution-only, %d unclassified; %d nil-receiver chains rely on a nil-tolerant callee",
		s.Funcs, s.Reached, len(s.Ops), n["local"], n["invariant"], n["exec"], n["unclassified"], s.Tolerant))
	if covered != nil {
		c.Notes = append(c.Notes, fmt.Sprintf("execution-only sites executed by the coverage-instrumented binary on the boundary corpus and the fault-matrix sample: %d of %d", reached, execTotal))
		c.Count(fmt.Sprintf("exec-sites/reached=%d-of-%d", reached, execTotal))
		for _, l := range notReached {
			c.Untied = append(c.Untied, "execution-only site not executed by any run (by construction unreachable from file content, or not reached): "+l)
		}
	}
}

// ---------------------------------------------------------------------------------------------
// coverage of the execution-only sites: a second, coverage-instrumented build of cmd/gedcom is run
// on the boundary corpus and a sample of the fault matrix; the verdicts come from the plain binary.

var c14ExtraEnv []string

func c14BuildCoverBinary(dir string) (string, error) {
	out := filepath.Join(dir, "gedcom-cover")
	cmd := exec.Command("go", "build", "-cover", "-coverpkg", c14ModPath+"/...", "-o", out, "./cmd/gedcom")
	cmd.Dir = c14OpsRepo()
	cmd.Env = append(os.Environ(), "GOFLAGS=-mod=mod", "GOPROXY=off", "GOSUMDB=off", "GOTOOLCHAIN=local")
	if b, err := cmd.CombinedOutput(); err != nil {
		return "", fmt.Errorf("go build -cover ./cmd/gedcom: %v\n%s", err, b)
	}
	return out, nil
}

// c14CoverageRuns re-executes a sample of runs with the instrumented binary and returns the set of
// covered "pkg/file.go:line".
func c14CoverageRuns(c *Ctx, tmp string, runs []*c14Run) map[string]bool {
	bin, err := c14BuildCoverBinary(tmp)
	if err != nil {
		c.Notes = append(c.Notes, "coverage build failed (sites are reported without reach information): "+err.Error())
		return nil
	}
	covDir := filepath.Join(tmp, "covdata")
	os.MkdirAll(covDir, 0o755)
	// every command variant (arguments without the file names) twice, every special run once
	var sample []*c14Run
	perVariant := map[string]int{}
	pathRe := regexp.MustCompile(regexp.QuoteMeta(tmp) + `\S*`)
	for _, run := range runs {
		if run.class == "skipped" || run.class == "timeout" || run.elapsed > 4*time.Second {
			continue
		}
		sig := run.kind + " " + pathRe.ReplaceAllString(strings.Join(run.args, " "), "F")
		if strings.HasPrefix(run.label, "partial-ops reach") || perVariant[sig] < c.N(2, 6) {
			perVariant[sig]++
			r2 := *run
			if r2.outDir != "" {
				r2.outDir = r2.outDir + "-cov"
				r2.args = append([]string{}, r2.args...)
				for j, a := range r2.args {
					if a == run.outDir {
						r2.args[j] = r2.outDir
					}
				}
			}
			sample = append(sample, &r2)
		}
	}
	c14ExtraEnv = []string{"GOCOVERDIR=" + covDir}
	defer func() { c14ExtraEnv = nil }()
	jobs := make(chan *c14Run)
	var wg sync.WaitGroup
	for w := 0; w < 12; w++ {
		wg.Add(1)
		go func() {
			defer wg.Done()
			for r := range jobs {
				c14Exec(bin, r, 20*time.Second)
			}
		}()
	}
	for _, r := range sample {
		jobs <- r
	}
	close(jobs)
	wg.Wait()
	txt := filepath.Join(tmp, "cov.txt")
	cmd := exec.Command("go", "tool", "covdata", "textfmt", "-i="+covDir, "-o="+txt)
	cmd.Env = append(os.Environ(), "GOFLAGS=-mod=mod", "GOPROXY=off", "GOSUMDB=off", "GOTOOLCHAIN=local")
	if b, err := cmd.CombinedOutput(); err != nil {
		c.Notes = append(c.Notes, fmt.Sprintf("go tool covdata failed: %v %s", err, b))
		return nil
	}
	data, err := os.ReadFile(txt)
	if err != nil {
		return nil
	}
	covered := map[string]bool{}
	re := regexp.MustCompile(`^(\S+):(\d+)\.\d+,(\d+)\.\d+ \d+ (\d+)$`)
	for _, line := range strings.Split(string(data), "\n") {
		m := re.FindStringSubmatch(line)
		if m == nil || m[4] == "0" {
			continue
		}
		file := strings.TrimPrefix(m[1], c14ModPath+"/")
		if !strings.Contains(file, "/") {
			file = "./" + file
		}
		lo, _ := strconv.Atoi(m[2])
		hi, _ := strconv.Atoi(m[3])
		for l := lo; l <= hi; l++ {
			covered[file+":"+strconv.Itoa(l)] = true
		}
	}
	c.Count(fmt.Sprintf("coverage-runs=%d", len(sample)))
	return covered
}

// c14OpsReachFile: a decodable file built to reach execution-only sites that the fault matrix does
// not reach by itself: _UID / _FSFTID values (valid, invalid, empty: uuid.go, UniqueIDs,
// FamilySearchIDs, createUniqueJobs when the file is diffed with itself), several SEX lines, four-part
// places, sources whose pointers are the names of fixed pages (sourceKey), ages (Duration.String).
const c14OpsReachFile = `0 HEAD
0 @I1@ INDI
1 NAME John /Smith/ Jr
1 SEX M
1 SEX F
1 SEX
1 _UID EE13561DDB204985BFFDEEBF82A5226C
1 _UID e0d4d387-618a-4713-ab3b-5fa3500b7a75
1 _FSFTID ABCD-123
1 BIRT
2 DATE 3 MAR 1900
2 PLAC Town, County, State, Country
2 SOUR @places@
1 DEAT
2 DATE 1 JAN 1980
2 PLAC a,b
1 FAMS @F1@
0 @I2@ INDI
1 NAME Jane /Smith/
1 SEX F
1 _UID not-a-uuid
1 _UID
1 _FSFTID
1 BIRT
2 DATE ABT 1902
1 FAMS @F1@
0 @I3@ INDI
1 NAME /Only/
1 _UID EE13561DDB204985BFFDEEBF82A5226C
1 BIRT
2 DATE 5 MAY 1925
2 SOUR @index@
1 FAMC @F1@
0 @F1@ FAM
1 HUSB @I1@
1 WIFE @I2@
1 CHIL @I3@
1 MARR
2 DATE 1 JUN 1924
0 @places@ SOUR
1 TITL Places
0 @index@ SOUR
1 TITL Index
0 @families@ SOUR
0 TRLR
`

func c14OpsReachRuns(c *Ctx, tmp string, runs *[]*c14Run) {
	label := "partial-ops reach file"
	text := c14OpsReachFile
	file := filepath.Join(tmp, "ops-reach.ged")
	os.WriteFile(file, []byte(text), 0o644)
	n := 0
	add := func(kind, outDir string, args ...string) {
		*runs = append(*runs, &c14Run{text: text, kind: kind, args: args, outDir: outDir, label: label, limit: 60 * time.Second})
	}
	out := func(ext string) string { n++; return filepath.Join(tmp, fmt.Sprintf("ops-%d%s", n, ext)) }
	c.Count(label)
	add("warnings", "", "warnings", file)
	for _, vis := range []string{"show", "hide", "placeholder"} {
		o := out("")
		add("publish", o, "publish", "-gedcom", file, "-output-dir", o, "-living", vis)
	}
	for _, extra := range [][]string{nil, {"-progress"}, {"-jobs", "3", "-show", "all"}, {"-prefer-pointer-above", "1"}} {
		o := out(".html")
		add("diff", o, append([]string{"diff", "-left-gedcom", file, "-right-gedcom", file, "-output", o}, extra...)...)
	}
	for _, q := range []string{`.Individuals | .UniqueIDs`, `.Individuals | .FamilySearchIDs`, `.Individuals | { name: .Name | .String, age: .Age | .String }`,
		`Names are .Individuals | .Name; Names | .String`, `.Individuals | Only(.Age > 10)`, `.Individuals | .Name | Only(.GivenName = "John") | .String`,
		`.Individuals | NodesWithTagPath("BIRT", "DATE")`, `.Individuals | { place: .Birth | .String }`, `"constant"`, `42`, `.Individuals | First(1)`} {
		for _, format := range []string{"json", "csv"} {
			add("query", "", "query", "-gedcom", file, "-format", format, q)
		}
	}
	add("tune", "", "tune", "-gedcom1", file, "-gedcom2", file)
	// the command line itself: no command (usage), an unknown command, version
	add("usage", "")
	add("usage", "", "no-such-command")
	add("usage", "", "version")
}

// ---------------------------------------------------------------------------------------------
// q's MergeDocumentsAndIndividuals history in one engine, in a child process (gvh worker c14merge):
// the comparison behind it runs in goroutines of the library; a panic there ends the process.

func c14MergeHistory(text, okText string) string {
	return c14WithTimeout(20*time.Second, func() string {
		engine, err := q.NewParser().ParseString("MergeDocumentsAndIndividuals(Document1, Document2)")
		if err != nil {
			return "parse error"
		}
		d1, _ := gedcom.NewDocumentFromString(text)
		d2, _ := gedcom.NewDocumentFromString(okText)
		str := func(v interface{}, err error) string {
			if err != nil {
				return "error"
			}
			if g, ok := v.(gedcom.GEDCOMStringer); ok {
				return g.GEDCOMString(0)
			}
			return fmt.Sprint(v)
		}
		first := str(engine.Evaluate([]*gedcom.Document{d1, d2}))
		second := str(engine.Evaluate([]*gedcom.Document{d1, d2}))
		str(engine.Evaluate([]*gedcom.Document{d1, d1}))
		str(engine.Evaluate([]*gedcom.Document{d2, d1}))
		return fmt.Sprintf("again-equal=%v", first == second)
	})
}

var c14MergeSeq int64

// c14MergeHistoryChild returns the observation ("again-equal=…", "panic", "timeout", …) and, for a
// panic, its first line and first frame inside the repository.
func c14MergeHistoryChild(tmp, text, okText string) (obs, detail string) {
	exe, err := os.Executable()
	if err != nil {
		return c14MergeHistory(text, okText), ""
	}
	n := atomic.AddInt64(&c14MergeSeq, 1)
	f1 := filepath.Join(tmp, fmt.Sprintf("merge-%d-a.ged", n))
	f2 := filepath.Join(tmp, fmt.Sprintf("merge-%d-b.ged", n))
	os.WriteFile(f1, []byte(text), 0o644)
	os.WriteFile(f2, []byte(okText), 0o644)
	defer os.Remove(f1)
	defer os.Remove(f2)
	ctx, cancel := context.WithTimeout(context.Background(), 40*time.Second)
	defer cancel()
	cmd := exec.CommandContext(ctx, exe, "worker", "c14merge", f1, f2)
	cmd.Env = append(os.Environ(), "GOTRACEBACK=all")
	var stderr strings.Builder
	cmd.Stderr = &stderr
	out, runErr := cmd.Output()
	class, det := c14Classify(runErr, ctx.Err() == context.DeadlineExceeded, stderr.String())
	switch class {
	case "output":
		return strings.TrimSpace(string(out)), ""
	case "timeout":
		return "timeout", det
	case "panic", "fatal":
		return "panic", det
	}
	return "panic", class + ": " + det
}

func init() {
	workers["c14merge"] = func(args []string) int {
		if len(args) != 2 {
			return 2
		}
		a, err1 := os.ReadFile(args[0])
		b, err2 := os.ReadFile(args[1])
		if err1 != nil || err2 != nil {
			return 2
		}
		fmt.Println(c14MergeHistory(string(a), string(b)))
		return 0
	}
}
