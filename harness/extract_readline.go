package main

import (
	"fmt"
	"go/ast"
	"go/parser"
	"go/token"
	"path/filepath"
	"strconv"
	"strings"
)

// Translator for Decoder.readLine (decoder.go): the body is read statement by statement into a
// list of clauses — what one iteration of the byte loop does, in source order:
//
//	onErrReturn        the read failed: return what was accumulated, with the error
//	onByteStop [b…]    the byte is one of b…: return what was accumulated, no error
//	appendByte         the byte is appended to the accumulator
//
// Both `if c { break }` + a trailing return and `switch { case c: return … }` are understood, as
// are the usual accumulators (bytes.Buffer, strings.Builder). Anything else becomes
// `unsupported "<text>"`, which the obligation in Props/C03 rejects.

func readLineClauses(fset *token.FileSet, fn *ast.FuncDecl) []string {
	bad := func(n ast.Node) []string {
		return []string{".unsupported " + strconv.Quote(printNode(fset, n))}
	}
	body := fn.Body.List
	if len(body) < 2 {
		return bad(fn.Body)
	}
	acc := bufferDecl(body[0])
	if acc == "" {
		return bad(body[0])
	}
	loop, ok := body[1].(*ast.ForStmt)
	if !ok || loop.Init != nil || loop.Cond != nil || loop.Post != nil {
		return bad(body[1])
	}
	// the accumulated line as a string
	isLine := func(e ast.Expr) bool {
		switch printNode(fset, e) {
		case "string(" + acc + ".Bytes())", acc + ".String()":
			return true
		}
		return false
	}
	isIdent := func(e ast.Expr, name string) bool {
		id, ok := e.(*ast.Ident)
		return ok && id.Name == name
	}
	// after the loop: nothing (every exit returns) or `return <line>, nil`
	breakMeansReturnLine := false
	switch len(body) {
	case 2:
	case 3:
		ret, ok := body[2].(*ast.ReturnStmt)
		if !ok || len(ret.Results) != 2 || !isLine(ret.Results[0]) || !isIdent(ret.Results[1], "nil") {
			return bad(body[2])
		}
		breakMeansReturnLine = true
	default:
		return bad(body[3])
	}
	its := loop.Body.List
	if len(its) == 0 {
		return bad(loop)
	}
	// b, err := dec.r.ReadByte()
	var bName, errName string
	if as, ok := its[0].(*ast.AssignStmt); ok && as.Tok == token.DEFINE && len(as.Lhs) == 2 && len(as.Rhs) == 1 {
		if printNode(fset, as.Rhs[0]) == "dec.r.ReadByte()" {
			b, _ := as.Lhs[0].(*ast.Ident)
			e, _ := as.Lhs[1].(*ast.Ident)
			if b != nil && e != nil {
				bName, errName = b.Name, e.Name
			}
		}
	}
	if bName == "" {
		return bad(its[0])
	}
	// exits
	exitKind := func(stmts []ast.Stmt) string { // "err" | "line" | ""
		if len(stmts) != 1 {
			return ""
		}
		switch st := stmts[0].(type) {
		case *ast.BranchStmt:
			if st.Tok == token.BREAK && st.Label == nil && breakMeansReturnLine {
				return "line"
			}
		case *ast.ReturnStmt:
			if len(st.Results) == 2 && isLine(st.Results[0]) {
				if isIdent(st.Results[1], errName) {
					return "err"
				}
				if isIdent(st.Results[1], "nil") {
					return "line"
				}
			}
		}
		return ""
	}
	// a condition: `err != nil` or a disjunction of `b == <byte literal>`
	var byteSet func(e ast.Expr) ([]string, bool)
	byteSet = func(e ast.Expr) ([]string, bool) {
		if p, ok := e.(*ast.ParenExpr); ok {
			return byteSet(p.X)
		}
		be, ok := e.(*ast.BinaryExpr)
		if !ok {
			return nil, false
		}
		if be.Op == token.LOR {
			l, ok1 := byteSet(be.X)
			r, ok2 := byteSet(be.Y)
			return append(l, r...), ok1 && ok2
		}
		if be.Op == token.EQL {
			if isIdent(be.X, bName) {
				if v, ok := charLitValue(be.Y); ok && v >= 0 && v < 256 {
					return []string{strconv.Itoa(v)}, true
				}
			}
			if isIdent(be.Y, bName) {
				if v, ok := charLitValue(be.X); ok && v >= 0 && v < 256 {
					return []string{strconv.Itoa(v)}, true
				}
			}
		}
		return nil, false
	}
	isErrCond := func(e ast.Expr) bool { return printNode(fset, e) == errName+" != nil" }
	out := []string{}
	clause := func(conds []ast.Expr, bodyStmts []ast.Stmt, at ast.Node) bool {
		kind := exitKind(bodyStmts)
		if len(conds) == 1 && isErrCond(conds[0]) && kind == "err" {
			out = append(out, ".onErrReturn")
			return true
		}
		if kind == "line" && len(conds) > 0 {
			all := []string{}
			for _, cnd := range conds {
				bs, ok := byteSet(cnd)
				if !ok {
					out = append(out, bad(at)...)
					return false
				}
				all = append(all, bs...)
			}
			out = append(out, ".onByteStop ["+strings.Join(all, ", ")+"]")
			return true
		}
		out = append(out, bad(at)...)
		return false
	}
	for _, st := range its[1:] {
		switch st := st.(type) {
		case *ast.IfStmt:
			if st.Init != nil || st.Else != nil {
				return append(out, bad(st)...)
			}
			if !clause([]ast.Expr{st.Cond}, st.Body.List, st) {
				return out
			}
		case *ast.SwitchStmt:
			if st.Init != nil || st.Tag != nil {
				return append(out, bad(st)...)
			}
			for _, cc := range st.Body.List {
				c := cc.(*ast.CaseClause)
				if len(c.List) == 0 { // default
					return append(out, bad(c)...)
				}
				if !clause(c.List, c.Body, c) {
					return out
				}
			}
		case *ast.ExprStmt:
			if printNode(fset, st.X) == acc+".WriteByte("+bName+")" {
				out = append(out, ".appendByte")
			} else {
				return append(out, bad(st)...)
			}
		default:
			return append(out, bad(st)...)
		}
	}
	return out
}

func init() {
	extractors["ReadLineProgram"] = func() string {
		var b strings.Builder
		b.WriteString("-- Source: decoder.go — the body of Decoder.readLine translated clause by clause (go/ast).\n")
		b.WriteString("import Gedcom.Model.ReadLine\n")
		b.WriteString("namespace Gedcom.Generated\nopen Gedcom.ReadLine\n\n")
		clauses := []string{".unsupported \"readLine not found\""}
		fset := token.NewFileSet()
		file, err := parser.ParseFile(fset, filepath.Join(repoRoot(), "decoder.go"), nil, 0)
		if err == nil {
			for _, d := range file.Decls {
				if fn, ok := d.(*ast.FuncDecl); ok && fn.Body != nil && fn.Name.Name == "readLine" && fn.Recv != nil {
					clauses = readLineClauses(fset, fn)
				}
			}
		}
		fmt.Fprintf(&b, "/-- one iteration of the byte loop of `Decoder.readLine`, in source order -/\ndef readLineProgram : List Clause :=\n  [%s]\n\n", strings.Join(clauses, ",\n   "))
		b.WriteString("end Gedcom.Generated\n")
		return b.String()
	}
}
