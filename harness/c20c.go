package main

// C20 on general dates (month / year precision, Abt. / Bef. / Aft., ranges, half-parsed ranges).
//
// The generator records what every value it writes *means* (c20Range: a start part and an end part,
// each a day / month / year with 0 = not given, or failed), without asking the library's parser.
// From that meaning:
//   * c20ViewOf      — validity, parse error, first / last civil day, Years() of both ends as exact
//                      rationals: the views of lean/Gedcom/Model/WarningsSpec.lean; tied to the Lean
//                      side (which parses the DATE *string* with C04's model) by `warnviews` requests,
//                      together with the decidable guards of the theorems on general dates;
//   * c20ExpectedG   — the documented conditions of the eight warnings over those views: the direct
//                      oracle (S1) for documents with general dates;
//   * c20ThresholdDoc — documents whose general dates sit on either side of every threshold.

import (
	"fmt"
	"math/big"
	"sort"
	"strconv"
	"strings"
	"time"
)

type c20Part struct {
	D, M, Y int
	Failed  bool // this part is not a date: the zero date carrying a parse error
}

type c20Range struct{ S, E c20Part }

const c20DayShift = 719163 // civil day number with 1 Jan 0001 = 1 (Lean) minus Unix day

func (p c20Part) zero() bool { return p.Failed || (p.D == 0 && p.M == 0 && p.Y == 0) }
func (p c20Part) real() bool { return !p.Failed && p.Y >= 1 && p.Y <= 9999 }

func (p c20Part) firstDay() int64 {
	switch {
	case p.M == 0:
		return c20DayOf(p.Y, 1, 1) + c20DayShift
	case p.D == 0:
		return c20DayOf(p.Y, p.M, 1) + c20DayShift
	}
	return c20DayOf(p.Y, p.M, p.D) + c20DayShift
}

func (p c20Part) lastDay() int64 {
	switch {
	case p.M == 0:
		return c20DayOf(p.Y, 12, 31) + c20DayShift
	case p.D == 0:
		return c20DayOf(p.Y, p.M+1, 0) + c20DayShift // day 0 of the next month = last day of this one
	}
	return c20DayOf(p.Y, p.M, p.D) + c20DayShift
}

// years: the fractional year the documentation of Date.Years describes: a day is year +
// (day of the year) / (days in the year + 1), a month the mean of its first and last day, a year
// year + 1/2; a part that is no date is 0.
func (p c20Part) years() *big.Rat {
	if p.zero() || p.Y == 0 {
		return new(big.Rat)
	}
	dayY := func(y, m, d int) *big.Rat {
		t := time.Date(y, time.Month(m), d, 0, 0, 0, 0, time.UTC)
		diy := time.Date(y, 12, 31, 0, 0, 0, 0, time.UTC).YearDay()
		r := big.NewRat(int64(t.YearDay()), int64(diy+1))
		return r.Add(r, big.NewRat(int64(y), 1))
	}
	switch {
	case p.M == 0:
		return big.NewRat(int64(2*p.Y+1), 2)
	case p.D == 0:
		last := time.Date(p.Y, time.Month(p.M+1), 0, 0, 0, 0, 0, time.UTC).Day()
		r := new(big.Rat).Add(dayY(p.Y, p.M, 1), dayY(p.Y, p.M, last))
		return r.Quo(r, big.NewRat(2, 1))
	}
	return dayY(p.Y, p.M, p.D)
}

type c20View struct {
	Known      bool // the generator knows what the value means
	Valid      bool
	PErr       bool
	Real       bool // both ends are days of the years 1..9999
	ZeroLike   bool // neither end is
	SDay, EDay int64
	SY, EY     *big.Rat
	Rng        c20Range
}

func (x c20Date) meaning() (c20Range, bool) {
	switch {
	case x.OK:
		p := c20Part{D: x.D, M: x.M, Y: x.Y}
		return c20Range{p, p}, true
	case x.General:
		if x.Gen == nil {
			return c20Range{}, false
		}
		return *x.Gen, true
	}
	return c20Range{c20Part{Failed: true}, c20Part{Failed: true}}, true
}

func c20ViewOf(x c20Date) c20View {
	r, ok := x.meaning()
	if !ok {
		return c20View{}
	}
	v := c20View{Known: true, Rng: r}
	v.Valid = !r.S.zero() && !r.E.zero()
	v.PErr = r.S.Failed || r.E.Failed
	v.Real = r.S.real() && r.E.real()
	v.ZeroLike = !r.S.real() && !r.E.real()
	v.SDay, v.EDay = 1, 1
	if r.S.real() {
		v.SDay = r.S.firstDay()
	}
	if r.E.real() {
		v.EDay = r.E.lastDay()
	}
	v.SY, v.EY = r.S.years(), r.E.years()
	return v
}

func (v c20View) mid() *big.Rat {
	r := new(big.Rat).Add(v.SY, v.EY)
	return r.Quo(r, big.NewRat(2, 1))
}

func c20Key(y *big.Rat) string { // Years() in units of 1/268644 year: a whole number
	r := new(big.Rat).Mul(y, big.NewRat(268644, 1))
	if !r.IsInt() {
		return "not-integral:" + r.String()
	}
	return r.Num().String()
}

func (d *c20Doc) allDates() (ds []c20Date, ofIndi []bool) {
	for _, rec := range d.Recs {
		evs, isI := []c20Ev(nil), rec.I != nil
		if isI {
			evs = rec.I.Events
		} else {
			evs = rec.F.Events
		}
		for _, e := range evs {
			for _, x := range e.Dates {
				ds = append(ds, x)
				ofIndi = append(ofIndi, isI)
			}
		}
	}
	return
}

// c20TieViews: the views of every DATE and the guards of the general theorems, computed here from the
// generator's meaning and by the Lean side from the DATE strings. Returns the guards.
func c20TieViews(c *Ctx, d *c20Doc, now time.Time) (known, sib, whole, past bool) {
	ds, ofIndi := d.allDates()
	views := make([]c20View, len(ds))
	lo, hi := int64(1)<<40, int64(0)
	for k, x := range ds {
		views[k] = c20ViewOf(x)
		if !views[k].Known {
			c.Count("views: document with a value the generator does not interpret")
			return false, false, false, false
		}
		if views[k].Real {
			for _, v := range []int64{views[k].SDay, views[k].EDay} {
				if v < lo {
					lo = v
				}
				if v > hi {
					hi = v
				}
			}
		}
	}
	if hi == 0 {
		lo, hi = 700000, 700000
	}
	if hi > lo && c.R.Chance(1, 8) { // a window that leaves the latest day out: the guards fail on both sides
		hi--
		c.Count("views: window shrunk by a day")
	}
	nowPart := c20Part{D: now.Day(), M: int(now.Month()), Y: now.Year()}
	nowKey, _ := new(big.Int).SetString(c20Key(nowPart.years()), 10)
	sib, whole, past = true, true, true
	var parts []string
	bit := func(b bool) string {
		if b {
			return "1"
		}
		return "0"
	}
	for k, v := range views {
		sk, ek := c20Key(v.SY), c20Key(v.EY)
		parts = append(parts, fmt.Sprintf("%s%s %d %d %s %s", bit(v.Valid), bit(v.PErr), v.SDay, v.EDay, sk, ek))
		in := v.Real && lo <= v.SDay && v.SDay <= hi && lo <= v.EDay && v.EDay <= hi
		if ofIndi[k] {
			if !(v.PErr || v.ZeroLike || in) {
				sib = false
			}
			ski, ok1 := new(big.Int).SetString(sk, 10)
			eki, ok2 := new(big.Int).SetString(ek, 10)
			if !ok1 || !ok2 || ski.Cmp(nowKey) > 0 || eki.Cmp(nowKey) >= 0 {
				past = false
			}
		}
		if v.Valid && !in {
			whole = false
		}
	}
	line := "-"
	if len(parts) > 0 {
		line = strings.Join(parts, ";")
	}
	line += fmt.Sprintf(" | sib=%s whole=%s past=%s", bit(sib), bit(whole), bit(past))
	// the selections of the specification: estimated birth / death of every individual, first / last
	// valid date of every MARR node
	showSel := func(v c20View, ok bool) string {
		if !ok {
			return "-"
		}
		return fmt.Sprintf("%d,%d,%s,%s", v.SDay, v.EDay, c20Key(v.SY), c20Key(v.EY))
	}
	var sels []string
	for _, rec := range d.Recs {
		if rec.I != nil {
			eb, ebOK, _ := c20EstG(rec.I, []string{"BIRT"}, []string{"BAPM", "BAPL"})
			ed, edOK, _ := c20EstG(rec.I, []string{"DEAT"}, []string{"BURI"})
			sels = append(sels, fmt.Sprintf("I%d %s %s", rec.I.Ptr, showSel(eb, ebOK), showSel(ed, edOK)))
			continue
		}
		for _, e := range rec.F.Events {
			if e.Kind != "MARR" {
				continue
			}
			var ms []c20View
			for _, x := range e.Dates {
				if v := c20ViewOf(x); v.Valid {
					ms = append(ms, v)
				}
			}
			a, aOK, _ := c20Least(ms, false)
			b, bOK, _ := c20Least(ms, true)
			sels = append(sels, fmt.Sprintf("M%d %s %s", rec.F.Ptr, showSel(a, aOK), showSel(b, bOK)))
		}
	}
	if len(sels) == 0 {
		line += " | -"
	} else {
		line += " | " + strings.Join(sels, ";")
	}
	req := strings.SplitN(d.request(now), " ", 5) // warn d m y rest
	c.Tie(fmt.Sprintf("warnviews %s %s %s %d %d %s", req[1], req[2], req[3], lo, hi, req[4]), line)
	inWindow := lo >= 276
	c.Count(fmt.Sprintf("guards: SibDates=%s WholeDates=%s PastDates=%s lo>=276=%s", bit(sib), bit(whole), bit(past), bit(inWindow)))
	return true, sib && inWindow, whole, past
}

// ---------------------------------------------------------------- the specification on general dates

const c20Eps = 1e-9

func c20Near(a, b *big.Rat) bool { // float64 cannot be trusted to order them
	d := new(big.Rat).Sub(a, b)
	f, _ := d.Float64()
	return f < c20Eps && f > -c20Eps
}

func c20Abs(x int64) int64 {
	if x < 0 {
		return -x
	}
	return x
}

// c20FirstBirth: the first DATE of the first BIRT node that has one
func c20FirstBirth(i *c20Indi) (c20View, bool) {
	if i == nil {
		return c20View{}, false
	}
	for _, e := range i.Events {
		if e.Kind == "BIRT" && len(e.Dates) > 0 {
			return c20ViewOf(e.Dates[0]), true
		}
	}
	return c20View{}, false
}

// c20Least: the first of the dates with the least (greatest, when max) Years() of the start (end);
// tie = some other candidate is so close that float64 may order the two either way
func c20Least(vs []c20View, max bool) (best c20View, ok, tie bool) {
	if len(vs) == 0 {
		return c20View{}, false, false
	}
	key := func(v c20View) *big.Rat {
		if max {
			return new(big.Rat).Neg(v.EY)
		}
		return v.SY
	}
	best = vs[0]
	for _, v := range vs[1:] {
		if key(v).Cmp(key(best)) < 0 {
			best = v
		}
	}
	n := 0
	for _, v := range vs {
		if c20Near(key(v), key(best)) {
			n++
		}
	}
	return best, true, n > 1
}

func c20EstG(i *c20Indi, kindSets ...[]string) (c20View, bool, bool) {
	for _, ks := range kindSets {
		var vs []c20View
		for _, k := range ks {
			for _, e := range i.Events {
				if e.Kind == k {
					for _, x := range e.Dates {
						vs = append(vs, c20ViewOf(x))
					}
				}
			}
		}
		if len(vs) > 0 {
			return c20Least(vs, false)
		}
	}
	return c20View{}, false, false
}

func c20PartKey(p c20Part) string {
	if p.Failed {
		return "0.0.0"
	}
	return fmt.Sprintf("%d.%d.%d", p.D, p.M, p.Y)
}

// c20ExpectedG: what the recorded facts warrant, for documents all of whose values the generator
// interprets; dates of every shape. Unclear: decisions float64 may take either way, differences
// beyond the range of time.Duration, ranges that run backwards.
func c20ExpectedG(d *c20Doc, labels map[string]int) c20Spec {
	s := c20Spec{Want: map[string]int{}, Unclear: map[string]bool{}, Multi: map[string]bool{}}
	ind := map[int]*c20Indi{}
	for _, r := range d.Recs {
		if r.I != nil {
			if _, dup := ind[r.I.Ptr]; !dup {
				ind[r.I.Ptr] = r.I
			}
		}
	}
	badKey := func(ctx string, ptr int, x c20Date) string {
		if !x.General && !x.OK {
			return fmt.Sprintf("UnparsableDate %s %d %d", ctx, ptr, x.Label)
		}
		if l, ok := labels[x.Text]; ok {
			return fmt.Sprintf("UnparsableDate %s %d %d", ctx, ptr, l)
		}
		return fmt.Sprintf("UnparsableDate %s %d value:%s", ctx, ptr, hexs(x.Text))
	}
	paths := map[string]int{}
	for _, r := range d.Recs {
		if r.I != nil {
			i := r.I
			for _, e := range i.Events {
				for _, x := range e.Dates {
					if !c20ViewOf(x).Valid {
						s.Want[badKey("I", i.Ptr, x)]++
					}
				}
			}
			// event order: a later-group event that ends before an earlier-group event starts
			for _, e := range i.Events {
				for _, f := range i.Events {
					ge, gf := c20Group(e.Kind), c20Group(f.Kind)
					if ge < 0 || gf <= ge {
						continue
					}
					for _, x := range e.Dates {
						for _, y := range f.Dates {
							vx, vy := c20ViewOf(x), c20ViewOf(y)
							if !vx.Valid || !vy.Valid {
								continue
							}
							key := fmt.Sprintf("IncorrectEventOrder I%d %s %s %s %s", i.Ptr, f.Kind, c20PartKey(vy.Rng.S), e.Kind, c20PartKey(vx.Rng.S))
							if vx.SDay > vx.EDay || vy.SDay > vy.EDay || !vx.Real || !vy.Real {
								s.Unclear[key] = true
							} else if vy.EDay < vx.SDay {
								s.Want[key]++
							}
						}
					}
				}
			}
			// too old
			eb, ebOK, ebTie := c20EstG(i, []string{"BIRT"}, []string{"BAPM", "BAPL"})
			ed, edOK, edTie := c20EstG(i, []string{"DEAT"}, []string{"BURI"})
			if ebOK && edOK && eb.Valid {
				key := fmt.Sprintf("IndividualTooOld I%d", i.Ptr)
				diff := new(big.Rat).Sub(ed.mid(), eb.mid())
				switch {
				case ebTie || edTie || c20Near(diff, big.NewRat(100, 1)) || !eb.Real || (ed.Valid && !ed.Real):
					s.Unclear[key] = true
				case diff.Cmp(big.NewRat(100, 1)) > 0:
					s.Want[key]++
				}
			}
			if len(i.Sexes) > 1 {
				s.Want[fmt.Sprintf("MultipleSexes I%d %d", i.Ptr, len(i.Sexes))]++
			}
			continue
		}
		f := r.F
		for _, e := range f.Events {
			for _, x := range e.Dates {
				if !c20ViewOf(x).Valid {
					s.Want[badKey("F", f.Ptr, x)]++
				}
			}
		}
		parents := []int{f.Husb, f.Wife}
		for _, c := range f.Chil {
			cb, cEx := c20FirstBirth(ind[c])
			for _, p := range parents {
				if p == 0 {
					continue
				}
				key := fmt.Sprintf("ChildBornBeforeParent I%d I%d", p, c)
				paths[key]++
				pb, pEx := c20FirstBirth(ind[p])
				if !cEx || !pEx || !cb.Valid || !pb.Valid {
					continue
				}
				if c20Near(cb.SY, pb.SY) {
					s.Unclear[key] = true
				} else if cb.SY.Cmp(pb.SY) < 0 {
					s.Want[key] = 1
				}
			}
		}
		seen := map[[2]int]bool{}
		for _, a := range f.Chil {
			for _, b := range f.Chil {
				if a >= b || seen[[2]int{a, b}] {
					continue
				}
				seen[[2]int{a, b}] = true
				key := fmt.Sprintf("SiblingsBornTooClose I%d I%d", a, b)
				paths[key]++
				x, xEx := c20FirstBirth(ind[a])
				y, yEx := c20FirstBirth(ind[b])
				if !xEx || !yEx || x.PErr || y.PErr || x.ZeroLike || y.ZeroLike {
					continue
				}
				if !x.Real || !y.Real || x.SDay > x.EDay || y.SDay > y.EDay {
					s.Unclear[key] = true
					continue
				}
				if x.EDay-x.SDay >= 274 || y.EDay-y.SDay >= 274 {
					continue
				}
				gs, ge := c20Abs(x.SDay-y.SDay), c20Abs(x.EDay-y.EDay)
				if gs >= 2 && (gs < 274 || ge < 274) {
					s.Want[key] = 1
				}
			}
		}
		for _, e := range f.Events {
			if e.Kind != "MARR" {
				continue
			}
			var ms []c20View
			for _, x := range e.Dates {
				if v := c20ViewOf(x); v.Valid {
					ms = append(ms, v)
				}
			}
			if len(ms) == 0 {
				continue
			}
			a, _, aTie := c20Least(ms, false)
			b, _, bTie := c20Least(ms, true)
			for _, p := range parents {
				if p == 0 || ind[p] == nil {
					continue
				}
				eb, ebOK, ebTie := c20EstG(ind[p], []string{"BIRT"}, []string{"BAPM", "BAPL"})
				if !ebOK || !eb.Valid {
					continue
				}
				ky := fmt.Sprintf("MarriedOutOfRange F%d I%d young", f.Ptr, p)
				ko := fmt.Sprintf("MarriedOutOfRange F%d I%d old", f.Ptr, p)
				g1, g2 := c20Abs(a.SDay-eb.SDay), c20Abs(b.EDay-eb.EDay)
				hi := g1
				if g2 > hi {
					hi = g2
				}
				if aTie || bTie || ebTie || !a.Real || !b.Real || !eb.Real || hi > 105000 {
					s.Unclear[ky], s.Unclear[ko] = true, true
					continue
				}
				if hi*4 < 16*1461 {
					s.Want[ky]++
				}
				if hi*4 > 100*1461 {
					s.Want[ko]++
				}
			}
		}
		if f.Husb != 0 && f.Wife != 0 && ind[f.Husb] != nil && ind[f.Wife] != nil {
			h, w := ind[f.Husb], ind[f.Wife]
			if len(h.Sexes) > 0 && h.Sexes[0] == "F" && len(w.Sexes) > 0 && w.Sexes[0] == "M" {
				s.Want[fmt.Sprintf("InverseSpouses F%d I%d I%d", f.Ptr, f.Husb, f.Wife)]++
			}
		}
	}
	for k, n := range paths {
		if n > 1 {
			s.Multi[k] = true
		}
	}
	return s
}

// ---------------------------------------------------------------- general dates at the thresholds

func c20FullText(r *Rand, day int64) (string, c20Part) { // day: Unix day
	y, m, d := c20Civil(day)
	return fmt.Sprintf("%d %s %d", d, c20MonthForms[m-1][r.Intn(4)], y), c20Part{D: d, M: m, Y: y}
}

// c20Span: a value whose first day is `day` and whose last day is `day+w`
func c20Span(c *Ctx, r *Rand, day int64, w int64) c20Date {
	t1, p1 := c20FullText(r, day)
	if w == 0 {
		switch r.Intn(6) {
		case 0:
			c.Count("gen-shape=exact-day")
			return c20OK(r, day)
		case 1:
			c.Count("gen-shape=abt-day")
			return c20Date{General: true, Text: c20Pick3(r, "Abt. ", "ABT ", "abt ") + t1, Gen: &c20Range{p1, p1}}
		case 2:
			c.Count("gen-shape=bef-day")
			return c20Date{General: true, Text: c20Pick3(r, "Bef. ", "BEF ", "before ") + t1, Gen: &c20Range{p1, p1}}
		case 3:
			c.Count("gen-shape=aft-day")
			return c20Date{General: true, Text: c20Pick3(r, "Aft. ", "AFT ", "after ") + t1, Gen: &c20Range{p1, p1}}
		case 4:
			c.Count("gen-shape=one-day-range")
			return c20Date{General: true, Text: "Bet. " + t1 + " and " + t1, Gen: &c20Range{p1, p1}}
		}
		c.Count("gen-shape=exact-day")
		return c20OK(r, day)
	}
	t2, p2 := c20FullText(r, day+w)
	c.Count("gen-shape=day-range")
	form := c20Pick3(r, "Bet. %s and %s", "Between %s and %s", "From %s to %s")
	return c20Date{General: true, Text: fmt.Sprintf(form, t1, t2), Gen: &c20Range{p1, p2}}
}

// c20MonthOf / c20YearOf: month and year precision, with or without a constraint word
func c20MonthOf(c *Ctx, r *Rand, y, m int) c20Date {
	c.Count("gen-shape=month")
	word := []string{"", "", "Abt. ", "Bef. ", "Aft. "}[r.Intn(5)]
	p := c20Part{M: m, Y: y}
	return c20Date{General: true, Text: fmt.Sprintf("%s%s %d", word, c20MonthForms[m-1][r.Intn(4)], y), Gen: &c20Range{p, p}}
}

func c20YearOf(c *Ctx, r *Rand, y int) c20Date {
	c.Count("gen-shape=year")
	word := []string{"", "", "Abt. ", "Bef. ", "Aft. "}[r.Intn(5)]
	p := c20Part{Y: y}
	return c20Date{General: true, Text: fmt.Sprintf("%s%d", word, y), Gen: &c20Range{p, p}}
}

func c20MonthRange(c *Ctx, r *Rand, y1, m1, y2, m2 int) c20Date {
	c.Count("gen-shape=month-range")
	p1, p2 := c20Part{M: m1, Y: y1}, c20Part{M: m2, Y: y2}
	return c20Date{General: true, Text: fmt.Sprintf("Bet. %s %d and %s %d", c20MonthForms[m1-1][0], y1, c20MonthForms[m2-1][0], y2), Gen: &c20Range{p1, p2}}
}

func c20YearRange(c *Ctx, r *Rand, y1, y2 int) c20Date {
	c.Count("gen-shape=year-range")
	p1, p2 := c20Part{Y: y1}, c20Part{Y: y2}
	return c20Date{General: true, Text: fmt.Sprintf("Bet. %d and %d", y1, y2), Gen: &c20Range{p1, p2}}
}

func c20HalfRange(c *Ctx, r *Rand, day int64) c20Date {
	c.Count("gen-shape=half-parsed-range")
	t, p := c20FullText(r, day)
	if r.Bool() {
		return c20Date{General: true, Text: "Bet. " + t + " and whenever", Gen: &c20Range{p, c20Part{Failed: true}}}
	}
	return c20Date{General: true, Text: "Bet. sometime and " + t, Gen: &c20Range{c20Part{Failed: true}, p}}
}

// c20Around: some value of any shape whose start lies at `day` (Unix day), give or take the precision
func c20Around(c *Ctx, r *Rand, day int64) c20Date {
	y, m, _ := c20Civil(day)
	switch r.Intn(8) {
	case 0:
		return c20MonthOf(c, r, y, m)
	case 1:
		return c20YearOf(c, r, y)
	case 2:
		return c20Span(c, r, day, int64(c20Pick(r, []int{1, 5, 30, 200, 272, 273, 274, 275, 400})))
	case 3:
		return c20MonthRange(c, r, y, m, y, m+r.Intn(13-m))
	default:
		return c20Span(c, r, day, 0)
	}
}

// c20ThresholdDoc: four small families and a few single people; every relationship is a general date
// against a general date, a few days (or one unit of the precision) on either side of a threshold.
func c20ThresholdDoc(c *Ctx, r *Rand) *c20Doc {
	d := &c20Doc{}
	ev := func(kind string, ds ...c20Date) c20Ev { return c20Ev{Kind: kind, Tag: kind, Dates: ds} }
	indi := func(ptr int, evs ...c20Ev) {
		sex := []string{"M", "F"}[r.Intn(2)]
		i := &c20Indi{Ptr: ptr, Sexes: []string{sex}, Events: evs}
		i.merge = c20Merge(r, 1, len(evs))
		d.Recs = append(d.Recs, c20Rec{I: i})
	}
	fam := func(ptr, husb, wife int, chil []int, evs ...c20Ev) {
		f := &c20Fam{Ptr: ptr, Husb: husb, Wife: wife, Chil: chil, Events: evs}
		f.merge = c20Merge(r, len(chil), len(evs))
		d.Recs = append(d.Recs, c20Rec{F: f})
	}
	base := c20DayOf(1760+r.Intn(80), 1+r.Intn(12), 1) // first of a month
	by, bm, _ := c20Civil(base)

	// family 1: siblings. child 1 spans [base, base+w1]; child 2 starts `gap` days later and spans w2;
	// child 3 is a month / year / half-parsed value nearby
	w1 := int64(c20Pick(r, []int{0, 0, 1, 30, 272, 273, 274, 275}))
	gap := int64(c20Pick(r, []int{0, 1, 2, 3, 100, 272, 273, 274, 275, 300, 500}))
	w2 := int64(c20Pick(r, []int{0, 0, 1, 30, 273, 274}))
	if r.Chance(1, 4) { // starts at least 274 days apart, ends fewer than 274 days apart
		w1, gap, w2 = int64(200+r.Intn(73)), int64(274+r.Intn(100)), 0
	}
	if gap > 275 && gap < 500 && gap != 300 {
		c.Count("gen-sib-starts>=274-apart-ends<274-apart")
	} else {
		c.Count(fmt.Sprintf("gen-sib-start-gap=%d", gap))
		c.Count(fmt.Sprintf("gen-sib-width=%d/%d", w1, w2))
	}
	indi(1, ev("BIRT", c20Span(c, r, base, w1)))
	indi(2, ev("BIRT", c20Span(c, r, base+gap, w2)))
	var third c20Date
	switch r.Intn(4) {
	case 0:
		third = c20MonthOf(c, r, by, bm)
	case 1:
		third = c20YearOf(c, r, by)
	case 2:
		third = c20HalfRange(c, r, base+int64(r.Intn(200)))
	default:
		y3, m3, _ := c20Civil(base + int64(c20Pick(r, []int{31, 62, 240, 270, 280, 310})))
		third = c20MonthOf(c, r, y3, m3)
	}
	indi(3, ev("BIRT", third))
	// parents of family 1: born around 25 years earlier — or, for the child-before-parent check, within
	// days of child 1 / as the month or the year that contains child 1's birth
	pb := base - 9000 - int64(r.Intn(3000))
	var father c20Date
	cb := int64(c20Pick(r, []int{-3, -1, 0, 1, 3, 40}))
	switch r.Intn(5) {
	case 0:
		father = c20Span(c, r, base+cb, int64(c20Pick(r, []int{0, 0, 2, 40})))
		c.Count(fmt.Sprintf("gen-cbbp-parent-start=child%+d", cb))
	case 1:
		father = c20MonthOf(c, r, by, bm) // the month of the child's birth (the child is born on its 1st)
		c.Count("gen-cbbp-parent=month-of-child")
	case 2:
		father = c20YearOf(c, r, by)
		c.Count("gen-cbbp-parent=year-of-child")
	default:
		father = c20Around(c, r, pb)
	}
	indi(4, ev("BIRT", father))
	indi(5, ev("BIRT", c20Around(c, r, pb+int64(r.Intn(2000)))))
	// marriages of family 1: 16 and 100 years (of 365.25 days) after the father's first day
	fv := c20ViewOf(father)
	marr := func(from int64, years int) c20Date { // from: Lean day
		limit := int64(years) * 1461 / 4 // 5844 / 36525
		off := int64(c20Pick(r, []int{-3, -2, -1, 0, 1, 2, 3, -31, 31}))
		c.Count(fmt.Sprintf("gen-marr-%dy%+d", years, off))
		day := from - c20DayShift + limit + off
		switch r.Intn(4) {
		case 0:
			y, m, _ := c20Civil(day)
			return c20MonthOf(c, r, y, m)
		case 1:
			return c20Span(c, r, day-int64(r.Intn(3)), int64(r.Intn(3)))
		}
		return c20Span(c, r, day, 0)
	}
	var mevs []c20Ev
	if fv.Known && fv.Real {
		ds := []c20Date{marr(fv.SDay, []int{16, 16, 100}[r.Intn(3)])}
		if r.Chance(1, 3) {
			ds = append(ds, marr(fv.SDay, 16))
		}
		mevs = append(mevs, ev("MARR", ds...))
		if r.Chance(1, 3) {
			mevs = append(mevs, ev("MARR", marr(fv.EDay, 100)))
		}
	}
	chil := []int{1, 2, 3}
	if r.Bool() {
		chil = []int{3, 2, 1}
	}
	fam(1, 4, 5, chil, mevs...)

	// single people: death a hundred years after the birth, give or take; burial against the death
	for p := 6; p <= 8; p++ {
		b := base - int64(r.Intn(20000))
		birth := c20Around(c, r, b)
		bv := c20ViewOf(birth)
		yb, mb, _ := c20Civil(b)
		var death c20Date
		switch r.Intn(6) {
		case 0:
			death = c20YearOf(c, r, yb+c20Pick(r, []int{99, 100, 101}))
			c.Count("gen-old=year")
		case 1:
			death = c20MonthOf(c, r, yb+100, 1+(mb-1+c20Pick(r, []int{11, 0, 1}))%12)
			c.Count("gen-old=month")
		case 2:
			death = c20YearRange(c, r, yb+c20Pick(r, []int{98, 99, 100}), yb+c20Pick(r, []int{100, 101, 102}))
			c.Count("gen-old=year-range")
		case 3:
			death = c20Span(c, r, c20DayOf(yb+100, mb, 1)+int64(c20Pick(r, []int{-40, -3, -1, 0, 1, 3, 40})), int64(c20Pick(r, []int{0, 0, 10, 300})))
			c.Count("gen-old=day-or-range")
		default:
			death = c20Around(c, r, b+int64(10000+r.Intn(20000)))
			c.Count("gen-old=ordinary")
		}
		evs := []c20Ev{ev("BIRT", birth)}
		if p == 7 && r.Bool() { // a second birth date: the estimate is the one that starts first
			evs[0].Dates = append(evs[0].Dates, c20Around(c, r, b+int64(c20Pick(r, []int{-400, -20, 20, 400}))))
		}
		if bv.Known && r.Chance(1, 3) {
			evs = append(evs, ev("BAPM", c20Around(c, r, b+int64(c20Pick(r, []int{-40, -1, 0, 1, 20, 40})))))
		}
		evs = append(evs, ev("DEAT", death))
		dv := c20ViewOf(death)
		if dv.Known && dv.Real {
			// burial: ends before the death starts / touches it / overlaps it / lies after it
			ds, de := dv.SDay-c20DayShift, dv.EDay-c20DayShift
			w := int64(c20Pick(r, []int{0, 0, 3, 30}))
			var bur c20Date
			switch r.Intn(6) {
			case 0:
				bur = c20Span(c, r, ds-w-1, w)
				c.Count("gen-order=burial-ends-the-day-before-death-starts")
			case 1:
				bur = c20Span(c, r, ds-w, w)
				c.Count("gen-order=burial-ends-on-the-first-day-of-death")
			case 2:
				bur = c20Span(c, r, ds-w+1, w+int64(r.Intn(5)))
				c.Count("gen-order=burial-overlaps-death")
			case 3:
				y, m, _ := c20Civil(ds - 1)
				bur = c20MonthOf(c, r, y, m)
				c.Count("gen-order=burial-month-before-or-of-death")
			default:
				bur = c20Span(c, r, de+int64(r.Intn(10)), w)
				c.Count("gen-order=burial-after-death")
			}
			evs = append(evs, ev("BURI", bur))
		}
		indi(p, evs...)
	}
	if r.Bool() {
		c20ShuffleRecs(r, d)
	}
	return d
}

func c20SortedWant(s c20Spec) string {
	var ks []string
	for k, n := range s.Want {
		ks = append(ks, k+"x"+strconv.Itoa(n))
	}
	sort.Strings(ks)
	return strings.Join(ks, "; ")
}

func c20HasGeneral(d *c20Doc) bool {
	ds, _ := d.allDates()
	for _, x := range ds {
		if x.General {
			return true
		}
	}
	return false
}

// c20FarSiblings: the witness of the defect repaired by fixes/C20-duration-saturates.patch
// (Gedcom.C20.siblings_292_years_regression): child 1 born on 1 Jan 1600, child 2 "Bet. 10 Apr 1892
// and 11 Apr 1892", 106751 days later by the first day and 106752 by the last. The difference of the
// last days is beyond time.Duration; before the repair the pair was reported as born too close. Kept in
// every run: judged by the correspondence and by the specification oracle (no warning is warranted).
func c20FarSiblings(r *Rand) *c20Doc {
	d := &c20Doc{}
	p1, p2 := c20Part{D: 10, M: 4, Y: 1892}, c20Part{D: 11, M: 4, Y: 1892}
	i1 := &c20Indi{Ptr: 1, Sexes: []string{"M"}, Events: []c20Ev{{Kind: "BIRT", Tag: "BIRT", Dates: []c20Date{{OK: true, D: 1, M: 1, Y: 1600, Text: "1 Jan 1600"}}}}}
	i2 := &c20Indi{Ptr: 2, Sexes: []string{"F"}, Events: []c20Ev{{Kind: "BIRT", Tag: "BIRT", Dates: []c20Date{{General: true, Text: "Bet. 10 Apr 1892 and 11 Apr 1892", Gen: &c20Range{p1, p2}}}}}}
	i1.merge, i2.merge = c20Merge(r, 1, 1), c20Merge(r, 1, 1)
	f := &c20Fam{Ptr: 1, Chil: []int{1, 2}}
	f.merge = c20Merge(r, 2, 0)
	d.Recs = []c20Rec{{I: i1}, {I: i2}, {F: f}}
	return d
}
