package main

import (
	"fmt"
	"io/ioutil"
	"os"
	"strings"
)

// c03case: (T) outcome class + error line against the model, (S) the property on the implementation:
// a document, an error naming a line, or the tolerated panic while invalid indents are not allowed.
func c03case(c *Ctx, text string, multi, inv bool, kind string) {
	obs, _ := decObserve(text, multi, inv)
	c.Tie(decReq(text, multi, inv), obs)
	c.Eval()
	f := strings.Fields(obs)
	c.Count("outcome=" + f[0])
	c.Count("input=" + kind)
	c.Nontrivial(f[0] + "/" + text)
	in := map[string]interface{}{"text_hex": hexs(text), "allowMultiLine": multi, "allowInvalidIndents": inv}
	switch f[0] {
	case "ok":
	case "hang":
		c.Oracle("", fmt.Sprintf("decoding does not terminate (no result within %v)", decTimeout), in, obs, "a document or an error")
	case "hang-skipped":
	case "err":
		if len(f) != 2 || f[1] == "?" {
			c.Oracle("", "the error does not name the offending line", in, obs, "err <line>")
		}
	case "panic":
		if obs != "panic indentTooLarge" {
			c.Oracle("", "decoding panics", in, obs, "a document or an error")
		} else if inv {
			c.Oracle("", "the 'indent is too large' panic although invalid indents are allowed", in, obs, "a document or an error")
		}
	}
}

func c03all(c *Ctx, text, kind string) {
	for _, o := range [][2]bool{{false, false}, {true, false}, {false, true}, {true, true}} {
		c03case(c, text, o[0], o[1], kind)
	}
}

func c03RandomBytes(r *Rand) string {
	n := r.Intn(60)
	b := make([]byte, n)
	alpha := "0123456789 @\n\r_ABCxyz\t\xef\xbb\xbf\x00\xff"
	for i := range b {
		if r.Chance(3, 4) {
			b[i] = alpha[r.Intn(len(alpha))]
		} else {
			b[i] = byte(r.Intn(256))
		}
	}
	return string(b)
}

func init() {
	runners["C03"] = func(c *Ctx) {
		c.Rule = "arbitrary byte strings: random bytes over a GEDCOM-biased alphabet, truncated and byte-mutated GEDCOM, structure-aware adversarial files (first line at level > 0, HUSB/WIFE/CHIL before or outside any family, record tags nested under other records, empty values, very long lines), each under the 4 option combinations; distinct = (outcome class, text)"
		corpus := []string{
			"", "\xef\xbb\xbf", "\xef\xbb", "0", "0 ", "0 A", "1 NAME x", "1 NAME x\n0 A\n", "5 X\n", "9999999999999999999999 X\n",
			"0 HUSB @I1@", "0 WIFE @I1@\n", "0 CHIL @I1@", "0 HEAD\n1 HUSB @I1@\n", "0 HEAD\n1 CHIL\n", "0 @F1@ FAM\n1 HUSB\n1 WIFE\n1 CHIL\n",
			"0 NOTE\n1 @I1@ INDI\n2 @F1@ FAM\n3 HUSB @I1@\n", "0 @I1@ INDI\n1 @I2@ INDI\n",
			"0 A\n2 B\n", "0 A\n1 B\n3 C\n", "0 A\n1 B\n9 C\n1 D\n", "0 A\n10 B\n", "0 A\n1 B\n2 C\n3 D\n4 E\n5 F\n6 G\n7 H\n8 I\n9 J\n10 K\n11 L\n",
			"garbage", "\n\n\n", "\r\r", "0 A\r\n\r\nfoo\r\n", "foo\n0 A\n", "0 @@ A\n", "0 @x@A\n", "0 @x A\n", "0 @ A\n",
			"0 A \n", "0 A  \n", "0 A\xc2\xa0\n", "0  A\n", "00 A\n", "01 A\n", "0 A\n01 B\n",
			"0 A" + strings.Repeat(" x", 50000) + "\n",
		}
		for _, t := range corpus {
			c03all(c, t, "corpus")
		}
		c.Sample(map[string]string{"text": "0 HUSB @I1@", "meaning": "role line outside any family"})
		c.Sample(map[string]string{"text": "1 NAME x", "meaning": "first line at level 1"})
		n := c.N(25000, 750000)
		for i := 0; i < n; i++ {
			switch c.R.Intn(5) {
			case 0:
				c03all(c, c03RandomBytes(c.R), "random-bytes")
			case 1:
				c03all(c, decMutate(c.R, decRealistic), "mutated-realistic")
			case 2:
				c03all(c, decGenText(c.R, 30, true), "faulty-structure")
			case 3:
				c03all(c, decMutate(c.R, decGenText(c.R, 20, true)), "mutated-faulty")
			default:
				t := decGenText(c.R, 20, true)
				c03all(c, t[:c.R.Intn(len(t)+1)], "truncated")
			}
		}
		long := fmt.Sprintf("0 NOTE %s\n", strings.Repeat("\xc2\xa0y ", c.N(30000, 300000)))
		c03all(c, long, "long-line")
		// more open levels than any fixed table: chains of 98..300 (thorough 2000) nested nodes, with
		// and without an over-deep line at the bottom
		deeps := []int{98, 99, 100, 101, 128, 150, 256, 300}
		if c.Tier == "thorough" {
			deeps = append(deeps, 1000, 2000)
		}
		for _, d := range deeps {
			var sb strings.Builder
			for l := 0; l <= d; l++ {
				fmt.Fprintf(&sb, "%d NOTE level %d\n", l, l)
			}
			chain := sb.String()
			c03all(c, chain, "deep-chain")
			c03all(c, chain+fmt.Sprintf("%d X over-deep\n", d+5), "deep-chain-over-deep")
			c03all(c, chain+"1 Y back\n"+fmt.Sprintf("%d Z\n", d), "deep-chain-dedent")
		}
		// long files whose offending line is far from the end (early exits with much unread input)
		tails := []int{10, 200, 300, 700, 2500}
		if c.Tier == "thorough" {
			tails = append(tails, 10000, 50000)
		}
		bads := []string{"foo bar", "1 HUSB @I1@", "7 X over-deep", "", "@I1@ INDI", "1"}
		for _, tail := range tails {
			var tb strings.Builder
			for i := 0; i < tail; i++ {
				if i%5 == 0 {
					fmt.Fprintf(&tb, "0 @N%d@ NOTE n\n", i)
				} else {
					fmt.Fprintf(&tb, "1 CONT line %d\n", i)
				}
			}
			for _, bad := range bads {
				for _, head := range []string{"", "0 HEAD\n1 CHAR UTF-8\n", "0 HEAD\n1 A\n2 B\n"} {
					c03all(c, head+bad+"\n"+tb.String(), "long-tail-after-bad-line")
				}
			}
			c03all(c, "1 NAME first line at level 1\n"+tb.String(), "long-tail-after-bad-line")
		}
		// the documented entry points (document.go) on the corpus and on generated streams
		if dir, err := ioutil.TempDir("", "c03entry-"); err == nil {
			texts := append([]string{}, corpus...)
			for i := 0; i < c.N(400, 8000); i++ {
				switch i % 3 {
				case 0:
					texts = append(texts, decGenText(c.R, 15, true))
				case 1:
					texts = append(texts, decMutate(c.R, decRealistic))
				default:
					texts = append(texts, c03RandomBytes(c.R))
				}
			}
			c03entry(c, dir, texts)
			os.RemoveAll(dir)
		}
		// the command line's decoder options (cmd/gedcom/diff.go)
		c03CLI(c)
	}
}
