package main

// C20, edit histories: the warnings are asked for, a DATE below an event that already exists is
// added / replaced / deleted in place (through the event node, through the individual's Add…Date
// helpers), and the warnings are asked for again. The second answer must be the warnings of the
// tree as it is now: the model's on the current abstract document (correspondence), the specified
// multiset (oracle S1), and what a freshly decoded copy of the current text reports.

import (
	"fmt"
	"strings"
	"time"

	"github.com/elliotchance/gedcom/v39"
)

var c20EditOffsets = []int{-51000, -40000, -20000, -6000, -400, -1, 1, 30, 273, 274, 300, 5000, 6000, 20000, 36600, 40200, 45000, 51000}

// c20EventNodes: the children of the live individual that correspond to i.Events, in order.
func c20EventNodes(ind *gedcom.IndividualNode) []gedcom.Node {
	var out []gedcom.Node
	for _, n := range ind.Nodes() {
		switch n.Tag().Tag() {
		case "NAME", "SEX":
		default:
			out = append(out, n)
		}
	}
	return out
}

func c20EditHistory(c *Ctx, d *c20Doc, doc *gedcom.Document, labels map[string]int, style string, now time.Time, firstLine string) {
	r := c.R
	var people []*c20Indi
	for _, rec := range d.Recs {
		if rec.I != nil && len(rec.I.Events) > 0 {
			people = append(people, rec.I)
		}
	}
	if len(people) == 0 {
		return
	}
	lo, hi := c20DayOf(1745, 1, 1), c20DayOf(2021, 1, 1)
	maxLabel := 0
	for _, l := range labels {
		if l > maxLabel {
			maxLabel = l
		}
	}
	docMin, docMax := hi, lo
	for _, rec := range d.Recs {
		evs := []c20Ev{}
		if rec.I != nil {
			evs = rec.I.Events
		} else {
			evs = rec.F.Events
		}
		for _, e := range evs {
			for _, dt := range e.Dates {
				if dt.OK {
					if x := dt.day(); x < docMin {
						docMin = x
					}
					if x := dt.day(); x > docMax {
						docMax = x
					}
				}
			}
		}
	}
	if docMax-docMin > 102000 {
		// already more than 280 years between two dates: an edit could make an age of more than
		// 292 years, where the float64 -> int64 conversion of NewAgeWithYears is platform-defined
		c.Count("edit-history-skipped-span")
		return
	}
	var history []string
	start := d.text()
	steps := 1 + r.Intn(3)
	for step := 0; step < steps; step++ {
		i := people[r.Intn(len(people))]
		ind := doc.Individuals().ByPointer(fmt.Sprintf("I%d", i.Ptr))
		if ind == nil {
			return
		}
		ens := c20EventNodes(ind)
		if len(ens) != len(i.Events) {
			c.Oracle("", "harness: live events and described events differ", map[string]interface{}{"gedcom": start}, fmt.Sprint(len(ens)), fmt.Sprint(len(i.Events)))
			return
		}
		// prefer the vital events: the estimates of birth and death are made from them
		ei := r.Intn(len(i.Events))
		for try := 0; try < 4 && c20Group(i.Events[ei].Kind) < 0; try++ {
			ei = r.Intn(len(i.Events))
		}
		ev, en := &i.Events[ei], ens[ei]
		// the new value: a day at a chosen distance from a date the person already has
		base := c20DayOf(1800+r.Intn(90), 1+r.Intn(12), 1+r.Intn(28))
		for _, e := range i.Events {
			for _, dt := range e.Dates {
				if dt.OK {
					base = dt.day()
				}
			}
		}
		if r.Chance(1, 2) {
			for _, dt := range ev.Dates {
				if dt.OK {
					base = dt.day()
				}
			}
		}
		day := base + int64(c20Pick(r, c20EditOffsets))
		// no two dates of a document more than 290 years apart (see the notes of the runner)
		if day < docMax-104000 {
			day = docMax - 104000
		}
		if day > docMin+104000 {
			day = docMin + 104000
		}
		if day < lo {
			day = lo + int64(r.Intn(3000))
		}
		if day > hi {
			day = hi - int64(r.Intn(3000))
		}
		nd := c20OK(r, day)
		if day < docMin {
			docMin = day
		}
		if day > docMax {
			docMax = day
		}
		if style != "clean" && style != "longbefore" && r.Chance(1, 8) {
			maxLabel++
			nd = c20Bad(r, maxLabel)
			labels[nd.Text] = nd.Label
		}
		op := r.Intn(5)
		if len(ev.Dates) == 0 && op != 4 {
			op = 0
		}
		j := 0
		if len(ev.Dates) > 0 {
			j = r.Intn(len(ev.Dates))
		}
		where := fmt.Sprintf("@I%d@ %s[%d]", i.Ptr, ev.Tag, ei)
		switch op {
		case 0:
			en.AddNode(gedcom.NewDateNode(nd.Text))
			ev.Dates = append(ev.Dates, nd)
			history = append(history, fmt.Sprintf("%s.AddNode(DATE %s)", where, nd.Text))
		case 1:
			ns := append(gedcom.Nodes{}, en.Nodes()...)
			ns[j] = gedcom.NewDateNode(nd.Text)
			en.SetNodes(ns)
			old := ev.Dates[j].Text
			ev.Dates = append([]c20Date{}, ev.Dates...)
			ev.Dates[j] = nd
			history = append(history, fmt.Sprintf("%s.SetNodes(DATE %s -> DATE %s)", where, old, nd.Text))
		case 2:
			en.DeleteNode(en.Nodes()[j])
			history = append(history, fmt.Sprintf("%s.DeleteNode(DATE %s)", where, ev.Dates[j].Text))
			ev.Dates = append(append([]c20Date{}, ev.Dates[:j]...), ev.Dates[j+1:]...)
		case 3:
			en.DeleteNode(en.Nodes()[j])
			en.AddNode(gedcom.NewDateNode(nd.Text))
			history = append(history, fmt.Sprintf("%s.DeleteNode(DATE %s), AddNode(DATE %s)", where, ev.Dates[j].Text, nd.Text))
			ev.Dates = append(append(append([]c20Date{}, ev.Dates[:j]...), ev.Dates[j+1:]...), nd)
		default:
			// the individual's helper puts the date below the first event of the kind
			var tag string
			switch ev.Tag {
			case "BIRT", "DEAT", "BURI", "BAPM":
				tag = ev.Tag
			default:
				en.AddNode(gedcom.NewDateNode(nd.Text))
				ev.Dates = append(ev.Dates, nd)
				history = append(history, fmt.Sprintf("%s.AddNode(DATE %s)", where, nd.Text))
			}
			if tag != "" {
				switch tag {
				case "BIRT":
					ind.AddBirthDate(nd.Text)
				case "DEAT":
					ind.AddDeathDate(nd.Text)
				case "BURI":
					ind.AddBurialDate(nd.Text)
				case "BAPM":
					ind.AddBaptismDate(nd.Text)
				}
				for k := range i.Events {
					if i.Events[k].Tag == tag {
						i.Events[k].Dates = append(i.Events[k].Dates, nd)
						break
					}
				}
				history = append(history, fmt.Sprintf("@I%d@.Add%sDate(%s)", i.Ptr, map[string]string{"BIRT": "Birth", "DEAT": "Death", "BURI": "Burial", "BAPM": "Baptism"}[tag], nd.Text))
			}
		}
		// between the edits somebody asks again (every way of asking reads the estimates)
		if step+1 < steps {
			switch r.Intn(4) {
			case 0:
				doc.Warnings()
				history = append(history, "Warnings()")
			case 1:
				ind.Age()
				history = append(history, fmt.Sprintf("@I%d@.Age()", i.Ptr))
			case 2:
				ind.IsLiving()
				history = append(history, fmt.Sprintf("@I%d@.IsLiving()", i.Ptr))
			default:
				ind.EstimatedBirthDate()
				ind.EstimatedDeathDate()
				history = append(history, fmt.Sprintf("@I%d@.EstimatedBirthDate(), EstimatedDeathDate()", i.Ptr))
			}
		}
	}
	cur := d.text()
	input := map[string]interface{}{"gedcom": start, "style": style,
		"history": "decode; Warnings(); " + strings.Join(history, "; ") + "; Warnings()", "current": cur}
	fresh, err := c20Decode(cur)
	if err != nil {
		return
	}
	if got, want := doc.String(), fresh.String(); got != want {
		c.Oracle("", "harness: the edited document is not the described one", input, got, want)
		return
	}
	obs, pan := c20Observe(doc, labels)
	if pan != "" {
		c.Oracle("", "Document.Warnings() panics after an edit below an event", input, "panic: "+pan, "a list of warnings")
		return
	}
	c.Count("edit-history")
	if obs.Line != firstLine {
		c.Count("edit-history-changed-the-warnings")
	}
	c.Count(fmt.Sprintf("edit-history-steps=%d", steps))
	// the current tree against the model and against the specification
	c.Tie(d.request(now), obs.Line)
	c.Eval()
	c20CheckSpec(c, d, obs, input, labels)
	// the current tree against a copy of it that has no past
	fobs, fpan := c20Observe(fresh, labels)
	if fpan != "" || fobs.Line != obs.Line {
		c.Oracle("", "after an edit below an existing event the warnings are not those of the document as it is now", input,
			obs.Line, fobs.Line+fpan+"  (Warnings() of a freshly decoded copy of the current text)")
	}
}
