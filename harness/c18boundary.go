package main

// C18 boundary and history corpus (notes/boundary-audit.md): fixed shapes that run before the
// random streams of both tiers.
//
//   components: value lengths 0/1/63/64/65/255/256/4096/65536 with a special character (or a
//     straddling &nbsp;) at the first byte, the last byte and at offsets 63/64/65/4095/4096, runs of
//     special characters, in every data sink of html/core; tables / rows / heads / attribute maps /
//     component lists of 0/1/64/65 entries.  Correspondence with the model plus a direct oracle:
//     the number of < > " bytes written does not depend on the value.
//   documents: the same value shapes in names, places, notes and source properties; 0/1/64/65/256
//     records, 0/1/16/64/65 names and 64/65 events per individual, 3/4/5/8/16/65 children per
//     family, source properties nested 8/16/32/64 deep; every record kind (HEAD, SUBM, OBJE, NOTE,
//     REPO, custom records and custom tags, citations) with tainted pointers and values; values that
//     are a single delimiter or all non-ASCII; published with jobs 1/2/8 (also more jobs than
//     pages), diff report in each -show x -sort, HTML query output.
//   histories: in one process a document without taint first, then the tainted one (and the other
//     way round) for publish, diff and query — the second output must equal that of a fresh process.

import (
	"bytes"
	"fmt"
	"strconv"
	"strings"
	"time"

	"github.com/elliotchance/gedcom/v39/html/core"
)

var c18Lengths = []int{0, 1, 63, 64, 65, 255, 256, 4096, 65536}

func c18Positions(l int) []int {
	var ps []int
	seen := map[int]bool{}
	for _, p := range []int{0, l - 1, 63, 64, 65, 4095, 4096} {
		if p >= 0 && p < l && !seen[p] {
			seen[p] = true
			ps = append(ps, p)
		}
	}
	return ps
}

// c18PlainAt: `fill` bytes with `special` written over them at offset pos (clipped to the length).
func c18PlainAt(l, pos int, special string, fill byte) string {
	b := bytes.Repeat([]byte{fill}, l)
	for i := 0; i < len(special) && pos+i < l; i++ {
		b[pos+i] = special[i]
	}
	return string(b)
}

type c18Sink struct {
	name string
	mk   func(v string) (core.Component, string)
}

func c18DataSinks() []c18Sink {
	txt := func() (core.Component, string) { return core.NewText("x"), "text 78" }
	return []c18Sink{
		{"NewText", func(v string) (core.Component, string) { return core.NewText(v), "text " + hexs(v) }},
		{"NewTag.value", func(v string) (core.Component, string) {
			b, d := txt()
			return core.NewTag("a", map[string]string{"href": v}, b), "tag 61 1 68726566 " + hexs(v) + " " + d
		}},
		{"NewAnchor", func(v string) (core.Component, string) { return core.NewAnchor(v), "anchor " + hexs(v) }},
		{"NewTableHead", func(v string) (core.Component, string) { return core.NewTableHead(v), "thead 1 " + hexs(v) }},
		{"NewLink.dest", func(v string) (core.Component, string) {
			b, d := txt()
			return core.NewLink(b, v), "link " + hexs(v) + " - " + d
		}},
		{"NewNavLink.text", func(v string) (core.Component, string) {
			return core.NewNavLink(v, "#", false), "navlink " + hexs(v) + " 23 0"
		}},
		{"NewNavLink.link", func(v string) (core.Component, string) {
			return core.NewNavLink("t", v, true), "navlink 74 " + hexs(v) + " 1"
		}},
		{"NewNavItem.href", func(v string) (core.Component, string) {
			b, d := txt()
			return core.NewNavItem(b, false, v), "navitem 0 " + hexs(v) + " " + d
		}},
		{"NewKeyedTableRow.title", func(v string) (core.Component, string) {
			b, d := txt()
			return core.NewKeyedTableRow(v, b, true), "keyed " + hexs(v) + " 1 " + d
		}},
		{"NewPage.title", func(v string) (core.Component, string) {
			b, d := txt()
			return core.NewPage(v, b, ""), "page " + hexs(v) + " - " + d
		}},
		{"NewDiv.class", func(v string) (core.Component, string) {
			b, d := txt()
			return core.NewDiv(v, b), "div " + hexs(v) + " " + d
		}},
		{"NewOcticon.name", func(v string) (core.Component, string) { return core.NewOcticon(v, ""), "octicon " + hexs(v) + " -" }},
	}
}

func c18CountStruct(s string) [3]int {
	return [3]int{strings.Count(s, "<"), strings.Count(s, ">"), strings.Count(s, "\"")}
}

func c18Benign(v string) string {
	return strings.NewReplacer("<", "a", ">", "a", "\"", "a", "'", "a", "&", "a").Replace(v)
}

// c18BoundaryComponents: the component corpus.
func c18BoundaryComponents(c *Ctx) {
	sinks := c18DataSinks()
	try := func(s c18Sink, v, shape string) {
		comp, desc := s.mk(v)
		out := c18Render(comp)
		c.Tie("render "+desc, hexs(out))
		c.Eval()
		c.Count("boundary:component/" + s.name)
		c.Nontrivial("boundary/" + s.name + "/" + shape)
		bcomp, _ := s.mk(c18Benign(v))
		if got, want := c18CountStruct(out), c18CountStruct(c18Render(bcomp)); got != want {
			show := v
			if len(show) > 120 {
				show = fmt.Sprintf("%d bytes, %q … %q", len(v), v[:40], v[len(v)-40:])
			}
			c.Oracle("", "the number of < > \" bytes a core component writes depends on the value (boundary corpus: "+shape+")",
				c18FixInput(map[string]interface{}{"sink": s.name, "value": show, "value_hex_prefix": hexs(v[:min(len(v), 200)]), "length": len(v)}),
				fmt.Sprint(got), fmt.Sprint(want)+" (same value with the special characters replaced by 'a')")
		}
	}
	specials := []string{"<", ">", "\"", "'", "&", "&nbsp;"}
	for _, l := range c18Lengths {
		for _, pos := range c18Positions(l) {
			for si, s := range sinks {
				for ci, sp := range specials {
					if l >= 4096 && (si > 3 || ci%2 == 1) {
						continue // the long values: four sinks, < " &
					}
					p := pos
					if sp == "&nbsp;" && pos >= 3 {
						p = pos - 3 // the entity straddles the offset
					}
					fill := byte('a')
					if (l+pos+ci)%5 == 0 {
						fill = 0xe9 // a filler that is an invalid UTF-8 lead byte
					}
					try(s, c18PlainAt(l, p, sp, fill), fmt.Sprintf("len=%d/pos=%d/%s", l, pos, sp))
				}
			}
		}
		if l == 0 {
			for _, s := range sinks {
				try(s, "", "len=0")
			}
		}
	}
	for _, k := range []int{2, 3, 63, 64, 65, 256} {
		for _, unit := range []string{"<", ">", "\"", "'", "&", "<>\"'&", "&nbsp;", "~~space~~", "&amp;", "&#60;"} {
			for _, s := range sinks[:4] {
				try(s, strings.Repeat(unit, k), fmt.Sprintf("run=%dx%s", k, unit))
			}
		}
		for _, s := range sinks[:4] {
			try(s, strings.Repeat("&nbsp", k)+";", fmt.Sprintf("run=%dx&nbsp+;", k))
		}
	}
	// sizes of the containers
	tok := func(i int) string { return c18TokenV(90000+i, i) }
	for _, n := range []int{0, 1, 64, 65} {
		var cols []string
		var rows, cells, items []core.Component
		dHead, dRows, dCells, dItems, dAttrs := "", "", "", "", ""
		attrs := map[string]string{}
		for i := 0; i < n; i++ {
			v := tok(i)
			cols = append(cols, v)
			dHead += " " + hexs(v)
			rows = append(rows, core.NewTableRow(core.NewTableCell(core.NewText(v))))
			dRows += " tr 1 cell 0 0 - - text " + hexs(v)
			cells = append(cells, core.NewTableCell(core.NewText(v)).Class("c"))
			dCells += " cell 0 0 63 - text " + hexs(v)
			items = append(items, core.NewAnchor(v))
			dItems += " anchor " + hexs(v)
			k := fmt.Sprintf("k%03d", i)
			attrs[k] = v
			dAttrs += " " + hexs(k) + " " + hexs(v)
		}
		ns := strconv.Itoa(n)
		for _, x := range []struct {
			name string
			c    core.Component
			d    string
		}{
			{"NewTableHead", core.NewTableHead(cols...), "thead " + ns + dHead},
			{"NewTable", core.NewTable("t", rows...), "table 74 " + ns + dRows},
			{"NewTableRow", core.NewTableRow(cells...), "tr " + ns + dCells},
			{"NewComponents", core.NewComponents(items...), "comps " + ns + dItems},
			{"NewLines", core.NewLines(items...), "lines " + ns + dItems},
			{"NewNavPills", core.NewNavPills(items), "navpills " + ns + dItems},
			{"NewTag.attributes", core.NewTag("div", attrs, core.NewText("x")), "tag 646976 " + ns + dAttrs + " text 78"},
		} {
			c.Tie("render "+x.d, hexs(c18Render(x.c)))
			c.Eval()
			c.Count("boundary:container/" + x.name)
			c.Nontrivial("boundary/" + x.name + "/n=" + ns)
		}
	}
}

// ---------------------------------------------------------------- documents

type c18DocBuilder struct {
	sb    strings.Builder
	kinds map[int]string
	next  int
	rot   int
}

func newC18DocBuilder(first int) *c18DocBuilder {
	return &c18DocBuilder{kinds: map[int]string{}, next: first, rot: first}
}

func (b *c18DocBuilder) line(level int, rest string) { fmt.Fprintf(&b.sb, "%d %s\n", level, rest) }

// tok: the next token (variants and lead bytes rotate), with or without space-carrying payloads.
func (b *c18DocBuilder) tok(kind string, spaces bool) string {
	b.next++
	b.rot++
	b.kinds[b.next] = kind
	v := b.rot % len(c18Variants)
	if c18HasSpace(v) && !spaces {
		v = 3
	}
	lead := ""
	if b.rot%4 == 0 {
		lead = c18Leads[(b.rot/4)%len(c18Leads)]
	}
	return c18TokenL(b.next, v, lead)
}

// at: a value of length l whose special character stands at offset pos; the marker stands before
// it when there is room (else after it: then only the structural oracles see it).
func (b *c18DocBuilder) at(kind string, l, pos int, ch byte) string {
	b.next++
	b.kinds[b.next] = fmt.Sprintf("%s (length %d, %q at offset %d)", kind, l, ch, pos)
	m := fmt.Sprintf("q%05d", b.next)
	v := bytes.Repeat([]byte{'a'}, l)
	v[pos] = ch
	switch {
	case pos >= len(m):
		copy(v[pos-len(m):], m)
	case pos+1+len(m) <= l:
		copy(v[pos+1:], m)
	}
	return string(v)
}

func (b *c18DocBuilder) doc() *c18Doc {
	return &c18Doc{Text: "0 HEAD\n1 CHAR UTF-8\n" + b.sb.String() + "0 TRLR\n", Kinds: b.kinds, Taint: true, Variants: map[string]int{}}
}

type c18Corpus struct {
	name string
	doc  *c18Doc
	diff bool // also the diff report and the query output
}

func c18BoundaryDocs(year int) []c18Corpus {
	var out []c18Corpus
	chars := []byte{'<', '"', '&', '>', '\''}
	// (a) value lengths x offsets
	k := 0
	for _, l := range c18Lengths[1:] {
		for _, pos := range c18Positions(l) {
			if l == 65536 && pos != 0 && pos != l-1 && pos != 4096 {
				continue // the longest values: first byte, last byte, one chunk boundary
			}
			b := newC18DocBuilder(1000 * len(out))
			ch := func() byte { k++; return chars[k%len(chars)] }
			b.line(0, "@I1@ INDI")
			b.line(1, "NAME "+b.at("given name", l, pos, ch())+" /"+b.at("surname", l, pos, ch())+"/")
			b.line(1, "BIRT")
			b.line(2, "DATE 1 Jan 1800")
			b.line(2, "PLAC "+b.at("place", l, pos, ch()))
			b.line(1, "DEAT")
			b.line(2, "DATE 1 Jan 1870")
			b.line(1, "NOTE "+b.at("note", l, pos, ch()))
			b.line(1, "OCCU "+b.at("occupation", l, pos, ch()))
			b.line(0, "@I2@ INDI")
			b.line(1, "NAME Eve /Smith/")
			b.line(1, "DEAT Y")
			b.line(0, "@F1@ FAM")
			b.line(1, "HUSB @I1@")
			b.line(1, "WIFE @I2@")
			b.line(1, "MARR")
			b.line(2, "DATE 2 Feb 1830")
			b.line(2, "PLAC "+b.at("marriage place", l, pos, ch()))
			b.line(0, "@S1@ SOUR")
			b.line(1, "TITL "+b.at("source title", l, pos, ch()))
			b.line(1, "PUBL "+b.at("source property", l, pos, ch()))
			out = append(out, c18Corpus{fmt.Sprintf("value length %d, special character at offset %d", l, pos), b.doc(), l <= 4096})
		}
	}
	// (b) counts
	people := func(b *c18DocBuilder, n int) {
		for i := 0; i < n; i++ {
			b.line(0, fmt.Sprintf("@I%d@ INDI", i+1))
			b.line(1, "NAME "+b.tok("given name", true)+" /"+b.tok("surname", true)+"/")
			b.line(1, "BIRT")
			b.line(2, fmt.Sprintf("DATE %d", 1700+i%200))
			b.line(2, "PLAC "+b.tok("place", true))
			b.line(1, "DEAT Y")
		}
	}
	for _, n := range []int{0, 1, 64, 65, 256} {
		b := newC18DocBuilder(100000 + 1000*n)
		people(b, n)
		out = append(out, c18Corpus{fmt.Sprintf("%d individuals", n), b.doc(), n <= 65})
	}
	for _, n := range []int{1, 64, 65} {
		b := newC18DocBuilder(200000 + 1000*n)
		people(b, 3)
		for i := 0; i < n; i++ {
			b.line(0, fmt.Sprintf("@F%d@ FAM", i+1))
			b.line(1, fmt.Sprintf("HUSB @I%d@", 1+i%3))
			b.line(1, fmt.Sprintf("WIFE @I%d@", 1+(i+1)%3))
			b.line(1, "MARR")
			b.line(2, "DATE "+b.tok("marriage date", true))
			b.line(0, fmt.Sprintf("@S%d@ SOUR", i+1))
			b.line(1, "TITL "+b.tok("source title", true))
		}
		out = append(out, c18Corpus{fmt.Sprintf("%d families and %d sources", n, n), b.doc(), false})
	}
	for _, n := range []int{0, 1, 16, 64, 65} {
		b := newC18DocBuilder(300000 + 1000*n)
		b.line(0, "@I1@ INDI")
		for i := 0; i < n; i++ {
			b.line(1, "NAME "+b.tok("given name", true)+" /"+b.tok("surname", true)+"/")
			b.line(2, "TYPE "+b.tok("name type", true))
		}
		b.line(1, "DEAT Y")
		out = append(out, c18Corpus{fmt.Sprintf("%d names of one individual", n), b.doc(), true})
	}
	for _, n := range []int{64, 65} {
		b := newC18DocBuilder(400000 + 1000*n)
		b.line(0, "@I1@ INDI")
		b.line(1, "NAME "+b.tok("given name", true)+" /"+b.tok("surname", true)+"/")
		for i := 0; i < n; i++ {
			b.line(1, []string{"RESI", "OCCU", "EVEN", "CENS", "BAPM"}[i%5]+" "+b.tok("event value", true))
			b.line(2, fmt.Sprintf("DATE %d", 1800+i))
			b.line(2, "PLAC "+b.tok("place", true))
		}
		b.line(1, "DEAT Y")
		out = append(out, c18Corpus{fmt.Sprintf("%d events of one individual", n), b.doc(), true})
	}
	for _, n := range []int{3, 4, 5, 8, 16, 65} {
		b := newC18DocBuilder(500000 + 1000*n)
		people(b, n+2)
		b.line(0, "@F1@ FAM")
		b.line(1, "HUSB @I1@")
		b.line(1, "WIFE @I2@")
		for i := 0; i < n; i++ {
			b.line(1, fmt.Sprintf("CHIL @I%d@", i+3))
		}
		out = append(out, c18Corpus{fmt.Sprintf("%d children in one family", n), b.doc(), false})
	}
	for _, n := range []int{8, 16, 32, 64} {
		b := newC18DocBuilder(600000 + 1000*n)
		people(b, 1)
		b.line(0, "@S1@ SOUR")
		b.line(1, "TITL "+b.tok("source title", true))
		for d := 1; d <= n; d++ {
			b.line(d, "NOTE "+b.tok(fmt.Sprintf("source property at depth %d", d), true))
		}
		out = append(out, c18Corpus{fmt.Sprintf("source properties nested %d deep", n), b.doc(), true})
	}
	// (c) every record kind, pointers and values tainted
	{
		b := newC18DocBuilder(700000)
		p := func(kind string) string { return b.tok(kind+" pointer", false) }
		v := func(kind string) string { return b.tok(kind, true) }
		subm, obje, note, repo, sour, cust, i1, i2, f1 := p("SUBM"), p("OBJE"), p("NOTE"), p("REPO"), p("SOUR"), p("custom record"), p("INDI"), p("INDI"), p("FAM")
		b.sb.Reset()
		b.line(1, "SOUR "+v("HEAD.SOUR"))
		b.line(2, "VERS "+v("HEAD.SOUR.VERS"))
		b.line(2, "NAME "+v("HEAD.SOUR.NAME"))
		b.line(2, "CORP "+v("HEAD.SOUR.CORP"))
		b.line(3, "ADDR "+v("HEAD.SOUR.CORP.ADDR"))
		b.line(1, "FILE "+v("HEAD.FILE"))
		b.line(1, "COPR "+v("HEAD.COPR"))
		b.line(1, "LANG "+v("HEAD.LANG"))
		b.line(1, "NOTE "+v("HEAD.NOTE"))
		b.line(1, "SUBM @"+subm+"@")
		b.line(1, "_HCUSTOM "+v("HEAD custom tag"))
		b.line(0, "@"+subm+"@ SUBM")
		b.line(1, "NAME "+v("SUBM.NAME"))
		b.line(1, "ADDR "+v("SUBM.ADDR"))
		b.line(2, "CONT "+v("SUBM.ADDR.CONT"))
		b.line(1, "EMAIL "+v("SUBM.EMAIL"))
		b.line(0, "@"+obje+"@ OBJE")
		b.line(1, "FILE "+v("OBJE.FILE"))
		b.line(2, "FORM "+v("OBJE.FILE.FORM"))
		b.line(2, "TITL "+v("OBJE.FILE.TITL"))
		b.line(0, "@"+note+"@ NOTE "+v("NOTE record text"))
		b.line(1, "CONC "+v("NOTE.CONC"))
		b.line(1, "CONT "+v("NOTE.CONT"))
		b.line(0, "@"+repo+"@ REPO")
		b.line(1, "NAME "+v("REPO.NAME"))
		b.line(0, "@"+cust+"@ _MYREC "+v("custom record value"))
		b.line(1, "_SUB "+v("custom record child"))
		b.line(0, "@"+sour+"@ SOUR")
		b.line(1, "TITL "+v("SOUR.TITL"))
		b.line(2, "CONC "+v("SOUR.TITL.CONC"))
		b.line(1, "ABBR "+v("SOUR.ABBR"))
		b.line(1, "AUTH "+v("SOUR.AUTH"))
		b.line(1, "TEXT "+v("SOUR.TEXT"))
		b.line(1, "REPO @"+repo+"@")
		b.line(2, "CALN "+v("SOUR.REPO.CALN"))
		b.line(1, "OBJE @"+obje+"@")
		b.line(1, "_SCUSTOM "+v("SOUR custom tag"))
		for n, ip := range []string{i1, i2} {
			b.line(0, "@"+ip+"@ INDI")
			b.line(1, "NAME "+v("given name")+" /"+v("surname")+"/ "+v("name suffix"))
			b.line(2, "GIVN "+v("NAME.GIVN"))
			b.line(2, "SURN "+v("NAME.SURN"))
			b.line(2, "NICK "+v("NAME.NICK"))
			b.line(2, "SOUR @"+sour+"@")
			b.line(3, "PAGE "+v("citation PAGE"))
			b.line(3, "QUAY "+v("citation QUAY"))
			b.line(3, "DATA")
			b.line(4, "TEXT "+v("citation DATA.TEXT"))
			b.line(1, "SEX "+v("sex"))
			b.line(1, "BIRT "+v("BIRT value"))
			b.line(2, fmt.Sprintf("DATE %d Jan 18%02d", n+1, 10+n))
			b.line(2, "PLAC "+v("place"))
			b.line(3, "MAP")
			b.line(4, "LATI "+v("PLAC.MAP.LATI"))
			b.line(2, "AGE "+v("event AGE"))
			b.line(2, "TYPE "+v("event TYPE"))
			b.line(2, "CAUS "+v("event CAUS"))
			b.line(2, "AGNC "+v("event AGNC"))
			b.line(2, "ADDR "+v("event ADDR"))
			b.line(2, "OBJE @"+obje+"@")
			b.line(2, "NOTE @"+note+"@")
			b.line(1, "DEAT")
			b.line(2, "DATE "+v("date"))
			b.line(1, "ASSO @"+i1+"@")
			b.line(2, "RELA "+v("ASSO.RELA"))
			b.line(1, "ALIA "+v("ALIA"))
			b.line(1, "RFN "+v("RFN"))
			b.line(1, "REFN "+v("REFN"))
			b.line(1, "_UID "+v("_UID"))
			b.line(1, "FAMS @"+f1+"@")
			b.line(1, "_ICUSTOM "+v("INDI custom tag"))
			b.line(2, "_DEEP "+v("INDI custom tag child"))
			b.line(1, "CHAN")
			b.line(2, "DATE "+v("CHAN.DATE"))
		}
		b.line(0, "@"+f1+"@ FAM")
		b.line(1, "HUSB @"+i1+"@")
		b.line(1, "WIFE @"+i2+"@")
		b.line(1, "MARR "+v("MARR value"))
		b.line(2, "DATE "+v("marriage date"))
		b.line(2, "PLAC "+v("marriage place"))
		b.line(2, "TYPE "+v("MARR.TYPE"))
		b.line(1, "NCHI "+v("NCHI"))
		b.line(1, "_FCUSTOM "+v("FAM custom tag"))
		out = append(out, c18Corpus{"every record kind (HEAD, SUBM, OBJE, NOTE, REPO, custom, citations)", b.doc(), true})
	}
	// (d) single delimiters, all non-ASCII
	{
		b := newC18DocBuilder(800000)
		for i, nm := range []string{"/", "//", "/ /", " ", "@", "@@", ",", "é", "王小明 /王/", "\xe9\xf1\xf5 /\xc3/", "ÀÉÎÕÜ /ÑÇ/", "，／＠"} {
			b.line(0, fmt.Sprintf("@I%d@ INDI", i+1))
			b.line(1, "NAME "+nm)
			b.line(1, "NAME "+b.tok("given name", true)+" /"+nm+b.tok("surname", true)+"/")
			b.line(1, "BIRT")
			b.line(2, "PLAC "+[]string{",", ",,,", ", ,", "@", "/", "é, è, ê, ë", "\xe9,\xf1", "，"}[i%8])
			b.line(1, "RESI")
			b.line(2, "PLAC "+[]string{",", ",,,", ", ,", "@", "/", "é, è, ê, ë", "\xe9,\xf1", "，"}[i%8]+b.tok("place", true))
			b.line(1, "NOTE "+[]string{"@", "@@", "/", ",", "0", "00", "-", "é"}[i%8])
			b.line(1, "DEAT Y")
		}
		out = append(out, c18Corpus{"values that are a single delimiter or all non-ASCII", b.doc(), true})
	}
	return out
}

// c18BoundaryPages: the document corpus through publish / diff / query, and the histories.
func c18BoundaryPages(c *Ctx, seenHit map[string]bool, cover map[string]int) int {
	year := time.Now().Year()
	all := c18Opts{true, true, true, true, true, true, "show"}
	corpus := c18BoundaryDocs(year)
	var jobs []c18SiteJob
	combos := [][2]string{{"all", "written-name"}, {"all", "highest-similarity"}, {"only-matches", "written-name"},
		{"only-matches", "highest-similarity"}, {"subset", "written-name"}, {"subset", "highest-similarity"}}
	for i, e := range corpus {
		g := []byte(e.doc.Text)
		o := all
		o.Living = []string{"show", "placeholder", "hide"}[i%3]
		jj := []int{1, 2, 8}[i%3]
		jobs = append(jobs, c18MkSiteJob(e.doc, &c18Job{Kind: "publish", Gedcom: g, Opts: o, Jobs: jj}, fmt.Sprintf("boundary corpus (%s): publish %s jobs=%d", e.name, o.String(), jj)))
		c.Count("boundary:document")
		if !e.diff {
			continue
		}
		sel := combos[i%6 : i%6+1]
		if strings.HasPrefix(e.name, "every record kind") || strings.HasPrefix(e.name, "values that are") {
			sel = combos // the diff report in each -show x -sort
		}
		for n, cb := range sel {
			jobs = append(jobs, c18MkSiteJob(e.doc, &c18Job{Kind: "diff", Gedcom: g, Gedcom2: g, Opts: o, Jobs: []int{1, 2, 8}[(i+n)%3], Show: cb[0], Sort: cb[1]},
				fmt.Sprintf("boundary corpus (%s): diff show=%s sort=%s", e.name, cb[0], cb[1])))
		}
		jobs = append(jobs, c18MkSiteJob(e.doc, &c18Job{Kind: "query", Gedcom: g, Queries: c18Queries}, fmt.Sprintf("boundary corpus (%s): query -format html", e.name)))
	}
	// more jobs than pages, and page counts next to the number of jobs
	small := corpus[len(c18Positions(1))] // a short-value document
	for _, x := range []struct {
		o    c18Opts
		jobs int
	}{{c18Opts{false, false, false, false, false, true, "show"}, 8}, {c18Opts{false, false, true, false, false, true, "show"}, 2},
		{c18Opts{false, false, true, true, false, true, "show"}, 2}, {c18Opts{true, false, false, false, false, false, "show"}, 16}} {
		jobs = append(jobs, c18MkSiteJob(small.doc, &c18Job{Kind: "publish", Gedcom: []byte(small.doc.Text), Opts: x.o, Jobs: x.jobs},
			fmt.Sprintf("boundary corpus: few pages, publish %s jobs=%d", x.o.String(), x.jobs)))
	}
	n := c18JudgeJobs(c, jobs, seenHit, cover)

	// histories: a document without taint first, then the tainted one, in one process — and the
	// reverse; the second result must be what a fresh process writes
	var pick []c18Corpus
	for _, e := range corpus {
		if strings.HasPrefix(e.name, "every record kind") || e.name == "65 individuals" || e.name == "value length 65, special character at offset 64" ||
			e.name == "value length 4096, special character at offset 4095" || e.name == "16 names of one individual" {
			pick = append(pick, e)
		}
	}
	type hist struct {
		what        string
		fresh, then *c18Job
		res         [2]*c18Result
		doc         *c18Doc
	}
	var hs []*hist
	for i, e := range pick {
		taint, clean := []byte(e.doc.Text), []byte(c18Detaint(e.doc.Text))
		for dir := 0; dir < 2; dir++ {
			first, second, tag := clean, taint, "clean then tainted"
			if dir == 1 {
				first, second, tag = taint, clean, "tainted then clean"
			}
			jj := []int{1, 2, 8}[(i+dir)%3]
			o := all
			hs = append(hs, &hist{what: fmt.Sprintf("history (%s, %s): publish jobs=%d", e.name, tag, jj), doc: e.doc,
				fresh: &c18Job{Kind: "publish", Gedcom: second, Opts: o, Jobs: jj},
				then:  &c18Job{Kind: "publish", Gedcom: second, Gedcom2: first, Opts: o, Jobs: jj}})
			hs = append(hs, &hist{what: fmt.Sprintf("history (%s, %s): diff", e.name, tag), doc: e.doc,
				fresh: &c18Job{Kind: "diff", Gedcom: second, Gedcom2: second, Opts: o, Jobs: jj, Show: "all", Sort: "written-name"},
				then:  &c18Job{Kind: "diff", Gedcom: second, Gedcom2: second, Pre: first, Opts: o, Jobs: jj, Show: "all", Sort: "written-name"}})
			hs = append(hs, &hist{what: fmt.Sprintf("history (%s, %s): query -format html", e.name, tag), doc: e.doc,
				fresh: &c18Job{Kind: "query", Gedcom: second, Queries: c18Queries},
				then:  &c18Job{Kind: "query", Gedcom: second, Pre: first, Queries: c18Queries}})
		}
	}
	c18Parallel(2*len(hs), 12, func(i int) {
		h := hs[i/2]
		if i%2 == 0 {
			h.res[0] = c18Child(h.fresh, 60*time.Second)
		} else {
			h.res[1] = c18Child(h.then, 60*time.Second)
		}
	})
	var histJobs []c18SiteJob
	for _, h := range hs {
		c.Eval()
		c.Count("boundary:history")
		a, b := h.res[0], h.res[1]
		bad := func(r *c18Result) bool { return r.Crashed || r.TimedOut || r.Panic != "" || len(r.Runs) == 0 }
		if bad(a) || bad(b) {
			c.Count("site:crashed(history)")
			c.Notes = append(c.Notes, "crash outside C18: "+h.what+": "+a.Panic+b.Panic+c18FirstLine(a.Stderr)+c18FirstLine(b.Stderr))
			continue
		}
		fa, fb := map[string][]byte{}, map[string][]byte{}
		for _, f := range a.Runs[0].Files {
			fa[f.Name] = f.Data
		}
		for _, f := range b.Runs[len(b.Runs)-1].Files {
			fb[f.Name] = f.Data
		}
		for name, da := range fa {
			db, ok := fb[name]
			if ok && bytes.Equal(da, db) {
				continue
			}
			obs := "file missing after the earlier operation"
			if ok {
				j := 0
				for j < len(da) && j < len(db) && da[j] == db[j] {
					j++
				}
				lo := max(0, j-60)
				obs = fmt.Sprintf("differs at byte %d: …%s… vs fresh …%s…", j, db[lo:min(len(db), j+60)], da[lo:min(len(da), j+60)])
			}
			c.Oracle("", "a page differs from what a fresh process writes when another document went through the same process first",
				c18FixInput(map[string]interface{}{"what": h.what, "file": name, "gedcom": string(h.then.Gedcom), "first_document": string(append(append([]byte{}, h.then.Gedcom2...), h.then.Pre...))}),
				obs, "identical bytes")
			break
		}
		c.Nontrivial("boundary/" + strings.SplitN(h.what, ":", 2)[0])
		if bytes.Equal(h.then.Gedcom, []byte(h.doc.Text)) { // the tainted one came second: its pages are judged like any other
			histJobs = append(histJobs, c18MkSiteJob(h.doc, h.then, h.what))
		}
	}
	n += c18JudgeJobs(c, histJobs, seenHit, cover)
	return n
}
