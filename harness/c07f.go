package main

// C07: deep trees.  The walk behind Filter / DeepCopy may keep its own stack; any bounded or
// re-allocated representation of that stack shows only below some nesting depth, so the copied node
// gets 8, 9, 16, 17, 32, 33, 64 and 100 levels below it here (chains, chains with siblings at every
// level, and a deep chain hanging inside a bushy tree), and the copy is compared with its source.

import (
	"fmt"
	"time"

	"github.com/elliotchance/gedcom/v39"
)

// c07chain: a tree with `depth` levels below the root; `width` extra leaves at every level, placed
// before or after the child that continues the chain.
func c07chain(r *Rand, g *c07gen, depth, width int) *TNode {
	// EVEN.Equals of an undated event already compares all descendants, and DeepEqual then does it
	// again: every EVEN on the chain doubles the work, so there are at most two of them
	tags := []string{"NOTE", "OCCU", "BIRT", "RESI", "NAME", "PLAC", "_CUSTOM"}
	even1, even2 := 1+r.Intn(depth), 1+r.Intn(depth)
	root := T("INDI0", "", "P1")
	cur := root
	for l := 1; l <= depth; l++ {
		tag := r.Pick(tags)
		if l == even1 || l == even2 {
			tag = "EVEN"
		}
		next := T(tag, fmt.Sprintf("l%d", l), "")
		var kids []*TNode
		for w := r.Intn(width + 1); w > 0; w-- {
			kids = append(kids, g.plainLeaf())
		}
		pos := r.Intn(len(kids) + 1)
		kids = append(kids[:pos:pos], append([]*TNode{next}, kids[pos:]...)...)
		cur.Kids = kids
		cur = next
	}
	if r.Bool() {
		cur.Kids = append(cur.Kids, g.date())
	}
	return root
}

// c07bounded runs one corpus case under a watchdog.  On the unchanged code every case of the
// boundary corpora takes milliseconds; a change that makes equality, copying or merging exponential
// in the depth or width of the tree would otherwise hang the whole check instead of being reported.
// Returns false when the case did not finish: the caller stops its stream (the abandoned goroutine
// keeps running until the process exits).
func c07bounded(c *Ctx, what string, t *TNode, f func()) bool {
	done := make(chan struct{})
	go func() {
		defer close(done)
		defer func() { recover() }()
		f()
	}()
	limit := 30 * time.Second
	select {
	case <-done:
		return true
	case <-time.After(limit):
		c.Oracle("", what+" does not finish within "+limit.String()+" (milliseconds on the unchanged code)",
			map[string]string{"case": what, "tree": encTree(t), "depth": fmt.Sprint(t.Depth()), "size": fmt.Sprint(t.Size())}, "still running", "a result")
		return false
	}
}

func c07deep(c *Ctx) {
	r := c.R
	g := &c07gen{r: r, small: true}
	depths := []int{7, 8, 9, 10, 15, 16, 17, 31, 32, 33, 63, 64, 65, 100}
	reps := c.N(2, 12)
	for _, depth := range depths {
		for k := 0; k < reps; k++ {
			var t *TNode
			switch k % 3 {
			case 0: // a bare chain
				t = c07chain(r, g, depth, 0)
			case 1: // siblings at every level
				t = c07chain(r, g, depth, 2)
			default: // a deep chain inside a bushy tree, two deep branches
				t = g.node(2)
				if t.Tag == "DATE" {
					t = T("INDI0", "", "", t)
				}
				t.Kids = append(t.Kids, c07chain(r, g, depth-1, 1), g.node(1), c07chain(r, g, depth-1, 0))
			}
			c.Count(fmt.Sprintf("deep:depth=%d", t.Depth()))
			c.Nontrivial(fmt.Sprintf("deep/%d/%d", depth, k%3))
			tt, dd := t, depth
			if !c07bounded(c, fmt.Sprintf("DeepEqual / DeepCopy on a tree with %d levels", depth), t, func() {
				src, err := newPlain(tt)
				if err != nil {
					return
				}
				c07copyCase(c, src, tt, fmt.Sprintf("deep-%d", dd))
				c07laws(c, tt, tt.Clone(), "copy", "eq")
				c07laws(c, tt, c07shuffle(r, tt, 3), "permutation", "eq")
				for _, e := range c07edits(r, tt, 2) {
					c07laws(c, tt, e.t, "edit", "ne")
				}
				c07mutCase(c, func() gedcom.Node {
					n, err := newPlain(tt)
					if err != nil {
						return nil
					}
					return n
				}, tt)
			}) {
				return
			}
		}
	}
}
