package main

import (
	"fmt"
	"go/ast"
	"go/parser"
	"go/token"
	"path/filepath"
	"strconv"
	"strings"
)

// Translator for the decision logic of C17 (lean/Gedcom/Model/LivingSrc.lean):
//   individual_node.go   (*IndividualNode).IsLiving: early returns + final return as condition trees
//   html/*.go            the `switch <visibility>` of the components that decide what is written for
//                        a living person: cases, classified bodies, position under an IsLiving test
//   html/publish.go      the place filter of Publisher.Places; html/individual_dates.go: the two tests
// Nothing is guessed: an unknown expression, statement or body becomes `.bad`, a function that is
// not found an empty fact — all rejected by the obligations of Props/C17Src.lean.

func lsrcIdent(e ast.Expr, name string) bool {
	id, ok := e.(*ast.Ident)
	return ok && id.Name == name
}

func lsrcCall(e ast.Expr) (fun ast.Expr, args []ast.Expr, ok bool) {
	c, ok := e.(*ast.CallExpr)
	if !ok {
		return nil, nil, false
	}
	return c.Fun, c.Args, true
}

// `<x>.<name>(…)`
func lsrcMethod(e ast.Expr, name string) (recv ast.Expr, args []ast.Expr, ok bool) {
	fun, args, ok := lsrcCall(e)
	if !ok {
		return nil, nil, false
	}
	sel, ok := fun.(*ast.SelectorExpr)
	if !ok || sel.Sel.Name != name {
		return nil, nil, false
	}
	return sel.X, args, true
}

// ---- IsLiving

func lsrcNum(e ast.Expr) string {
	switch e := e.(type) {
	case *ast.ParenExpr:
		return lsrcNum(e.X)
	case *ast.BasicLit:
		if e.Kind == token.INT && e.Value == "0" {
			return ".zero"
		}
	case *ast.Ident:
		switch e.Name {
		case "maxLivingAge":
			return ".maxAge"
		case "birthYear":
			return ".birthYear"
		case "age":
			return ".age"
		}
	case *ast.CallExpr:
		if fun, args, ok := lsrcCall(e); ok && lsrcIdent(fun, "len") && len(args) == 1 && lsrcIdent(args[0], "deaths") {
			return ".lenDeaths"
		}
	}
	return ".bad"
}

var lsrcVisConst = map[string]int{"LivingVisibilityShow": 0, "LivingVisibilityHide": 1, "LivingVisibilityPlaceholder": 2}

// an expression that reads the visibility the page was given
func lsrcIsVisibility(e ast.Expr) bool {
	switch e := e.(type) {
	case *ast.Ident:
		return e.Name == "visibility" || e.Name == "livingVisibility"
	case *ast.SelectorExpr:
		return e.Sel.Name == "visibility" || e.Sel.Name == "LivingVisibility" || e.Sel.Name == "livingVisibility"
	}
	return false
}

func lsrcCond(e ast.Expr) string {
	switch e := e.(type) {
	case *ast.ParenExpr:
		return lsrcCond(e.X)
	case *ast.Ident:
		if e.Name == "isLiving" {
			return ".living"
		}
	case *ast.UnaryExpr:
		if e.Op == token.NOT {
			return "(.not " + lsrcCond(e.X) + ")"
		}
	case *ast.CallExpr:
		if recv, args, ok := lsrcMethod(e, "IsLiving"); ok && len(args) == 0 {
			if fun, a, ok := lsrcCall(recv); ok && lsrcIdent(fun, "individualForNode") && len(a) == 2 {
				return ".ownerLiving"
			}
			return ".living"
		}
	case *ast.BinaryExpr:
		switch e.Op {
		case token.LAND:
			return "(.and " + lsrcCond(e.X) + " " + lsrcCond(e.Y) + ")"
		case token.LOR:
			return "(.or " + lsrcCond(e.X) + " " + lsrcCond(e.Y) + ")"
		}
		if e.Op == token.EQL && lsrcIdent(e.X, "node") && lsrcIdent(e.Y, "nil") {
			return ".nodeNil"
		}
		if e.Op == token.EQL && lsrcIsVisibility(e.X) {
			if id, ok := e.Y.(*ast.Ident); ok {
				if v, ok := lsrcVisConst[id.Name]; ok {
					return fmt.Sprintf("(.visIs %d)", v)
				}
			}
			return ".bad"
		}
		ops := map[token.Token]string{token.EQL: ".eq", token.NEQ: ".ne", token.LSS: ".lt", token.LEQ: ".le", token.GTR: ".gt", token.GEQ: ".ge"}
		if op, ok := ops[e.Op]; ok {
			return "(.cmp " + op + " " + lsrcNum(e.X) + " " + lsrcNum(e.Y) + ")"
		}
	}
	return ".bad"
}

// lsrcBinding recognises the bindings IsLiving is allowed to make, by the name bound.
func lsrcBinding(as *ast.AssignStmt) string {
	if as.Tok != token.DEFINE || len(as.Rhs) != 1 {
		return ""
	}
	rhs := as.Rhs[0]
	switch {
	case len(as.Lhs) == 1 && lsrcIdent(as.Lhs[0], "deaths"):
		if recv, args, ok := lsrcMethod(rhs, "Deaths"); ok && len(args) == 0 && lsrcIdent(recv, "node") {
			return "deaths"
		}
	case len(as.Lhs) == 1 && lsrcIdent(as.Lhs[0], "maxLivingAge"):
		if sel, ok := rhs.(*ast.SelectorExpr); ok && sel.Sel.Name == "MaxLivingAge" {
			if recv, args, ok := lsrcMethod(sel.X, "Document"); ok && len(args) == 0 && lsrcIdent(recv, "node") {
				return "maxLivingAge"
			}
		}
	case len(as.Lhs) == 1 && lsrcIdent(as.Lhs[0], "nowYear"):
		// float64(time.Now().Year())
		if fun, args, ok := lsrcCall(rhs); ok && lsrcIdent(fun, "float64") && len(args) == 1 {
			if recv, a, ok := lsrcMethod(args[0], "Year"); ok && len(a) == 0 {
				if r2, a2, ok := lsrcMethod(recv, "Now"); ok && len(a2) == 0 && lsrcIdent(r2, "time") {
					return "nowYear"
				}
			}
		}
	case len(as.Lhs) == 2 && lsrcIdent(as.Lhs[0], "birthDate") && lsrcIdent(as.Lhs[1], "_"):
		if recv, args, ok := lsrcMethod(rhs, "EstimatedBirthDate"); ok && len(args) == 0 && lsrcIdent(recv, "node") {
			return "birthDate"
		}
	case len(as.Lhs) == 1 && lsrcIdent(as.Lhs[0], "birthYear"):
		if fun, args, ok := lsrcCall(rhs); ok && lsrcIdent(fun, "Years") && len(args) == 1 && lsrcIdent(args[0], "birthDate") {
			return "birthYear"
		}
	case len(as.Lhs) == 1 && lsrcIdent(as.Lhs[0], "age"):
		if b, ok := rhs.(*ast.BinaryExpr); ok && b.Op == token.SUB && lsrcIdent(b.X, "nowYear") && lsrcIdent(b.Y, "birthYear") {
			return "age"
		}
	}
	return ""
}

func lsrcBoolLit(e ast.Expr) (bool, bool) {
	if lsrcIdent(e, "true") {
		return true, true
	}
	if lsrcIdent(e, "false") {
		return false, true
	}
	return false, false
}

// lsrcIsLiving translates the body: (shape, guards, final).
func lsrcIsLiving(fn *ast.FuncDecl) (shape bool, guards []string, final string) {
	final = ".bad"
	if fn == nil {
		return false, nil, final
	}
	shape = true
	bound := map[string]bool{}
	needs := map[string][]string{"birthYear": {"birthDate"}, "age": {"nowYear", "birthYear"}}
	uses := func(cond string) { // every value a condition mentions must be bound before
		for name, tok := range map[string]string{"deaths": ".lenDeaths", "maxLivingAge": ".maxAge", "birthYear": ".birthYear", "age": ".age"} {
			if strings.Contains(cond, tok) && !bound[name] {
				shape = false
			}
		}
	}
	for i, st := range fn.Body.List {
		switch st := st.(type) {
		case *ast.AssignStmt:
			name := lsrcBinding(st)
			if name == "" || bound[name] {
				shape = false
				continue
			}
			for _, n := range needs[name] {
				if !bound[n] {
					shape = false
				}
			}
			bound[name] = true
		case *ast.IfStmt:
			if st.Init != nil || st.Else != nil || len(st.Body.List) != 1 {
				shape = false
				continue
			}
			ret, ok := st.Body.List[0].(*ast.ReturnStmt)
			if !ok || len(ret.Results) != 1 {
				shape = false
				continue
			}
			v, ok := lsrcBoolLit(ret.Results[0])
			if !ok {
				shape = false
				continue
			}
			c := lsrcCond(st.Cond)
			uses(c)
			guards = append(guards, fmt.Sprintf("(%s, %v)", c, v))
		case *ast.ReturnStmt:
			if i != len(fn.Body.List)-1 || len(st.Results) != 1 {
				shape = false
				continue
			}
			final = lsrcCond(st.Results[0])
			uses(final)
		default:
			shape = false
		}
	}
	return
}

// ---- visibility switches

// lsrcAct classifies the body of a case.
func lsrcAct(body []ast.Stmt) string {
	isLetterAssign := func(st ast.Stmt) bool {
		as, ok := st.(*ast.AssignStmt)
		if !ok || as.Tok != token.ASSIGN || len(as.Lhs) != 1 || len(as.Rhs) != 1 || !lsrcIdent(as.Rhs[0], "true") {
			return false
		}
		ix, ok := as.Lhs[0].(*ast.IndexExpr)
		if !ok || !lsrcIdent(ix.X, "letterMap") {
			return false
		}
		fun, args, ok := lsrcCall(ix.Index)
		return ok && lsrcIdent(fun, "getIndexLetter") && len(args) == 1 && lsrcIdent(args[0], "individual")
	}
	isContinue := func(st ast.Stmt) bool {
		b, ok := st.(*ast.BranchStmt)
		return ok && b.Tok == token.CONTINUE && b.Label == nil
	}
	switch len(body) {
	case 0:
		return ".proceed"
	case 1:
		switch st := body[0].(type) {
		case *ast.ReturnStmt:
			if len(st.Results) == 1 {
				if fun, args, ok := lsrcCall(st.Results[0]); ok {
					if lsrcIdent(fun, "writeNothing") && len(args) == 0 {
						return ".nothing"
					}
					if lsrcIdent(fun, "writeString") && len(args) == 2 && lsrcIdent(args[0], "w") {
						if lit, ok := args[1].(*ast.BasicLit); ok && lit.Kind == token.STRING {
							if s, err := strconv.Unquote(lit.Value); err == nil {
								return "(.lit " + strconv.Quote(s) + ")"
							}
						}
					}
				}
				if lit, ok := st.Results[0].(*ast.BasicLit); ok && lit.Kind == token.STRING && lit.Value == `"#"` {
					return ".hash"
				}
				// return core.NewText("<s>").WriteHTMLTo(w)
				if recv, args, ok := lsrcMethod(st.Results[0], "WriteHTMLTo"); ok && len(args) == 1 && lsrcIdent(args[0], "w") {
					if r2, a2, ok := lsrcMethod(recv, "NewText"); ok && lsrcIdent(r2, "core") && len(a2) == 1 {
						if lit, ok := a2[0].(*ast.BasicLit); ok && lit.Kind == token.STRING {
							if t, err := strconv.Unquote(lit.Value); err == nil {
								return "(.lit " + strconv.Quote(t) + ")"
							}
						}
					}
				}
			}
		case *ast.BranchStmt:
			if isContinue(st) {
				return ".skip"
			}
		case *ast.AssignStmt:
			if isLetterAssign(st) {
				return ".addLetter"
			}
			// person = core.NewEmpty()
			if st.Tok == token.ASSIGN && len(st.Lhs) == 1 && len(st.Rhs) == 1 && lsrcIdent(st.Lhs[0], "person") {
				if recv, args, ok := lsrcMethod(st.Rhs[0], "NewEmpty"); ok && len(args) == 0 && lsrcIdent(recv, "core") {
					return ".emptyPerson"
				}
			}
		case *ast.IfStmt:
			// if !individual.IsLiving() { letterMap[...] = true }
			if st.Init == nil && st.Else == nil && len(st.Body.List) == 1 && isLetterAssign(st.Body.List[0]) && lsrcCond(st.Cond) == "(.not .living)" {
				return ".addLetterIfDead"
			}
		}
	case 2:
		// <counter> += 1 ; continue
		if as, ok := body[0].(*ast.AssignStmt); ok && as.Tok == token.ADD_ASSIGN && len(as.Rhs) == 1 && isContinue(body[1]) {
			if lit, ok := as.Rhs[0].(*ast.BasicLit); ok && lit.Value == "1" {
				return ".skipCounted"
			}
		}
		// name = core.NewHTML("<em>Hidden</em>") ; onclick = ""
		a1, ok1 := body[0].(*ast.AssignStmt)
		a2, ok2 := body[1].(*ast.AssignStmt)
		if ok1 && ok2 && a1.Tok == token.ASSIGN && a2.Tok == token.ASSIGN && len(a1.Lhs) == 1 && len(a2.Lhs) == 1 &&
			lsrcIdent(a1.Lhs[0], "name") && lsrcIdent(a2.Lhs[0], "onclick") {
			if recv, args, ok := lsrcMethod(a1.Rhs[0], "NewHTML"); ok && lsrcIdent(recv, "core") && len(args) == 1 {
				l1, okA := args[0].(*ast.BasicLit)
				l2, okB := a2.Rhs[0].(*ast.BasicLit)
				if okA && okB && l1.Value == `"<em>Hidden</em>"` && l2.Value == `""` {
					return ".hiddenButton"
				}
			}
		}
	}
	return ".bad"
}

// lsrcSwitches returns, in source order, the visibility switches of a function body.
func lsrcSwitches(fn *ast.FuncDecl) []string {
	var out []string
	if fn == nil {
		return out
	}
	var walk func(stmts []ast.Stmt, underLiving bool)
	visit := func(st ast.Stmt, underLiving bool) {}
	walk = func(stmts []ast.Stmt, underLiving bool) {
		for _, st := range stmts {
			visit(st, underLiving)
		}
	}
	visit = func(st ast.Stmt, underLiving bool) {
		switch st := st.(type) {
		case *ast.SwitchStmt:
			if st.Init == nil && st.Tag != nil && lsrcIsVisibility(st.Tag) {
				var cases []string
				hasDefault := false
				for _, cc := range st.Body.List {
					clause := cc.(*ast.CaseClause)
					if clause.List == nil {
						hasDefault = true
						continue
					}
					var vs []string
					for _, e := range clause.List {
						v := 9
						if id, ok := e.(*ast.Ident); ok {
							if k, ok := lsrcVisConst[id.Name]; ok {
								v = k
							}
						}
						vs = append(vs, strconv.Itoa(v))
					}
					cases = append(cases, fmt.Sprintf("([%s], %s)", strings.Join(vs, ", "), lsrcAct(clause.Body)))
				}
				out = append(out, fmt.Sprintf("⟨%v, [%s], %v⟩", underLiving, strings.Join(cases, ", "), hasDefault))
				return
			}
			for _, cc := range st.Body.List {
				walk(cc.(*ast.CaseClause).Body, false)
			}
		case *ast.IfStmt:
			// the body of `if <x>.IsLiving()` / `if isLiving` holding nothing but the switch
			c := lsrcCond(st.Cond)
			direct := c == ".living" && len(st.Body.List) == 1 && st.Else == nil
			walk(st.Body.List, direct)
			if eb, ok := st.Else.(*ast.BlockStmt); ok {
				walk(eb.List, false)
			}
		case *ast.ForStmt:
			walk(st.Body.List, false)
		case *ast.RangeStmt:
			walk(st.Body.List, false)
		case *ast.BlockStmt:
			walk(st.List, false)
		}
	}
	walk(fn.Body.List, false)
	return out
}

func lsrcFuncAny(file *ast.File, recv, name string) *ast.FuncDecl {
	if file == nil {
		return nil
	}
	for _, d := range file.Decls {
		fn, ok := d.(*ast.FuncDecl)
		if !ok || fn.Name.Name != name || fn.Body == nil {
			continue
		}
		if recv == "" {
			if fn.Recv == nil {
				return fn
			}
			continue
		}
		if fn.Recv != nil && len(fn.Recv.List) == 1 {
			if st, ok := fn.Recv.List[0].Type.(*ast.StarExpr); ok && lsrcIdent(st.X, recv) {
				return fn
			}
		}
	}
	return nil
}

// lsrcIfConds: the `if`s of a function that test the visibility: (condition, classified body).
func lsrcIfConds(fn *ast.FuncDecl) []string {
	var out []string
	if fn == nil {
		return out
	}
	ast.Inspect(fn.Body, func(n ast.Node) bool {
		if st, ok := n.(*ast.IfStmt); ok {
			c := lsrcCond(st.Cond)
			if strings.Contains(c, ".visIs") {
				act := ".bad"
				if st.Init == nil && st.Else == nil {
					act = lsrcAct(st.Body.List)
				}
				out = append(out, "("+c+", "+act+")")
			}
		}
		return true
	})
	return out
}

func init() {
	extractors["LivingSrc"] = func() string {
		fset := token.NewFileSet()
		parse := func(rel string) *ast.File {
			f, _ := parser.ParseFile(fset, filepath.Join(repoRoot(), rel), nil, 0)
			return f
		}
		var b strings.Builder
		b.WriteString("-- Source: individual_node.go (IsLiving) and the visibility switches / tests of html/*.go, translated\n")
		b.WriteString("-- from go/ast (harness/extract_livingsrc.go) into the terms of Gedcom/Model/LivingSrc.lean.\n")
		b.WriteString("import Gedcom.Model.LivingSrc\nnamespace Gedcom.Generated\nopen Gedcom.LivingSrc\n\n")

		shape, guards, final := lsrcIsLiving(lsrcFuncAny(parse("individual_node.go"), "IndividualNode", "IsLiving"))
		b.WriteString("/-- IsLiving consists of the expected bindings (deaths, maxLivingAge, nowYear, birthDate, birthYear, age — each\n    bound once, before use, from the expected expression), `if c { return b }` statements and a final `return c` -/\n")
		fmt.Fprintf(&b, "def srcIsLivingShape : Bool := %v\n", shape)
		b.WriteString("/-- the early returns, in source order -/\n")
		fmt.Fprintf(&b, "def srcIsLivingGuards : List (Cond × Bool) := [%s]\n", strings.Join(guards, ", "))
		fmt.Fprintf(&b, "def srcIsLivingFinal : Cond := %s\n\n", final)

		sw := func(name, file, recv, fn string, want int) {
			list := lsrcSwitches(lsrcFuncAny(parse(file), recv, fn))
			fmt.Fprintf(&b, "/-- %s %s: its `switch <visibility>` statements in source order (%d expected) -/\n", file, fn, want)
			fmt.Fprintf(&b, "def %s : List Sw := [%s]\n", name, strings.Join(list, ", "))
		}
		sw("srcNameSwitches", "html/individual_name.go", "IndividualName", "WriteHTMLTo", 1)
		sw("srcLinkSwitches", "html/individual_link.go", "IndividualLink", "WriteHTMLTo", 1)
		sw("srcButtonSwitches", "html/individual_button.go", "IndividualButton", "WriteHTMLTo", 2)
		sw("srcPageIndividualSwitches", "html/util.go", "", "PageIndividual", 1)
		sw("srcPlaceEventSwitches", "html/place_event.go", "PlaceEvent", "WriteHTMLTo", 1)
		sw("srcListPageSwitches", "html/individual_list_page.go", "IndividualListPage", "WriteHTMLTo", 1)
		sw("srcSurnameIndexSwitches", "html/surname_index.go", "SurnameIndex", "WriteHTMLTo", 1)
		sw("srcSendIndividualSwitches", "html/publish.go", "Publisher", "sendIndividualFiles", 1)
		sw("srcPartnersSwitches", "html/partners_and_children.go", "PartnersAndChildren", "WriteHTMLTo", 1)
		sw("srcPartnerSectionSwitches", "html/partners_and_children.go", "", "partnerSection", 1)
		sw("srcIndexLettersSwitches", "html/individual_index_header.go", "", "GetIndexLetters", 1)

		conds := func(name, file, recv, fn string) {
			fmt.Fprintf(&b, "/-- %s %s: the `if`s that test the visibility, in source order: condition and what the body does -/\n", file, fn)
			fmt.Fprintf(&b, "def %s : List (Cond × Act) := [%s]\n", name, strings.Join(lsrcIfConds(lsrcFuncAny(parse(file), recv, fn)), ", "))
		}
		b.WriteString("\n")
		conds("srcDatesConds", "html/individual_dates.go", "IndividualDates", "WriteHTMLTo")
		conds("srcPlacesFilterConds", "html/publish.go", "Publisher", "Places")
		b.WriteString("\nend Gedcom.Generated\n")
		return b.String()
	}
}
