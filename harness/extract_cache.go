package main

// go/ast facts for C13: which edit method of the library invalidates which cache.  The Lean model
// of the caches (lean/Gedcom/Model/Cache.lean) takes these flags as its definition of "what the
// code resets"; the property theorems are proved for the flags of correct code and the obligation
// `Generated flags = expected flags` is re-checked on every run.
//
// A fact is `some true` / `some false` when the method was found and the statement is / is not in
// it (following calls to methods of the same receiver and to package-level functions, three
// levels deep), and `none` when the method could not be located at all (e.g. it was renamed): the
// model then assumes correct code for that fact and only the correspondence ties it.

import (
	"fmt"
	"go/ast"
	"go/parser"
	"go/token"
	"os"
	"path/filepath"
	"sort"
	"strings"

	"github.com/elliotchance/gedcom/v39"
)

type c13Effects struct {
	calls  map[string]bool // names called: f(...), x.f(...)
	writes map[string]bool // names assigned / incremented / atomically stored: v = …, x.v = …, x.v++, v.Store(…)
}

type c13Source struct {
	funcs map[string]*ast.FuncDecl // "Recv.Name" or "Name"
	types map[string]bool
}

func c13RepoDir() string {
	if d := os.Getenv("VERIF_REPO"); d != "" {
		return d
	}
	return "/repo"
}

func c13Parse(dir string) (*c13Source, error) {
	src := &c13Source{funcs: map[string]*ast.FuncDecl{}, types: map[string]bool{}}
	names, err := filepath.Glob(filepath.Join(dir, "*.go"))
	if err != nil {
		return nil, err
	}
	sort.Strings(names)
	fset := token.NewFileSet()
	for _, n := range names {
		if strings.HasSuffix(n, "_test.go") {
			continue
		}
		f, err := parser.ParseFile(fset, n, nil, 0)
		if err != nil {
			return nil, err
		}
		for _, d := range f.Decls {
			switch d := d.(type) {
			case *ast.FuncDecl:
				key := d.Name.Name
				if d.Recv != nil && len(d.Recv.List) == 1 {
					key = c13RecvName(d.Recv.List[0].Type) + "." + key
				}
				src.funcs[key] = d
			case *ast.GenDecl:
				for _, s := range d.Specs {
					if ts, ok := s.(*ast.TypeSpec); ok {
						src.types[ts.Name.Name] = true
					}
				}
			}
		}
	}
	return src, nil
}

func c13RecvName(e ast.Expr) string {
	switch t := e.(type) {
	case *ast.StarExpr:
		return c13RecvName(t.X)
	case *ast.Ident:
		return t.Name
	}
	return "?"
}

func c13Name(e ast.Expr) string {
	switch t := e.(type) {
	case *ast.Ident:
		return t.Name
	case *ast.SelectorExpr:
		return t.Sel.Name
	}
	return ""
}

// effects of a function body, following same-receiver method calls and package-level function
// calls up to `depth` levels.
func (src *c13Source) effects(key string, depth int, acc *c13Effects, seen map[string]bool) {
	fd, ok := src.funcs[key]
	if !ok || fd.Body == nil || seen[key] {
		return
	}
	seen[key] = true
	recvType, recvVar := "", ""
	if fd.Recv != nil && len(fd.Recv.List) == 1 {
		recvType = c13RecvName(fd.Recv.List[0].Type)
		if len(fd.Recv.List[0].Names) == 1 {
			recvVar = fd.Recv.List[0].Names[0].Name
		}
	}
	ast.Inspect(fd.Body, func(n ast.Node) bool {
		switch n := n.(type) {
		case *ast.AssignStmt:
			for _, l := range n.Lhs {
				if name := c13Name(l); name != "" {
					acc.writes[name] = true
				}
			}
		case *ast.IncDecStmt:
			if name := c13Name(n.X); name != "" {
				acc.writes[name] = true
			}
		case *ast.CallExpr:
			name := c13Name(n.Fun)
			if name == "" {
				return true
			}
			acc.calls[name] = true
			// v.Store(x) on a plain variable (an atomic.Value such as nodeCache) replaces what the
			// variable holds: a write of v
			if f, ok := n.Fun.(*ast.SelectorExpr); ok && f.Sel.Name == "Store" {
				if x, ok := f.X.(*ast.Ident); ok {
					acc.writes[x.Name] = true
				}
			}
			if depth <= 0 {
				return true
			}
			switch f := n.Fun.(type) {
			case *ast.Ident:
				src.effects(f.Name, depth-1, acc, seen)
			case *ast.SelectorExpr:
				if x, ok := f.X.(*ast.Ident); ok && recvVar != "" && x.Name == recvVar {
					src.effects(recvType+"."+f.Sel.Name, depth-1, acc, seen)
				}
			}
		}
		return true
	})
}

func (src *c13Source) eff(key string) (*c13Effects, bool) {
	if _, ok := src.funcs[key]; !ok {
		return nil, false
	}
	acc := &c13Effects{calls: map[string]bool{}, writes: map[string]bool{}}
	src.effects(key, 3, acc, map[string]bool{})
	return acc, true
}

// c13Facts returns fact name -> "some true" | "some false" | "none", in declaration order.
func c13Facts() ([]string, map[string]string, error) {
	src, err := c13Parse(c13RepoDir())
	if err != nil {
		return nil, nil, err
	}
	order := []string{}
	facts := map[string]string{}
	put := func(name string, found bool, val bool) {
		order = append(order, name)
		switch {
		case !found:
			facts[name] = "none"
		case val:
			facts[name] = "some true"
		default:
			facts[name] = "some false"
		}
	}
	// a method's fact
	method := func(name, key string, test func(e *c13Effects) bool) {
		e, ok := src.eff(key)
		put(name, ok, ok && test(e))
	}
	// an override's fact: the type exists ⇒ a missing method means "no reset" (false), not "unknown"
	override := func(name, typ, key string, test func(e *c13Effects) bool) {
		if !src.types[typ] {
			put(name, false, false)
			return
		}
		e, ok := src.eff(key)
		put(name, true, ok && test(e))
	}
	resetsNodeCache := func(e *c13Effects) bool { return e.writes["nodeCache"] }
	method("simpleAddResetsNodeCache", "SimpleNode.AddNode", resetsNodeCache)
	method("simpleDeleteResetsNodeCache", "SimpleNode.DeleteNode", resetsNodeCache)
	method("simpleSetNodesResetsNodeCache", "SimpleNode.SetNodes", resetsNodeCache)
	method("docAddStoresPointer", "Document.AddNode", func(e *c13Effects) bool { return e.calls["Store"] })
	method("docAddClearsFamilies", "Document.AddNode", func(e *c13Effects) bool { return e.writes["families"] })
	method("docDeleteRebuildsPointers", "Document.DeleteNode", func(e *c13Effects) bool {
		return e.calls["buildPointerCache"]
	})
	method("docDeleteClearsFamilies", "Document.DeleteNode", func(e *c13Effects) bool { return e.writes["families"] })
	invalidatesIndividuals := func(e *c13Effects) bool {
		return e.writes["familyLinksVersion"] || e.calls["resetCache"]
	}
	method("docDeleteResetsIndividuals", "Document.DeleteNode", invalidatesIndividuals)
	method("addIndividualResetsIndividuals", "Document.AddIndividual", func(e *c13Effects) bool {
		return e.calls["resetCache"] || e.writes["familyLinksVersion"]
	})
	method("addFamilyResetsFamilies", "Document.AddFamily", func(e *c13Effects) bool { return e.calls["resetCache"] })
	familyReset := func(e *c13Effects) bool {
		own := e.calls["resetCache"] || (e.writes["cachedHusband"] && e.writes["cachedWife"])
		return own && e.writes["familyLinksVersion"]
	}
	override("familyAddResetsCaches", "FamilyNode", "FamilyNode.AddNode", familyReset)
	override("familyDeleteResetsCaches", "FamilyNode", "FamilyNode.DeleteNode", familyReset)
	override("familySetNodesResetsCaches", "FamilyNode", "FamilyNode.SetNodes", familyReset)
	method("setHusbandPointerClearsCache", "FamilyNode.SetHusbandPointer", func(e *c13Effects) bool {
		return e.writes["cachedHusband"]
	})
	method("setWifePointerClearsCache", "FamilyNode.SetWifePointer", func(e *c13Effects) bool {
		return e.writes["cachedWife"]
	})
	// DeleteNodesWithTag must not range over the slice it shrinks: the range expression is not the
	// call node.Nodes() itself.
	if fd, ok := src.funcs["DeleteNodesWithTag"]; ok && fd.Body != nil {
		copies := true
		ast.Inspect(fd.Body, func(n ast.Node) bool {
			if r, ok := n.(*ast.RangeStmt); ok {
				if call, ok := r.X.(*ast.CallExpr); ok && c13Name(call.Fun) == "Nodes" {
					copies = false
				}
			}
			return true
		})
		put("deleteNodesWithTagCopies", true, copies)
	} else {
		put("deleteNodesWithTagCopies", false, false)
	}
	method("warningsReadOnly", "Document.Warnings", func(e *c13Effects) bool {
		return !e.calls["Filter"] && !e.calls["AddFamily"] && !e.calls["AddNode"] && !e.calls["DeepCopy"]
	})
	method("docSetNodesRebuildsPointers", "Document.SetNodes", func(e *c13Effects) bool {
		return e.calls["buildPointerCache"]
	})
	method("docSetNodesClearsFamilies", "Document.SetNodes", func(e *c13Effects) bool { return e.writes["families"] })
	method("docSetNodesResetsIndividuals", "Document.SetNodes", invalidatesIndividuals)
	// the generic Document.AddNode changes the records: it must make individuals recompute (its own
	// statements and helpers only — AddIndividual/AddFamily call it, not the other way round)
	method("docAddBumpsLinks", "Document.AddNode", func(e *c13Effects) bool { return e.writes["familyLinksVersion"] })
	return order, facts, nil
}

func init() {
	extractors["CacheFlags"] = func() string {
		order, facts, err := c13Facts()
		if err != nil {
			fmt.Fprintln(os.Stderr, "extract CacheFlags:", err)
			return ""
		}
		var b strings.Builder
		b.WriteString("-- Source: go/ast facts about which edit method invalidates which cache (harness/extract_cache.go).\n")
		b.WriteString("-- `some true`  = the statement was found in the method body,\n")
		b.WriteString("-- `some false` = the method was found but the statement is absent,\n")
		b.WriteString("-- `none`       = the method itself could not be located (fact unavailable: tie by correspondence only).\n")
		b.WriteString("namespace Gedcom.Generated\n\nstructure RawCacheFlags where\n")
		for _, n := range order {
			fmt.Fprintf(&b, "  %s : Option Bool\n", n)
		}
		b.WriteString("deriving Repr, DecidableEq\n\ndef rawCacheFlags : RawCacheFlags where\n")
		for _, n := range order {
			fmt.Fprintf(&b, "  %s := %s\n", n, facts[n])
		}
		// the tags Tag.IsEvent() answers true for, as byte strings (IndividualNode.AllEvents filters on it)
		evSeen := map[string]bool{}
		var evs []string
		for _, t := range gedcom.Tags() {
			if t.IsEvent() && !evSeen[t.Tag()] {
				evSeen[t.Tag()] = true
				evs = append(evs, t.Tag())
			}
		}
		sort.Strings(evs)
		b.WriteString("\n/-- the registered tags `Tag.IsEvent()` is true for (gedcom.Tags() of the linked library), as bytes -/\n")
		b.WriteString("def cacheEventTags : List (List UInt8) := [\n")
		for i, t := range evs {
			var bs []string
			for _, c := range []byte(t) {
				bs = append(bs, fmt.Sprint(int(c)))
			}
			sep := ","
			if i == len(evs)-1 {
				sep = ""
			}
			fmt.Fprintf(&b, "  [%s]%s -- %s\n", strings.Join(bs, ", "), sep, t)
		}
		b.WriteString("]\n")
		b.WriteString("\nend Gedcom.Generated\n")
		return b.String()
	}
}
