package main

// C07, round 4.
//  * `dsym`: pairs of DATE values — DateNode.Equals both ways, symmetry of Date.Equals on the start
//    pair and on the end pair (model: not PDate.asymPair), membership of the plain class
//    (plainDateValue); oracle: on plain values DateNode.Equals is symmetric and transitive.
//  * `copydoc`: sequences of DeepCopy calls between several documents — what every call returned
//    (identity by pointer: freshness, the family object of every role node of the copy, the document
//    of every INDI / FAM node of the copy), and every document afterwards (record objects, text,
//    NodeByPointer, Families); oracle: no document other than the destination changes, the
//    destination only grows, copies of the same object are DeepEqual and disjoint.

import (
	"fmt"
	"strings"

	"github.com/elliotchance/gedcom/v39"
)

func c07plainGo(v string) bool {
	dr := gedcom.NewDateNode(v).DateRange()
	if !dr.IsValid() {
		return true
	}
	one := func(d gedcom.Date) bool {
		return d.Constraint == gedcom.DateConstraintBefore || d.Constraint == gedcom.DateConstraintAfter
	}
	return !one(dr.StartDate()) && !one(dr.EndDate())
}

func c07dateEq(a, b string) bool {
	return gedcom.NewDateNode(a).Equals(gedcom.NewDateNode(b))
}

func c07dsym(c *Ctx) {
	var pool []string
	seen := map[string]bool{}
	for _, l := range [][]string{c07TameDates, c07WildDates, c07EdgeDates, c07TieDates,
		{"Bef. 3 Sep 1943", "Aft. 5 Sep 1943", "Bet. Aft. 1940 and Bef. 1950", "Bet. Bef. 1941 and 1950", "Bef. 12345", "Bef. 12346",
			"Bef. Mar 12345", "Bef. Mar 12346", "Aft. 1900", "Aft. 1901", "Abt. Bef. 1900", "From 1900 to 1901", "Bet. 1940 and Bef. 1951"}} {
		for _, v := range l {
			if !seen[v] {
				seen[v] = true
				pool = append(pool, v)
			}
		}
	}
	r := c.R
	pairs := c.N(1500, len(pool)*len(pool))
	all := pairs >= len(pool)*len(pool)
	for i := 0; i < pairs; i++ {
		var a, b string
		if all {
			a, b = pool[i/len(pool)], pool[i%len(pool)]
		} else {
			a, b = r.Pick(pool), r.Pick(pool)
		}
		da, db := gedcom.NewDateNode(a).DateRange(), gedcom.NewDateNode(b).DateRange()
		ab, ba := c07dateEq(a, b), c07dateEq(b, a)
		symS := da.StartDate().Equals(db.StartDate()) == db.StartDate().Equals(da.StartDate())
		symE := da.EndDate().Equals(db.EndDate()) == db.EndDate().Equals(da.EndDate())
		pa, pb := c07plainGo(a), c07plainGo(b)
		c.Tie("dsym "+hexs(a)+" "+hexs(b), fmt.Sprintf("%s%s sym=%s%s plain=%s%s", bit(ab), bit(ba), bit(symS), bit(symE), bit(pa), bit(pb)))
		c.Eval()
		c.Count(fmt.Sprintf("dsym:eq=%s%s sym=%s%s plain=%s%s", bit(ab), bit(ba), bit(symS), bit(symE), bit(pa), bit(pb)))
		c.Nontrivial(fmt.Sprintf("dsym/%s%s/%s%s/%s%s", bit(ab), bit(ba), bit(symS), bit(symE), bit(pa), bit(pb)))
		in := map[string]string{"a": a, "b": b}
		// (S) DateNode.Equals is symmetric unless Date.Equals is asymmetric on the start or end pair
		if symS && symE && ab != ba {
			c.Oracle("", "DateNode.Equals is not symmetric although Date.Equals is symmetric on the start dates and on the end dates", in, bit(ab)+bit(ba), "equal answers")
		}
		// (S) on plain values the relation is symmetric …
		if pa && pb && ab != ba {
			c.Oracle("", "DateNode.Equals is not symmetric on two DATE values without a before/after constraint", in, bit(ab)+bit(ba), "equal answers")
		}
		// … and transitive
		if pa && pb && ab {
			for k := 0; k < 6; k++ {
				x := r.Pick(pool)
				if c07plainGo(x) && c07dateEq(b, x) && !c07dateEq(a, x) {
					c.Oracle("", "DateNode.Equals is not transitive on DATE values without a before/after constraint",
						map[string]string{"a": a, "b": b, "c": x}, "a=b, b=c, a!=c", "a=c")
				}
			}
		}
	}
}

// ---- sequences of copies between documents ----

type c07world struct {
	docs []*gedcom.Document
	ids  map[gedcom.Node]int
	objs []gedcom.Node // id -> object (objects of documents and copies)
}

func (w *c07world) number(n gedcom.Node) {
	w.ids[n] = len(w.objs)
	w.objs = append(w.objs, n)
	for _, k := range n.Nodes() {
		w.number(k)
	}
}

func (w *c07world) id(n gedcom.Node) string {
	if gedcom.IsNil(n) {
		return "nil"
	}
	if i, ok := w.ids[n]; ok {
		return fmt.Sprint(i)
	}
	return "?"
}

func c07nats(l []string) string {
	if len(l) == 0 {
		return "-"
	}
	return strings.Join(l, ",")
}

func (w *c07world) recordOf(n gedcom.Node) (doc int, rec gedcom.Node) {
	for di, d := range w.docs {
		for _, r := range d.Nodes() {
			for _, x := range c07preorderNodes(gedcom.Nodes{r}) {
				if x == n {
					return di, r
				}
			}
		}
	}
	return -1, nil
}

func (w *c07world) showDoc(d *gedcom.Document) string {
	var ids, look, fams []string
	var text strings.Builder
	seen := map[string]bool{}
	for _, r := range d.Nodes() {
		ids = append(ids, w.id(r))
		text.WriteString(r.GEDCOMString(0))
		if p := r.Pointer(); p != "" && !seen[p] {
			seen[p] = true
			look = append(look, w.id(d.NodeByPointer(p)))
		}
	}
	for _, f := range d.Families() {
		fams = append(fams, w.id(f))
	}
	return fmt.Sprintf("[ids=%s text=%s ptr=%s fams=%s]", c07nats(ids), hexs(text.String()), c07nats(look), c07nats(fams))
}

// c07views: for every individual of every document, its Families() and Spouses() by object identity
func c07views(w *c07world) string {
	var sb strings.Builder
	for k, d := range w.docs {
		for _, ind := range d.Individuals() {
			fmt.Fprintf(&sb, "%d/%s:", k, w.id(ind))
			for _, f := range ind.Families() {
				sb.WriteString(" f" + w.id(f))
			}
			for _, sp := range ind.Spouses() {
				sb.WriteString(" s" + w.id(sp))
			}
			sb.WriteString("; ")
		}
	}
	return sb.String()
}

func c07copySeq(c *Ctx, i int) {
	r := c.R
	w := &c07world{ids: map[gedcom.Node]int{}}
	var texts []string
	nd := 2 + r.Intn(2)
	for k := 0; k < nd; k++ {
		text := ""
		switch r.Intn(5) {
		case 0: // an empty document
		case 1, 2:
			text = c07document(r)
		default:
			text = c07document2(r)
		}
		doc, err := gedcom.NewDocumentFromString(text)
		if err != nil {
			c.Count("copydoc:decode-error")
			return
		}
		texts = append(texts, text)
		w.docs = append(w.docs, doc)
	}
	var req strings.Builder
	fmt.Fprintf(&req, "copydoc %d", nd)
	for _, d := range w.docs {
		for _, rec := range d.Nodes() {
			w.number(rec)
		}
		req.WriteString(" " + encForest(abstractNodes(d.Nodes())))
	}
	if len(w.objs) == 0 {
		return
	}
	in := map[string]string{}
	for k, t := range texts {
		in[fmt.Sprintf("document %d", k)] = t
	}
	type event struct {
		src gedcom.Node
		cp  gedcom.Node
		fil string
	}
	filterPool := []string{"NAME", "BIRT", "DATE", "HUSB", "WIFE", "CHIL", "NOTE", "MARR", "RESI", "EVEN", "FAMS", "_UID", "TITL"}
	var events []event
	var obs []string
	var opsText []string
	nops := 1 + r.Intn(5)
	var last [3]int
	lastFil := "-"
	for o := 0; o < nops; o++ {
		// candidate source: an object that currently lives in a document (records added by earlier
		// copies included); one time in three the previous operation again (copying twice)
		var srcDoc, node, dst int
		fil := "-" // "-" = DeepCopy, "w:…" / "b:…" = Filter with Whitelist / BlacklistTagFilter
		if o > 0 && r.Chance(1, 3) {
			srcDoc, node, dst = last[0], last[1], last[2]
			fil = lastFil
			if r.Bool() {
				dst = r.Intn(nd)
			}
		} else {
			var cands []gedcom.Node
			for _, d := range w.docs {
				cands = append(cands, c07preorderNodes(d.Nodes())...)
			}
			// prefer FAM records and role nodes
			n := cands[r.Intn(len(cands))]
			for t := 0; t < 2; t++ {
				_, isRole := n.(gedcom.FamilyNoder)
				_, isFam := n.(*gedcom.FamilyNode)
				if isRole || isFam {
					break
				}
				n = cands[r.Intn(len(cands))]
			}
			var rec gedcom.Node
			srcDoc, rec = w.recordOf(n)
			_ = rec
			node = w.ids[n]
			dst = r.Intn(nd)
			if r.Chance(1, 4) {
				dst = srcDoc
			}
		}
		n := w.objs[node]
		sd, rec := w.recordOf(n)
		if sd != srcDoc || rec == nil {
			c.Count("copydoc:source-moved")
			continue
		}
		if fil == "-" && !(o > 0 && lastFil == "-" && last == [3]int{srcDoc, node, dst}) && r.Chance(1, 3) {
			var tags []string
			white := r.Bool()
			k := r.Intn(3)
			if white {
				tags = append(tags, n.Tag().Tag())
				k = 3 + r.Intn(6)
			}
			for ; k > 0; k-- {
				tags = append(tags, r.Pick(filterPool))
			}
			var hx []string
			for _, t := range tags {
				hx = append(hx, hexs(t))
			}
			fil = map[bool]string{true: "w:", false: "b:"}[white] + strings.Join(hx, ",")
		}
		var ftags []string
		var keep func(string) bool
		if fil != "-" {
			if fil[2:] != "" {
				for _, h := range strings.Split(fil[2:], ",") {
					ftags = append(ftags, unhex(h))
				}
			}
			white := fil[0] == 'w'
			keep = func(tag string) bool {
				in := false
				for _, t := range ftags {
					if t == tag {
						in = true
					}
				}
				return in == white
			}
			// Filter asks every kept role node for its own family: it must be the record (model: ctxOf)
			bad := false
			for _, x := range c07preorderNodes(gedcom.Nodes{n}) {
				if fn, isRole := x.(gedcom.FamilyNoder); isRole && gedcom.Node(fn.Family()) != rec {
					bad = true
				}
			}
			if bad {
				c.Count("copydoc:family-outside-record")
				continue
			}
		}
		// the family the walk falls back on must be the FAM record the node lives in (model: ctxOf)
		if ctx, ok := c07ctx(n, w.ids); !ok || (ctx != "-" && ctx != w.id(rec)) {
			c.Count("copydoc:family-outside-record")
			continue
		}
		last = [3]int{srcDoc, node, dst}
		lastFil = fil
		call := "DeepCopy"
		if fil != "-" {
			call = map[byte]string{'w': "Filter[WhitelistTagFilter(", 'b': "Filter[BlacklistTagFilter("}[fil[0]] + strings.Join(ftags, ",") + ")]"
		}
		opsText = append(opsText, fmt.Sprintf("%s(object %d of document %d = %q, document %d)", call, node, srcDoc, strings.TrimSpace(strings.SplitN(n.GEDCOMString(0), "\n", 2)[0]), dst))
		in["operations"] = strings.Join(opsText, "; ")
		fmt.Fprintf(&req, " %d %d %d %s", srcDoc, node, dst, fil)
		// state before
		type snap struct {
			recs gedcom.Nodes
			text []string
		}
		var before []snap
		for _, d := range w.docs {
			s := snap{recs: append(gedcom.Nodes{}, d.Nodes()...)}
			for _, x := range s.recs {
				s.text = append(s.text, x.GEDCOMString(0))
			}
			before = append(before, s)
		}
		srcText := n.GEDCOMString(0)
		dstDoc := w.docs[dst]
		viewsBefore := c07views(w)
		var cp gedcom.Node
		var panicked bool
		var want *TNode
		if fil == "-" {
			cp, panicked = c07copy(n, dstDoc)
		} else {
			want = c07prune(abstractNode(n), keep)
			var gtags []gedcom.Tag
			for _, t := range ftags {
				gtags = append(gtags, gedcom.TagFromString(t))
			}
			fn := gedcom.BlacklistTagFilter(gtags...)
			if fil[0] == 'w' {
				fn = gedcom.WhitelistTagFilter(gtags...)
			}
			panicked = func() (p bool) {
				defer func() {
					if x := recover(); x != nil {
						p = true
					}
				}()
				cp = gedcom.Filter(n, dstDoc, fn)
				return false
			}()
		}
		c.Eval()
		if panicked {
			obs = append(obs, "[panic]")
			c.Oracle("", "DeepCopy / Filter panics for a node of a decoded document", in, "panic", "a copy")
			continue
		}
		if gedcom.IsNil(cp) {
			obs = append(obs, "[noop]")
			c.Count("copydoc:op:filter=nil")
			if fil == "-" || want != nil {
				c.Oracle("", "DeepCopy / Filter returned nil for a node whose tag is kept", in, "nil", "a copy")
			}
			if va := c07views(w); va != viewsBefore {
				c.Oracle("", "a Filter call that returned nil changed a document", in, va, viewsBefore)
			}
			continue
		}
		first := len(w.objs)
		fresh := true
		cpNodes := c07preorderNodes(gedcom.Nodes{cp})
		for _, x := range cpNodes {
			if _, old := w.ids[x]; old {
				fresh = false
			}
		}
		w.number(cp)
		added := 0
		if now := dstDoc.Nodes(); len(now) >= len(before[dst].recs) {
			for _, x := range now[len(before[dst].recs):] {
				if _, known := w.ids[x]; !known {
					w.number(x)
				}
				added++
			}
		}
		var fam, docs []string
		for _, x := range cpNodes {
			if fn, isRole := x.(gedcom.FamilyNoder); isRole {
				fam = append(fam, w.id(fn.Family()))
				// (S) the copy is independent of the source: its role nodes belong to a family created
				// by this copy, not to an object that existed before
				if k, known := w.ids[gedcom.Node(fn.Family())]; known && k < first {
					c.Oracle("", "a role node of a deep copy still belongs to a family that existed before the copy (the copy reaches a node of the source)", in,
						fmt.Sprintf("Family() = object %d", k), "a family record added to the destination by this copy")
				}
			}
			var d *gedcom.Document
			switch t := x.(type) {
			case *gedcom.IndividualNode:
				d = t.Document()
			case *gedcom.FamilyNode:
				d = t.Document()
			default:
				continue
			}
			which := "x"
			for k, dd := range w.docs {
				if dd == d {
					which = fmt.Sprint(k)
				}
			}
			docs = append(docs, which)
			if d != dstDoc {
				c.Oracle("", "an INDI / FAM node of a deep copy is not attached to the destination document", in, "Document() = document "+which, fmt.Sprint("document ", dst))
			}
		}
		obs = append(obs, fmt.Sprintf("[ok first=%d n=%d fresh=%s t=%s fam=%s doc=%s added=%d]", first, len(cpNodes), bit(fresh),
			encTree(abstractNode(cp)), c07nats(fam), c07nats(docs), added))
		kind := "copy"
		if fil != "-" {
			kind = "filter-" + fil[:1]
		}
		c.Count(fmt.Sprintf("copydoc:op:%s:%s same=%v added=%d", kind, n.Tag().Tag(), srcDoc == dst, added))
		c.Nontrivial(fmt.Sprintf("copydoc/%s/%s/same=%v/added=%d/roles=%d/op=%d", kind, n.Tag().Tag(), srcDoc == dst, added, len(fam), o))
		// (S) the clauses of the property, on the implementation
		if !fresh {
			c.Oracle("", "a deep copy shares a node with a document or an earlier copy", in, "shared node", "only new nodes")
		}
		if fil == "-" && (cp.GEDCOMString(0) != srcText || !gedcom.DeepEqual(n, cp) || !gedcom.DeepEqual(cp, n)) {
			c.Oracle("", "a deep copy is not deep-equal to / serialises differently from its source", in, cp.GEDCOMString(0), srcText)
		}
		if fil != "-" && (want == nil || c07text(want) != c07text(abstractNode(cp))) {
			c.Oracle("", "Filter with a tag filter did not return the tree without the subtrees of the rejected tags", in, c07text(abstractNode(cp)), fmt.Sprint(want != nil))
		}
		for k, d := range w.docs {
			now := d.Nodes()
			b := before[k]
			if len(now) < len(b.recs) || (k != dst && len(now) != len(b.recs)) {
				c.Oracle("", "copying changed the record list of a document other than by appending to the destination", in,
					fmt.Sprintf("document %d: %d records", k, len(now)), fmt.Sprint(len(b.recs)))
				continue
			}
			for j, x := range b.recs {
				if now[j] != x || x.GEDCOMString(0) != b.text[j] {
					c.Oracle("", "copying modified a record of a document", in, now[j].GEDCOMString(0), b.text[j])
					break
				}
			}
			if k == dst {
				for _, x := range now[len(b.recs):] {
					if _, isFam := x.(*gedcom.FamilyNode); !isFam || len(x.Nodes()) != 0 {
						c.Oracle("", "copying added something other than an empty family record to the destination", in, x.GEDCOMString(0), "0 @…@ FAM")
					}
				}
			}
		}
		// what the individuals of every document know about their families and spouses (cached views,
		// warm before the copy) is unchanged: the records a copy adds are empty families
		if va := c07views(w); va != viewsBefore {
			c.Oracle("", "copying changed the families / spouses of an individual of a document", in, va, viewsBefore)
		}
		for _, e := range events {
			if e.src != n || e.fil != fil {
				continue
			}
			c.Count("copydoc:copied-twice")
			if !gedcom.DeepEqual(e.cp, cp) || !gedcom.DeepEqual(cp, e.cp) {
				c.Oracle("", "two deep copies of the same node are not deep-equal", in, "DeepEqual=false", "true")
			}
			set := map[gedcom.Node]bool{}
			c07identity(e.cp, set)
			for _, x := range cpNodes {
				if set[x] {
					c.Oracle("", "two deep copies of the same node share a node", in, "shared node", "disjoint copies")
					break
				}
			}
		}
		events = append(events, event{n, cp, fil})
	}
	if len(obs) == 0 {
		return
	}
	for k, d := range w.docs {
		obs = append(obs, w.showDoc(d))
		// (S) the document's derived views after the copies: Families() lists exactly the FAM
		// records, NodeByPointer finds the record stored last under a pointer
		var fams []gedcom.Node
		lastByPtr := map[string]gedcom.Node{}
		for _, rec := range d.Nodes() {
			if _, isFam := rec.(*gedcom.FamilyNode); isFam {
				fams = append(fams, rec)
			}
			if rec.Pointer() != "" {
				lastByPtr[rec.Pointer()] = rec
			}
		}
		got := d.Families()
		same := len(got) == len(fams)
		for j := range fams {
			if same && gedcom.Node(got[j]) != fams[j] {
				same = false
			}
		}
		if !same {
			c.Oracle("", "after copying into a document its Families() does not list its FAM records", in,
				fmt.Sprintf("document %d: %d families", k, len(got)), fmt.Sprintf("%d FAM records", len(fams)))
		}
		// (which of several records sharing a pointer is found is the model's business — the tie —,
		// not the property's: here only "a record of this document with that pointer")
		for p := range lastByPtr {
			got := d.NodeByPointer(p)
			ok := false
			for _, rec := range d.Nodes() {
				if rec == got && rec.Pointer() == p {
					ok = true
				}
			}
			if !ok {
				c.Oracle("", "after copying into a document NodeByPointer does not find a record of the document under a pointer that one of its records has", in,
					fmt.Sprintf("document %d pointer %s", k, p), "a record with that pointer")
			}
		}
	}
	in["request"] = req.String()
	c.Tie(req.String(), strings.Join(obs, " "))
	c.Count(fmt.Sprintf("copydoc:sequence ops=%d docs=%d", len(events), nd))
	if i < 2 {
		c.Sample(map[string]string{"copydoc": in["operations"]})
	}
}

// ---- Filter with a tag filter into another document ----

func c07prune(t *TNode, keep func(string) bool) *TNode {
	if !keep(t.Tag) {
		return nil
	}
	out := &TNode{Tag: t.Tag, Value: t.Value, Ptr: t.Ptr}
	for _, k := range t.Kids {
		if p := c07prune(k, keep); p != nil {
			out.Kids = append(out.Kids, p)
		}
	}
	return out
}

func c07filterDoc(c *Ctx, text string, k int, same, white bool, tags []string) {
	doc, err := gedcom.NewDocumentFromString(text)
	if err != nil {
		return
	}
	w := &c07world{ids: map[gedcom.Node]int{}, docs: []*gedcom.Document{doc}}
	for _, rec := range doc.Nodes() {
		w.number(rec)
	}
	if k >= len(w.objs) {
		return
	}
	n := w.objs[k]
	_, rec := w.recordOf(n)
	// every role node below n must belong to the FAM record n lives in (model: ctxOf)
	for _, x := range c07preorderNodes(gedcom.Nodes{n}) {
		if fn, isRole := x.(gedcom.FamilyNoder); isRole && gedcom.Node(fn.Family()) != rec {
			c.Count("filterdoc:family-outside-record")
			return
		}
	}
	forest := abstractNodes(doc.Nodes())
	var ht []string
	for _, t := range tags {
		ht = append(ht, hexs(t))
	}
	req := strings.TrimSpace(fmt.Sprintf("filterdoc %s %d %s", bit(white), len(tags), strings.Join(ht, " "))) +
		fmt.Sprintf(" %s %d %s", bit(same), k, encForest(forest))
	dst := gedcom.NewDocument()
	if same {
		dst = doc
	}
	w.docs = []*gedcom.Document{dst}
	var gtags []gedcom.Tag
	for _, t := range tags {
		gtags = append(gtags, gedcom.TagFromString(t))
	}
	fn := gedcom.BlacklistTagFilter(gtags...)
	name := "BlacklistTagFilter"
	if white {
		fn = gedcom.WhitelistTagFilter(gtags...)
		name = "WhitelistTagFilter"
	}
	keep := func(tag string) bool {
		in := false
		for _, t := range tags {
			if t == tag {
				in = true
			}
		}
		return in == white
	}
	recsBefore := append(gedcom.Nodes{}, doc.Nodes()...)
	var recText []string
	for _, r := range recsBefore {
		recText = append(recText, r.GEDCOMString(0))
	}
	dstBefore := len(dst.Nodes())
	in := map[string]string{"case": fmt.Sprintf("Filter(object %d of the document, %s, %s(%s))", k,
		map[bool]string{true: "the same document", false: "an empty document"}[same], name, strings.Join(tags, ", ")),
		"document": text, "node": n.GEDCOMString(0), "request": req}
	var res gedcom.Node
	panicked := func() (p bool) {
		defer func() {
			if r := recover(); r != nil {
				p = true
			}
		}()
		res = gedcom.Filter(n, dst, fn)
		return false
	}()
	c.Eval()
	label := fmt.Sprintf("filterdoc:%s:same=%v:%s", name, same, n.Tag().Tag())
	if panicked {
		c.Tie(req, "panic")
		c.Count(label + "=panic")
		c.Oracle("", "Filter with a tag filter panics for a node of a decoded document", in, "panic", "a filtered copy")
		return
	}
	want := c07prune(abstractNode(n), keep)
	if gedcom.IsNil(res) {
		c.Tie(req, "nil")
		c.Count(label + "=nil")
		if want != nil {
			c.Oracle("", "Filter returned nil although the root's tag is kept", in, "nil", c07text(want))
		}
		return
	}
	first := len(w.objs)
	fresh := true
	resNodes := c07preorderNodes(gedcom.Nodes{res})
	for _, x := range resNodes {
		if _, old := w.ids[x]; old {
			fresh = false
		}
	}
	w.number(res)
	for _, x := range dst.Nodes() {
		if _, known := w.ids[x]; !known {
			w.number(x)
		}
	}
	var fam []string
	ndoc := 0
	for _, x := range resNodes {
		if f, isRole := x.(gedcom.FamilyNoder); isRole {
			fam = append(fam, w.id(f.Family()))
			if j, known := w.ids[gedcom.Node(f.Family())]; known && j < first {
				c.Oracle("", "a role node of a filtered copy still belongs to a family that existed before", in, fmt.Sprint("object ", j), "a family added to the destination")
			}
		}
		switch t := x.(type) {
		case *gedcom.IndividualNode:
			ndoc++
			if t.Document() != dst {
				c.Oracle("", "an INDI node of a filtered copy is not attached to the destination document", in, "another document", "the destination")
			}
		case *gedcom.FamilyNode:
			ndoc++
			if t.Document() != dst {
				c.Oracle("", "a FAM node of a filtered copy is not attached to the destination document", in, "another document", "the destination")
			}
		}
	}
	added := len(dst.Nodes()) - dstBefore
	c.Tie(req, fmt.Sprintf("ok first=%d n=%d t=%s fam=%s doc=%d %s", first, len(resNodes), encTree(abstractNode(res)), c07nats(fam), ndoc, w.showDoc(dst)))
	c.Count(fmt.Sprintf("%s=ok added=%d", label, added))
	c.Nontrivial(fmt.Sprintf("filterdoc/%v/%v/%s/kept=%d of %d/added=%d", white, same, n.Tag().Tag(), len(resNodes), len(c07preorderNodes(gedcom.Nodes{n})), added))
	// (S)
	if !fresh {
		c.Oracle("", "a filtered copy shares a node with the source document", in, "shared node", "only new nodes")
	}
	if want == nil || c07text(want) != c07text(abstractNode(res)) {
		exp := "nil"
		if want != nil {
			exp = c07text(want)
		}
		c.Oracle("", "Filter with a tag filter did not return the tree without the subtrees of the rejected tags", in, c07text(abstractNode(res)), exp)
	}
	now := doc.Nodes()
	if len(now) < len(recsBefore) || (!same && len(now) != len(recsBefore)) {
		c.Oracle("", "filtering changed the record list of the source document", in, fmt.Sprint(len(now)), fmt.Sprint(len(recsBefore)))
		return
	}
	for i, r := range recsBefore {
		if now[i] != r || r.GEDCOMString(0) != recText[i] {
			c.Oracle("", "filtering modified a record of the source document", in, now[i].GEDCOMString(0), recText[i])
			break
		}
	}
	for _, x := range dst.Nodes()[dstBefore:] {
		if _, isFam := x.(*gedcom.FamilyNode); !isFam || len(x.Nodes()) != 0 {
			c.Oracle("", "filtering added something other than an empty family record to the destination", in, x.GEDCOMString(0), "0 @…@ FAM")
		}
	}
}

func c07filterStream(c *Ctx) {
	r := c.R
	pool := []string{"NAME", "BIRT", "DATE", "HUSB", "WIFE", "CHIL", "NOTE", "FAM", "INDI", "MARR", "RESI", "EVEN", "FAMS", "_UID", "SOUR", "TITL", "PLAC"}
	n := c.N(400, 8000)
	for i := 0; i < n; i++ {
		text := c07document2(r)
		if r.Chance(1, 3) {
			text = c07document(r)
		}
		doc, err := gedcom.NewDocumentFromString(text)
		if err != nil {
			continue
		}
		all := c07preorderNodes(doc.Nodes())
		if len(all) == 0 {
			continue
		}
		k := r.Intn(len(all))
		if r.Chance(1, 2) { // prefer records
			for j, x := range all {
				for _, rec := range doc.Nodes() {
					if x == rec && r.Chance(1, 3) {
						k = j
					}
				}
			}
		}
		white := r.Bool()
		var tags []string
		nt := r.Intn(4)
		if white {
			nt = 3 + r.Intn(8)
			tags = append(tags, all[k].Tag().Tag())
		}
		for j := 0; j < nt; j++ {
			tags = append(tags, r.Pick(pool))
		}
		c07filterDoc(c, text, k, r.Bool(), white, tags)
	}
}

func c07round4(c *Ctx) {
	c07dsym(c)
	c07filterStream(c)
	n := c.N(600, 12000)
	for i := 0; i < n; i++ {
		c07copySeq(c, i)
	}
}
