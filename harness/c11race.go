package main

import (
	"context"
	"fmt"
	"os"
	"os/exec"
	"path/filepath"
	"regexp"
	"sort"
	"strconv"
	"strings"
	"time"
)

// The race batch. Data-race freedom is not a property of any executable model; it is validated by
// running Compare (Jobs > 1) in a child process built with the race detector. The child is this same
// harness compiled with -race on demand (go build cache makes that a few seconds); its reports are
// written to a log (GORACE log_path) and parsed here. Every report is a failure of C11 keyed by the
// unordered pair of racing access sites (innermost gedcom function of each access), so that the pairs
// that race today can be listed as known findings while a race at a new site is still reported.

func c11raceBinary() (string, error) {
	v, err := os.Getwd()
	if err != nil {
		return "", err
	}
	if _, err := os.Stat(filepath.Join(v, "harness", "go.mod")); err != nil {
		return "", fmt.Errorf("harness sources not found from %s", v)
	}
	// own module file: the tree under test is the one this run was started for (VERIF_REPO), whatever
	// a concurrent check has written into .build/harness.mod in the meantime
	repo := os.Getenv("VERIF_REPO")
	if repo == "" {
		repo = "/repo"
	}
	gomod, err := os.ReadFile(filepath.Join(v, "harness", "go.mod"))
	if err != nil {
		return "", err
	}
	modfile := filepath.Join(v, ".build", fmt.Sprintf("harness-race.%d.mod", os.Getpid()))
	if err := os.WriteFile(modfile, []byte(strings.Replace(string(gomod), "=> /repo", "=> "+repo, 1)), 0o644); err != nil {
		return "", err
	}
	defer os.Remove(modfile)
	defer os.Remove(strings.TrimSuffix(modfile, ".mod") + ".sum")
	if sum, err := os.ReadFile(filepath.Join(repo, "go.sum")); err == nil {
		os.WriteFile(strings.TrimSuffix(modfile, ".mod")+".sum", sum, 0o644)
	}
	out := filepath.Join(v, ".build", fmt.Sprintf("gvh-race.%d", os.Getpid()))
	cmd := exec.Command("go", "build", "-race", "-modfile", modfile, "-tags", "verif", "-o", out, ".")
	cmd.Dir = filepath.Join(v, "harness")
	if b, err := cmd.CombinedOutput(); err != nil {
		return "", fmt.Errorf("go build -race: %v\n%s", err, b)
	}
	return out, nil
}

var c11raceAccess = regexp.MustCompile(`^(Previous )?(read|write|Read|Write|atomic read|atomic write) at 0x[0-9a-f]+ by `)
var c11raceFrame = regexp.MustCompile(`^  (\S+)\(`)

// c11site reduces one access stack to its innermost gedcom frame: "(*DateNode).DateRange".
func c11site(frames []string) string {
	for _, f := range frames {
		if i := strings.Index(f, "github.com/elliotchance/gedcom/v39"); i >= 0 {
			s := f[i+len("github.com/elliotchance/gedcom/v39"):]
			s = strings.TrimPrefix(s, ".")
			s = strings.TrimPrefix(s, "/")
			// drop closure suffixes: ".func1", ".func1.2", ".deferwrap1", ".gowrap1"
			s = regexp.MustCompile(`(\.func\d+|\.\d+|\.deferwrap\d+|\.gowrap\d+)+$`).ReplaceAllString(s, "")
			return s
		}
	}
	if len(frames) > 0 {
		return frames[0]
	}
	return "?"
}

// c11raceGroups: the unsynchronised lazily filled caches that race today, each with the functions
// that read or write it (the cache field itself or the slice / set it publishes). A report whose two
// access sites both belong to one group is that group's known finding; any other pair of sites is
// reported under its own key.
var c11raceGroups = []struct {
	name  string
	sites []string
}{
	{"nodeCache", []string{"(*SimpleNode).AddNode", "(*SimpleNode).DeleteNode", "(*SimpleNode).SetNodes", "NodesWithTag"}},
	{"DateNode.parsedDateRange", []string{"(*DateNode).DateRange"}},
	{"FamilyNode.husband", []string{"(*FamilyNode).Husband"}},
	{"FamilyNode.wife", []string{"(*FamilyNode).Wife"}},
	{"IndividualNode.families", []string{"(*IndividualNode).Families", "(*IndividualNode).Children", "(*IndividualNode).Parents"}},
	{"IndividualNode.spouses", []string{"(*IndividualNode).Spouses", "IndividualNodes.Similarity"}},
	{"Document.families", []string{"(*Document).Families", "(*IndividualNode).Spouses", "(*IndividualNode).Families"}},
	{"IndividualNode.cachedUniqueIDs", []string{"(*IndividualNode).UniqueIdentifiers", "NewStringSet", "(*StringSet).Has", "(*StringSet).Add",
		"(*StringSet).Iterate", "(*StringSet).Intersects"}},
}

// c11racePairs: known racing pairs that are not "every pair within a set of sites".
var c11racePairs = map[string]string{
	"createJobs~createJobs":                                   "IndividualNodesCompareOptions.shared",
	"(*IndividualNodesCompareOptions).adjustTotal~createJobs": "IndividualNodesCompareOptions.shared",
}

func c11raceKey(a, b string) string {
	if g, ok := c11racePairs[a+"~"+b]; ok {
		return "c11-race:" + g
	}
	for _, g := range c11raceGroups {
		if c11has(g.sites, a) && c11has(g.sites, b) {
			return "c11-race:" + g.name
		}
	}
	return "c11-race:" + a + "~" + b
}

type c11raceReport struct {
	key   string
	sites [2]string
	text  string
}

func c11parseRaces(log string) []c11raceReport {
	var out []c11raceReport
	for _, block := range strings.Split(log, "==================") {
		if !strings.Contains(block, "WARNING: DATA RACE") {
			continue
		}
		var stacks [][]string
		var cur []string
		in := false
		for _, line := range strings.Split(block, "\n") {
			switch {
			case c11raceAccess.MatchString(line):
				if in {
					stacks = append(stacks, cur)
				}
				cur, in = nil, true
			case in && strings.TrimSpace(line) == "":
				stacks = append(stacks, cur)
				cur, in = nil, false
			case in:
				if m := c11raceFrame.FindStringSubmatch(line); m != nil {
					cur = append(cur, m[1])
				}
			}
		}
		if in {
			stacks = append(stacks, cur)
		}
		if len(stacks) < 2 {
			continue
		}
		s := []string{c11site(stacks[0]), c11site(stacks[1])}
		sort.Strings(s)
		lines := strings.Split(strings.TrimSpace(block), "\n")
		if len(lines) > 24 {
			lines = lines[:24]
		}
		out = append(out, c11raceReport{key: c11raceKey(s[0], s[1]), sites: [2]string{s[0], s[1]}, text: strings.Join(lines, "\n")})
	}
	return out
}

func c11race(c *Ctx) {
	n := c.N(30, 1500)
	reps := c.N(1, 3)
	t0 := time.Now()
	bin, err := c11raceBinary()
	if err != nil {
		c.Oracle("", "the race-detector build of the harness failed: the race batch cannot run", map[string]string{"error": err.Error()}, "no race batch", "go build -race succeeds")
		return
	}
	defer os.Remove(bin)
	logBase := bin + ".log"
	seen := map[string]bool{}
	report := func(rr c11raceReport, replay string) {
		c.Count("race-report:" + rr.sites[0] + " | " + rr.sites[1])
		if seen[rr.key+rr.sites[0]+rr.sites[1]] {
			return
		}
		seen[rr.key+rr.sites[0]+rr.sites[1]] = true
		c.Oracle(rr.key, "data race while matching with several jobs: "+rr.sites[0]+" / "+rr.sites[1],
			map[string]interface{}{"replay": replay, "access_sites": rr.sites}, rr.text, "no data race")
	}
	for rep := 0; rep < reps; rep++ {
		cmd := exec.Command(bin, "worker", "c11race", strconv.FormatInt(c.Seed+int64(rep)*1000, 10), strconv.Itoa(n))
		cmd.Env = append(os.Environ(), "GORACE=log_path="+logBase+" exitcode=0 halt_on_error=0", "GOMAXPROCS=8")
		outb, err := cmd.CombinedOutput()
		if err != nil {
			c.Oracle("", "the race batch crashed", map[string]string{"error": err.Error()}, string(outb), "the batch runs to the end")
		}
		logs, _ := filepath.Glob(logBase + ".*")
		for _, lf := range logs {
			b, _ := os.ReadFile(lf)
			os.Remove(lf)
			for _, rr := range c11parseRaces(string(b)) {
				report(rr, fmt.Sprintf("gvh-race worker c11race %d %d  (GORACE=log_path=…; Compare with Jobs in {2,3,8,16})", c.Seed+int64(rep)*1000, n))
			}
		}
		c.Count("race-batch:compare-calls")
		c.Dist["race-batch:compare-calls"] += n*len(c11raceJobs) - 1
	}
	c11cli(c, report)
	c.Notes = append(c.Notes, fmt.Sprintf("race batch: %d x %d cases x Jobs %v under the race detector in a child process, %.1fs; %d distinct racing access-site pairs",
		reps, n, c11raceJobs, time.Since(t0).Seconds(), len(seen)))
}

// c11cli: the same matching through `gedcom diff -jobs N`, the command built with the race detector.
// Checked: the command succeeds and writes its page; every race report of the run (the matching itself
// and the diff page, which calls Compare again from its own worker pool with the shared options value).
func c11cli(c *Ctx, report func(rr c11raceReport, replay string)) {
	v, _ := os.Getwd()
	repo := os.Getenv("VERIF_REPO")
	if repo == "" {
		repo = "/repo"
	}
	bin := filepath.Join(v, ".build", fmt.Sprintf("gedcom-race.%d", os.Getpid()))
	build := exec.Command("go", "build", "-race", "-o", bin, "./cmd/gedcom")
	build.Dir = repo
	if b, err := build.CombinedOutput(); err != nil {
		c.Oracle("", "the race-detector build of cmd/gedcom failed: the CLI batch cannot run", map[string]string{"error": err.Error()}, string(b), "go build -race ./cmd/gedcom succeeds")
		return
	}
	defer os.Remove(bin)
	dir, err := os.MkdirTemp("", "c11cli")
	if err != nil {
		return
	}
	defer os.RemoveAll(dir)
	r := c.R.Fork("cli")
	n := c.N(4, 120)
	hung := 0
	for i := 0; i < n; i++ {
		cs := c11gen(r)
		l, rt := c11build(cs.left, cs.lfam, 0), c11build(cs.right, cs.rfam, 1000)
		lf, rf, of := filepath.Join(dir, "l.ged"), filepath.Join(dir, "r.ged"), filepath.Join(dir, "out.html")
		os.WriteFile(lf, []byte(l.text), 0o644)
		os.WriteFile(rf, []byte(rt.text), 0o644)
		os.Remove(of)
		jobs := []int{8, 1, 2, 16, 3}[i%5]
		logBase := filepath.Join(dir, "race")
		// a command that does not finish is an outcome (the matching is never delivered), not a hang of
		// the harness: time limit, then kill
		ctx, cancel := context.WithTimeout(context.Background(), 45*time.Second)
		cmd := exec.CommandContext(ctx, bin, "diff", "-left-gedcom", lf, "-right-gedcom", rf, "-output", of, "-jobs", strconv.Itoa(jobs))
		cmd.Env = append(os.Environ(), "GORACE=log_path="+logBase+" exitcode=0 halt_on_error=0")
		cmd.WaitDelay = 2 * time.Second
		outb, err := cmd.CombinedOutput()
		timedOut := ctx.Err() == context.DeadlineExceeded
		cancel()
		in := map[string]interface{}{"documents": l.text + "----\n" + rt.text, "command": fmt.Sprintf("gedcom diff -left-gedcom l.ged -right-gedcom r.ged -output out.html -jobs %d", jobs)}
		if timedOut {
			hung++
			c.Oracle("", "gedcom diff -jobs N does not finish: the matching is never delivered", in, "still running after 45 s (killed): "+c11tail(string(outb), 300), "exit 0 and a diff page")
			c.Eval()
			if hung >= 2 {
				break // every further run would cost the full time limit
			}
			continue
		}
		st, serr := os.Stat(of)
		if err != nil || serr != nil || st.Size() == 0 {
			c.Oracle("", "gedcom diff -jobs N failed or wrote no page", in, fmt.Sprintf("%v: %s", err, c11tail(string(outb), 600)), "exit 0 and a diff page")
		}
		c.Eval()
		c.Count(fmt.Sprintf("cli:gedcom diff -jobs %d", jobs))
		logs, _ := filepath.Glob(logBase + ".*")
		for _, lfile := range logs {
			b, _ := os.ReadFile(lfile)
			os.Remove(lfile)
			for _, rr := range c11parseRaces(string(b)) {
				report(rr, fmt.Sprintf("gedcom (built with -race) diff -jobs %d on the documents of CLI case %d of seed %d", jobs, i, c.Seed))
			}
		}
	}
}

func c11tail(s string, n int) string {
	if len(s) > n {
		return s[len(s)-n:]
	}
	return s
}

var c11raceJobs = []int{2, 3, 8, 16}

func init() {
	// c11raceparse <log>: prints the access-site pairs of a race log with their report counts
	workers["c11raceparse"] = func(args []string) int {
		if len(args) < 1 {
			return 2
		}
		b, err := os.ReadFile(args[0])
		if err != nil {
			return 2
		}
		n := map[string]int{}
		for _, rr := range c11parseRaces(string(b)) {
			n[rr.key]++
		}
		var keys []string
		for k := range n {
			keys = append(keys, k)
		}
		sort.Strings(keys)
		for _, k := range keys {
			fmt.Printf("%6d %s\n", n[k], k)
		}
		return 0
	}
	// c11gen <seed> <n> <dir>: writes the generator's document pairs to files (for sweeps by hand)
	workers["c11gen"] = func(args []string) int {
		if len(args) < 3 {
			return 2
		}
		seed, _ := strconv.ParseInt(args[0], 10, 64)
		n, _ := strconv.Atoi(args[1])
		c := NewCtx("C11gen", "quick", seed, "")
		for i := 0; i < n; i++ {
			cs := c11gen(c.R)
			l, rt := c11build(cs.left, cs.lfam, 0), c11build(cs.right, cs.rfam, 1000)
			os.WriteFile(filepath.Join(args[2], fmt.Sprintf("l%d.ged", i)), []byte(l.text), 0o644)
			os.WriteFile(filepath.Join(args[2], fmt.Sprintf("r%d.ged", i)), []byte(rt.text), 0o644)
		}
		return 0
	}
	workers["c11race"] = func(args []string) int {
		if len(args) < 2 {
			return 2
		}
		seed, _ := strconv.ParseInt(args[0], 10, 64)
		n, _ := strconv.Atoi(args[1])
		c := NewCtx("C11race", "quick", seed, "")
		for i := 0; i < n; i++ {
			cs := c11gen(c.R)
			o := c12randOpts(c.R).Go()
			for _, j := range c11raceJobs {
				// fresh documents for every run: the lazily filled caches race only while they are cold
				l, rt := c11build(cs.left, cs.lfam, 0), c11build(cs.right, cs.rfam, 1000)
				c11compare(l, rt, o, j, []int{8, 2, 16, 4}[i%4])
			}
		}
		return 0
	}
}
