package main

// C14: sweep of html/*.go (go/ast) for operations that can panic on file-derived values — constant
// and variable index expressions, slice expressions, single-value type assertions — with, for each
// site, whether the Lean model (Gedcom/Model/Resolve.lean) has the operation as an explicit partial
// primitive. The list goes into the evidence; sites that are not modelled are reported as untied.

import (
	"bytes"
	"fmt"
	"go/ast"
	"go/parser"
	"go/printer"
	"go/token"
	"os"
	"path/filepath"
	"sort"
	"strings"
)

type c14Site struct {
	File, Func, Expr, Kind string
	Line                   int
	Model                  string // model function that contains the operation, "" = none
	Note                   string
}

// c14Modelled maps (file, function, expression) to the model definition that has the operation.
var c14Modelled = map[string]string{
	"publish_header.go|WriteHTMLTo|c.indexLetters[0]":              "Resolve.header (first .header)",
	"surname_link.go|WriteHTMLTo|c.surname[0]":                     "Resolve.surnameLink (byteAt .surnameLink)",
	"util.go|surnameStartsWith|lowerName[0]":                       "Resolve.startsWithLetter (lowerFirstByte)",
	"individual_index_header.go|getIndexLetter|name[0]":            "Resolve.indexLetterOf (lowerFirstByte, guarded by name == \"\")",
	"individual_additional_names.go|WriteHTMLTo|names[1:]":         "Resolve.additionalNames (tailFrom1 .additionalNames)",
	"individual_name.go|WriteHTMLTo|names[0]":                      "Living.individualName (match on names)",
	"event_date.go|WriteHTMLTo|c.dates[0]":                         "Resolve.eventDate (first .eventDate, guarded by IsBlank)",
	"individual_dates.go|EventDates|births[0]":                     "Resolve.pickEvent (first .eventDates, guarded by len > 0)",
	"individual_dates.go|EventDates|baptisms[0]":                   "Resolve.pickEvent",
	"individual_dates.go|EventDates|deaths[0]":                     "Resolve.pickEvent",
	"individual_dates.go|EventDates|burials[0]":                    "Resolve.pickEvent",
	"place_page.go|WriteHTMLTo|c.placesMap[c.placeKey]":            "Resolve.placePages (lookupPlace .placePage; the key is a key of the same map)",
	"publish.go|sendPlaceFiles|places[key]":                        "Resolve.placePages (lookupPlace .placePage)",
}

// c14Safe: sites that cannot be reached with an out-of-range value whatever the file says, with the
// reason (checked by reading; the reason is part of the evidence).
var c14Safe = map[string]string{
	"individual_events.go|WriteHTMLTo|events[i].(*IndividualEvent)": "every element of events is created by NewIndividualEvent in the same function",
	"individual_events.go|WriteHTMLTo|events[j].(*IndividualEvent)": "every element of events is created by NewIndividualEvent in the same function",
	"diff_page.go|sortByWrittenName|comparisons[i]":                 "i, j are supplied by sort.SliceStable (sortComparisons)",
	"diff_page.go|sortByWrittenName|comparisons[j]":                 "i, j are supplied by sort.SliceStable (sortComparisons)",
	"diff_page.go|sortByHighestSimilarity|comparisons[i]":           "i, j are supplied by sort.SliceStable (sortComparisons)",
	"diff_page.go|sortByHighestSimilarity|comparisons[j]":           "i, j are supplied by sort.SliceStable (sortComparisons)",
	"publish.go|Places|publisher.placesMap[key]":                    "the entry is created two lines above when absent; key ranges over the map",
	"diff_page.go|sortComparisons|sortFns[c.sort]":                  "c.sort is a command-line option validated by cmd/gedcom, not file content",
}

func c14exprString(fset *token.FileSet, e ast.Expr) string {
	var b bytes.Buffer
	printer.Fprint(&b, fset, e)
	return strings.Join(strings.Fields(b.String()), " ")
}

// c14SweepHTML lists the sites of dir (non-test files).
func c14SweepHTML(dir string) ([]c14Site, error) {
	fset := token.NewFileSet()
	files, err := filepath.Glob(filepath.Join(dir, "*.go"))
	if err != nil {
		return nil, err
	}
	sort.Strings(files)
	var sites []c14Site
	for _, path := range files {
		if strings.HasSuffix(path, "_test.go") {
			continue
		}
		f, err := parser.ParseFile(fset, path, nil, 0)
		if err != nil {
			return nil, err
		}
		base := filepath.Base(path)
		for _, decl := range f.Decls {
			fn, ok := decl.(*ast.FuncDecl)
			if !ok || fn.Body == nil {
				continue
			}
			// type assertions in a two-value assignment / type switch cannot panic
			okAssert := map[*ast.TypeAssertExpr]bool{}
			// map-typed locals declared in this function (map[..]..{} / make(map..)): lookups cannot panic
			mapVars := map[string]bool{}
			rangeIdx := map[string]bool{}
			ast.Inspect(fn.Body, func(n ast.Node) bool {
				switch v := n.(type) {
				case *ast.AssignStmt:
					if len(v.Lhs) == 2 && len(v.Rhs) == 1 {
						if ta, ok := v.Rhs[0].(*ast.TypeAssertExpr); ok {
							okAssert[ta] = true
						}
					}
					for i, rhs := range v.Rhs {
						if i < len(v.Lhs) {
							if id, ok := v.Lhs[i].(*ast.Ident); ok && c14isMapExpr(rhs) {
								mapVars[id.Name] = true
							}
						}
					}
				case *ast.TypeSwitchStmt:
					ast.Inspect(v.Assign, func(m ast.Node) bool {
						if ta, ok := m.(*ast.TypeAssertExpr); ok {
							okAssert[ta] = true
						}
						return true
					})
				case *ast.RangeStmt:
					if id, ok := v.Key.(*ast.Ident); ok {
						rangeIdx[id.Name+"@"+c14exprString(fset, v.X)] = true
					}
				case *ast.IfStmt:
					if as, ok := v.Init.(*ast.AssignStmt); ok && len(as.Lhs) == 2 && len(as.Rhs) == 1 {
						if ta, ok := as.Rhs[0].(*ast.TypeAssertExpr); ok {
							okAssert[ta] = true
						}
					}
				}
				return true
			})
			// function literals handed to package sort: their index parameters are in range
			type span struct{ lo, hi token.Pos }
			var sortSpans []span
			ast.Inspect(fn.Body, func(n ast.Node) bool {
				if call, ok := n.(*ast.CallExpr); ok {
					if sel, ok := call.Fun.(*ast.SelectorExpr); ok {
						if id, ok := sel.X.(*ast.Ident); ok && id.Name == "sort" {
							for _, a := range call.Args {
								if fl, ok := a.(*ast.FuncLit); ok {
									sortSpans = append(sortSpans, span{fl.Pos(), fl.End()})
								}
							}
						}
					}
				}
				return true
			})
			inSort := func(p token.Pos) bool {
				for _, s := range sortSpans {
					if s.lo <= p && p < s.hi {
						return true
					}
				}
				return false
			}
			commaOkIndex := map[*ast.IndexExpr]bool{}
			assigned := map[*ast.IndexExpr]bool{}
			ast.Inspect(fn.Body, func(n ast.Node) bool {
				if as, ok := n.(*ast.AssignStmt); ok && len(as.Rhs) == 1 {
					if ix, ok := as.Rhs[0].(*ast.IndexExpr); ok {
						if len(as.Lhs) == 2 {
							commaOkIndex[ix] = true
						}
					}
					for _, l := range as.Lhs {
						if ix, ok := l.(*ast.IndexExpr); ok {
							assigned[ix] = true // m[k] = v never panics on a non-nil map
						}
					}
				}
				return true
			})
			add := func(pos token.Pos, e ast.Expr, kind string) {
				s := c14Site{File: base, Func: fn.Name.Name, Expr: c14exprString(fset, e), Kind: kind, Line: fset.Position(pos).Line}
				key := s.File + "|" + s.Func + "|" + s.Expr
				s.Model = c14Modelled[key]
				s.Note = c14Safe[key]
				sites = append(sites, s)
			}
			ast.Inspect(fn.Body, func(n ast.Node) bool {
				switch v := n.(type) {
				case *ast.IndexExpr:
					if _, isLit := v.Index.(*ast.BasicLit); isLit {
						add(v.Pos(), v, "index-const")
						return true
					}
					// x[i] inside `for i := range x` is in range; lookups in maps never panic
					if id, ok := v.Index.(*ast.Ident); ok && rangeIdx[id.Name+"@"+c14exprString(fset, v.X)] {
						return true
					}
					if c14looksLikeMap(v.X, mapVars) {
						// a single-value lookup gives the zero value (a nil pointer for the place map)
						// when the key is absent: a site if the result is used, not if it is ", ok" or a store
						if !commaOkIndex[v] && !assigned[v] {
							add(v.Pos(), v, "map-lookup")
						}
						return true
					}
					if inSort(v.Pos()) {
						if id, ok := v.Index.(*ast.Ident); ok && (id.Name == "i" || id.Name == "j") {
							return true // index supplied by package sort
						}
					}
					add(v.Pos(), v, "index-var")
				case *ast.SliceExpr:
					add(v.Pos(), v, "slice")
				case *ast.TypeAssertExpr:
					if v.Type != nil && !okAssert[v] {
						add(v.Pos(), v, "type-assert")
					}
				}
				return true
			})
		}
	}
	return sites, nil
}

func c14isMapExpr(e ast.Expr) bool {
	switch v := e.(type) {
	case *ast.CompositeLit:
		_, ok := v.Type.(*ast.MapType)
		return ok
	case *ast.CallExpr:
		if id, ok := v.Fun.(*ast.Ident); ok && id.Name == "make" && len(v.Args) > 0 {
			_, ok := v.Args[0].(*ast.MapType)
			return ok
		}
	}
	return false
}

// c14looksLikeMap: the receiver of the index is a map by declaration in the function or by the
// naming of the fields/parameters used in html/ (…Map, places, individuals, sortFns…).
func c14looksLikeMap(x ast.Expr, mapVars map[string]bool) bool {
	name := ""
	switch v := x.(type) {
	case *ast.Ident:
		name = v.Name
	case *ast.SelectorExpr:
		name = v.Sel.Name
	}
	if mapVars[name] {
		return true
	}
	l := strings.ToLower(name)
	return strings.HasSuffix(l, "map") || l == "places" || l == "individualmap" || l == "sortfns" || l == "individuals" && false
}

// c14ReportSites runs the sweep on the tree under test and records it in the evidence.
func c14ReportSites(c *Ctx) {
	repo := os.Getenv("VERIF_REPO")
	if repo == "" {
		repo = "/repo"
	}
	sites, err := c14SweepHTML(filepath.Join(repo, "html"))
	if err != nil {
		c.Notes = append(c.Notes, "html sweep failed: "+err.Error())
		return
	}
	modelled, safe, untied := 0, 0, 0
	for _, s := range sites {
		loc := fmt.Sprintf("html/%s:%d %s: %s [%s]", s.File, s.Line, s.Func, s.Expr, s.Kind)
		switch {
		case s.Model != "":
			modelled++
			c.Notes = append(c.Notes, "modelled site: "+loc+" -> "+s.Model)
		case s.Note != "":
			safe++
			c.Notes = append(c.Notes, "site safe by construction: "+loc+" — "+s.Note)
		default:
			untied++
			c.Untied = append(c.Untied, "panic-capable site not in the model (covered by executing the real binary only): "+loc)
		}
	}
	c.Count(fmt.Sprintf("html-sites/modelled=%d", modelled))
	c.Count(fmt.Sprintf("html-sites/safe-by-construction=%d", safe))
	c.Count(fmt.Sprintf("html-sites/untied=%d", untied))
}
