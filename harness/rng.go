package main

// Rand is a splitmix64 generator: every random choice of a run derives from one state, so a
// (property, tier, seed) triple replays exactly.
type Rand struct{ s uint64 }

func NewRand(seed uint64) *Rand { return &Rand{s: seed*0x9E3779B97F4A7C15 + 0x1234567} }

func (r *Rand) U64() uint64 {
	r.s += 0x9E3779B97F4A7C15
	z := r.s
	z = (z ^ (z >> 30)) * 0xBF58476D1CE4E5B9
	z = (z ^ (z >> 27)) * 0x94D049BB133111EB
	return z ^ (z >> 31)
}

// Intn returns a value in [0,n).
func (r *Rand) Intn(n int) int {
	if n <= 0 {
		return 0
	}
	return int(r.U64() % uint64(n))
}

// Range returns a value in [lo,hi].
func (r *Rand) Range(lo, hi int) int { return lo + r.Intn(hi-lo+1) }

func (r *Rand) Bool() bool { return r.U64()&1 == 1 }

// Chance is true with probability num/den.
func (r *Rand) Chance(num, den int) bool { return r.Intn(den) < num }

func (r *Rand) Pick(xs []string) string { return xs[r.Intn(len(xs))] }

func (r *Rand) Perm(n int) []int {
	p := make([]int, n)
	for i := range p {
		p[i] = i
	}
	for i := n - 1; i > 0; i-- {
		j := r.Intn(i + 1)
		p[i], p[j] = p[j], p[i]
	}
	return p
}

// Fork derives an independent generator (so adding draws in one place does not shift others).
func (r *Rand) Fork(label string) *Rand {
	h := r.U64()
	for _, c := range []byte(label) {
		h = (h ^ uint64(c)) * 0x100000001B3
	}
	return NewRand(h)
}
