package main

// C14: sweep (go/parser + go/types) of every *partial operation* in the non-test code that is
// reachable from cmd/gedcom (diff, publish, query, warnings, tune, version):
//
//	index        x[i] on a slice, array or string
//	slice        x[lo:hi]
//	map-write    m[k] = v / m[k]++ on a map that is not provably allocated
//	type-assert  x.(T) in a single-value context
//	nil-deref    a field access / non-nil-tolerant method call on the result of a function of the
//	             module that can return nil (Husband(), Wife(), Individual(), Family(), ByPointer,
//	             NodeByPointer, First(), Last() ... — computed: a `return nil` in the body, transitively)
//	int-div      integer / and %
//	chan-close   close(ch)
//	chan-send    ch <- v
//	panic-call   panic(...)
//
// Each site is classified
//
//	local        a guard is found syntactically (dominating condition, early exit, range loop,
//	             sort callback, constant operand, nil-tolerant callee, make() in scope ...); the
//	             guard text is recorded as the evidence
//	invariant    the site is an explicit partial primitive of the Lean model and its totality is a
//	             theorem of Gedcom/Props/C14*.lean (evidence = theorem name, checked to exist by Lean)
//	exec         execution-only: covered by the child-process oracle of C14 (evidence = reason)
//	unclassified none of the above: a *new* unguarded site, or one whose recorded guard is gone
//
// The table goes to lean/Gedcom/Generated/PartialOps.lean; Gedcom.C14.partial_ops_all_classified
// fails to check when an unclassified site exists.

import (
	"fmt"
	"go/ast"
	"go/constant"
	"go/importer"
	"go/parser"
	"go/token"
	"go/types"
	"os"
	"path/filepath"
	"regexp"
	"sort"
	"strconv"
	"strings"
)

const c14ModPath = "github.com/elliotchance/gedcom/v39"

type c14Op struct {
	Pkg, File, Func, Kind, Expr string
	Line                        int
	Ord                         int // ordinal among the sites with the same (file, func, kind, expr)
	Class, Evidence             string
}

func (o *c14Op) Key() string {
	k := o.Pkg + "/" + o.File + "|" + o.Func + "|" + o.Kind + "|" + o.Expr
	if o.Ord > 0 {
		k += "#" + strconv.Itoa(o.Ord)
	}
	return k
}

type c14Pkg struct {
	rel   string // "", "html", "html/core", "q", "util", "cmd/gedcom"
	files []*ast.File
	names []string
	info  *types.Info
	pkg   *types.Package
}

type c14Sweep struct {
	fset        *token.FileSet
	pkgs        []*c14Pkg
	decls       map[*types.Func]*ast.FuncDecl
	declPkg     map[*types.Func]*c14Pkg
	byName      map[string][]*types.Func // method name -> concrete methods of the module
	mayNil      map[*types.Func]bool
	nilTol      map[*types.Func]bool
	paramTol    map[*types.Func]map[int]bool
	regexGroups map[string]int    // package-level regexp variable -> number of groups
	tagStrings  map[string]string // TagSex -> "SEX" (var TagSex = newTag("SEX", ...))
	TagAsserts  map[string]bool   // "SEX|SexNode": a node found by that tag is asserted to have that Go type
	reach       map[*types.Func]bool
	closes      map[string]int // channel identifier -> number of close() calls in the module
	fieldInit   map[string]string
	Ops         []*c14Op
	Funcs       int
	Reached     int
	Tolerant    int // nil-deref chains whose callee tolerates a nil receiver (not listed one by one)
	Errors      []string
}

type c14Importer struct {
	mod      map[string]*types.Package
	fallback types.ImporterFrom
	dir      string
	failed   map[string]bool
}

func (m *c14Importer) Import(path string) (*types.Package, error) {
	return m.ImportFrom(path, m.dir, 0)
}
func (m *c14Importer) ImportFrom(path, dir string, mode types.ImportMode) (*types.Package, error) {
	if p, ok := m.mod[path]; ok {
		return p, nil
	}
	p, err := m.fallback.ImportFrom(path, m.dir, 0)
	if err != nil || p == nil {
		m.failed[path] = true
		name := path[strings.LastIndex(path, "/")+1:]
		p = types.NewPackage(path, name)
		p.MarkComplete()
		m.mod[path] = p
		return p, nil
	}
	return p, nil
}

func c14relToPath(rel string) string {
	if rel == "" {
		return c14ModPath
	}
	return c14ModPath + "/" + rel
}

// c14LoadModule parses and type-checks cmd/gedcom and the module packages it imports.
func c14LoadModule(repo string) (*c14Sweep, error) {
	s := &c14Sweep{fset: token.NewFileSet(), decls: map[*types.Func]*ast.FuncDecl{}, declPkg: map[*types.Func]*c14Pkg{},
		byName: map[string][]*types.Func{}, mayNil: map[*types.Func]bool{}, nilTol: map[*types.Func]bool{},
		reach: map[*types.Func]bool{}, closes: map[string]int{}, fieldInit: map[string]string{}}
	parsed := map[string]*c14Pkg{}
	var order []*c14Pkg
	var visit func(rel string) error
	visit = func(rel string) error {
		if _, ok := parsed[rel]; ok {
			return nil
		}
		p := &c14Pkg{rel: rel}
		parsed[rel] = p
		names, err := filepath.Glob(filepath.Join(repo, rel, "*.go"))
		if err != nil {
			return err
		}
		sort.Strings(names)
		for _, n := range names {
			if strings.HasSuffix(n, "_test.go") {
				continue
			}
			f, err := parser.ParseFile(s.fset, n, nil, 0)
			if err != nil {
				return err
			}
			p.files = append(p.files, f)
			p.names = append(p.names, filepath.Base(n))
			for _, im := range f.Imports {
				ip, _ := strconv.Unquote(im.Path.Value)
				if ip == c14ModPath {
					if err := visit(""); err != nil {
						return err
					}
				} else if strings.HasPrefix(ip, c14ModPath+"/") {
					if err := visit(strings.TrimPrefix(ip, c14ModPath+"/")); err != nil {
						return err
					}
				}
			}
		}
		if len(p.files) == 0 {
			return fmt.Errorf("no Go files in %s", filepath.Join(repo, rel))
		}
		order = append(order, p)
		return nil
	}
	if err := visit("cmd/gedcom"); err != nil {
		return nil, err
	}
	imp := &c14Importer{mod: map[string]*types.Package{}, dir: repo, failed: map[string]bool{},
		fallback: importer.ForCompiler(s.fset, "source", nil).(types.ImporterFrom)}
	for _, p := range order {
		p.info = &types.Info{Types: map[ast.Expr]types.TypeAndValue{}, Defs: map[*ast.Ident]types.Object{},
			Uses: map[*ast.Ident]types.Object{}, Selections: map[*ast.SelectorExpr]*types.Selection{}}
		conf := types.Config{Importer: imp, Error: func(err error) {
			if len(s.Errors) < 20 {
				s.Errors = append(s.Errors, err.Error())
			}
		}}
		pkg, _ := conf.Check(c14relToPath(p.rel), s.fset, p.files, p.info)
		p.pkg = pkg
		imp.mod[c14relToPath(p.rel)] = pkg
	}
	s.pkgs = order
	return s, nil
}

func (s *c14Sweep) str(e ast.Node) string {
	if e == nil {
		return ""
	}
	if x, ok := e.(ast.Expr); ok {
		return c14exprString(s.fset, x)
	}
	return ""
}

// ---------------------------------------------------------------------------------------------
// module-wide facts: declarations, may-return-nil, nil-tolerant methods, reachability

func (s *c14Sweep) index() {
	for _, p := range s.pkgs {
		for _, f := range p.files {
			for _, d := range f.Decls {
				fd, ok := d.(*ast.FuncDecl)
				if !ok || fd.Body == nil {
					continue
				}
				fn, _ := p.info.Defs[fd.Name].(*types.Func)
				if fn == nil {
					continue
				}
				s.decls[fn] = fd
				s.declPkg[fn] = p
				if fd.Recv != nil {
					s.byName[fn.Name()] = append(s.byName[fn.Name()], fn)
				}
			}
			ast.Inspect(f, func(n ast.Node) bool {
				if call, ok := n.(*ast.CallExpr); ok {
					if id, ok := call.Fun.(*ast.Ident); ok && id.Name == "close" && len(call.Args) == 1 {
						s.closes[c14lastIdent(call.Args[0])]++
					}
				}
				return true
			})
		}
	}
	s.Funcs = len(s.decls)
	s.regexGroups = map[string]int{}
	s.tagStrings = map[string]string{}
	s.TagAsserts = map[string]bool{}
	for _, p := range s.pkgs {
		for _, f := range p.files {
			ast.Inspect(f, func(n ast.Node) bool {
				vs, ok := n.(*ast.ValueSpec)
				if !ok {
					return true
				}
				for i, nm := range vs.Names {
					if i < len(vs.Values) {
						if call, ok := vs.Values[i].(*ast.CallExpr); ok && s.str(call.Fun) == "newTag" && len(call.Args) > 0 {
							if tv := p.info.Types[call.Args[0]]; tv.Value != nil && tv.Value.Kind() == constant.String {
								s.tagStrings[nm.Name] = constant.StringVal(tv.Value)
							}
						}
					}
				}
				return true
			})
		}
	}
	for _, p := range s.pkgs {
		for _, f := range p.files {
			for _, d := range f.Decls {
				gd, ok := d.(*ast.GenDecl)
				if !ok || gd.Tok != token.VAR {
					continue
				}
				for _, sp := range gd.Specs {
					vs := sp.(*ast.ValueSpec)
					for i, nm := range vs.Names {
						if i >= len(vs.Values) {
							continue
						}
						call, ok := vs.Values[i].(*ast.CallExpr)
						if !ok || s.str(call.Fun) != "regexp.MustCompile" || len(call.Args) != 1 {
							continue
						}
						if tv := p.info.Types[call.Args[0]]; tv.Value != nil && tv.Value.Kind() == constant.String {
							if re, err := regexp.Compile(constant.StringVal(tv.Value)); err == nil {
								s.regexGroups[p.rel+":"+nm.Name] = re.NumSubexp()
							}
						}
						// regexp.MustCompile(fmt.Sprintf(<constant format>, words...)): the groups of the
						// format itself are a lower bound of the number of groups
						if inner, ok := call.Args[0].(*ast.CallExpr); ok && s.str(inner.Fun) == "fmt.Sprintf" && len(inner.Args) > 0 {
							if tv := p.info.Types[inner.Args[0]]; tv.Value != nil && tv.Value.Kind() == constant.String {
								if re, err := regexp.Compile(strings.ReplaceAll(constant.StringVal(tv.Value), "%s", "x")); err == nil {
									s.regexGroups[p.rel+":"+nm.Name] = re.NumSubexp()
								}
							}
						}
					}
				}
			}
		}
	}
	// functions that check a parameter for nil before using it: parameter index -> true
	s.paramTol = map[*types.Func]map[int]bool{}
	for fn, fd := range s.decls {
		idx := 0
		for _, f := range fd.Type.Params.List {
			for _, nm := range f.Names {
				for _, st := range fd.Body.List {
					if is, ok := st.(*ast.IfStmt); ok && c14terminates(is.Body) {
						c := s.str(is.Cond)
						if strings.Contains(c, "IsNil("+nm.Name+")") || strings.Contains(c, nm.Name+" == nil") {
							if s.paramTol[fn] == nil {
								s.paramTol[fn] = map[int]bool{}
							}
							s.paramTol[fn][idx] = true
						}
					}
				}
				idx++
			}
			if len(f.Names) == 0 {
				idx++
			}
		}
	}
	// nil-tolerant methods (pointer receiver): the receiver is unused, or checked against nil in the
	// first statement, or only handed on — as the receiver of nil-tolerant methods, as an argument
	// checked by the callee (above; IsNil/First/Last/Compound inspect it reflectively), or compared
	// with nil. Fixpoint.
	type cand struct {
		fn   *types.Func
		fd   *ast.FuncDecl
		recv string
	}
	var cands []cand
	for fn, fd := range s.decls {
		if fd.Recv == nil || len(fd.Recv.List) == 0 {
			continue
		}
		if _, ok := fd.Recv.List[0].Type.(*ast.StarExpr); !ok {
			continue
		}
		if len(fd.Recv.List[0].Names) == 0 || fd.Recv.List[0].Names[0].Name == "_" {
			s.nilTol[fn] = true
			continue
		}
		recv := fd.Recv.List[0].Names[0].Name
		if len(fd.Body.List) > 0 {
			if is, ok := fd.Body.List[0].(*ast.IfStmt); ok && c14terminates(is.Body) {
				c := s.str(is.Cond)
				if strings.Contains(c, recv+" == nil") || strings.Contains(c, "IsNil("+recv+")") {
					s.nilTol[fn] = true
					continue
				}
			}
		}
		cands = append(cands, cand{fn, fd, recv})
	}
	reflective := map[string]bool{"IsNil": true, "First": true, "Last": true, "Compound": true}
	for changed := true; changed; {
		changed = false
		for _, cd := range cands {
			if s.nilTol[cd.fn] {
				continue
			}
			p := s.declPkg[cd.fn]
			recvObj := p.info.Defs[cd.fd.Recv.List[0].Names[0]]
			ok := true
			var stack []ast.Node
			ast.Inspect(cd.fd.Body, func(n ast.Node) bool {
				if n == nil {
					stack = stack[:len(stack)-1]
					return true
				}
				stack = append(stack, n)
				id, isId := n.(*ast.Ident)
				if !isId || p.info.Uses[id] != recvObj || len(stack) < 2 {
					return true
				}
				switch par := stack[len(stack)-2].(type) {
				case *ast.SelectorExpr:
					if par.X == ast.Expr(id) && len(stack) >= 3 {
						if call, isCall := stack[len(stack)-3].(*ast.CallExpr); isCall && call.Fun == ast.Expr(par) {
							if m := s.callee(p, call); m != nil && s.nilTol[m] {
								return true
							}
						}
					}
				case *ast.CallExpr:
					for i, a := range par.Args {
						if a == ast.Expr(id) {
							if reflective[c14lastIdent(par.Fun)] {
								return true
							}
							if m := s.callee(p, par); m != nil && s.paramTol[m][i] {
								return true
							}
						}
					}
				case *ast.BinaryExpr:
					if par.Op == token.EQL || par.Op == token.NEQ {
						return true
					}
				}
				ok = false
				return true
			})
			if ok {
				s.nilTol[cd.fn] = true
				changed = true
			}
		}
	}
	// may return nil: literal `return nil` (single result, pointer/interface/but not error), or
	// returns the result of such a function; fixpoint
	for changed := true; changed; {
		changed = false
		for fn, fd := range s.decls {
			if s.mayNil[fn] {
				continue
			}
			sig := fn.Type().(*types.Signature)
			if sig.Results().Len() != 1 {
				continue
			}
			rt := sig.Results().At(0).Type()
			switch rt.Underlying().(type) {
			case *types.Pointer, *types.Interface:
			default:
				continue
			}
			if rt.String() == "error" {
				continue
			}
			p := s.declPkg[fn]
			found := false
			var walk func(n ast.Node) bool
			walk = func(n ast.Node) bool {
				if _, ok := n.(*ast.FuncLit); ok {
					return false
				}
				if r, ok := n.(*ast.ReturnStmt); ok && len(r.Results) == 1 {
					if id, ok := r.Results[0].(*ast.Ident); ok && id.Name == "nil" {
						found = true
					}
					if call, ok := r.Results[0].(*ast.CallExpr); ok {
						if c := s.callee(p, call); c != nil && s.mayNil[c] {
							found = true
						}
					}
				}
				return !found
			}
			ast.Inspect(fd.Body, walk)
			if found {
				s.mayNil[fn] = true
				changed = true
			}
		}
	}
}

func c14lastIdent(e ast.Expr) string {
	switch v := e.(type) {
	case *ast.Ident:
		return v.Name
	case *ast.SelectorExpr:
		return v.Sel.Name
	case *ast.ParenExpr:
		return c14lastIdent(v.X)
	}
	return "?"
}

// callee: the module function statically called by call (nil for builtins, conversions, closures,
// interface methods, other modules).
func (s *c14Sweep) callee(p *c14Pkg, call *ast.CallExpr) *types.Func {
	var id *ast.Ident
	switch f := call.Fun.(type) {
	case *ast.Ident:
		id = f
	case *ast.SelectorExpr:
		id = f.Sel
	case *ast.ParenExpr:
		if sel, ok := f.X.(*ast.SelectorExpr); ok {
			id = sel.Sel
		}
	}
	if id == nil {
		return nil
	}
	fn, _ := p.info.Uses[id].(*types.Func)
	if fn == nil {
		return nil
	}
	if _, ok := s.decls[fn]; !ok {
		return nil
	}
	return fn
}

var c14ImplicitMethods = map[string]bool{"String": true, "Error": true, "Len": true, "Less": true, "Swap": true, "Write": true,
	"MarshalJSON": true, "UnmarshalJSON": true, "GoString": true, "Format": true, "Read": true, "Close": true, "Set": true}

func (s *c14Sweep) reachability() {
	var todo []*types.Func
	mark := func(fn *types.Func) {
		if fn != nil && !s.reach[fn] {
			if _, ok := s.decls[fn]; ok {
				s.reach[fn] = true
				todo = append(todo, fn)
			}
		}
	}
	for fn, p := range s.declPkg {
		if p.rel == "cmd/gedcom" || fn.Name() == "init" {
			mark(fn)
		}
	}
	scan := func(p *c14Pkg, n ast.Node) {
		ast.Inspect(n, func(n ast.Node) bool {
			id, ok := n.(*ast.Ident)
			if !ok {
				return true
			}
			fn, _ := p.info.Uses[id].(*types.Func)
			if fn == nil {
				return true
			}
			if _, ok := s.decls[fn]; ok {
				mark(fn)
				return true
			}
			// interface method (of the module or not): every concrete method of that name
			if sig, ok := fn.Type().(*types.Signature); ok && sig.Recv() != nil {
				if _, isIface := sig.Recv().Type().Underlying().(*types.Interface); isIface {
					for _, m := range s.byName[fn.Name()] {
						mark(m)
					}
				}
			}
			return true
		})
	}
	// package-level initialisers
	for _, p := range s.pkgs {
		for _, f := range p.files {
			for _, d := range f.Decls {
				if gd, ok := d.(*ast.GenDecl); ok && gd.Tok == token.VAR {
					scan(p, gd)
				}
			}
		}
	}
	implicitDone := false
	for {
		for len(todo) > 0 {
			fn := todo[len(todo)-1]
			todo = todo[:len(todo)-1]
			scan(s.declPkg[fn], s.decls[fn].Body)
		}
		if implicitDone {
			break
		}
		implicitDone = true
		// methods called through interfaces of other packages (fmt.Stringer, sort.Interface, io.Writer ...)
		for name := range c14ImplicitMethods {
			for _, m := range s.byName[name] {
				mark(m)
			}
		}
	}
	s.Reached = len(s.reach)
}

// ---------------------------------------------------------------------------------------------
// facts that dominate a site

type c14Fact struct {
	cond string
	pos  bool
}

func c14terminates(b *ast.BlockStmt) bool {
	if b == nil || len(b.List) == 0 {
		return false
	}
	switch v := b.List[len(b.List)-1].(type) {
	case *ast.ReturnStmt:
		return true
	case *ast.BranchStmt:
		return v.Tok == token.CONTINUE || v.Tok == token.BREAK || v.Tok == token.GOTO
	case *ast.ExprStmt:
		if call, ok := v.X.(*ast.CallExpr); ok {
			name := strings.ToLower(c14lastIdent(call.Fun))
			return name == "panic" || name == "exit" || strings.HasPrefix(name, "fatal") || strings.HasPrefix(name, "panic")
		}
	}
	return false
}

func (s *c14Sweep) addCond(out *[]c14Fact, e ast.Expr, pos bool) {
	switch v := e.(type) {
	case *ast.ParenExpr:
		s.addCond(out, v.X, pos)
		return
	case *ast.UnaryExpr:
		if v.Op == token.NOT {
			s.addCond(out, v.X, !pos)
			return
		}
	case *ast.BinaryExpr:
		if v.Op == token.LAND && pos || v.Op == token.LOR && !pos {
			s.addCond(out, v.X, pos)
			s.addCond(out, v.Y, pos)
			return
		}
	}
	*out = append(*out, c14Fact{s.str(e), pos})
}

type c14RangeFact struct{ key, x string }

// facts collects the conditions that hold at stack[len-1] given its ancestors.
func (s *c14Sweep) facts(stack []ast.Node) (facts []c14Fact, ranges []c14RangeFact, sortOver []string) {
	for i := 0; i+1 < len(stack); i++ {
		child := stack[i+1]
		switch v := stack[i].(type) {
		case *ast.IfStmt:
			if child == ast.Node(v.Body) {
				s.addCond(&facts, v.Cond, true)
			} else if v.Else != nil && child == v.Else {
				s.addCond(&facts, v.Cond, false)
			}
		case *ast.ForStmt:
			if child == ast.Node(v.Body) && v.Cond != nil {
				s.addCond(&facts, v.Cond, true)
			}
		case *ast.RangeStmt:
			if child == ast.Node(v.Body) {
				if id, ok := v.Key.(*ast.Ident); ok {
					ranges = append(ranges, c14RangeFact{id.Name, s.str(v.X)})
				}
			}
		case *ast.BinaryExpr:
			if child == ast.Node(v.Y) {
				if v.Op == token.LAND {
					s.addCond(&facts, v.X, true)
				} else if v.Op == token.LOR {
					s.addCond(&facts, v.X, false)
				}
			}
		case *ast.BlockStmt:
			s.earlyExits(&facts, v.List, child)
		case *ast.CaseClause:
			inBody := false
			for _, st := range v.Body {
				if ast.Node(st) == child {
					inBody = true
				}
			}
			if inBody {
				if sw, ok := stack[i-2].(*ast.SwitchStmt); ok && i >= 2 && len(v.List) == 1 {
					if sw.Tag == nil {
						s.addCond(&facts, v.List[0], true)
					} else {
						facts = append(facts, c14Fact{s.str(sw.Tag) + " == " + s.str(v.List[0]), true})
					}
				}
				s.earlyExits(&facts, v.Body, child)
			}
		case *ast.CommClause:
			s.earlyExits(&facts, v.Body, child)
		case *ast.CallExpr:
			// sort.Slice(x, func(i, j int) bool {...}) and friends
			if sel, ok := v.Fun.(*ast.SelectorExpr); ok {
				if id, ok := sel.X.(*ast.Ident); ok && id.Name == "sort" && len(v.Args) >= 2 {
					if _, ok := child.(*ast.FuncLit); ok {
						sortOver = append(sortOver, s.str(v.Args[0]))
					}
				}
			}
		}
	}
	return
}

func (s *c14Sweep) earlyExits(facts *[]c14Fact, list []ast.Stmt, child ast.Node) {
	for _, st := range list {
		if ast.Node(st) == child {
			return
		}
		if is, ok := st.(*ast.IfStmt); ok && is.Else == nil && c14terminates(is.Body) {
			s.addCond(facts, is.Cond, false)
		}
	}
}

func c14atoi(s string) (int, bool) {
	n, err := strconv.Atoi(strings.TrimSpace(s))
	return n, err == nil
}

// c14split splits "a op b" at the top-level comparison operator.
func c14split(cond string) (l, op, r string, ok bool) {
	for _, o := range []string{" >= ", " <= ", " == ", " != ", " > ", " < "} {
		if i := strings.Index(cond, o); i > 0 && strings.Count(cond, o) == 1 {
			return cond[:i], strings.TrimSpace(o), cond[i+len(o):], true
		}
	}
	return
}

var c14flip = map[string]string{">": "<", "<": ">", ">=": "<=", "<=": ">=", "==": "==", "!=": "!="}
var c14neg = map[string]string{">": "<=", "<": ">=", ">=": "<", "<=": ">", "==": "!=", "!=": "=="}

// lenLower: the greatest lower bound of len(x) that follows from one of the facts, with the fact.
func c14lenLower(facts []c14Fact, x string) (int, string) {
	best, ev := 0, ""
	lx := "len(" + x + ")"
	for _, f := range facts {
		l, op, r, ok := c14split(f.cond)
		if !ok {
			continue
		}
		if r == lx || r == x {
			l, r, op = r, l, c14flip[op]
		}
		if !f.pos {
			op = c14neg[op]
		}
		lb := 0
		if l == lx {
			c, isNum := c14atoi(r)
			if !isNum {
				continue
			}
			switch op {
			case ">":
				lb = c + 1
			case ">=", "==":
				lb = c
			case "!=":
				if c == 0 {
					lb = 1
				}
			}
		} else if l == x && r == `""` && op == "!=" {
			lb = 1
		}
		if lb > best {
			best = lb
			ev = f.cond
			if !f.pos {
				ev = "not (" + f.cond + ") [early exit / else branch]"
			}
		}
	}
	return best, ev
}

// c14holds: does `l op r` (op in < <= > >= != ==) follow directly from one fact?
func c14holds(facts []c14Fact, l, op, r string) (bool, string) {
	for _, f := range facts {
		fl, fop, fr, ok := c14split(f.cond)
		if !ok {
			continue
		}
		if !f.pos {
			fop = c14neg[fop]
		}
		if fl == r && fr == l {
			fl, fr, fop = fr, fl, c14flip[fop]
		}
		if fl != l || fr != r {
			continue
		}
		implied := fop == op || op == "<=" && (fop == "<" || fop == "==") || op == ">=" && (fop == ">" || fop == "==") ||
			op == "!=" && (fop == "<" || fop == ">")
		if implied {
			ev := f.cond
			if !f.pos {
				ev = "not (" + f.cond + ") [early exit / else branch]"
			}
			return true, ev
		}
	}
	return false, ""
}

// ---------------------------------------------------------------------------------------------
// the sweep of one function

type c14FnCtx struct {
	s       *c14Sweep
	p       *c14Pkg
	file    string
	fn      string
	body    ast.Node
	decl    *ast.FuncDecl
	okTA    map[*ast.TypeAssertExpr]bool
	lhsIdx  map[*ast.IndexExpr]bool
	nilVars map[types.Object]string // variable -> the may-return-nil call it was assigned from
	made    map[types.Object]bool   // map variables assigned from make / a composite literal
	seen    map[string]int
	tagOf   map[types.Object]string // local bound to NodesWithTag(_, TagY): "list:TagY", "one:TagY", "elem:TagY"
	alias   map[string]string       // local assigned once: name -> `len(x)` or an integer literal
	reSub   map[string]int          // local assigned from <regexp>.FindStringSubmatch: name -> groups
}

func (c *c14FnCtx) add(n ast.Node, kind, expr, class, evidence string) {
	o := &c14Op{Pkg: c.p.rel, File: c.file, Func: c.fn, Kind: kind, Expr: expr, Line: c.s.fset.Position(n.Pos()).Line,
		Class: class, Evidence: evidence}
	if o.Pkg == "" {
		o.Pkg = "."
	}
	k := o.Key()
	o.Ord = c.seen[k]
	c.seen[k]++
	c.s.Ops = append(c.s.Ops, o)
}

func (c *c14FnCtx) isInt(e ast.Expr) bool {
	tv, ok := c.p.info.Types[e]
	if !ok || tv.Type == nil {
		return false
	}
	b, ok := tv.Type.Underlying().(*types.Basic)
	return ok && b.Info()&types.IsInteger != 0
}

func (c *c14FnCtx) constInt(e ast.Expr) (int64, bool) {
	if id, ok := e.(*ast.Ident); ok {
		if a, ok := c.alias[id.Name]; ok {
			if k, err := strconv.ParseInt(a, 10, 64); err == nil {
				return k, true
			}
		}
	}
	tv, ok := c.p.info.Types[e]
	if !ok || tv.Value == nil || tv.Value.Kind() != constant.Int {
		return 0, false
	}
	return constant.Int64Val(tv.Value)
}

var c14wordRe = map[string]*regexp.Regexp{}

// norm replaces locals that are assigned once from len(x) / an integer literal by that expression.
func (c *c14FnCtx) norm(t string) string {
	for name, rep := range c.alias {
		if !strings.Contains(t, name) {
			continue
		}
		re := c14wordRe[name]
		if re == nil {
			re = regexp.MustCompile(`\b` + regexp.QuoteMeta(name) + `\b`)
			c14wordRe[name] = re
		}
		t = re.ReplaceAllLiteralString(t, rep)
	}
	return t
}

func (c *c14FnCtx) factsN(stack []ast.Node) (facts []c14Fact, ranges []c14RangeFact, sortOver []string) {
	facts, ranges, sortOver = c.s.facts(stack)
	for i := range facts {
		facts[i].cond = c.norm(facts[i].cond)
	}
	return
}

// tagCall: e is NodesWithTag(_, TagY) -> "list:TagY"; First/Last of it -> "one:TagY".
func (c *c14FnCtx) tagCall(e ast.Expr) string {
	call, ok := e.(*ast.CallExpr)
	if !ok {
		return ""
	}
	switch c14lastIdent(call.Fun) {
	case "NodesWithTag":
		if len(call.Args) == 2 {
			return "list:" + c14lastIdent(call.Args[1])
		}
	case "First", "Last":
		if len(call.Args) == 1 {
			if t := c.tagCall(call.Args[0]); strings.HasPrefix(t, "list:") {
				return "one:" + strings.TrimPrefix(t, "list:")
			}
			if id, ok := call.Args[0].(*ast.Ident); ok {
				if t := c.tagOf[c.p.info.Uses[id]]; strings.HasPrefix(t, "list:") {
					return "one:" + strings.TrimPrefix(t, "list:")
				}
			}
		}
	}
	return ""
}

func (c *c14FnCtx) prepareTags() {
	c.tagOf = map[types.Object]string{}
	info := c.p.info
	ast.Inspect(c.body, func(n ast.Node) bool {
		switch v := n.(type) {
		case *ast.AssignStmt:
			if len(v.Lhs) == len(v.Rhs) {
				for i := range v.Lhs {
					if id, ok := v.Lhs[i].(*ast.Ident); ok {
						if t := c.tagCall(v.Rhs[i]); t != "" {
							o := info.Defs[id]
							if o == nil {
								o = info.Uses[id]
							}
							if o != nil {
								c.tagOf[o] = t
							}
						}
					}
				}
			}
		case *ast.RangeStmt:
			if id, ok := v.Value.(*ast.Ident); ok && info.Defs[id] != nil {
				t := c.tagCall(v.X)
				if t == "" {
					if x, ok := v.X.(*ast.Ident); ok {
						t = c.tagOf[info.Uses[x]]
					}
				}
				if strings.HasPrefix(t, "list:") {
					c.tagOf[info.Defs[id]] = "elem:" + strings.TrimPrefix(t, "list:")
				}
			}
		}
		return true
	})
}

// tagAssert: x.(T) where x is a node found by a tag; returns "TAG|Type" when the assertion is the
// claim "a node with this tag has this Go type" ("" otherwise).
func (c *c14FnCtx) tagAssert(v *ast.TypeAssertExpr, stack []ast.Node) string {
	ts := strings.TrimPrefix(strings.TrimPrefix(strings.TrimPrefix(c.s.str(v.Type), "[]"), "*"), "gedcom.")
	tagVar := ""
	switch x := v.X.(type) {
	case *ast.Ident:
		t := c.tagOf[c.p.info.Uses[x]]
		switch {
		case strings.HasPrefix(t, "elem:"):
			tagVar = strings.TrimPrefix(t, "elem:")
		case strings.HasPrefix(t, "one:"):
			// First()/Last() give a nil interface for an empty list: the assertion needs the nil check
			facts, _, _ := c.factsN(stack)
			for _, f := range facts {
				if !f.pos && (f.cond == "IsNil("+x.Name+")" || f.cond == "gedcom.IsNil("+x.Name+")" || f.cond == x.Name+" == nil") ||
					f.pos && (f.cond == x.Name+" != nil") {
					tagVar = strings.TrimPrefix(t, "one:")
				}
			}
		}
	case *ast.CallExpr:
		switch c14lastIdent(x.Fun) {
		case "castNodesWithTag":
			if len(x.Args) == 3 {
				tagVar = c14lastIdent(x.Args[1])
			}
		case "CastTo":
			if sel, ok := x.Fun.(*ast.SelectorExpr); ok {
				if id, ok := sel.X.(*ast.Ident); ok {
					if t := c.tagOf[c.p.info.Uses[id]]; strings.HasPrefix(t, "list:") {
						tagVar = strings.TrimPrefix(t, "list:")
					}
				}
			}
		}
	}
	if tagVar == "" {
		return ""
	}
	tag, ok := c.s.tagStrings[tagVar]
	if !ok {
		return ""
	}
	return tag + "|" + ts
}

func (c *c14FnCtx) prepare() {
	c.prepareTags()
	c.alias = map[string]string{}
	c.reSub = map[string]int{}
	assignCount := map[string]int{}
	ast.Inspect(c.body, func(n ast.Node) bool {
		switch v := n.(type) {
		case *ast.AssignStmt:
			for _, l := range v.Lhs {
				if id, ok := l.(*ast.Ident); ok {
					assignCount[id.Name]++
				}
			}
		case *ast.IncDecStmt:
			if id, ok := v.X.(*ast.Ident); ok {
				assignCount[id.Name] += 2
			}
		case *ast.RangeStmt:
			for _, l := range []ast.Expr{v.Key, v.Value} {
				if id, ok := l.(*ast.Ident); ok {
					assignCount[id.Name] += 2
				}
			}
		}
		return true
	})
	ast.Inspect(c.body, func(n ast.Node) bool {
		as, ok := n.(*ast.AssignStmt)
		if !ok || as.Tok != token.DEFINE || len(as.Lhs) != len(as.Rhs) {
			return true
		}
		for i, l := range as.Lhs {
			id, ok := l.(*ast.Ident)
			if !ok || assignCount[id.Name] != 1 {
				continue
			}
			switch r := as.Rhs[i].(type) {
			case *ast.BasicLit:
				if r.Kind == token.INT {
					c.alias[id.Name] = r.Value
				}
			case *ast.CallExpr:
				f := c.s.str(r.Fun)
				if f == "len" && len(r.Args) == 1 {
					c.alias[id.Name] = "len(" + c.s.str(r.Args[0]) + ")"
				}
				if strings.HasSuffix(f, ".FindStringSubmatch") {
					if g, ok := c.s.regexGroups[c.p.rel+":"+strings.TrimSuffix(f, ".FindStringSubmatch")]; ok {
						c.reSub[id.Name] = g
					}
				}
			}
		}
		return true
	})
	c.okTA = map[*ast.TypeAssertExpr]bool{}
	c.lhsIdx = map[*ast.IndexExpr]bool{}
	c.nilVars = map[types.Object]string{}
	c.made = map[types.Object]bool{}
	info := c.p.info
	obj := func(e ast.Expr) types.Object {
		if id, ok := e.(*ast.Ident); ok {
			if o := info.Defs[id]; o != nil {
				return o
			}
			return info.Uses[id]
		}
		return nil
	}
	bind := func(lhs, rhs ast.Expr) {
		o := obj(lhs)
		if o == nil {
			return
		}
		r := rhs
		for {
			if pe, ok := r.(*ast.ParenExpr); ok {
				r = pe.X
				continue
			}
			break
		}
		if c14isMapExpr(r) {
			c.made[o] = true
		}
		if call, ok := r.(*ast.CallExpr); ok {
			if fn := c.s.callee(c.p, call); fn != nil && c.s.mayNil[fn] {
				c.nilVars[o] = c.s.str(call.Fun)
			}
		}
	}
	ast.Inspect(c.body, func(n ast.Node) bool {
		switch v := n.(type) {
		case *ast.AssignStmt:
			if len(v.Lhs) == 2 && len(v.Rhs) == 1 {
				if ta, ok := v.Rhs[0].(*ast.TypeAssertExpr); ok {
					c.okTA[ta] = true
				}
			}
			if len(v.Lhs) == len(v.Rhs) {
				for i := range v.Lhs {
					bind(v.Lhs[i], v.Rhs[i])
				}
			}
			for _, l := range v.Lhs {
				if ix, ok := l.(*ast.IndexExpr); ok {
					c.lhsIdx[ix] = true
				}
			}
		case *ast.IncDecStmt:
			if ix, ok := v.X.(*ast.IndexExpr); ok {
				c.lhsIdx[ix] = true
			}
		case *ast.ValueSpec:
			if len(v.Names) == 2 && len(v.Values) == 1 {
				if ta, ok := v.Values[0].(*ast.TypeAssertExpr); ok {
					c.okTA[ta] = true
				}
			}
			if len(v.Names) == len(v.Values) {
				for i := range v.Names {
					bind(v.Names[i], v.Values[i])
				}
			}
		case *ast.TypeSwitchStmt:
			ast.Inspect(v.Assign, func(m ast.Node) bool {
				if ta, ok := m.(*ast.TypeAssertExpr); ok {
					c.okTA[ta] = true
				}
				return true
			})
		}
		return true
	})
}

func (c *c14FnCtx) sweep() {
	c.prepare()
	var stack []ast.Node
	ast.Inspect(c.body, func(n ast.Node) bool {
		if n == nil {
			stack = stack[:len(stack)-1]
			return true
		}
		stack = append(stack, n)
		c.visit(stack)
		return true
	})
}

func (c *c14FnCtx) classify(n ast.Node, kind, expr string, guard string) {
	if guard != "" {
		c.add(n, kind, expr, "local", guard)
	} else {
		c.add(n, kind, expr, "", "")
	}
}

func (c *c14FnCtx) visit(stack []ast.Node) {
	s := c.s
	info := c.p.info
	n := stack[len(stack)-1]
	switch v := n.(type) {
	case *ast.IndexExpr:
		tv, ok := info.Types[v.X]
		if !ok || tv.Type == nil || tv.IsType() {
			return
		}
		xs := s.str(v.X)
		switch t := tv.Type.Underlying().(type) {
		case *types.Map:
			if !c.lhsIdx[v] {
				return // a read of a nil or absent key gives the zero value
			}
			c.classify(n, "map-write", s.str(v), c.mapGuard(v.X, stack))
			return
		case *types.Slice, *types.Basic, *types.Array, *types.Pointer:
			if b, ok := t.(*types.Basic); ok && b.Info()&types.IsString == 0 {
				return
			}
			if tv.Value != nil { // constant string indexed by a constant is checked by the compiler
				if _, ok := c.constInt(v.Index); ok {
					return
				}
			}
			arrLen := int64(-1)
			if a, ok := t.(*types.Array); ok {
				arrLen = a.Len()
			}
			if pt, ok := t.(*types.Pointer); ok {
				if a, ok := pt.Elem().Underlying().(*types.Array); ok {
					arrLen = a.Len()
				} else {
					return
				}
			}
			c.classify(n, "index", s.str(v), c.indexGuard(v, xs, arrLen, stack))
		}
	case *ast.SliceExpr:
		if v.Low == nil && v.High == nil {
			return
		}
		c.classify(n, "slice", s.str(v), c.sliceGuard(v, stack))
	case *ast.TypeAssertExpr:
		if v.Type == nil || c.okTA[v] {
			return
		}
		if g := c.assertGuard(v, stack); g != "" {
			c.classify(n, "type-assert", s.str(v), g)
		} else if ta := c.tagAssert(v, stack); ta != "" {
			s.TagAsserts[ta] = true
			c.add(n, "type-assert", s.str(v), "invariant", "tag_asserts_sound")
		} else {
			c.classify(n, "type-assert", s.str(v), "")
		}
	case *ast.BinaryExpr:
		if (v.Op == token.QUO || v.Op == token.REM) && c.isInt(v.X) && c.isInt(v.Y) {
			if tv := info.Types[v]; tv.Value != nil {
				return // constant expression
			}
			c.classify(n, "int-div", s.str(v), c.divGuard(v.Y, stack))
		}
	case *ast.AssignStmt:
		if (v.Tok == token.QUO_ASSIGN || v.Tok == token.REM_ASSIGN) && len(v.Lhs) == 1 && c.isInt(v.Lhs[0]) {
			c.classify(n, "int-div", s.str(v.Lhs[0])+" "+v.Tok.String()+" "+s.str(v.Rhs[0]), c.divGuard(v.Rhs[0], stack))
		}
	case *ast.SendStmt:
		c.classify(n, "chan-send", s.str(v.Chan)+" <- "+s.str(v.Value), c.sendGuard(v, stack))
	case *ast.CallExpr:
		if id, ok := v.Fun.(*ast.Ident); ok && info.Uses[id] != nil && info.Uses[id].Pkg() == nil {
			if id.Name == "panic" {
				c.classify(n, "panic-call", s.str(v), "")
			}
			if id.Name == "close" && len(v.Args) == 1 {
				c.classify(n, "chan-close", s.str(v), c.closeGuard(v, stack))
			}
		}
	case *ast.SelectorExpr:
		c.nilDeref(v, stack)
	case *ast.StarExpr:
		if id, ok := v.X.(*ast.Ident); ok {
			if from, ok := c.nilVars[info.Uses[id]]; ok {
				facts, _, _ := s.facts(stack)
				if ok, ev := c14holds(facts, id.Name, "!=", "nil"); ok {
					c.add(n, "nil-deref", s.str(v), "local", ev)
				} else {
					c.add(n, "nil-deref", s.str(v), "", "from "+from)
				}
			}
		}
	}
}

// mapGuard: the written map is allocated in scope (make / literal), lazily initialised under
// `m == nil`, or a struct field that every composite literal of the struct in the module sets.
func (c *c14FnCtx) mapGuard(x ast.Expr, stack []ast.Node) string {
	s := c.s
	xs := s.str(x)
	if id, ok := x.(*ast.Ident); ok {
		if o := c.p.info.Uses[id]; o != nil && c.made[o] {
			return "map allocated in this function (make / literal)"
		}
		if o := c.p.info.Uses[id]; o != nil {
			// package-level variable with an initialiser
			if v, ok := o.(*types.Var); ok && v.Parent() == c.p.pkg.Scope() {
				if s.pkgVarInitialised(c.p, id.Name) {
					return "package-level map with an initialiser"
				}
			}
		}
	}
	// lazily initialised: an `if <x> == nil { <x> = make... }` anywhere earlier in the function
	lazy := false
	ast.Inspect(c.body, func(n ast.Node) bool {
		if is, ok := n.(*ast.IfStmt); ok && is.Pos() < x.Pos() && s.str(is.Cond) == xs+" == nil" {
			for _, st := range is.Body.List {
				if as, ok := st.(*ast.AssignStmt); ok && len(as.Lhs) == 1 && s.str(as.Lhs[0]) == xs && c14isMapExpr(as.Rhs[0]) {
					lazy = true
				}
			}
		}
		return true
	})
	if lazy {
		return "lazily allocated under `" + xs + " == nil` earlier in the function"
	}
	if sel, ok := x.(*ast.SelectorExpr); ok {
		if selInfo := c.p.info.Selections[sel]; selInfo != nil && selInfo.Kind() == types.FieldVal {
			if ev := s.fieldAlwaysMade(selInfo.Obj().(*types.Var)); ev != "" {
				return ev
			}
		}
	}
	return ""
}

func (s *c14Sweep) pkgVarInitialised(p *c14Pkg, name string) bool {
	for _, f := range p.files {
		for _, d := range f.Decls {
			if gd, ok := d.(*ast.GenDecl); ok && gd.Tok == token.VAR {
				for _, sp := range gd.Specs {
					vs := sp.(*ast.ValueSpec)
					for i, n := range vs.Names {
						if n.Name == name && i < len(vs.Values) && c14isMapExpr(vs.Values[i]) {
							return true
						}
					}
				}
			}
		}
	}
	return false
}

// fieldAlwaysMade: every composite literal of the struct that owns field sets it to make/literal.
func (s *c14Sweep) fieldAlwaysMade(field *types.Var) string {
	key := field.Pkg().Path() + "." + field.Name() + "@" + s.fset.Position(field.Pos()).String()
	if ev, ok := s.fieldInit[key]; ok {
		return ev
	}
	lits, set := 0, 0
	for _, p := range s.pkgs {
		for _, f := range p.files {
			ast.Inspect(f, func(n ast.Node) bool {
				cl, ok := n.(*ast.CompositeLit)
				if !ok {
					return true
				}
				tv, ok := p.info.Types[cl]
				if !ok || tv.Type == nil {
					return true
				}
				st, ok := tv.Type.Underlying().(*types.Struct)
				if !ok {
					return true
				}
				owns := false
				for i := 0; i < st.NumFields(); i++ {
					if st.Field(i) == field {
						owns = true
					}
				}
				if !owns {
					return true
				}
				lits++
				for _, el := range cl.Elts {
					if kv, ok := el.(*ast.KeyValueExpr); ok {
						if id, ok := kv.Key.(*ast.Ident); ok && id.Name == field.Name() && c14isMapExpr(kv.Value) {
							set++
						}
					}
				}
				return true
			})
		}
	}
	ev := ""
	if lits > 0 && lits == set {
		ev = fmt.Sprintf("field %s is allocated in every composite literal of its struct (%d)", field.Name(), lits)
	}
	s.fieldInit[key] = ev
	return ev
}

func (c *c14FnCtx) indexGuard(v *ast.IndexExpr, xs string, arrLen int64, stack []ast.Node) string {
	s := c.s
	facts, ranges, sortOver := c.factsN(stack)
	is := c.norm(s.str(v.Index))
	if k, ok := c.constInt(v.Index); ok {
		if arrLen >= 0 {
			if k < arrLen {
				return fmt.Sprintf("constant index %d of an array of length %d", k, arrLen)
			}
			return ""
		}
		if lb, ev := c14lenLower(facts, xs); int64(lb) > k {
			return ev
		}
		if k == 0 {
			for _, r := range ranges {
				if r.x == xs {
					return "inside the body of `for ... range " + xs + "` (at least one element)"
				}
			}
		}
		if g, ok := c.reSub[xs]; ok && k <= int64(g) {
			if lb, ev := c14lenLower(facts, xs); lb >= 1 {
				return fmt.Sprintf("%s is a FindStringSubmatch result of a regexp with %d groups, non-nil by %s", xs, g, ev)
			}
		}
		// strings.Split(s, sep)[0] with a non-empty constant separator: at least one element
		if call, ok := v.X.(*ast.CallExpr); ok && k == 0 {
			f := s.str(call.Fun)
			if (f == "strings.Split" || f == "strings.SplitN") && len(call.Args) >= 2 {
				if tv := c.p.info.Types[call.Args[1]]; tv.Value != nil && tv.Value.Kind() == constant.String && constant.StringVal(tv.Value) != "" {
					return f + " with a non-empty separator returns at least one element"
				}
			}
		}
		return ""
	}
	for _, r := range ranges {
		if r.key == is && r.x == xs {
			return "for " + is + " := range " + xs
		}
	}
	if id, ok := v.Index.(*ast.Ident); ok {
		for _, so := range sortOver {
			if so == xs {
				return "index " + id.Name + " supplied by package sort over " + xs
			}
		}
		if c.decl != nil && c.decl.Recv != nil && (c.fn == "Less" || c.fn == "Swap") {
			return "sort.Interface method: indices supplied by package sort (0 <= i < Len())"
		}
	}
	// x[len(x)-1]
	if is == "len("+xs+")-1" || is == "len("+xs+") - 1" {
		if lb, ev := c14lenLower(facts, xs); lb >= 1 {
			return ev
		}
		return ""
	}
	if ok, ev := c14holds(facts, is, "<", "len("+xs+")"); ok {
		return ev
	}
	// x[i+1] under i < len(x)-1 ; x[i-1] under i > 0 together with i <= len(x)
	if be, ok := v.Index.(*ast.BinaryExpr); ok {
		if k, isC := c.constInt(be.Y); isC {
			base := s.str(be.X)
			if be.Op == token.ADD {
				for _, form := range []string{"len(" + xs + ")-" + strconv.FormatInt(k, 10), "len(" + xs + ") - " + strconv.FormatInt(k, 10)} {
					if ok, ev := c14holds(facts, base, "<", form); ok {
						return ev
					}
				}
			}
			if be.Op == token.SUB && k == 1 {
				okLow, ev1 := c14holds(facts, base, ">", "0")
				if !okLow {
					okLow, ev1 = c14holds(facts, base, ">=", "1")
				}
				if !okLow {
					okLow, ev1 = c14holds(facts, base, "!=", "0")
				}
				inRange := false
				ev2 := ""
				for _, r := range ranges {
					if r.key == base && r.x == xs {
						inRange, ev2 = true, "for "+base+" := range "+xs
					}
				}
				if !inRange {
					inRange, ev2 = c14holds(facts, base, "<=", "len("+xs+")")
				}
				if okLow && inRange {
					return ev1 + " and " + ev2
				}
			}
		}
	}
	if arrLen >= 0 {
		// x[i % n] / masked indexes are not recognised; leave to the table
	}
	return ""
}

func (c *c14FnCtx) sliceGuard(v *ast.SliceExpr, stack []ast.Node) string {
	s := c.s
	xs := s.str(v.X)
	facts, ranges, _ := c.factsN(stack)
	need := int64(0)
	highMinus := int64(0)
	var evs []string
	check := func(e ast.Expr, isHigh bool) bool {
		if e == nil {
			return true
		}
		es := c.norm(s.str(e))
		for _, r := range ranges {
			if r.x == xs && (es == r.key || es == r.key+"+1" || es == r.key+" + 1") {
				evs = append(evs, "for "+r.key+" := range "+xs+" ("+es+" <= len)")
				return true
			}
		}
		if k, ok := c.constInt(e); ok {
			if k == 0 {
				return true
			}
			if k > need {
				need = k
			}
			return true
		}
		if es == "len("+xs+")" {
			return true
		}
		if es == "len("+xs+")-1" || es == "len("+xs+") - 1" {
			// x[k:len(x)-1] needs k <= len(x)-1
			highMinus = 1
			return true
		}
		// i := strings.Index(x, ...) guarded by i >= 0 / i != -1
		if id, ok := e.(*ast.Ident); ok {
			if c.definedByIndexOf(id, xs) {
				for _, q := range [][2]string{{">=", "0"}, {"!=", "-1"}, {">", "-1"}, {">", "0"}} {
					if ok, ev := c14holds(facts, id.Name, q[0], q[1]); ok {
						evs = append(evs, id.Name+" is an index found in "+xs+" and "+ev)
						return true
					}
				}
			}
		}
		for _, op := range []string{"<=", "<"} {
			if ok, ev := c14holds(facts, es, op, "len("+xs+")"); ok {
				evs = append(evs, ev)
				return true
			}
		}
		return false
	}
	if !check(v.Low, false) || !check(v.High, true) || v.Max != nil {
		return ""
	}
	need += highMinus
	if need > 0 {
		lb, ev := c14lenLower(facts, xs)
		if int64(lb) < need {
			return ""
		}
		evs = append(evs, ev)
	}
	if len(evs) == 0 {
		return "bounds are 0 / len(" + xs + ")"
	}
	return strings.Join(evs, " and ")
}

func (c *c14FnCtx) definedByIndexOf(id *ast.Ident, xs string) bool {
	o := c.p.info.Uses[id]
	found := false
	ast.Inspect(c.body, func(n ast.Node) bool {
		if as, ok := n.(*ast.AssignStmt); ok && len(as.Lhs) == 1 && len(as.Rhs) == 1 {
			if l, ok := as.Lhs[0].(*ast.Ident); ok && (c.p.info.Defs[l] == o || c.p.info.Uses[l] == o) {
				if call, ok := as.Rhs[0].(*ast.CallExpr); ok {
					f := c.s.str(call.Fun)
					if strings.HasPrefix(f, "strings.Index") || strings.HasPrefix(f, "strings.LastIndex") || strings.HasPrefix(f, "bytes.Index") {
						if len(call.Args) > 0 && c.s.str(call.Args[0]) == xs {
							found = true
						}
					}
				}
			}
		}
		return true
	})
	return found
}

func (c *c14FnCtx) assertGuard(v *ast.TypeAssertExpr, stack []ast.Node) string {
	s := c.s
	xs, ts := s.str(v.X), s.str(v.Type)
	for i := len(stack) - 2; i >= 0; i-- {
		switch a := stack[i].(type) {
		case *ast.CaseClause:
			if i >= 2 {
				if sw, ok := stack[i-2].(*ast.TypeSwitchStmt); ok && len(a.List) == 1 && s.str(a.List[0]) == ts {
					guarded := false
					ast.Inspect(sw.Assign, func(m ast.Node) bool {
						if ta, ok := m.(*ast.TypeAssertExpr); ok && s.str(ta.X) == xs {
							guarded = true
						}
						return true
					})
					if guarded {
						return "inside `case " + ts + "` of a type switch on " + xs
					}
				}
			}
		case *ast.IfStmt:
			if as, ok := a.Init.(*ast.AssignStmt); ok && len(as.Rhs) == 1 && stack[i+1] == ast.Node(a.Body) {
				if ta, ok := as.Rhs[0].(*ast.TypeAssertExpr); ok && s.str(ta.X) == xs && s.str(ta.Type) == ts && s.str(a.Cond) == "ok" {
					return "inside `if _, ok := " + xs + ".(" + ts + "); ok`"
				}
			}
		}
	}
	return ""
}

func (c *c14FnCtx) divGuard(d ast.Expr, stack []ast.Node) string {
	s := c.s
	if k, ok := c.constInt(d); ok {
		if k != 0 {
			return fmt.Sprintf("non-zero constant divisor %d", k)
		}
		return ""
	}
	facts, _, _ := c.factsN(stack)
	ds := c.norm(s.str(d))
	for _, q := range [][2]string{{"!=", "0"}, {">", "0"}, {">=", "1"}} {
		if ok, ev := c14holds(facts, ds, q[0], q[1]); ok {
			return ev
		}
	}
	if call, ok := d.(*ast.CallExpr); ok && s.str(call.Fun) == "len" && len(call.Args) == 1 {
		if lb, ev := c14lenLower(facts, s.str(call.Args[0])); lb >= 1 {
			return ev
		}
	}
	return ""
}

// enclosingFunc: innermost function literal or the declaration body.
func (c *c14FnCtx) enclosingFunc(stack []ast.Node) ast.Node {
	for i := len(stack) - 2; i >= 0; i-- {
		if fl, ok := stack[i].(*ast.FuncLit); ok {
			return fl.Body
		}
	}
	return c.body
}

func (c *c14FnCtx) closeGuard(call *ast.CallExpr, stack []ast.Node) string {
	s := c.s
	ch := s.str(call.Args[0])
	scope := c.enclosingFunc(stack)
	deferred := false
	if len(stack) >= 2 {
		_, deferred = stack[len(stack)-2].(*ast.DeferStmt)
	}
	sendsIn, sendsAfter, sendsElsewhere := 0, 0, 0
	ast.Inspect(c.body, func(n ast.Node) bool {
		if sd, ok := n.(*ast.SendStmt); ok && s.str(sd.Chan) == ch {
			if sd.Pos() >= scope.Pos() && sd.End() <= scope.End() {
				sendsIn++
				if sd.Pos() > call.Pos() && !deferred {
					sendsAfter++
				}
			} else {
				sendsElsewhere++
			}
		}
		return true
	})
	closesHere := 0
	waitBefore := false
	ast.Inspect(c.body, func(n ast.Node) bool {
		if cl, ok := n.(*ast.CallExpr); ok {
			if id, ok := cl.Fun.(*ast.Ident); ok && id.Name == "close" && len(cl.Args) == 1 && s.str(cl.Args[0]) == ch {
				closesHere++
			}
			if sel, ok := cl.Fun.(*ast.SelectorExpr); ok && sel.Sel.Name == "Wait" && cl.Pos() < call.Pos() && cl.Pos() >= scope.Pos() {
				waitBefore = true
			}
		}
		return true
	})
	if closesHere != 1 {
		return ""
	}
	switch {
	case sendsIn > 0 && sendsAfter == 0 && sendsElsewhere == 0:
		how := "after its last send"
		if deferred {
			how = "deferred"
		}
		return fmt.Sprintf("the only close of %s in %s; all %d sends are in the same goroutine body, close %s", ch, c.fn, sendsIn, how)
	case waitBefore && sendsAfter == 0:
		return fmt.Sprintf("the only close of %s in %s, after WaitGroup.Wait of the sending goroutines", ch, c.fn)
	}
	return ""
}

func (c *c14FnCtx) sendGuard(v *ast.SendStmt, stack []ast.Node) string {
	s := c.s
	ch := s.str(v.Chan)
	if s.closes[c14lastIdent(v.Chan)] == 0 {
		return "no close() of a channel named " + c14lastIdent(v.Chan) + " anywhere in the module"
	}
	// a close of the same channel in this declaration that is itself ordered after the sends
	guard := ""
	var st []ast.Node
	ast.Inspect(c.body, func(n ast.Node) bool {
		if n == nil {
			st = st[:len(st)-1]
			return true
		}
		st = append(st, n)
		if cl, ok := n.(*ast.CallExpr); ok {
			if id, ok := cl.Fun.(*ast.Ident); ok && id.Name == "close" && len(cl.Args) == 1 && s.str(cl.Args[0]) == ch {
				if g := c.closeGuard(cl, st); g != "" {
					guard = "closed in the same function: " + g
				}
			}
		}
		return true
	})
	return guard
}

// nilDeref: recv.Sel where recv is (a variable bound to) the result of a may-return-nil function.
func (c *c14FnCtx) nilDeref(sel *ast.SelectorExpr, stack []ast.Node) {
	s := c.s
	info := c.p.info
	from := ""
	var recvVar *ast.Ident
	x := sel.X
	for {
		if pe, ok := x.(*ast.ParenExpr); ok {
			x = pe.X
			continue
		}
		break
	}
	switch r := x.(type) {
	case *ast.CallExpr:
		if fn := s.callee(c.p, r); fn != nil && s.mayNil[fn] {
			from = s.str(r.Fun) + "()"
		}
	case *ast.Ident:
		if f, ok := c.nilVars[info.Uses[r]]; ok {
			from = f + "()"
			recvVar = r
		}
	}
	if from == "" {
		return
	}
	selInfo := info.Selections[sel]
	if selInfo == nil {
		return
	}
	what := ""
	switch selInfo.Kind() {
	case types.FieldVal:
		what = "field"
	case types.MethodVal:
		m, _ := selInfo.Obj().(*types.Func)
		if m == nil {
			return
		}
		if _, isIface := selInfo.Recv().Underlying().(*types.Interface); isIface {
			what = "interface method"
		} else if s.nilTol[m] {
			s.Tolerant++
			return
		} else if _, ok := s.decls[m]; ok {
			what = "method that dereferences its receiver"
		} else {
			what = "method"
		}
	default:
		return
	}
	expr := s.str(sel)
	if recvVar != nil {
		facts, _, _ := s.facts(stack)
		if ok, ev := c14holds(facts, recvVar.Name, "!=", "nil"); ok {
			c.add(sel, "nil-deref", expr, "local", ev)
			return
		}
		for _, f := range facts {
			if f.cond == "IsNil("+recvVar.Name+")" && !f.pos || f.cond == "gedcom.IsNil("+recvVar.Name+")" && !f.pos {
				c.add(sel, "nil-deref", expr, "local", "not ("+f.cond+") [early exit / else branch]")
				return
			}
		}
	}
	c.add(sel, "nil-deref", expr, "", what+" on the result of "+from)
}

// ---------------------------------------------------------------------------------------------

// c14SweepOps runs the whole sweep on the tree at repo and applies the recorded table.
func c14SweepOps(repo string) (*c14Sweep, error) {
	s, err := c14LoadModule(repo)
	if err != nil {
		return nil, err
	}
	s.index()
	s.reachability()
	type item struct {
		fn *types.Func
		fd *ast.FuncDecl
	}
	var items []item
	for fn, fd := range s.decls {
		if s.reach[fn] {
			items = append(items, item{fn, fd})
		}
	}
	sort.Slice(items, func(i, j int) bool { return items[i].fd.Pos() < items[j].fd.Pos() })
	seen := map[string]int{}
	for _, it := range items {
		p := s.declPkg[it.fn]
		name := it.fd.Name.Name
		if it.fd.Recv != nil && len(it.fd.Recv.List) > 0 {
			name = strings.TrimPrefix(c14exprString(s.fset, it.fd.Recv.List[0].Type), "*") + "." + name
		}
		c := &c14FnCtx{s: s, p: p, file: filepath.Base(s.fset.Position(it.fd.Pos()).Filename), fn: name, body: it.fd.Body, decl: it.fd, seen: seen}
		c.sweep()
	}
	// package-level initialisers
	for _, p := range s.pkgs {
		for fi, f := range p.files {
			for _, d := range f.Decls {
				if gd, ok := d.(*ast.GenDecl); ok && gd.Tok == token.VAR {
					c := &c14FnCtx{s: s, p: p, file: p.names[fi], fn: "<package var>", body: gd, seen: seen}
					c.sweep()
				}
			}
		}
	}
	sort.SliceStable(s.Ops, func(i, j int) bool {
		a, b := s.Ops[i], s.Ops[j]
		if a.Pkg != b.Pkg {
			return a.Pkg < b.Pkg
		}
		if a.File != b.File {
			return a.File < b.File
		}
		return a.Line < b.Line
	})
	for _, o := range s.Ops {
		if o.Class == "local" || o.Class == "invariant" {
			continue
		}
		if e, ok := c14OpsTable[o.Key()]; ok {
			o.Class, o.Evidence = e.Class, e.Evidence
		} else {
			o.Class = "unclassified"
		}
	}
	return s, nil
}

type c14TableEntry struct{ Class, Evidence string }

func c14OpsRepo() string {
	repo := os.Getenv("VERIF_REPO")
	if repo == "" {
		repo = "/repo"
	}
	return repo
}
