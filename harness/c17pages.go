package main

// C17 page assembly correspondence: the document abstraction of Gedcom/Model/Pages.lean is read
// from the real API and from the show-mode site; the model then predicts the skeleton (text nodes
// and link targets in document order) of every visibility-dependent page of the show, placeholder
// and hide sites, which is compared with the skeleton of the real page bytes.

import (
	"fmt"
	stdhtml "html"
	"regexp"
	"sort"
	"strconv"
	"strings"

	"github.com/elliotchance/gedcom/v39"
	"github.com/elliotchance/gedcom/v39/html"
)

var (
	c17TagRe   = regexp.MustCompile(`(?s)<(script|style)[^>]*>.*?</(script|style)>|<[^>]*>`)
	c17AttrRe  = regexp.MustCompile(`(?:href="|location\.href=')([^"']*)`)
	c17TitleRe = regexp.MustCompile(`(?s)<title>(.*?)</title>`)
	c17RowRe   = regexp.MustCompile(`(?s)<tr[^>]*>(.*?)</tr>`)
	c17CellRe  = regexp.MustCompile(`(?s)<t[dh][^>]*>(.*?)</t[dh]>`)
)

// c17Atoms is the skeleton of an HTML fragment: "T"+text for every non-empty text node, "H"+target
// for every link / click target, in document order.
func c17Atoms(h string) []string {
	var out []string
	pos := 0
	text := func(s string) {
		t := strings.TrimSpace(strings.ReplaceAll(stdhtml.UnescapeString(s), " ", " "))
		if t != "" {
			out = append(out, "T"+t)
		}
	}
	for _, loc := range c17TagRe.FindAllStringIndex(h, -1) {
		text(h[pos:loc[0]])
		tag := h[loc[0]:loc[1]]
		pos = loc[1]
		if strings.HasPrefix(tag, "<link") || strings.HasPrefix(tag, "<script") || strings.HasPrefix(tag, "<style") {
			continue
		}
		for _, m := range c17AttrRe.FindAllStringSubmatch(tag, -1) {
			out = append(out, "H"+stdhtml.UnescapeString(m[1]))
		}
	}
	text(h[pos:])
	return out
}

func c17Rows(h string) [][]string {
	var rows [][]string
	for _, r := range c17RowRe.FindAllStringSubmatch(h, -1) {
		var cells []string
		for _, c := range c17CellRe.FindAllStringSubmatch(r[1], -1) {
			cells = append(cells, c[1])
		}
		rows = append(rows, cells)
	}
	return rows
}

func c17Opt(i int) string {
	if i < 0 {
		return "-"
	}
	return strconv.Itoa(i)
}

func c17HexList(xs []string) string {
	parts := []string{strconv.Itoa(len(xs))}
	for _, x := range xs {
		parts = append(parts, hexs(x))
	}
	return strings.Join(parts, " ")
}

func c17TextsUS(atoms []string) string {
	var ts []string
	for _, a := range atoms {
		if a[0] == 'T' {
			ts = append(ts, a[1:])
		}
	}
	return strings.Join(ts, "\x1f")
}

// c17Abstract encodes the document for `c17site`. showSite is the real show-mode site (the place
// pages are read from it); places says whether the place group is published.
func c17Abstract(doc *gedcom.Document, showSite *c17Site, withPlaces bool) (enc string, pageIdx map[string]int, ranks map[string]map[string]int, err error) {
	defer func() {
		if r := recover(); r != nil {
			err = fmt.Errorf("abstraction: %v", r)
		}
	}()
	show := html.LivingVisibility(html.LivingVisibilityShow)
	// the places map every page of the site is given: collected by NewPublisher when the place
	// group is published, nil otherwise
	pm := html.NewPublisher(doc, &html.PublishShowOptions{ShowPlaces: true, LivingVisibility: show}).Places()
	if !withPlaces {
		pm = nil
	}
	people := doc.Individuals()
	idx := map[*gedcom.IndividualNode]int{}
	pageIdx = map[string]int{}
	for i, p := range people {
		idx[p] = i
		pageIdx[html.PageIndividual(doc, p, show, pm)] = i
	}
	id := func(p *gedcom.IndividualNode) int {
		if p == nil {
			return -1
		}
		if i, ok := idx[p]; ok {
			return i
		}
		return -1
	}
	kids := func(f *gedcom.FamilyNode) string {
		var xs []string
		for _, c := range f.Children() {
			xs = append(xs, c17Opt(id(c.Individual())))
		}
		return strings.TrimSpace(strconv.Itoa(len(xs)) + " " + strings.Join(xs, " "))
	}

	// events with a place, from the show-mode place pages
	type plev struct{ key, pretty, country, date, descr, sk string }
	owned := map[int][]plev{}
	var others []plev
	if withPlaces {
		country := map[string]string{}
		cur := ""
		for _, cells := range c17Rows(showSite.Files["places.html"]) {
			if len(cells) != 1 {
				continue
			}
			if m := regexp.MustCompile(`href="([^"]*)\.html"`).FindStringSubmatch(cells[0]); m != nil {
				country[stdhtml.UnescapeString(m[1])] = cur
			} else if a := c17Atoms(cells[0]); len(a) > 0 {
				cur = a[0][1:]
			}
		}
		var keys []string
		for k := range pm {
			keys = append(keys, k)
		}
		sort.Strings(keys)
		for _, k := range keys {
			page, ok := showSite.Files[k+".html"]
			if !ok {
				return "", nil, nil, fmt.Errorf("no show-mode page for place %q", k)
			}
			pretty := ""
			if m := c17TitleRe.FindStringSubmatch(page); m != nil {
				pretty = stdhtml.UnescapeString(m[1])
			}
			rank := 0
			for _, cells := range c17Rows(page) {
				if len(cells) != 3 || strings.Contains(cells[2], ">Individual<") || cells[2] == "Individual" {
					continue
				}
				if a := c17Atoms(cells[0]); len(a) == 1 && a[0] == "TDate" && strings.Contains(cells[1], "Event") {
					continue
				}
				e := plev{key: k, pretty: pretty, country: country[k], sk: fmt.Sprintf("%06d", rank)}
				rank++
				e.date = c17TextsUS(c17Atoms(cells[0]))
				e.descr = c17TextsUS(c17Atoms(cells[1]))
				owner := -1
				if m := c17AttrRe.FindStringSubmatch(cells[2]); m != nil {
					if i, ok := pageIdx[stdhtml.UnescapeString(m[1])]; ok {
						owner = i
					}
				}
				if owner >= 0 {
					owned[owner] = append(owned[owner], e)
				} else {
					others = append(others, e)
				}
			}
		}
	}
	encPlev := func(es []plev) string {
		parts := []string{strconv.Itoa(len(es))}
		for _, e := range es {
			parts = append(parts, hexs(e.key), hexs(e.pretty), hexs(e.country), hexs(e.date), hexs(e.descr), hexs(e.sk))
		}
		return strings.Join(parts, " ")
	}

	var b []string
	b = append(b, strconv.Itoa(len(people)))
	for i, p := range people {
		hasName := len(p.Names()) > 0
		name := ""
		if hasName {
			name = p.Names()[0].String()
		}
		dates := c17TextsUS(c17Atoms(c17render(html.NewIndividualDates(p, show))))
		surname := p.Name().Surname()
		var cells []string
		if rows := c17Rows(c17render(html.NewIndividualInList(doc, p, show, pm))); len(rows) == 1 && len(rows[0]) == 3 {
			cells = append(c17Atoms(rows[0][1]), c17Atoms(rows[0][2])...)
		}
		idxLetter := '#'
		if l := strings.ToLower(surname); l != "" && l[0] >= 'a' && l[0] <= 'z' {
			idxLetter = rune(l[0])
		}
		indexName := p.Name().Format(gedcom.NameFormatIndex)
		listLetter := byte('#')
		if indexName != "" {
			listLetter = strings.ToLower(indexName)[0]
		}
		card := c17Atoms(c17render(html.NewIndividualNameAndSex(p)))
		alt := c17Atoms(c17render(html.NewIndividualAdditionalNames(p)))
		if len(card) > 0 {
			card = card[1:]
		}
		if len(alt) > 0 {
			alt = alt[1:]
		}
		// event rows
		var evs []string
		rows := c17Rows(c17render(html.NewIndividualEvents(doc, p, show, pm)))
		nrows := 0
		for ri, cells := range rows {
			if ri == 0 || len(cells) != 5 {
				continue
			}
			nrows++
			var coded []string
			for _, c := range cells[:4] {
				coded = append(coded, c17Atoms(c)...)
			}
			desc := "N"
			if m := c17AttrRe.FindStringSubmatch(cells[4]); m != nil {
				if j, ok := pageIdx[stdhtml.UnescapeString(m[1])]; ok {
					desc = "S" + strconv.Itoa(j)
				} else {
					desc = "S-"
				}
			} else if strings.Contains(cells[4], "Unknown") {
				desc = "U"
			}
			evs = append(evs, c17HexList(coded)+" "+desc)
		}
		// relations
		var parentFams, spouses, unknownFams []string
		for _, f := range p.Families() {
			if !f.Husband().IsIndividual(p) && !f.Wife().IsIndividual(p) {
				parentFams = append(parentFams, c17Opt(id(f.Husband().Individual()))+" "+c17Opt(id(f.Wife().Individual())))
			}
			if !f.HasChild(p) && !(f.Husband() != nil && f.Wife() != nil) {
				unknownFams = append(unknownFams, kids(f))
			}
		}
		for _, s := range p.Spouses() {
			e := c17Opt(id(s))
			if f := p.FamilyWithSpouse(s); f != nil {
				e += " 1 " + kids(f)
			} else {
				e += " 0"
			}
			spouses = append(spouses, e)
		}
		join := func(xs []string) string { return strings.TrimSpace(strconv.Itoa(len(xs)) + " " + strings.Join(xs, " ")) }
		b = append(b, bit(p.IsLiving()), c17sex(p), bit(hasName), hexs(name), hexs(dates),
			hexs(html.PageIndividual(doc, p, show, pm)), hexs(surname), c17HexList(cells),
			strconv.Itoa(int(idxLetter)), strconv.Itoa(int(listLetter)), hexs(indexName), hexs(p.Name().String()),
			c17HexList(card), c17HexList(alt), join(evs), encPlev(owned[i]), join(parentFams), join(spouses), join(unknownFams))
	}
	fams := doc.Families()
	b = append(b, strconv.Itoa(len(fams)))
	for _, f := range fams {
		date := "-"
		if n := gedcom.First(gedcom.NodesWithTagPath(f, gedcom.TagMarriage, gedcom.TagDate)); n != nil {
			date = n.Value()
		}
		b = append(b, c17Opt(id(f.Husband().Individual())), c17Opt(id(f.Wife().Individual())), hexs(date))
	}
	var ptrs []string
	for _, src := range doc.Sources() {
		ptrs = append(ptrs, src.Pointer())
	}
	b = append(b, encPlev(others), c17HexList(ptrs))
	// the page name of every person that gets a page, per visibility (document order)
	ranks = map[string]map[string]int{}
	for _, vis := range []html.LivingVisibility{html.LivingVisibilityShow, html.LivingVisibilityPlaceholder, html.LivingVisibilityHide} {
		vpm := html.NewPublisher(doc, &html.PublishShowOptions{ShowPlaces: true, LivingVisibility: vis}).Places()
		if !withPlaces {
			vpm = nil
		}
		m := map[string]int{}
		for i, p := range people {
			if n := html.PageIndividual(doc, p, vis, vpm); n != "#" {
				m[n] = i
			}
		}
		ranks[string(vis)] = m
	}
	return strings.Join(b, " "), pageIdx, ranks, nil
}

// c17SourcePages is set per document: the names of its source pages (html.PageSource).
func c17SourcePagesOf(doc *gedcom.Document) map[string]bool {
	m := map[string]bool{}
	for _, src := range doc.Sources() {
		m[html.PageSource(src)] = true
	}
	return m
}

// c17ModelledFile: the files whose skeleton the model predicts (not the source list, the source
// pages and the statistics).
func c17ModelledFile(name string, sourcePages map[string]bool) bool {
	switch name {
	case "sources.html", "statistics.html":
		return false
	}
	return !sourcePages[name]
}

// c17SiteSkeleton renders the real site in the wire format of `c17site`, files in the order the
// publisher sent them (individual pages, which come out of a Go map, sorted by name).
func c17SiteSkeleton(site *c17Site, rank map[string]int, sourcePages map[string]bool) string {
	// the order in which files reach the writer depends on the worker schedule: use the order of
	// sendFiles (list pages by letter, individual pages by person, places.html, place pages by key,
	// families.html, surnames.html)
	var listPages, indiv, placePages, tail []string
	for name := range site.Files {
		if !c17ModelledFile(name, sourcePages) {
			continue
		}
		_, isIndiv := rank[name]
		switch {
		case name == "places.html" || name == "families.html" || name == "surnames.html":
		case strings.HasPrefix(name, "individuals-"):
			listPages = append(listPages, name)
		case isIndiv:
			indiv = append(indiv, name)
		default:
			placePages = append(placePages, name)
		}
	}
	sort.Slice(listPages, func(i, j int) bool {
		si, sj := listPages[i] == "individuals-symbol.html", listPages[j] == "individuals-symbol.html"
		if si != sj {
			return si
		}
		return listPages[i] < listPages[j]
	})
	sort.SliceStable(indiv, func(i, j int) bool { return rank[indiv[i]] < rank[indiv[j]] })
	sort.Strings(placePages)
	all := append(listPages, indiv...)
	if _, ok := site.Files["places.html"]; ok {
		all = append(all, "places.html")
	}
	all = append(all, placePages...)
	for _, n := range []string{"families.html", "surnames.html"} {
		if _, ok := site.Files[n]; ok {
			tail = append(tail, n)
		}
	}
	var parts []string
	for _, name := range append(all, tail...) {
		var as []string
		for _, a := range c17Atoms(site.Files[name]) {
			as = append(as, string(a[0])+hexs(a[1:]))
		}
		parts = append(parts, hexs(name)+"="+strings.Join(as, ","))
	}
	// the model appends its agreement with the naming model of C19 (PublishNames.lean)
	return strings.Join(parts, " ") + " names=ok,ok"
}

// c17SpecialSites ties the page model on a few fixed documents whose names collide with the fixed
// pages, the source pages, each other and a place — the cases in which getUniqueKey hands out
// "-1", "-2", … (the generated documents use marker tokens that never collide).
func c17SpecialSites(c *Ctx, now int) {
	young := fmt.Sprintf("1 BIRT\n2 DATE 1 Jan %d\n", now-20)
	docs := []string{
		// a dead person called Places, a place called Statistics, a source @families@
		"0 @I1@ INDI\n1 NAME Places\n1 BIRT\n2 PLAC Statistics\n1 DEAT Y\n0 @I2@ INDI\n1 NAME Families\n" + young +
			"0 @families@ SOUR\n1 TITL T\n0 @F1@ FAM\n1 HUSB @I1@\n1 WIFE @I2@\n",
		// a living namesake before and after a dead person, a person named like a place
		"0 @I1@ INDI\n1 NAME Same /Name/\n" + young + "0 @I2@ INDI\n1 NAME Same /Name/\n1 DEAT Y\n1 BIRT\n2 PLAC Old Town\n" +
			"0 @I3@ INDI\n1 NAME Same /Name/\n" + young + "0 @I4@ INDI\n1 NAME Old /Town/\n1 DEAT Y\n0 @I5@ INDI\n1 NAME Same /Name/\n1 DEAT Y\n",
		// source keys that need escaping, a person whose key is a source key
		"0 @I1@ INDI\n1 NAME S1\n1 DEAT Y\n0 @I2@ INDI\n1 NAME Surnames\n1 DEAT Y\n1 BIRT\n2 PLAC S1\n0 @S1@ SOUR\n1 TITL A\n0 @places@ SOUR\n1 TITL B\n",
	}
	for _, text := range docs {
		gdoc, err := gedcom.NewDocumentFromString(text)
		if err != nil {
			continue
		}
		for _, gm := range []int{63, 61} { // all groups; without places
			var groups [6]bool
			ob := ""
			for k := 0; k < 6; k++ {
				groups[k] = gm&(1<<k) != 0
				ob += bit(groups[k])
			}
			sites := map[string]*c17Site{}
			failed := false
			for _, vis := range []string{"show", "placeholder", "hide"} {
				site, e := c17Publish(c17Job{Gedcom: text, Vis: vis, Groups: groups, Jobs: 1})
				c.Eval()
				if e != "" {
					c.Oracle("", "publish fails: "+vis, map[string]interface{}{"gedcom": text}, e, "a site")
					failed = true
					break
				}
				sites[vis] = site
			}
			if failed {
				continue
			}
			abs, _, ranks, err := c17Abstract(gdoc, sites["show"], groups[1])
			if err != nil {
				c.Oracle("", "the page abstraction could not be read", map[string]interface{}{"gedcom": text}, err.Error(), "an abstraction")
				continue
			}
			for _, vis := range []string{"show", "placeholder", "hide"} {
				c.Tie(fmt.Sprintf("c17site %s %s %s", vis, ob, abs), c17SiteSkeleton(sites[vis], ranks[vis], c17SourcePagesOf(gdoc)))
				c.Count("site-skeleton/colliding-names/" + vis)
			}
			c17StatsCheck(c, gdoc, abs, ob, groups, sites, -1, -1, func(m map[string]interface{}) map[string]interface{} {
				if m == nil {
					m = map[string]interface{}{}
				}
				m["gedcom"] = text
				return m
			})
		}
	}
}
