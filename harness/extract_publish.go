package main

// Facts for C19 (Gedcom/Generated/Publish.lean), regenerated from the tree under test:
//   - the byte class kept in file keys and what a run of other characters becomes (behavioural probe
//     of alnumOrDashRegexp through Publisher.Places()), the non-ASCII characters strings.ToLower
//     folds onto a kept ASCII byte;
//   - the per-byte encoding PageSource applies to a source pointer (behavioural probe, 256 bytes);
//   - the fixed page names (Page* functions);
//   - behavioural flags: NewPublisher keys the individuals with the populated places map; the
//     surname link goes to the page of the surname's index letter;
//   - go/ast flags of the error path of Publisher.Publish / util.WorkerPool / Publisher.Files.

import (
	"bytes"
	"fmt"
	"go/ast"
	"go/parser"
	"go/token"
	"os"
	"path/filepath"
	"sort"
	"strings"
	"time"
	"unicode"

	"github.com/elliotchance/gedcom/v39"
	"github.com/elliotchance/gedcom/v39/html"
)

var c19AllOpts = &html.PublishShowOptions{ShowIndividuals: true, ShowPlaces: true, ShowFamilies: true,
	ShowSurnames: true, ShowSources: true, ShowStatistics: true, LivingVisibility: html.LivingVisibilityShow}

func c19RepoDir() string {
	if r := os.Getenv("VERIF_REPO"); r != "" {
		return r
	}
	return "/repo"
}

func c19LeanBytes(s string) string {
	parts := make([]string, len(s))
	for i := 0; i < len(s); i++ {
		parts[i] = fmt.Sprint(s[i])
	}
	return "[" + strings.Join(parts, ", ") + "]"
}

func c19LeanComment(s string) string {
	var b strings.Builder
	for _, r := range s {
		if r < 32 || r == '`' || r > 126 {
			b.WriteByte('?')
		} else {
			b.WriteRune(r)
		}
	}
	return strings.ReplaceAll(b.String(), "-/", "- /")
}

func c19LeanBool(b bool) string {
	if b {
		return "true"
	}
	return "false"
}

// c19PlaceKey is the key Publisher.Places() gives a single place value.
func c19PlaceKey(value string) (key string, ok bool) {
	defer func() {
		if recover() != nil {
			ok = false
		}
	}()
	doc := gedcom.NewDocument()
	i := doc.AddIndividual("P1")
	b := gedcom.NewNode(gedcom.TagBirth, "", "")
	b.AddNode(gedcom.NewNode(gedcom.TagPlace, value, ""))
	i.AddNode(b)
	places := html.NewPublisher(doc, c19AllOpts).Places()
	if len(places) != 1 {
		return "", false
	}
	for k := range places {
		return k, true
	}
	return "", false
}

// c19SourcePage is PageSource for an arbitrary pointer ("" , false when it panics).
func c19SourcePage(ptr string) (name string, ok bool) {
	defer func() {
		if recover() != nil {
			ok = false
		}
	}()
	n := gedcom.NewNode(gedcom.TagSource, "", ptr)
	if s, isSource := n.(*gedcom.SourceNode); isSource {
		return html.PageSource(s), true
	}
	return "", false
}

func c19ParseFunc(rel, name string) *ast.FuncDecl {
	fset := token.NewFileSet()
	f, err := parser.ParseFile(fset, filepath.Join(c19RepoDir(), rel), nil, 0)
	if err != nil {
		return nil
	}
	for _, d := range f.Decls {
		if fd, ok := d.(*ast.FuncDecl); ok && fd.Name.Name == name && fd.Body != nil {
			return fd
		}
	}
	return nil
}

// c19PublishedNames publishes src with every page group (nothing is rendered) and returns the
// sorted file names.
func c19PublishedNames(src string) (names []string, ok bool) {
	defer func() {
		if recover() != nil {
			ok = false
		}
	}()
	doc, err := gedcom.NewDocumentFromString(src)
	if err != nil {
		return nil, false
	}
	files := html.NewPublisher(doc, c19AllOpts).Files(64)
	limit := time.After(10 * time.Second) // a producer that never closes the channel must not hang the extraction
	for {
		select {
		case f, more := <-files:
			if !more {
				sort.Strings(names)
				return names, true
			}
			names = append(names, f.Name)
		case <-limit:
			return nil, false
		}
	}
}

func init() {
	extractors["Publish"] = func() string {
		var b strings.Builder
		b.WriteString("-- Source: html.Publisher.Places() on single-place documents (kept byte class), the Go\n")
		b.WriteString("-- runtime's unicode.ToLower (folds onto ASCII), html.PageSource on one-byte pointers,\n")
		b.WriteString("-- html.Page* (fixed names), behavioural probes of NewPublisher / SurnameLink, go/ast of\n")
		b.WriteString("-- html/publish.go and util/worker_pool.go (error path of Publish).\n")
		b.WriteString("import Gedcom.Model.Types\nnamespace Gedcom.Generated\nopen Gedcom\n\n")

		// ---- kept bytes, after lower-casing
		kept := map[byte]bool{}
		dash := ""
		inconclusive := 0
		for c := 0; c < 128; c++ {
			if c == '\n' || c == '\r' {
				continue
			}
			key, ok := c19PlaceKey("a" + string([]byte{byte(c)}) + "a")
			l := byte(c)
			if l >= 'A' && l <= 'Z' {
				l += 32
			}
			switch {
			case !ok:
				inconclusive++
			case key == "a"+string([]byte{l})+"a":
				kept[l] = true
			case c == ' ' || c == ',':
				// prettyPlaceName rewrites these before the key is made: "a a" / "a, a"
				if len(key) >= 3 {
					dash = key[1 : len(key)-1]
				}
			case len(key) >= 2 && key[0] == 'a' && key[len(key)-1] == 'a':
				dash = key[1 : len(key)-1]
			default:
				inconclusive++
			}
		}
		var ks []int
		for k := range kept {
			ks = append(ks, int(k))
		}
		sort.Ints(ks)
		var parts []string
		for _, k := range ks {
			parts = append(parts, fmt.Sprint(k))
		}
		fmt.Fprintf(&b, "/-- the ASCII bytes (after lower-casing) that survive `alnumOrDashRegexp` in a file key; %d probes inconclusive -/\n", inconclusive)
		fmt.Fprintf(&b, "def keyKeep : List UInt8 := [%s]\n\n", strings.Join(parts, ", "))
		fmt.Fprintf(&b, "/-- what a run of other characters becomes -/\ndef keyDash : Str := %s\n\n", c19LeanBytes(dash))

		// ---- non-ASCII runes whose lower case is a kept ASCII byte (checked against the real key)
		var folds []string
		for r := rune(0x80); r <= unicode.MaxRune; r++ {
			if r >= 0xD800 && r <= 0xDFFF {
				continue
			}
			l := unicode.ToLower(r)
			if l < 0x80 && kept[byte(l)] {
				key, ok := c19PlaceKey("a" + string(r) + "a")
				note := ""
				if !ok || key != "a"+string(l)+"a" {
					note = " /- NOT CONFIRMED by Places() -/"
				}
				folds = append(folds, fmt.Sprintf("(%s, %d)%s", c19LeanBytes(string(r)), l, note))
			}
		}
		fmt.Fprintf(&b, "/-- UTF-8 sequences of the non-ASCII characters that `strings.ToLower` maps to a kept ASCII byte -/\n")
		fmt.Fprintf(&b, "def lowerFold : List (Str × UInt8) := [%s]\n\n", strings.Join(folds, ", "))

		// ---- fixed page names
		str := func(name, doc, v string) {
			fmt.Fprintf(&b, "/-- %s: `%s` -/\ndef %s : Str := %s\n\n", doc, c19LeanComment(v), name, c19LeanBytes(v))
		}
		str("pagePlacesName", "html.PagePlaces()", html.PagePlaces())
		str("pageFamiliesName", "html.PageFamilies()", html.PageFamilies())
		str("pageSurnamesName", "html.PageSurnames()", html.PageSurnames())
		str("pageSourcesName", "html.PageSources()", html.PageSources())
		str("pageStatisticsName", "html.PageStatistics()", html.PageStatistics())
		pa, pq := html.PageIndividuals('a'), html.PageIndividuals('q')
		ia := 0 // the position of the letter: first difference between the pages of 'a' and 'q'
		for ia < len(pa) && ia < len(pq) && pa[ia] == pq[ia] {
			ia++
		}
		suffix := ""
		if ia < len(pa) {
			suffix = pa[ia+1:]
		}
		str("pageIndividualsPrefix", "html.PageIndividuals('a') before the letter", pa[:ia])
		str("pageIndividualsSuffix", "html.PageIndividuals('a') after the letter", suffix)
		// the symbol letter: the byte for which PageIndividuals does not follow the pattern
		sym := byte('#')
		for c := 33; c < 127; c++ {
			if html.PageIndividuals(rune(c)) != pa[:ia]+string([]byte{byte(c)})+suffix {
				sym = byte(c)
				break
			}
		}
		fmt.Fprintf(&b, "/-- the letter under which names that do not start with a..z are listed -/\ndef symbolLetter : UInt8 := %d\n\n", sym)
		str("pageIndividualsSymbol", "html.PageIndividuals(symbolLetter)", html.PageIndividuals(rune(sym)))
		doc := gedcom.NewDocument()
		ind := doc.AddIndividual("P1")
		ind.AddName("zz")
		pi := html.PageIndividual(doc, ind, html.LivingVisibilityShow, nil)
		str("pageKeySuffix", "html.PageIndividual after the key", strings.TrimPrefix(pi, "zz"))

		// ---- source page: suffix and per-byte encoding of the pointer
		srcSuffix := ""
		if e, ok := c19SourcePage(""); ok {
			srcSuffix = e
		}
		str("pageSourceSuffix", "html.PageSource of the empty pointer", srcSuffix)
		enc := make([]string, 256)
		failed := 0
		var rows []string
		for c := 0; c < 256; c++ {
			p, ok := c19SourcePage(string([]byte{byte(c)}))
			if !ok || !strings.HasSuffix(p, srcSuffix) {
				failed++
				enc[c] = string([]byte{byte(c)})
			} else {
				enc[c] = strings.TrimSuffix(p, srcSuffix)
			}
			rows = append(rows, c19LeanBytes(enc[c]))
		}
		bytewise := failed == 0
		for _, p := range []string{"S1", "S/../x", "../x", "a/b", "Places", "é", "a_b", "x\x00y", "@@", "S 1.html", "\xff\xfe", "AbC-9"} {
			want := ""
			for i := 0; i < len(p); i++ {
				want += enc[p[i]]
			}
			if got, ok := c19SourcePage(p); !ok || got != want+srcSuffix {
				bytewise = false
			}
		}
		fmt.Fprintf(&b, "/-- what html.PageSource writes for each byte of the pointer (index = byte); %d probes failed -/\n", failed)
		b.WriteString("def sourceKeyByte : List Str := [\n")
		for i := 0; i < 256; i += 8 {
			b.WriteString("  " + strings.Join(rows[i:i+8], ", "))
			if i+8 < 256 {
				b.WriteString(",")
			}
			b.WriteString("\n")
		}
		b.WriteString("]\n\n")
		fmt.Fprintf(&b, "/-- html.PageSource is the concatenation of the per-byte encodings plus the suffix (checked on multi-byte pointers) -/\ndef sourceKeyBytewise : Bool := %s\n\n", c19LeanBool(bytewise))

		// a pointer that would name a fixed page: is its first letter written as an escape?
		escapes := true
		fixedStems := []string{strings.TrimSuffix(html.PagePlaces(), srcSuffix), strings.TrimSuffix(html.PageFamilies(), srcSuffix),
			strings.TrimSuffix(html.PageSurnames(), srcSuffix), strings.TrimSuffix(html.PageSources(), srcSuffix),
			strings.TrimSuffix(html.PageStatistics(), srcSuffix), strings.TrimSuffix(html.PageIndividuals(rune(sym)), srcSuffix),
			strings.TrimSuffix(html.PageIndividuals('a'), srcSuffix), strings.TrimSuffix(html.PageIndividuals('z'), srcSuffix)}
		for _, stem := range fixedStems {
			got, ok := c19SourcePage(stem)
			if !ok || stem == "" || got != fmt.Sprintf("_%02x%s%s", stem[0], stem[1:], srcSuffix) {
				escapes = false
			}
		}
		fmt.Fprintf(&b, "/-- html.PageSource escapes the first letter of a pointer that would name a fixed page (places, individuals-a, …) -/\ndef sourceKeyEscapesFixed : Bool := %s\n\n", c19LeanBool(escapes))

		// ---- behavioural flags
		// a living and a dead Ann Smith, placeholder mode: does the hidden one take the name?
		skip := false
		func() {
			defer func() { recover() }()
			doc, err := gedcom.NewDocumentFromString("0 @I1@ INDI\n1 NAME Ann /Smith/\n0 @I2@ INDI\n1 NAME Ann /Smith/\n1 DEAT Y\n")
			if err != nil || len(doc.Individuals()) != 2 || !doc.Individuals()[0].IsLiving() {
				return
			}
			skip = html.PageIndividual(doc, doc.Individuals()[1], html.LivingVisibilityPlaceholder, nil) ==
				html.PageIndividual(doc, doc.Individuals()[0], html.LivingVisibilityShow, nil)
		}()
		fmt.Fprintf(&b, "/-- only the individuals that get a page in the chosen visibility are given a page name -/\ndef keysSkipHidden : Bool := %s\n\n", c19LeanBool(skip))
		// two records that share a pointer: does each get its own page, whatever order the map has?
		identity := true
		for try := 0; try < 24 && identity; try++ {
			func() {
				defer func() {
					if recover() != nil {
						identity = false
					}
				}()
				doc, err := gedcom.NewDocumentFromString("0 @I1@ INDI\n1 NAME Ann /Smith/\n1 DEAT Y\n0 @I1@ INDI\n1 NAME Bob /Jones/\n1 DEAT Y\n0 @I1@ INDI\n1 NAME Cy /Town/\n1 DEAT Y\n")
				if err != nil || len(doc.Individuals()) != 3 {
					identity = false
					return
				}
				for i, want := range []string{"ann-smith.html", "bob-jones.html", "cy-town.html"} {
					if html.PageIndividual(doc, doc.Individuals()[i], html.LivingVisibilityShow, nil) != want {
						identity = false
					}
				}
			}()
		}
		fmt.Fprintf(&b, "/-- PageIndividual finds the record itself: records that share a pointer keep their own page names -/\ndef pageIndividualByIdentity : Bool := %s\n\n", c19LeanBool(identity))
		// a person and a place called like fixed pages, a person and a place called like a source
		avoid := false
		if names, ok := c19PublishedNames("0 @I1@ INDI\n1 NAME Places\n1 BIRT\n2 PLAC Statistics\n1 DEAT Y\n2 PLAC s1\n0 @I2@ INDI\n1 NAME s2\n1 DEAT Y\n" +
			"0 @I3@ INDI\n1 NAME individuals /a/\n1 DEAT Y\n0 @s1@ SOUR\n0 @s2@ SOUR\n"); ok {
			avoid = true
			seen := map[string]bool{}
			for _, n := range names {
				if seen[n] {
					avoid = false
				}
				seen[n] = true
			}
		}
		fmt.Fprintf(&b, "/-- individuals and places keep off the fixed page names and the keys of the source pages -/\ndef keysAvoidReserved : Bool := %s\n\n", c19LeanBool(avoid))
		// a person called Oldtown born in Oldtown: is the individual page kept apart from the place page?
		names, ok := c19PublishedNames("0 @I1@ INDI\n1 NAME Oldtown\n1 BIRT\n2 PLAC Oldtown\n1 DEAT Y\n")
		keyed := false
		if ok {
			count := map[string]int{}
			for _, n := range names {
				count[n]++
			}
			keyed = count["oldtown.html"] == 1 && count["oldtown-1.html"] == 1
		}
		fmt.Fprintf(&b, "/-- NewPublisher gives the individuals their page names with the place keys known (when places are published) -/\ndef individualsKeyedWithPlaces : Bool := %s\n\n", c19LeanBool(keyed))
		linkOK := func(surname, page string) (ok bool) {
			defer func() {
				if recover() != nil {
					ok = false
				}
			}()
			var buf bytes.Buffer
			html.NewSurnameLink(surname).WriteHTMLTo(&buf)
			return strings.Contains(buf.String(), `href="`+page+`#`)
		}
		symPage := html.PageIndividuals(rune(sym))
		surnameLetter := linkOK("1st", symPage) && linkOK("Éclair", symPage) && linkOK("#x", symPage) &&
			linkOK("Smith", html.PageIndividuals('s')) && linkOK("zed", html.PageIndividuals('z')) && linkOK("Kelvin", html.PageIndividuals('k'))
		fmt.Fprintf(&b, "/-- SurnameLink points at the individual list page of the surname's index letter -/\ndef surnameLinkUsesIndexLetter : Bool := %s\n\n", c19LeanBool(surnameLetter))

		// ---- error path flags (go/ast)
		facts := func(rel, fn string, f func(fd *ast.FuncDecl) bool) bool {
			fd := c19ParseFunc(rel, fn)
			return fd != nil && f(fd)
		}
		inIfInLoop := func(fd *ast.FuncDecl, pred func(ast.Stmt) bool) bool {
			hit := false
			ast.Inspect(fd.Body, func(n ast.Node) bool {
				rs, ok := n.(*ast.RangeStmt)
				if !ok {
					return true
				}
				ast.Inspect(rs.Body, func(m ast.Node) bool {
					is, ok := m.(*ast.IfStmt)
					if !ok {
						return true
					}
					for _, st := range is.Body.List {
						if pred(st) {
							hit = true
						}
					}
					return true
				})
				return true
			})
			return hit
		}
		records := facts("html/publish.go", "Publish", func(fd *ast.FuncDecl) bool {
			res := map[string]bool{}
			if fd.Type.Results != nil {
				for _, f := range fd.Type.Results.List {
					for _, n := range f.Names {
						res[n.Name] = true
					}
				}
			}
			return inIfInLoop(fd, func(st ast.Stmt) bool {
				as, ok := st.(*ast.AssignStmt)
				if !ok || as.Tok != token.ASSIGN {
					return false
				}
				for _, l := range as.Lhs {
					if id, ok := l.(*ast.Ident); ok && res[id.Name] {
						return true
					}
				}
				return false
			})
		})
		breaks := facts("html/publish.go", "Publish", func(fd *ast.FuncDecl) bool {
			return inIfInLoop(fd, func(st ast.Stmt) bool {
				switch s := st.(type) {
				case *ast.BranchStmt:
					return s.Tok == token.BREAK
				case *ast.ReturnStmt:
					return true
				}
				return false
			})
		})
		hasCall := func(fd *ast.FuncDecl, pred func(*ast.CallExpr) bool) bool {
			hit := false
			ast.Inspect(fd.Body, func(n ast.Node) bool {
				if c, ok := n.(*ast.CallExpr); ok && pred(c) {
					hit = true
				}
				return true
			})
			return hit
		}
		waits := facts("util/worker_pool.go", "WorkerPool", func(fd *ast.FuncDecl) bool {
			return hasCall(fd, func(c *ast.CallExpr) bool {
				se, ok := c.Fun.(*ast.SelectorExpr)
				return ok && se.Sel.Name == "Wait"
			}) && hasCall(fd, func(c *ast.CallExpr) bool {
				se, ok := c.Fun.(*ast.SelectorExpr)
				return ok && se.Sel.Name == "Done"
			})
		})
		closes := facts("html/publish.go", "Files", func(fd *ast.FuncDecl) bool {
			return hasCall(fd, func(c *ast.CallExpr) bool {
				id, ok := c.Fun.(*ast.Ident)
				return ok && id.Name == "close"
			})
		})
		fmt.Fprintf(&b, "/-- Publish: the worker assigns the writer's error to the named result inside `if fileErr != nil` -/\ndef publishRecordsError : Bool := %s\n\n", c19LeanBool(records))
		fmt.Fprintf(&b, "/-- Publish: the worker leaves its loop (`break`/`return`) inside `if fileErr != nil` -/\ndef publishBreaksOnError : Bool := %s\n\n", c19LeanBool(breaks))
		fmt.Fprintf(&b, "/-- util.WorkerPool: every goroutine calls Done and the pool calls Wait -/\ndef workerPoolWaits : Bool := %s\n\n", c19LeanBool(waits))
		fmt.Fprintf(&b, "/-- Publisher.Files: the producer goroutine closes the channel after sendFiles -/\ndef filesClosesChannel : Bool := %s\n\n", c19LeanBool(closes))
		b.WriteString("end Gedcom.Generated\n")
		return b.String()
	}
}
