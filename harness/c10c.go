package main

// C10, composition tie: the matching comes from the real IndividualNodes.Compare on the very
// individuals that are merged, the driver computes the matching of C11's model from the persons and the
// similarity scores (handed over exactly as the C11 / C12 tie does: pointer, unique identifiers, exact
// values of the float64 scores with and without the forced pointer) and feeds it into the merge model
// (`mergecomposed` request, MergeD.mergeComposed, theorem accounting_end_to_end). Disagreement — of
// the two matchings, of the matching the merge actually used (read off the markers), or of the merged
// documents — is a correspondence failure.

import (
	"fmt"
	"sort"
	"strings"

	"github.com/elliotchance/gedcom/v39"
)

// c10Options is the options value a merge "via" runs with (the query function builds the default one).
func c10Options(via string, minSim float64) *gedcom.IndividualNodesCompareOptions {
	options := gedcom.NewIndividualNodesCompareOptions()
	if via == "query" {
		return options
	}
	if i := strings.Index(via, "-jobs="); i >= 0 {
		fmt.Sscanf(via[i+len("-jobs="):], "%d", &options.Jobs)
	}
	if minSim < 0 { // "always trust the pointer"
		options.SimilarityOptions.PreferPointerAbove = 0
	}
	if minSim > 0 {
		options.SimilarityOptions.MinimumWeightedSimilarity = minSim
		options.SimilarityOptions.MinimumSimilarity = minSim
		options.SimilarityOptions.PreferPointerAbove = minSim
	}
	return options
}

type c10Composed struct {
	head  string // "mergecomposed L R prefer minW T F hint"
	pairs string // Compare's result, canonical, positions among the INDI records
}

const c10ComposedMaxPairs = 1600

// c10Compose runs, after the merge under test has returned (so that it warms no cache for it) and on
// the very documents that were merged (an individual that an earlier merge passed through by reference
// still looks its family up in the document it came from: a fresh decode would score it differently),
// the real Compare with the options of the merge and collects what C11's model needs.
func c10Compose(c *Ctx, ld, rd *gedcom.Document, via string, minSim float64) *c10Composed {
	fl, fr := ld, rd
	li, ri := fl.Individuals(), fr.Individuals()
	if len(li)*len(ri) > c10ComposedMaxPairs {
		c.Count("composed:skipped (more than 1600 pairs)")
		return nil
	}
	opts := c10Options(via, minSim)
	so := opts.SimilarityOptions
	persons := func(xs gedcom.IndividualNodes) string {
		if len(xs) == 0 {
			return "_"
		}
		var parts []string
		for i, x := range xs {
			var us []string
			for _, u := range c11uids(x) {
				us = append(us, hexs(u))
			}
			u := "_"
			if len(us) > 0 {
				u = strings.Join(us, ",")
			}
			parts = append(parts, fmt.Sprintf("%d:%s:%s", i, hexs(x.Pointer()), u))
		}
		return strings.Join(parts, ";")
	}
	var tT, tF []string
	for i, a := range li {
		for j, b := range ri {
			if f := a.SurroundingSimilarity(b, so, false).WeightedSimilarity(); f != 0 {
				tF = append(tF, fmt.Sprintf("%d,%d,%s", i, j, c11exact(f)))
			}
			if a.Pointer() == b.Pointer() {
				if t := a.SurroundingSimilarity(b, so, true).WeightedSimilarity(); t != 0 {
					tT = append(tT, fmt.Sprintf("%d,%d,%s", i, j, c11exact(t)))
				}
			}
		}
	}
	tab := func(xs []string) string {
		if len(xs) == 0 {
			return "_"
		}
		return strings.Join(xs, ";")
	}
	posL, posR := map[*gedcom.IndividualNode]int{}, map[*gedcom.IndividualNode]int{}
	for i, x := range li {
		posL[x] = i
	}
	for j, x := range ri {
		posR[x] = j
	}
	res := li.Compare(ri, opts)
	var ps []string
	for _, cmp := range res {
		a, b := "_", "_"
		if cmp.Left != nil {
			a = fmt.Sprint(posL[cmp.Left])
		}
		if cmp.Right != nil {
			b = fmt.Sprint(posR[cmp.Right])
		}
		ps = append(ps, a+"-"+b)
	}
	sort.Strings(ps)
	hint := "_"
	if len(ps) > 0 {
		hint = strings.Join(ps, ",")
	}
	return &c10Composed{
		head: fmt.Sprintf("mergecomposed %s %s %s %s %s %s %s", persons(li), persons(ri), c11exact(so.PreferPointerAbove),
			c11exact(so.MinimumWeightedSimilarity), tab(tT), tab(tF), hint),
		pairs: strings.Join(ps, " "),
	}
}

// c10ComposedObs is the implementation's side: Compare's pairs, whether the merge used exactly them
// (the matching read off the markers of its output), that everybody is accounted for (the accounting
// oracle passed before this is called), and the merged document: individuals as a sorted set of
// records (their order is the order of arrival of the comparisons), other records in order.
func c10ComposedObs(cp *c10Composed, used string, out *gedcom.Document) string {
	var indis []string
	var others gedcom.Nodes
	for _, n := range out.Nodes() {
		if n.Tag().Tag() == "INDI" {
			indis = append(indis, encForest(abstractNodes(gedcom.Nodes{n})))
		} else {
			others = append(others, n)
		}
	}
	sort.Strings(indis)
	u := "1"
	if used != cp.pairs {
		u = "0:" + strings.ReplaceAll(used, " ", ",")
	}
	return fmt.Sprintf("%s used=%s acct=1 doc=ok I: %s O: %s", cp.pairs, u, strings.Join(indis, " ; "), encForest(abstractNodes(others)))
}

var c10note func(string)

// c10cmp: every request but `mergecomposed` is compared as text. For `mergecomposed` the model answers
// with one matching per resolution of ambiguous unique-identifier choices and with its guards:
// Compare's matching must be one of the model's, the merge must have used it, the theorem's conclusion
// (acct) must hold where its guards do, and the documents must agree. Where candidate scores tie at
// or above the threshold (or a unique-identifier choice is ambiguous) two runs of Compare may differ
// (schedule, map order): such a disagreement is counted as inconclusive, not reported.
func c10cmp(req, impl, model string) bool {
	if !strings.HasPrefix(req, "mergecomposed ") {
		return impl == model
	}
	note := func(s string) {
		if c10note != nil {
			c10note(s)
		}
	}
	it, id := strings.Index(model, "ties="), strings.Index(model, " doc=")
	iu, idI := strings.Index(impl, "used="), strings.Index(impl, " doc=")
	if it < 0 || id < 0 || iu < 0 || idI < 0 {
		return false
	}
	flags := model[it:id]
	implPairs := strings.TrimSpace(impl[:iu])
	agree := false
	for _, ans := range strings.Split(model[:it], " | ") {
		if strings.TrimSpace(ans) == implPairs {
			agree = true
		}
	}
	used := strings.Contains(impl[iu:idI], "used=1")
	loose := strings.Contains(flags, "ties=1") || strings.Contains(flags, "amb=1")
	if !agree || !used {
		if loose {
			note("composed:inconclusive (score ties or ambiguous identifiers: two runs of Compare may differ)")
			return true
		}
		return false
	}
	if strings.Contains(flags, "guards=1") {
		note("composed:guards of accounting_end_to_end hold")
		if !strings.Contains(flags, "acct=1") {
			return false
		}
	} else {
		note("composed:outside the guards of accounting_end_to_end (compared all the same)")
	}
	if !strings.Contains(flags, "acct=1") {
		return false
	}
	if impl[idI:] != model[id:] {
		if loose && strings.Contains(model[:it], " | ") {
			note("composed:inconclusive (ambiguous identifiers: document of another resolution)")
			return true
		}
		return false
	}
	note("composed:matching and merged document agree")
	return true
}

// ---- role lines outside FAM records (Props/C10Roles.lean) -------------------------------------------
//
// output_redecodes needs every HUSB / WIFE / CHIL line of the inputs below a FAM record of its own
// (recordsBelowFam). roles_counterexample shows the condition cannot be dropped, output_redecodes_iff
// says exactly when the merged document decodes again: when `rolesOKF false` holds of its records in
// the order the merge emits them — the `legal=` bit of the `mergedocs` answer. This stream leaves the
// property's domain on purpose (documents the decoder accepts in which a role line sits inside an INDI
// or NOTE record after some FAM record): the real merge, encoder and decoder are run and the outcome
// (does the merged text decode to itself) is compared with that bit; inside the domain the direct
// oracle still demands a document that decodes again.

func c10BelowFam(ns gedcom.Nodes) bool {
	var walk func(n gedcom.Node, above bool) bool
	walk = func(n gedcom.Node, above bool) bool {
		t := n.Tag().Tag()
		if (t == "HUSB" || t == "WIFE" || t == "CHIL") && !above {
			return false
		}
		for _, k := range n.Nodes() {
			if !walk(k, above || t == "FAM") {
				return false
			}
		}
		return true
	}
	for _, n := range ns {
		if !walk(n, false) {
			return false
		}
	}
	return true
}

func c10RolesCase(c *Ctx, lt, rt, shape, via string) {
	input := map[string]interface{}{"left": lt, "right": rt, "shape": shape, "via": via}
	ld, err1 := gedcom.NewDocumentFromString(lt)
	rd, err2 := gedcom.NewDocumentFromString(rt)
	if err1 != nil || err2 != nil {
		c.Count("roles:input rejected by the decoder (role line before any FAM)")
		return
	}
	c.Eval()
	lForest, rForest := encForest(abstractNodes(ld.Nodes())), encForest(abstractNodes(rd.Nodes()))
	guard := c10BelowFam(ld.Nodes()) && c10BelowFam(rd.Nodes())
	pos := func(doc *gedcom.Document) map[string]int {
		m := map[string]int{}
		n := 0
		for _, rec := range doc.Nodes() {
			if rec.Tag().Tag() != "INDI" {
				continue
			}
			for _, k := range rec.Nodes() {
				if k.Tag().Tag() == "_MARK" {
					m[k.Value()] = n
				}
			}
			n++
		}
		return m
	}
	lp, rp := pos(ld), pos(rd)
	out, err := c10Merge(ld, rd, via, 0)
	obs := ""
	var req strings.Builder
	if err != nil {
		// the model has the same outcomes; the matching cannot be read off a document that does not exist:
		// Compare on the same individuals supplies it (sorted: the outcome does not depend on the order)
		obs = "error"
		if strings.HasPrefix(err.Error(), "panic:") {
			obs = "panic"
		}
		c.Count("roles:merge " + obs)
		c.Oracle("", "MergeDocumentsAndIndividuals fails on two documents the decoder accepts (role lines outside FAM records)", input, err.Error(), "a merged document")
		return
	}
	var ms []string
	for _, rec := range out.Nodes() {
		if rec.Tag().Tag() != "INDI" {
			continue
		}
		a, b := -1, -1
		// an unmatched individual is passed through by reference
		for i, x := range ld.Individuals() {
			if gedcom.Node(x) == rec {
				a = i
			}
		}
		for j, x := range rd.Individuals() {
			if gedcom.Node(x) == rec {
				b = j
			}
		}
		for _, k := range rec.Nodes() {
			if k.Tag().Tag() == "_MARK" {
				if i, ok := lp[k.Value()]; ok {
					a = i
				} else if j, ok := rp[k.Value()]; ok {
					b = j
				}
			}
		}
		switch {
		case a >= 0 && b >= 0:
			ms = append(ms, fmt.Sprintf("B %d %d", a, b))
		case a >= 0:
			ms = append(ms, fmt.Sprintf("L %d", a))
		case b >= 0:
			ms = append(ms, fmt.Sprintf("R %d", b))
		default:
			c.Oracle("", "an output individual comes from nowhere", input, rec.String(), "every output individual stems from an input individual")
			return
		}
	}
	text := out.String()
	re, rerr := gedcom.NewDocumentFromString(text)
	redecodes := rerr == nil && re.String() == text
	fmt.Fprintf(&req, "mergedocs %d", len(ms))
	for _, m := range ms {
		req.WriteString(" " + m)
	}
	req.WriteString(" " + lForest + " " + rForest)
	obs = "ok legal=" + bit(redecodes) + " inputs=" + bit(guard) + " " + encForest(abstractNodes(out.Nodes()))
	c.Tie(req.String(), obs)
	c.Count("roles:shape=" + shape)
	c.Count(fmt.Sprintf("roles:inputs-below-fam=%v redecodes=%v", guard, redecodes))
	if guard && !redecodes {
		c.Oracle("", "the merged document does not decode again", input, fmt.Sprint(rerr), "decodes")
	}
	c.Nontrivial(fmt.Sprintf("roles|%s|%v|%v|%d", shape, guard, redecodes, len(ms)))
}

func c10RolesDoc(r *Rand, side string, n int, famFirst bool, strays []string) string {
	var sb strings.Builder
	fam := "0 @F1@ FAM\n1 HUSB @I0@\n"
	if n > 1 {
		fam += "1 CHIL @I1@\n"
	}
	if famFirst {
		sb.WriteString(fam)
	}
	for k := 0; k < n; k++ {
		fmt.Fprintf(&sb, "0 @I%d@ INDI\n1 NAME Person%d /Family%d/\n1 BIRT\n2 DATE %d Jan %d\n1 _MARK %s%d\n", k, k, k, k+1, 1850+7*k, side, k)
		for _, s := range strays {
			if strings.HasPrefix(s, fmt.Sprintf("%d:", k)) {
				sb.WriteString(s[strings.Index(s, ":")+1:])
			}
		}
	}
	for _, s := range strays {
		if strings.HasPrefix(s, "top:") {
			sb.WriteString(s[4:])
		}
	}
	if !famFirst {
		sb.WriteString(fam)
	}
	return sb.String()
}

func c10Roles(c *Ctx) {
	// the pinned witness of roles_counterexample, through the library and through q
	for _, via := range []string{"library", "query"} {
		c10RolesCase(c, "0 @F1@ FAM\n0 @I1@ INDI\n1 CHIL @I2@\n", "", "witness", via)
	}
	r := c.R
	kinds := []string{"1 CHIL @I0@\n", "1 ASSO @I0@\n2 HUSB @I0@\n", "1 FAM\n2 WIFE @I0@\n", "1 WIFE @I1@\n2 NOTE x\n"}
	n := c.N(60, 600)
	for i := 0; i < n; i++ {
		mk := func(side string) (string, string) {
			np := 1 + r.Intn(3)
			var strays []string
			shape := "none"
			switch r.Intn(5) {
			case 0:
			case 1, 2:
				k := r.Intn(len(kinds))
				strays = append(strays, fmt.Sprintf("%d:%s", r.Intn(np), kinds[k]))
				shape = []string{"indi-chil", "indi-nested-husb", "indi-below-nested-fam", "indi-wife"}[k]
			case 3:
				strays = append(strays, "top:0 @N1@ NOTE a note\n1 CHIL @I0@\n")
				shape = "note-record-chil"
			case 4:
				strays = append(strays, fmt.Sprintf("%d:%s", r.Intn(np), kinds[r.Intn(len(kinds))]), "top:0 @N1@ NOTE a note\n1 HUSB @I0@\n")
				shape = "indi+note"
			}
			return c10RolesDoc(r, side, np, !r.Chance(1, 8), strays), shape
		}
		lt, ls := mk("L")
		rt, rs := mk("R")
		if r.Chance(1, 6) {
			rt, rs = "", "empty"
		}
		via := "library"
		if i%3 == 1 {
			via = "query"
		}
		c10RolesCase(c, lt, rt, ls+"/"+rs, via)
	}
}
