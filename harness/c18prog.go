package main

// C18, the tie of the component programs (Generated/Pages.lean): the REAL component of package html
// is built through its public constructor on a random (hostile) input, the value of every hole of
// its program is computed through the public API — keyed by the description the translator wrote —
// and the Lean driver evaluates the program under that assignment: the bytes must be the bytes the
// real WriteHTMLTo wrote.
//
// Wire format (one line):
//   prog <Name> S <n> <hex>… I <n> <int>… B <n> <0|1>… G <hexGA> R <n> (<id> <hex>)… K <n> <kid>… L <n> (<m> <kid>…)…
// <kid> is `P <Name> S … L …` (a nested program, same layout) or a component in the wire format of
// Driver/Handlers/Html.lean (`html <hex>` for rendered bytes of a real child).

import (
	"fmt"
	"os"
	"sort"
	"strconv"
	"strings"
	"sync"
	"unicode"

	"github.com/elliotchance/gedcom/v39"
	ghtml "github.com/elliotchance/gedcom/v39/html"
	"github.com/elliotchance/gedcom/v39/html/core"
)

type c18Env struct {
	S  map[string]string
	I  map[string]int
	B  map[string]bool
	K  map[string]string
	L  map[string][]string
	R  map[uint64]string
	GA string
}

func c18NewEnv() *c18Env {
	return &c18Env{S: map[string]string{}, I: map[string]int{}, B: map[string]bool{}, K: map[string]string{},
		L: map[string][]string{}, R: map[uint64]string{}}
}

// c18EnvKey: the key of the table that names the hole — the description itself, or the longest key
// that is a prefix of it (the translator appends `where …` / `[reassigned …]` to a description)
func c18EnvKey(desc string, has func(k string) bool, keys []string) (string, bool) {
	if has(desc) {
		return desc, true
	}
	best := ""
	for _, k := range keys {
		if strings.HasPrefix(desc, k) && len(k) > len(best) {
			best = k
		}
	}
	return best, best != ""
}

func c18Keys(m interface{}) []string {
	var ks []string
	switch x := m.(type) {
	case map[string]string:
		for k := range x {
			ks = append(ks, k)
		}
	case map[string]int:
		for k := range x {
			ks = append(ks, k)
		}
	case map[string]bool:
		for k := range x {
			ks = append(ks, k)
		}
	case map[string][]string:
		for k := range x {
			ks = append(ks, k)
		}
	}
	sort.Strings(ks)
	return ks
}

var c18ProgIndex map[string]*c18PageProg

func c18ProgByName(name string) *c18PageProg {
	if c18ProgIndex == nil {
		c18ProgIndex = map[string]*c18PageProg{}
		ps := c18PagePrograms()
		for i := range ps {
			c18ProgIndex[ps[i].Name] = &ps[i]
		}
	}
	return c18ProgIndex[name]
}

// c18ProgWire: `<Name> S … L …` and the holes the assignment does not know
func c18ProgWire(name string, env *c18Env) (string, []string) {
	p := c18ProgByName(name)
	if p == nil {
		return "", []string{name + ": not translated"}
	}
	var missing []string
	miss := func(kind, d string) { missing = append(missing, name+": "+kind+" hole `"+d+"`") }
	var b strings.Builder
	b.WriteString(name)
	fmt.Fprintf(&b, " S %d", len(p.Strs))
	for _, d := range p.Strs {
		k, ok := c18EnvKey(d, func(k string) bool { _, ok := env.S[k]; return ok }, c18Keys(env.S))
		if !ok {
			miss("string", d)
		}
		b.WriteString(" " + hexs(env.S[k]))
	}
	fmt.Fprintf(&b, " I %d", len(p.Ints))
	for _, d := range p.Ints {
		k, ok := c18EnvKey(d, func(k string) bool { _, ok := env.I[k]; return ok }, c18Keys(env.I))
		if !ok {
			miss("int", d)
		}
		b.WriteString(" " + strconv.Itoa(env.I[k]))
	}
	fmt.Fprintf(&b, " B %d", len(p.Bools))
	for _, d := range p.Bools {
		k, ok := c18EnvKey(d, func(k string) bool { _, ok := env.B[k]; return ok }, c18Keys(env.B))
		if !ok {
			miss("bool", d)
		}
		if env.B[k] {
			b.WriteString(" 1")
		} else {
			b.WriteString(" 0")
		}
	}
	b.WriteString(" G " + hexs(env.GA))
	fmt.Fprintf(&b, " R %d", len(p.Raws))
	for _, r := range p.Raws {
		v, ok := env.R[r.ID]
		if !ok {
			miss("raw", r.Desc)
		}
		fmt.Fprintf(&b, " %d %s", r.ID, hexs(v))
	}
	fmt.Fprintf(&b, " K %d", len(p.Kids))
	for _, d := range p.Kids {
		k, ok := c18EnvKey(d, func(k string) bool { _, ok := env.K[k]; return ok }, c18Keys(env.K))
		if !ok {
			miss("kid", d)
			b.WriteString(" comps 0")
			continue
		}
		b.WriteString(" " + env.K[k])
	}
	fmt.Fprintf(&b, " L %d", len(p.Lists))
	for _, d := range p.Lists {
		k, ok := c18EnvKey(d, func(k string) bool { _, ok := env.L[k]; return ok }, c18Keys(env.L))
		if !ok {
			miss("list", d)
		}
		fmt.Fprintf(&b, " %d", len(env.L[k]))
		for _, e := range env.L[k] {
			b.WriteString(" " + e)
		}
	}
	return b.String(), missing
}

// ---- inputs ----

type c18ProgGen struct {
	r       *Rand
	mode    int // 0 random; 1 every value empty; 2 `"><script>`; 3 every special character
	miss    *[]string
	nPlaces int // size of the places map the component under test is given (0: nil map)
	// page names under the places map the component under test is given (nil: the nil map)
	pageIndividual func(doc *gedcom.Document, ind *gedcom.IndividualNode, vis ghtml.LivingVisibility) string
	pagePlace      func(place string) string
}

func (g *c18ProgGen) data() string {
	var s string
	switch g.mode {
	case 1:
		return ""
	case 2:
		return "\"><script>alert(1)</script>"
	case 3:
		return "<>\"'&;&nbsp;</td><a href=\"x\">"
	default:
		s = c18Data(g.r)
	}
	return strings.Map(func(c rune) rune {
		if c == '\n' || c == '\r' {
			return ' '
		}
		return c
	}, s)
}

func (g *c18ProgGen) year(lo, hi int) string {
	return fmt.Sprintf("%d %s %d", 1+g.r.Intn(28), g.r.Pick([]string{"JAN", "FEB", "MAR", "JUL", "DEC"}), g.r.Range(lo, hi))
}

// doc: a small document — sources with nested properties, individuals (most of them long dead,
// some without a death: living), families
func (g *c18ProgGen) doc() *gedcom.Document {
	r := g.r
	var b strings.Builder
	b.WriteString("0 HEAD\n")
	nS, nI := r.Intn(4), r.Intn(5)
	if g.mode != 0 {
		nS, nI = 2, 3
	}
	for i := 1; i <= nS; i++ {
		fmt.Fprintf(&b, "0 @S%d@ SOUR\n", i)
		if r.Chance(4, 5) || g.mode != 0 {
			fmt.Fprintf(&b, "1 TITL %s\n", g.data())
		}
		for j := r.Intn(3); j > 0; j-- {
			fmt.Fprintf(&b, "1 %s %s\n", r.Pick([]string{"AUTH", "PUBL", "NOTE", "_X", "REPO"}), g.data())
			if r.Bool() {
				fmt.Fprintf(&b, "2 %s %s\n", r.Pick([]string{"NOTE", "DATE", "_Y"}), g.data())
				if r.Bool() {
					fmt.Fprintf(&b, "3 CONT %s\n", g.data())
				}
			}
		}
	}
	for i := 1; i <= nI; i++ {
		fmt.Fprintf(&b, "0 @I%d@ INDI\n", i)
		if r.Chance(5, 6) || g.mode != 0 {
			sur := g.data()
			if g.mode == 0 && r.Bool() {
				sur = r.Pick([]string{"Smith", "smith", "Åberg", "O'Neil", "Zed", "1st", ""})
			}
			fmt.Fprintf(&b, "1 NAME %s /%s/\n", g.data(), sur)
			if r.Chance(1, 4) {
				fmt.Fprintf(&b, "1 NAME %s /%s/\n2 TYPE %s\n", g.data(), g.data(), g.data())
			}
		}
		if r.Chance(3, 4) {
			fmt.Fprintf(&b, "1 SEX %s\n", r.Pick([]string{"M", "F", "U", "m", g.data()}))
		}
		if r.Chance(3, 4) {
			fmt.Fprintf(&b, "1 BIRT\n2 DATE %s\n", g.year(1700, 1850))
			if r.Bool() {
				fmt.Fprintf(&b, "2 PLAC %s\n", g.data())
			}
		}
		if r.Chance(2, 3) {
			fmt.Fprintf(&b, "1 DEAT\n2 DATE %s\n", g.year(1851, 1900))
		}
	}
	nF := 0
	if nI >= 2 {
		nF = r.Intn(3)
		if g.mode != 0 {
			nF = 1
		}
	}
	for i := 1; i <= nF; i++ {
		fmt.Fprintf(&b, "0 @F%d@ FAM\n", i)
		if r.Chance(4, 5) {
			fmt.Fprintf(&b, "1 HUSB @I%d@\n", 1+r.Intn(nI))
		}
		if r.Chance(4, 5) {
			fmt.Fprintf(&b, "1 WIFE @I%d@\n", 1+r.Intn(nI))
		}
		if r.Chance(3, 4) {
			b.WriteString("1 MARR\n")
			if r.Chance(3, 4) {
				fmt.Fprintf(&b, "2 DATE %s\n", g.data())
			}
		}
		if r.Chance(1, 3) {
			b.WriteString("1 DIV\n")
		}
	}
	b.WriteString("0 TRLR\n")
	doc, err := gedcom.NewDocumentFromString(b.String())
	if err != nil || doc == nil {
		doc = gedcom.NewDocument()
	}
	return doc
}

func (g *c18ProgGen) vis() ghtml.LivingVisibility {
	return ghtml.LivingVisibility(g.r.Pick([]string{ghtml.LivingVisibilityShow, ghtml.LivingVisibilityHide, ghtml.LivingVisibilityPlaceholder}))
}

func (g *c18ProgGen) options() *ghtml.PublishShowOptions {
	r := g.r
	o := &ghtml.PublishShowOptions{ShowIndividuals: r.Chance(3, 4), ShowPlaces: r.Bool(), ShowFamilies: r.Bool(),
		ShowSurnames: r.Bool(), ShowSources: r.Bool(), ShowStatistics: r.Bool(), LivingVisibility: g.vis()}
	if g.mode != 0 {
		o.ShowIndividuals, o.ShowPlaces, o.ShowFamilies, o.ShowSurnames, o.ShowSources, o.ShowStatistics = true, true, true, true, true, true
	}
	return o
}

func (g *c18ProgGen) letters(doc *gedcom.Document, vis ghtml.LivingVisibility) []rune {
	if g.r.Bool() {
		return ghtml.GetIndexLetters(doc, vis)
	}
	var ls []rune
	for _, c := range "#abmsz" {
		if g.r.Bool() {
			ls = append(ls, c)
		}
	}
	return ls
}

func (g *c18ProgGen) ga() string {
	return g.r.Pick([]string{"", "", "UA-12345-6", "G-XYZ"})
}

// nest: a child that is a translated component — its own program under its own assignment
func (g *c18ProgGen) nest(name string, env *c18Env) string {
	w, missing := c18ProgWire(name, env)
	*g.miss = append(*g.miss, missing...)
	c18ProgNestedMu.Lock()
	c18ProgNested[name] = true
	c18ProgNestedMu.Unlock()
	return "P " + w
}

func (g *c18ProgGen) pIndividual(doc *gedcom.Document, ind *gedcom.IndividualNode, vis ghtml.LivingVisibility) string {
	if g.pageIndividual != nil {
		return g.pageIndividual(doc, ind, vis)
	}
	return ghtml.PageIndividual(doc, ind, vis, nil)
}

func (g *c18ProgGen) pPlace(place string) string {
	if g.pagePlace != nil {
		return g.pagePlace(place)
	}
	return ghtml.PagePlace(place, nil)
}

func c18Real(comp core.Component) string { return "html " + hexs(c18Render(comp)) }

// ---- the assignments, through the public API ----

func (g *c18ProgGen) envSourceLink(src *gedcom.SourceNode) *c18Env {
	e := c18NewEnv()
	e.S["text := c.source.Title()"] = src.Title()
	e.S["destination := PageSource(c.source)"] = ghtml.PageSource(src)
	return e
}

func (g *c18ProgGen) envSourceInList(src *gedcom.SourceNode) *c18Env {
	e := c18NewEnv()
	e.K["NewSourceLink(c.source)"] = g.nest("SourceLink", g.envSourceLink(src))
	return e
}

func c18IndexLetterForSurname(surname string) rune {
	// html.indexLetterForSurname is not exported: first byte of the lower-cased surname, `#` unless a–z
	name := strings.ToLower(surname)
	if name == "" || name[0] < 'a' || name[0] > 'z' {
		return '#'
	}
	return rune(name[0])
}

func (g *c18ProgGen) envSurnameLink(surname string) *c18Env {
	e := c18NewEnv()
	e.S["c.surname"] = surname
	e.S[`destination := fmt.Sprintf("%s#%s", PageIndividuals(letter), c.surname)`] =
		ghtml.PageIndividuals(c18IndexLetterForSurname(surname)) + "#" + surname
	return e
}

func (g *c18ProgGen) envSurnameInList(doc *gedcom.Document, surname string, vis ghtml.LivingVisibility) *c18Env {
	e := c18NewEnv()
	count := 0
	for _, ind := range doc.Individuals() {
		if vis != ghtml.LivingVisibilityShow && ind.IsLiving() {
			continue
		}
		if ind.Name().Surname() == surname {
			count++
		}
	}
	e.I["count := 0"] = count
	e.K["NewSurnameLink(c.surname)"] = g.nest("SurnameLink", g.envSurnameLink(surname))
	return e
}

func (g *c18ProgGen) envPlaceLink(place string) *c18Env {
	e := c18NewEnv()
	e.B[`c.place == ""`] = place == ""
	e.S["c.place"] = place
	e.S["PagePlace(c.place, c.placesMap)"] = ""
	if place != "" {
		e.S["PagePlace(c.place, c.placesMap)"] = g.pPlace(place)
	}
	return e
}

func (g *c18ProgGen) envSexBadge(sex *gedcom.SexNode) *c18Env {
	e := c18NewEnv()
	cls := "info"
	switch {
	case sex.IsMale():
		cls = "primary"
	case sex.IsFemale():
		cls = "danger"
	}
	e.S[`fmt.Sprintf("badge badge-%s", colorClassForSex(c.sex))`] = "badge badge-" + cls
	e.S["c.sex.String()"] = sex.String()
	return e
}

func (g *c18ProgGen) envIndexLetter(letter rune, sel bool) *c18Env {
	e := c18NewEnv()
	e.S["link := PageIndividuals(c.letter)"] = ghtml.PageIndividuals(letter)
	e.S["text := string(unicode.ToUpper(c.letter))"] = string(unicode.ToUpper(letter))
	e.B["c.isSelected"] = sel
	return e
}

func (g *c18ProgGen) envIndexHeader(letters []rune, selected rune) *c18Env {
	e := c18NewEnv()
	l := []string{}
	for _, c := range letters {
		l = append(l, g.nest("IndividualIndexLetter", g.envIndexLetter(c, c == selected)))
	}
	e.L["range c.indexLetters: NewIndividualIndexLetter(letter, letter == c.selectedLetter)"] = l
	return e
}

func (g *c18ProgGen) envEventDate(event string, dates []*gedcom.DateNode) *c18Env {
	e := c18NewEnv()
	e.B["c.IsBlank()"] = ghtml.NewEventDate(event, dates).IsBlank()
	e.S["c.event"] = event
	e.S["c.dates[0].String()"] = ""
	if len(dates) > 0 {
		e.S["c.dates[0].String()"] = dates[0].String()
	}
	return e
}

func (g *c18ProgGen) envSourceStatistics(doc *gedcom.Document) *c18Env {
	e := c18NewEnv()
	e.I["len(sources)"] = len(doc.Sources())
	return e
}

func (g *c18ProgGen) envFamilyStatistics(doc *gedcom.Document) *c18Env {
	e := c18NewEnv()
	m, d := 0, 0
	for _, f := range doc.Families() {
		if gedcom.First(gedcom.NodesWithTagPath(f, gedcom.TagMarriage)) != nil {
			m++
		}
		if gedcom.First(gedcom.NodesWithTagPath(f, gedcom.TagDivorce)) != nil {
			d++
		}
	}
	e.I["total := len(c.document.Families())"] = len(doc.Families())
	e.I["marriageEvents := 0"] = m
	e.I["divorceEvents := 0"] = d
	return e
}

func (g *c18ProgGen) envSourceProperty(node gedcom.Node) *c18Env {
	e := c18NewEnv()
	e.S["tag := c.node.Tag().String()"] = node.Tag().String()
	e.S["value := c.node.Value()"] = node.Value()
	l := []string{}
	for _, n := range node.Nodes() {
		l = append(l, g.nest("SourceProperty", g.envSourceProperty(n)))
	}
	e.L["range c.node.Nodes(): NewSourceProperty(c.document, node)"] = l
	return e
}

func c18Surnames(doc *gedcom.Document, vis ghtml.LivingVisibility) *gedcom.StringSet {
	// html.getSurnames is not exported: the surnames of the listed individuals
	set := gedcom.NewStringSet()
	for _, ind := range doc.Individuals() {
		if vis != ghtml.LivingVisibilityShow && ind.IsLiving() {
			continue
		}
		if s := ind.Name().Surname(); s != "" {
			set.Add(s)
		}
	}
	return set
}

func (g *c18ProgGen) envPublishHeader(doc *gedcom.Document, extraTab, selectedTab string, o *ghtml.PublishShowOptions, letters []rune) *c18Env {
	e := c18NewEnv()
	e.B["c.options.ShowIndividuals && len(c.indexLetters) > 0"] = o.ShowIndividuals && len(letters) > 0
	e.S["PageIndividuals(c.indexLetters[0])"] = ""
	if len(letters) > 0 {
		e.S["PageIndividuals(c.indexLetters[0])"] = ghtml.PageIndividuals(letters[0])
	}
	e.S["PagePlaces()"] = ghtml.PagePlaces()
	e.S["PageFamilies()"] = ghtml.PageFamilies()
	e.S["PageSurnames()"] = ghtml.PageSurnames()
	e.S["PageSources()"] = ghtml.PageSources()
	e.S["PageStatistics()"] = ghtml.PageStatistics()
	e.S["c.extraTab"] = extraTab
	e.I["len(c.document.Individuals())"] = len(doc.Individuals())
	e.I["len(c.placesMap)"] = g.nPlaces // nil from outside unless the driver took Publisher.Places()
	e.I["len(c.document.Families())"] = len(doc.Families())
	e.I["getSurnames(c.document, c.options.LivingVisibility).Len()"] = c18Surnames(doc, o.LivingVisibility).Len()
	e.I["len(c.document.Sources())"] = len(doc.Sources())
	e.B["c.options.ShowPlaces"] = o.ShowPlaces
	e.B["c.options.ShowFamilies"] = o.ShowFamilies
	e.B["c.options.ShowSurnames"] = o.ShowSurnames
	e.B["c.options.ShowSources"] = o.ShowSources
	e.B["c.options.ShowStatistics"] = o.ShowStatistics
	e.B[`c.extraTab != ""`] = extraTab != ""
	for tab, name := range map[string]string{"individuals": "selectedIndividualsTab", "places": "selectedPlacesTab",
		"families": "selectedFamiliesTab", "surnames": "selectedSurnamesTab", "sources": "selectedSourcesTab",
		"statistics": "selectedStatisticsTab", "extra": "selectedExtraTab"} {
		e.B["c.selectedTab == "+name] = selectedTab == tab
	}
	return e
}

func (g *c18ProgGen) envFamilyInList(doc *gedcom.Document, fam *gedcom.FamilyNode, vis ghtml.LivingVisibility) *c18Env {
	e := c18NewEnv()
	date := "-"
	if n := gedcom.First(gedcom.NodesWithTagPath(fam, gedcom.TagMarriage, gedcom.TagDate)); n != nil {
		date = n.Value()
	}
	e.S[`date := "-"`] = date
	e.K["husband := NewIndividualLink(c.document, c.family.Husband().Individual(), c.visibility, c.placesMap)"] =
		g.nest("IndividualLink", g.envIndividualLink(doc, fam.Husband().Individual(), vis))
	e.K["wife := NewIndividualLink(c.document, c.family.Wife().Individual(), c.visibility, c.placesMap)"] =
		g.nest("IndividualLink", g.envIndividualLink(doc, fam.Wife().Individual(), vis))
	return e
}

func (g *c18ProgGen) envParentButtons(doc *gedcom.Document, fam *gedcom.FamilyNode, vis ghtml.LivingVisibility) *c18Env {
	e := c18NewEnv()
	e.K["husband := NewIndividualButton(c.document, c.family.Husband().Individual(), c.visibility, c.placesMap)"] =
		g.nest("IndividualButton", g.envIndividualButton(doc, fam.Husband().Individual(), vis))
	e.K["wife := NewIndividualButton(c.document, c.family.Wife().Individual(), c.visibility, c.placesMap)"] =
		g.nest("IndividualButton", g.envIndividualButton(doc, fam.Wife().Individual(), vis))
	e.K["svg := NewPlusSVG(false, true, true, true)"] = g.nest("PlusSVG", g.envPlusSVG(false, true, true, true))
	return e
}

func (g *c18ProgGen) envIndividualDates(ind *gedcom.IndividualNode, vis ghtml.LivingVisibility) *c18Env {
	e := c18NewEnv()
	living := ind != nil && ind.IsLiving()
	e.B["isLiving && c.visibility == LivingVisibilityHide"] = living && vis == ghtml.LivingVisibilityHide
	e.B["isLiving && c.visibility == LivingVisibilityPlaceholder"] = living && vis == ghtml.LivingVisibilityPlaceholder
	e.K["NewEventDates(eventDates)"] = c18Real(ghtml.NewEventDates(ghtml.NewIndividualDates(ind, vis).EventDates()))
	return e
}

func (g *c18ProgGen) envNameAndDates(ind *gedcom.IndividualNode, vis ghtml.LivingVisibility, unknown string) *c18Env {
	e := c18NewEnv()
	name := ghtml.NewIndividualName(ind, vis, unknown)
	dates := ghtml.NewIndividualDates(ind, vis)
	e.B["isUnknown || datesAreBlank"] = name.IsUnknown() || dates.IsBlank()
	e.K["name := NewIndividualName(c.individual, c.visibility, c.unknownText)"] = g.nest("IndividualName", g.envIndividualName(ind, vis, unknown))
	e.K["dates := NewIndividualDates(c.individual, c.visibility)"] = g.nest("IndividualDates", g.envIndividualDates(ind, vis))
	return e
}

func (g *c18ProgGen) envNameAndDatesLink(ind *gedcom.IndividualNode, vis ghtml.LivingVisibility, unknown string) *c18Env {
	e := c18NewEnv()
	e.B["c.individual == nil"] = ind == nil
	e.S[`link := fmt.Sprintf("#%s", c.individual.Pointer())`] = ""
	e.K["text := NewIndividualNameAndDates(c.individual, c.visibility, c.unknownText)"] = "comps 0"
	if ind != nil {
		e.S[`link := fmt.Sprintf("#%s", c.individual.Pointer())`] = "#" + ind.Pointer()
		e.K["text := NewIndividualNameAndDates(c.individual, c.visibility, c.unknownText)"] =
			g.nest("IndividualNameAndDates", g.envNameAndDates(ind, vis, unknown))
	}
	return e
}

func (g *c18ProgGen) envPlusSVG(top, left, right, bottom bool) *c18Env {
	e := c18NewEnv()
	// the whole argument of core.NewHTML is the raw hole: what fmt.Sprintf made of the four flags
	if p := c18ProgByName("PlusSVG"); p != nil && len(p.Raws) == 1 {
		e.R[p.Raws[0].ID] = c18Render(ghtml.NewPlusSVG(top, left, right, bottom))
	}
	return e
}

func (g *c18ProgGen) pageGA(name, ga string, e *c18Env) {
	e.GA = ga
}

// programs that were evaluated as a child of a driven component
var c18ProgNested = map[string]bool{}
var c18ProgNestedMu sync.Mutex

type c18ProgDriver struct {
	name string
	mk   func(g *c18ProgGen) (core.Component, *c18Env, string)
}

func c18Bucket(n int) string {
	switch {
	case n == 0:
		return "0"
	case n == 1:
		return "1"
	case n < 4:
		return "2-3"
	}
	return "4+"
}

func c18ProgDrivers() []c18ProgDriver {
	pickSource := func(g *c18ProgGen) (*gedcom.Document, *gedcom.SourceNode) {
		doc := g.doc()
		ss := doc.Sources()
		if len(ss) == 0 {
			s := gedcom.NewSourceNode("", "S9")
			doc.AddNode(s)
			return doc, s
		}
		return doc, ss[g.r.Intn(len(ss))]
	}
	pickInd := func(g *c18ProgGen) (*gedcom.Document, *gedcom.IndividualNode) {
		doc := g.doc()
		is := doc.Individuals()
		if len(is) == 0 {
			return doc, nil
		}
		return doc, is[g.r.Intn(len(is))]
	}
	pickFam := func(g *c18ProgGen) (*gedcom.Document, *gedcom.FamilyNode) {
		doc := g.doc()
		fs := doc.Families()
		if len(fs) == 0 {
			return doc, doc.AddFamily("F9")
		}
		return doc, fs[g.r.Intn(len(fs))]
	}
	return []c18ProgDriver{
		{"SourceLink", func(g *c18ProgGen) (core.Component, *c18Env, string) {
			_, s := pickSource(g)
			return ghtml.NewSourceLink(s), g.envSourceLink(s), fmt.Sprint(s.Title() == "")
		}},
		{"SourceInList", func(g *c18ProgGen) (core.Component, *c18Env, string) {
			doc, s := pickSource(g)
			return ghtml.NewSourceInList(doc, s), g.envSourceInList(s), fmt.Sprint(s.Title() == "")
		}},
		{"SurnameLink", func(g *c18ProgGen) (core.Component, *c18Env, string) {
			s := g.data()
			return ghtml.NewSurnameLink(s), g.envSurnameLink(s), string(c18IndexLetterForSurname(s))
		}},
		{"SurnameInList", func(g *c18ProgGen) (core.Component, *c18Env, string) {
			doc, ind := pickInd(g)
			s := g.data()
			if ind != nil && g.r.Chance(2, 3) {
				s = ind.Name().Surname()
			}
			vis := g.vis()
			e := g.envSurnameInList(doc, s, vis)
			return ghtml.NewSurnameInList(doc, s, vis), e, c18Bucket(e.I["count := 0"])
		}},
		{"PlaceLink", func(g *c18ProgGen) (core.Component, *c18Env, string) {
			p := g.data()
			return ghtml.NewPlaceLink(gedcom.NewDocument(), p, nil), g.envPlaceLink(p), fmt.Sprint(p == "")
		}},
		{"SexBadge", func(g *c18ProgGen) (core.Component, *c18Env, string) {
			v := g.r.Pick([]string{"M", "F", "U", "", "m", "Male", g.data()})
			sex := gedcom.NewSexNode(v)
			return ghtml.NewSexBadge(sex), g.envSexBadge(sex), fmt.Sprint(sex.IsMale(), sex.IsFemale())
		}},
		{"IndividualIndexLetter", func(g *c18ProgGen) (core.Component, *c18Env, string) {
			l := []rune("#abz<&\"é")[g.r.Intn(8)]
			sel := g.r.Bool()
			return ghtml.NewIndividualIndexLetter(l, sel), g.envIndexLetter(l, sel), fmt.Sprint(sel, l == '#')
		}},
		{"IndividualIndexHeader", func(g *c18ProgGen) (core.Component, *c18Env, string) {
			doc := g.doc()
			vis := g.vis()
			ls := g.letters(doc, vis)
			sel := rune('a')
			if len(ls) > 0 && g.r.Bool() {
				sel = ls[g.r.Intn(len(ls))]
			}
			return ghtml.NewIndividualIndexHeader(doc, sel, vis, ls), g.envIndexHeader(ls, sel), c18Bucket(len(ls))
		}},
		{"EventDate", func(g *c18ProgGen) (core.Component, *c18Env, string) {
			var ds []*gedcom.DateNode
			for i := g.r.Intn(3); i > 0; i-- {
				ds = append(ds, gedcom.NewDateNode(g.r.Pick([]string{"1 JAN 1900", "ABT 1850", "BET 1800 AND 1810", g.data()})))
			}
			ev := g.r.Pick([]string{"b.", "d.", g.data()})
			return ghtml.NewEventDate(ev, ds), g.envEventDate(ev, ds), c18Bucket(len(ds))
		}},
		{"SourceStatistics", func(g *c18ProgGen) (core.Component, *c18Env, string) {
			doc := g.doc()
			return ghtml.NewSourceStatistics(doc), g.envSourceStatistics(doc), c18Bucket(len(doc.Sources()))
		}},
		{"FamilyStatistics", func(g *c18ProgGen) (core.Component, *c18Env, string) {
			doc := g.doc()
			e := g.envFamilyStatistics(doc)
			return ghtml.NewFamilyStatistics(doc), e, fmt.Sprint(len(doc.Families()), e.I["marriageEvents := 0"], e.I["divorceEvents := 0"])
		}},
		{"SourceProperty", func(g *c18ProgGen) (core.Component, *c18Env, string) {
			doc, s := pickSource(g)
			var n gedcom.Node = s
			if ns := s.Nodes(); len(ns) > 0 && g.r.Bool() {
				n = ns[g.r.Intn(len(ns))]
			}
			return ghtml.NewSourceProperty(doc, n), g.envSourceProperty(n), c18Bucket(len(n.Nodes()))
		}},
		{"PublishHeader", func(g *c18ProgGen) (core.Component, *c18Env, string) {
			doc := g.doc()
			o := g.options()
			ls := g.letters(doc, o.LivingVisibility)
			extra := g.r.Pick([]string{"", "", "Source", g.data()})
			tab := g.r.Pick([]string{"individuals", "places", "families", "surnames", "sources", "statistics", "extra", "other"})
			return ghtml.NewPublishHeader(doc, extra, tab, o, ls, nil), g.envPublishHeader(doc, extra, tab, o, ls),
				fmt.Sprint(tab, extra == "", len(ls) > 0, o.ShowIndividuals, o.ShowPlaces, o.ShowSources)
		}},
		{"FamilyInList", func(g *c18ProgGen) (core.Component, *c18Env, string) {
			doc, f := pickFam(g)
			vis := g.vis()
			e := g.envFamilyInList(doc, f, vis)
			return ghtml.NewFamilyInList(doc, f, vis, nil), e, fmt.Sprint(f.Husband() == nil, f.Wife() == nil, e.S[`date := "-"`] == "-")
		}},
		{"ParentButtons", func(g *c18ProgGen) (core.Component, *c18Env, string) {
			doc, f := pickFam(g)
			vis := g.vis()
			return ghtml.NewParentButtons(doc, f, vis, nil), g.envParentButtons(doc, f, vis), fmt.Sprint(f.Husband() == nil, f.Wife() == nil, vis)
		}},
		{"IndividualDates", func(g *c18ProgGen) (core.Component, *c18Env, string) {
			_, ind := pickInd(g)
			vis := g.vis()
			e := g.envIndividualDates(ind, vis)
			return ghtml.NewIndividualDates(ind, vis), e, fmt.Sprint(ind == nil, e.B["isLiving && c.visibility == LivingVisibilityHide"], e.B["isLiving && c.visibility == LivingVisibilityPlaceholder"])
		}},
		{"IndividualNameAndDates", func(g *c18ProgGen) (core.Component, *c18Env, string) {
			_, ind := pickInd(g)
			vis := g.vis()
			unk := g.r.Pick([]string{"", ghtml.UnknownEmphasis})
			e := g.envNameAndDates(ind, vis, unk)
			return ghtml.NewIndividualNameAndDates(ind, vis, unk), e, fmt.Sprint(ind == nil, e.B["isUnknown || datesAreBlank"], vis)
		}},
		{"IndividualNameAndDatesLink", func(g *c18ProgGen) (core.Component, *c18Env, string) {
			_, ind := pickInd(g)
			vis := g.vis()
			unk := g.r.Pick([]string{"", ghtml.UnknownEmphasis})
			return ghtml.NewIndividualNameAndDatesLink(ind, vis, unk), g.envNameAndDatesLink(ind, vis, unk), fmt.Sprint(ind == nil, vis)
		}},
		{"PlusSVG", func(g *c18ProgGen) (core.Component, *c18Env, string) {
			a, b, c, d := g.r.Bool(), g.r.Bool(), g.r.Bool(), g.r.Bool()
			return ghtml.NewPlusSVG(a, b, c, d), g.envPlusSVG(a, b, c, d), fmt.Sprint(a, b, c, d)
		}},
		{"SourceListPage", func(g *c18ProgGen) (core.Component, *c18Env, string) {
			doc := g.doc()
			o := g.options()
			ls := g.letters(doc, o.LivingVisibility)
			ga := g.ga()
			e := c18NewEnv()
			e.GA = ga
			e.K[`NewPublishHeader(c.document, "", selectedSourcesTab, c.options, c.indexLetters, c.placesMap)`] =
				g.nest("PublishHeader", g.envPublishHeader(doc, "", "sources", o, ls))
			l := []string{}
			for _, s := range doc.Sources() {
				l = append(l, g.nest("SourceInList", g.envSourceInList(s)))
			}
			e.L["range c.document.Sources(): NewSourceInList(c.document, source)"] = l
			return ghtml.NewSourceListPage(doc, ga, o, ls, nil), e, fmt.Sprint(c18Bucket(len(l)), ga == "")
		}},
		{"SourcePage", func(g *c18ProgGen) (core.Component, *c18Env, string) {
			doc, s := pickSource(g)
			o := g.options()
			ls := g.letters(doc, o.LivingVisibility)
			ga := g.ga()
			e := c18NewEnv()
			e.GA = ga
			e.S["c.source.Title()"] = s.Title()
			e.K[`NewPublishHeader(c.document, "Source", selectedExtraTab, c.options, c.indexLetters, c.placesMap)`] =
				g.nest("PublishHeader", g.envPublishHeader(doc, "Source", "extra", o, ls))
			l := []string{}
			for _, n := range s.Nodes() {
				l = append(l, g.nest("SourceProperty", g.envSourceProperty(n)))
			}
			e.L["range c.source.Nodes(): NewSourceProperty(c.document, node)"] = l
			return ghtml.NewSourcePage(doc, s, ga, o, ls, nil), e, fmt.Sprint(c18Bucket(len(l)), ga == "", s.Title() == "")
		}},
		{"SurnameListPage", func(g *c18ProgGen) (core.Component, *c18Env, string) {
			doc := g.doc()
			o := g.options()
			ls := g.letters(doc, o.LivingVisibility)
			ga := g.ga()
			e := c18NewEnv()
			e.GA = ga
			e.K[`NewPublishHeader(c.document, "", selectedSurnamesTab, c.options, c.indexLetters, c.placesMap)`] =
				g.nest("PublishHeader", g.envPublishHeader(doc, "", "surnames", o, ls))
			l := []string{}
			for _, s := range c18Surnames(doc, o.LivingVisibility).Strings() {
				l = append(l, g.nest("SurnameInList", g.envSurnameInList(doc, s, o.LivingVisibility)))
			}
			e.L["range getSurnames(c.document, visibility).Strings(): NewSurnameInList(c.document, surname, visibility)"] = l
			return ghtml.NewSurnameListPage(doc, ga, o, ls, nil), e, fmt.Sprint(c18Bucket(len(l)), ga == "")
		}},
		{"FamilyListPage", func(g *c18ProgGen) (core.Component, *c18Env, string) {
			doc := g.doc()
			o := g.options()
			ls := g.letters(doc, o.LivingVisibility)
			ga := g.ga()
			e := c18NewEnv()
			e.GA = ga
			e.K[`header := NewPublishHeader(c.document, "", selectedFamiliesTab, c.options, c.indexLetters, c.placesMap)`] =
				g.nest("PublishHeader", g.envPublishHeader(doc, "", "families", o, ls))
			l := []string{}
			for _, f := range doc.Families() {
				l = append(l, g.nest("FamilyInList", g.envFamilyInList(doc, f, o.LivingVisibility)))
			}
			e.L["range c.document.Families(): NewFamilyInList(c.document, family, c.options.LivingVisibility, c.placesMap)"] = l
			return ghtml.NewFamilyListPage(doc, ga, o, ls, nil), e, fmt.Sprint(c18Bucket(len(l)), ga == "")
		}},
	}
}

// c18ProgramTie: the byte tie of the translated component programs.
func c18ProgramTie(c *Ctx) {
	progs, untr := c18PagePrograms(), c18PageUntranslated()
	drivers := append(append(c18ProgDrivers(), c18ProgDrivers2()...), c18ProgDrivers3()...)
	drivers = append(drivers, c18ProgDrivers4()...)
	drivers = append(drivers, c18ProgDrivers5()...)
	drivers = append(drivers, c18ProgDrivers6()...)
	drivers = append(drivers, c18ProgDrivers7()...)
	drivers = append(drivers, c18ProgDrivers8()...)
	for _, d := range drivers {
		c18ProgEnvKnown[d.name] = true
	}
	driven := map[string]bool{}
	var tied, notTied []string
	show := os.Getenv("C18_PROG_SHOW") != ""
	// the judgement of the obligation page_programs_ok, readable: which regenerated program fails progOk
	if outs, err := c18LeanBatch(c.Driver, []string{"progs"}); err == nil && len(outs) == 1 {
		c.Notes = append(c.Notes, "Lean driver on the regenerated programs: "+outs[0])
		if i := strings.Index(outs[0], "rejected="); i >= 0 && len(outs[0]) > i+9 {
			for _, name := range strings.Split(outs[0][i+9:], ",") {
				term := ""
				if p := c18ProgByName(name); p != nil {
					term = p.Term
				}
				c.Oracle("", "the regenerated program of a page component fails progOk: a non-literal reaches a raw sink by a call that is not on the allow-list, or its literal HTML does not close what it opens (page_programs_ok no longer holds)",
					map[string]string{"component": name, "program": term}, "progOk = false", "progOk = true")
			}
		}
	}
	for _, d := range drivers {
		p := c18ProgByName(d.name)
		if p == nil {
			c.Untied = append(c.Untied, "component program: "+d.name+" has a driver but is no longer translated")
			continue
		}
		driven[d.name] = true
		r := c.R.Fork("prog/" + d.name)
		n := c.N(40, 2000)
		missingSeen := map[string]bool{}
		ok := 0
		for i := 0; i < n+3; i++ {
			mode := 0
			if i < 3 {
				mode = i + 1
			}
			var missing []string
			g := &c18ProgGen{r: r, mode: mode, miss: &missing}
			var comp core.Component
			var env *c18Env
			var bucket string
			panicked := func() (p bool) {
				defer func() {
					if recover() != nil {
						p = true
					}
				}()
				comp, env, bucket = d.mk(g)
				return false
			}()
			if panicked {
				c.Count("prog-input-panic:" + d.name)
				continue
			}
			real := c18Render(comp)
			if real == "\x00PANIC" || strings.Contains(real, "\x00PANIC") {
				c.Count("prog-render-panic:" + d.name)
				continue
			}
			w, m2 := c18ProgWire(d.name, env)
			missing = append(missing, m2...)
			if len(missing) > 0 {
				for _, m := range missing {
					if !missingSeen[m] {
						missingSeen[m] = true
						c.Untied = append(c.Untied, "component program translated but not tied, the driver table does not know "+m)
					}
				}
				continue
			}
			if show && i < 5 {
				fmt.Fprintf(os.Stderr, "prog %s\n  term: %s\n  request: prog %s\n  real: %q\n", d.name, p.Term, w, real)
			}
			c.Tie("prog "+w, hexs(real)+" ok=11111")
			c.Eval()
			c.Count("prog:" + d.name)
			c.Nontrivial(fmt.Sprintf("prog/%s/m%d/%s", d.name, mode, bucket))
			ok++
		}
		if ok > 0 && len(missingSeen) == 0 {
			tied = append(tied, d.name)
		} else {
			notTied = append(notTied, d.name)
		}
	}
	var names, notDriven, un []string
	for _, p := range progs {
		names = append(names, p.Name)
		if !driven[p.Name] {
			if c18ProgNested[p.Name] {
				tied = append(tied, p.Name+" [as a child only]")
				continue
			}
			notDriven = append(notDriven, p.Name)
		}
	}
	notDriven = append(notDriven, notTied...)
	sort.Strings(notDriven)
	for _, u := range untr {
		un = append(un, u[0]+" ("+u[1]+")")
	}
	c.Notes = append(c.Notes, fmt.Sprintf("component programs: %d translated (%s), %d tied by bytes (%s), %d translated but not driven (%s), %d untranslated (%s)",
		len(names), strings.Join(names, ", "), len(tied), strings.Join(tied, ", "), len(notDriven), strings.Join(notDriven, ", "),
		len(un), strings.Join(un, "; ")))
	if len(notDriven) > 0 {
		c.Untied = append(c.Untied, "component programs translated but not driven through the public API (their programs are checked by progOk only): "+strings.Join(notDriven, ", "))
	}
	if len(un) > 0 {
		c.Untied = append(c.Untied, "page components outside the translator's fragment (execution only): "+strings.Join(un, "; "))
	}
}

// with C18_PROG_SHOW set, `gvh run C18prog` runs the program tie alone and prints the first requests
func init() {
	if os.Getenv("C18_PROG_SHOW") != "" {
		runners["C18prog"] = func(c *Ctx) { c18ProgramTie(c) }
	}
}
