// gvh — the Go side of the verification machinery: fact extraction from /repo, generators,
// in-process execution of the real implementation, property oracles, correspondence with the Lean
// driver, replay.
package main

import (
	"flag"
	"fmt"
	"os"
	"runtime"
	"runtime/debug"
	"sort"
	"strconv"
	"strings"
	"time"
)

type propRunner func(c *Ctx)

var runners = map[string]propRunner{}
var replayers = map[string]func(path string) int{}

// classifiers map a correspondence disagreement to a known-finding matcher key.
var classifiers = map[string]func(req, impl, model string) string{}

func classifyDisagreement(prop, req, impl, model string) string {
	if f, ok := classifiers[prop]; ok {
		return f(req, impl, model)
	}
	return ""
}

func main() {
	if len(os.Args) < 2 {
		fmt.Fprintln(os.Stderr, "usage: gvh extract <leandir> | run <Cxx> [flags] | list")
		os.Exit(2)
	}
	switch os.Args[1] {
	case "extract":
		os.Exit(extractMain(os.Args[2:]))
	case "list":
		var ids []string
		for k := range runners {
			ids = append(ids, k)
		}
		sort.Strings(ids)
		for _, k := range ids {
			fmt.Println(k)
		}
	case "run":
		fs := flag.NewFlagSet("run", flag.ExitOnError)
		tier := fs.String("tier", "quick", "quick|thorough")
		seed := fs.Int64("seed", 1, "seed")
		driver := fs.String("driver", "/verif/lean/.lake/build/bin/driver", "lean driver binary")
		out := fs.String("out", "-", "result json")
		prop := os.Args[2]
		fs.Parse(os.Args[3:])
		r, ok := runners[prop]
		if !ok {
			fmt.Fprintln(os.Stderr, "unknown property", prop)
			os.Exit(2)
		}
		c := NewCtx(prop, *tier, *seed, *driver)
		runWithStallWatchdog(c, r)
		writeJSON(*out, c.Finish())
	case "eval":
		os.Exit(evalMain(strings.Join(os.Args[2:], " ")))
	case "worker":
		os.Exit(workerMain(os.Args[2:]))
	default:
		fmt.Fprintln(os.Stderr, "unknown command", os.Args[1])
		os.Exit(2)
	}
}

// runWithStallWatchdog runs the property's runner; when nothing at all has been registered for a
// long time (no case, no count, no evaluation), some call into the library has not returned — a
// deadlock or an endless loop that the runner's own per-case limits did not cover. That is
// reported as a failing observation with the stacks of the goroutines that are inside the
// library, and the run ends with what it has, instead of sitting in the outer time limit.
func runWithStallWatchdog(c *Ctx, r propRunner) {
	limit := 420 * time.Second
	if !c.Quick() {
		limit = 1800 * time.Second
	}
	if v, err := strconv.Atoi(os.Getenv("VERIF_STALL_S")); err == nil && v > 0 {
		limit = time.Duration(v) * time.Second
	}
	done := make(chan struct{})
	go func() {
		defer close(done)
		// safety net under the per-case guards of the runners: a panic that reaches this point
		// came out of a call into the library on a generated input (or out of the runner itself);
		// it is reported with the stack, whose frames name the library function and its arguments,
		// and the run ends with what it has
		defer func() {
			if p := recover(); p != nil {
				lines := strings.Split(string(debug.Stack()), "\n")
				if len(lines) > 40 {
					lines = lines[:40]
				}
				c.Oracle("", "a call made by the run panicked (no per-case guard caught it)",
					map[string]interface{}{"panic": fmt.Sprint(p), "seed": os.Getenv("VERIF_SEED"), "stack": lines}, "panic: "+fmt.Sprint(p), "every call returns")
				c.Notes = append(c.Notes, "the run was cut short by a panic; cases after it were not run")
			}
		}()
		r(c)
	}()
	tick := time.NewTicker(5 * time.Second)
	defer tick.Stop()
	last, since := c.Activity(), time.Now()
	for {
		select {
		case <-done:
			return
		case <-tick.C:
			if a := c.Activity(); a != last {
				last, since = a, time.Now()
				continue
			}
			if time.Since(since) < limit {
				continue
			}
			buf := make([]byte, 1<<22)
			buf = buf[:runtime.Stack(buf, true)]
			var inside []string
			for _, g := range strings.Split(string(buf), "\n\n") {
				if strings.Contains(g, "github.com/elliotchance/gedcom") && !strings.Contains(g, "runWithStallWatchdog") {
					lines := strings.Split(g, "\n")
					if len(lines) > 14 {
						lines = lines[:14]
					}
					inside = append(inside, strings.Join(lines, "\n"))
				}
				if len(inside) >= 6 {
					break
				}
			}
			c.Oracle("", "a call into the library did not return (the run registered nothing for a long time)",
				map[string]interface{}{"stalled_for_s": int(limit / time.Second), "goroutines_inside_the_library": inside}, "hang", "every call returns")
			c.Notes = append(c.Notes, "the run was cut short by the stall watchdog; cases after the stall were not run")
			return
		}
	}
}
