// gvh — the Go side of the verification machinery: fact extraction from /repo, generators,
// in-process execution of the real implementation, property oracles, correspondence with the Lean
// driver, replay.
package main

import (
	"flag"
	"fmt"
	"os"
	"sort"
	"strings"
)

type propRunner func(c *Ctx)

var runners = map[string]propRunner{}
var replayers = map[string]func(path string) int{}

// classifiers map a correspondence disagreement to a known-finding matcher key.
var classifiers = map[string]func(req, impl, model string) string{}

func classifyDisagreement(prop, req, impl, model string) string {
	if f, ok := classifiers[prop]; ok {
		return f(req, impl, model)
	}
	return ""
}

func main() {
	if len(os.Args) < 2 {
		fmt.Fprintln(os.Stderr, "usage: gvh extract <leandir> | run <Cxx> [flags] | list")
		os.Exit(2)
	}
	switch os.Args[1] {
	case "extract":
		os.Exit(extractMain(os.Args[2:]))
	case "list":
		var ids []string
		for k := range runners {
			ids = append(ids, k)
		}
		sort.Strings(ids)
		for _, k := range ids {
			fmt.Println(k)
		}
	case "run":
		fs := flag.NewFlagSet("run", flag.ExitOnError)
		tier := fs.String("tier", "quick", "quick|thorough")
		seed := fs.Int64("seed", 1, "seed")
		driver := fs.String("driver", "/verif/lean/.lake/build/bin/driver", "lean driver binary")
		out := fs.String("out", "-", "result json")
		prop := os.Args[2]
		fs.Parse(os.Args[3:])
		r, ok := runners[prop]
		if !ok {
			fmt.Fprintln(os.Stderr, "unknown property", prop)
			os.Exit(2)
		}
		c := NewCtx(prop, *tier, *seed, *driver)
		r(c)
		writeJSON(*out, c.Finish())
	case "eval":
		os.Exit(evalMain(strings.Join(os.Args[2:], " ")))
	case "worker":
		os.Exit(workerMain(os.Args[2:]))
	default:
		fmt.Fprintln(os.Stderr, "unknown command", os.Args[1])
		os.Exit(2)
	}
}
