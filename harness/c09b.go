package main

// C09: aliased lists for MergeNodeSlices — the SAME NODE OBJECT repeated within right, within left,
// and shared between left and right, with all three merge functions.  An implementation that
// tracks list elements by address instead of by position loses or duplicates such elements.

import "fmt"

func c09aliased(c *Ctx, tame, wild *c07gen) {
	r := c.R
	fns := []string{"eq", "always", "never"}
	// pinned: the same object twice in right, one occurrence merges
	x := T("NOTE", "x", "")
	for _, fn := range fns {
		c09sliceCaseA(c, fn, []*TNode{x.Clone()}, []*TNode{x.Clone(), x.Clone()}, "aliased-pinned right=[n,n]", []int{0, 1, 1})
		c09sliceCaseA(c, fn, []*TNode{x.Clone()}, []*TNode{x.Clone(), T("PLAC", "p", ""), x.Clone()}, "aliased-pinned right=[n,p,n]", []int{0, 1, 2, 1})
		c09sliceCaseA(c, fn, []*TNode{x.Clone(), x.Clone()}, []*TNode{x.Clone()}, "aliased-pinned left=[n,n]", []int{0, 0, 2})
		c09sliceCaseA(c, fn, []*TNode{x.Clone(), T("PLAC", "p", "")}, []*TNode{x.Clone()}, "aliased-pinned shared", []int{0, 1, 0})
	}
	n := c.N(150, 4000)
	for i := 0; i < n; i++ {
		g := tame
		if i%6 == 5 {
			g = wild
		}
		g.small = true
		elem := func() *TNode { return g.node(r.Intn(2)) }
		var a, b []*TNode
		for k := r.Intn(4); k > 0; k-- {
			a = append(a, elem())
		}
		for k := 1 + r.Intn(4); k > 0; k-- {
			switch {
			case len(a) > 0 && r.Chance(1, 2):
				b = append(b, a[r.Intn(len(a))].Clone()) // equal to a left element: will merge
			case len(a) > 0 && r.Chance(1, 3):
				b = append(b, c09related(g, a[r.Intn(len(a))]))
			default:
				b = append(b, elem())
			}
		}
		if c09needsDoc(append(append([]*TNode{}, a...), b...)) {
			continue
		}
		nl, nr := len(a), len(b)
		alias := make([]int, nl+nr)
		for j := range alias {
			alias[j] = j
		}
		kind := []string{"within-right", "within-right", "within-left", "shared", "any"}[i%5]
		switch kind {
		case "within-right": // one right element repeated 1..2 more times, at the end or in the middle
			src := nl + r.Intn(nr)
			for k := 1 + r.Intn(2); k > 0; k-- {
				pos := nl + nr
				b = append(b, b[src-nl])
				alias = append(alias, src)
				nr++
				if r.Bool() && pos-1 > src { // move the repeated element before the last one
					b[nr-1], b[nr-2] = b[nr-2], b[nr-1]
					alias[pos], alias[pos-1] = alias[pos-1], src
					if alias[pos] == pos-1 {
						alias[pos] = pos
					}
				}
			}
		case "within-left":
			if nl == 0 {
				a = append(a, elem())
				alias = append([]int{0}, alias...)
				for j := 1; j < len(alias); j++ {
					alias[j]++
				}
				nl++
			}
			// rebuild: append a repeat of a left element at the end of left
			src := r.Intn(nl)
			a = append(a, a[src])
			na := make([]int, 0, len(alias)+1)
			na = append(na, alias[:nl]...)
			na = append(na, src)
			for _, v := range alias[nl:] {
				if v >= nl {
					v++
				}
				na = append(na, v)
			}
			alias = na
			nl++
		case "shared":
			if nl == 0 {
				continue
			}
			src := r.Intn(nl)
			b = append(b, a[src])
			alias = append(alias, src)
			nr++
			if r.Bool() { // and once more
				b = append(b, a[src])
				alias = append(alias, src)
				nr++
			}
		default:
			for j := 1; j < len(alias); j++ {
				if r.Chance(1, 3) {
					alias[j] = alias[r.Intn(j)]
				}
			}
		}
		// normalise: alias[j] must point at the first occurrence
		for j := range alias {
			for alias[alias[j]] != alias[j] {
				alias[j] = alias[alias[j]]
			}
		}
		c.Count("aliased:" + kind)
		for _, fn := range fns {
			if fn != "eq" && i%3 != 0 {
				continue
			}
			c09sliceCaseA(c, fn, a, b, fmt.Sprintf("aliased %s %v", kind, alias), alias)
		}
	}
}

// c09deep: inputs with 8 .. 65 levels below the merged root (MergeNodes and MergeNodeSlices copy
// with DeepCopy / Filter, whose walk may keep a stack of its own: see harness/c07f.go).
func c09deep(c *Ctx, g *c07gen) {
	r := c.R
	for _, depth := range []int{7, 8, 9, 16, 17, 32, 33, 65} {
		for k := 0; k < c.N(1, 6); k++ {
			t, d := c07chain(r, g, depth, k%3), depth
			if !c07bounded(c, fmt.Sprintf("MergeNodes / MergeNodeSlices on a tree with %d levels", depth), t, func() {
				c09nodesCase(c, t, t.Clone(), fmt.Sprintf("deep-%d identical", d))
				c09nodesCase(c, t, T(t.Tag, t.Value, t.Ptr, g.node(1)), fmt.Sprintf("deep-%d left", d))
				c09nodesCase(c, T(t.Tag, t.Value, t.Ptr, g.node(1)), t, fmt.Sprintf("deep-%d right", d))
				c09sliceCase(c, "eq", t.Kids, []*TNode{g.node(1)}, fmt.Sprintf("deep-%d", d))
				c09sliceCase(c, "never", []*TNode{g.node(1)}, t.Kids, fmt.Sprintf("deep-%d", d))
			}) {
				return
			}
		}
	}
}

// c09declining: merge functions that decline with a typed nil pointer of a concrete node type
// (IsNil, but not == nil), and functions that merge only some pairs.
func c09declining(c *Ctx, g *c07gen) {
	r := c.R
	g.small = true
	// pinned: 2 + 2 distinct nodes, always declined with a typed nil
	for k := 0; k < 6; k++ {
		c09sliceCase(c, fmt.Sprintf("never:typed%d", k), []*TNode{T("NOTE", "a", ""), T("NOTE", "b", "")}, []*TNode{T("NOTE", "c", ""), T("NOTE", "d", "")}, "pinned typed-nil decline")
		c09sliceCase(c, fmt.Sprintf("eq:typed%d", k), []*TNode{T("NOTE", "a", ""), T("NOTE", "b", "")}, []*TNode{T("NOTE", "b", ""), T("NOTE", "d", "")}, "pinned typed-nil decline")
	}
	n := c.N(120, 3000)
	for i := 0; i < n; i++ {
		var a, b []*TNode
		elem := func() *TNode {
			t := g.node(r.Intn(2))
			if r.Chance(1, 3) {
				t.Ptr = r.Pick([]string{"P1", "X2", ""})
			}
			return t
		}
		for k := r.Intn(4); k > 0; k-- {
			a = append(a, elem())
		}
		for k := 1 + r.Intn(4); k > 0; k-- {
			if len(a) > 0 && r.Chance(1, 2) {
				b = append(b, c09related(g, a[r.Intn(len(a))]))
			} else {
				b = append(b, elem())
			}
		}
		if c09needsDoc(append(append([]*TNode{}, a...), b...)) {
			continue
		}
		k := r.Intn(6)
		for _, fn := range []string{"never", "eq", "sameptr", "evenlen"} {
			c09sliceCase(c, fmt.Sprintf("%s:typed%d", fn, k), a, b, "declining")
		}
		c09sliceCase(c, "sameptr", a, b, "declining")
		c09sliceCase(c, "evenlen", a, b, "declining")
	}
}
