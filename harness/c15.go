package main

// C15 — queries never crash.  Shared query machinery for C15 and C16: AST / token dumps for the
// correspondence, documents on the wire, the child-process evaluator (stack overflow and hangs
// cannot be recovered in-process), query generators.

import (
	"bufio"
	"bytes"
	"encoding/hex"
	"encoding/json"
	"fmt"
	"io"
	"math"
	"math/big"
	"os"
	"os/exec"
	"reflect"
	"runtime"
	"runtime/debug"
	"sort"
	"strconv"
	"strings"
	"sync"
	"time"

	"github.com/elliotchance/gedcom/v39"
	"github.com/elliotchance/gedcom/v39/html/core"
	"github.com/elliotchance/gedcom/v39/q"
)

// ---------------------------------------------------------------- dumps (correspondence of the syntax)

func c15dumpTokens(s string) string {
	ts := q.NewTokenizer().TokenizeString(s).Tokens
	var sb strings.Builder
	sb.WriteString(strconv.Itoa(len(ts)))
	for _, t := range ts {
		sb.WriteString(" " + hexs(string(t.Kind)) + ":" + hexs(t.Value))
	}
	return sb.String()
}

func c15dumpExpr(e q.Expression) string {
	switch x := e.(type) {
	case *q.ConstantExpr:
		return "C" + hexs(x.Value)
	case *q.AccessorExpr:
		return "A" + hexs(x.Query)
	case *q.VariableExpr:
		return "V" + hexs(x.Name)
	case *q.CallExpr:
		var as []string
		for _, a := range x.Args {
			as = append(as, c15dumpStmt(a))
		}
		return "F" + reflect.TypeOf(x.Function).Elem().Name() + "[" + strings.Join(as, ",") + "]"
	case *q.QuestionMarkExpr:
		return "Q"
	case *q.ObjectExpr:
		var keys []string
		for k := range x.Data {
			keys = append(keys, k)
		}
		sort.Strings(keys)
		var fs []string
		for _, k := range keys {
			fs = append(fs, hexs(k)+"="+c15dumpStmt(x.Data[k]))
		}
		return "O{" + strings.Join(fs, ",") + "}"
	case *q.BinaryExpr:
		return "B(" + c15dumpExpr(x.Left) + " " + x.Operator + " " + c15dumpExpr(x.Right) + ")"
	}
	return fmt.Sprintf("?%T", e)
}

func c15dumpStmt(s *q.Statement) string {
	var es []string
	for _, e := range s.Expressions {
		es = append(es, c15dumpExpr(e))
	}
	return "S" + hexs(s.VariableName) + "(" + strings.Join(es, "|") + ")"
}

func c15dumpEngine(e *q.Engine) string {
	var ss []string
	for _, s := range e.Statements {
		ss = append(ss, c15dumpStmt(s))
	}
	return strings.Join(ss, ";")
}

func c15parseObs(query string) (obs string) {
	defer func() {
		if r := recover(); r != nil {
			obs = "panic"
		}
	}()
	eng, err := q.NewParser().ParseString(query)
	if err != nil {
		return "error"
	}
	return "ok " + c15dumpEngine(eng)
}

// ---------------------------------------------------------------- documents

// c15Doc is a document as both sides see it: the abstract forest for the model and the GEDCOM
// text the real decoder reads (rendered here, not by the library's encoder).
type c15Doc struct {
	Forest []*TNode
	Text   string
}

func c15render(f []*TNode) string {
	var sb strings.Builder
	var walk func(t *TNode, lvl int)
	walk = func(t *TNode, lvl int) {
		sb.WriteString(strconv.Itoa(lvl))
		if t.Ptr != "" {
			sb.WriteString(" @" + t.Ptr + "@")
		}
		sb.WriteString(" " + t.Tag)
		if t.Value != "" {
			sb.WriteString(" " + t.Value)
		}
		sb.WriteString("\n")
		for _, k := range t.Kids {
			walk(k, lvl+1)
		}
	}
	for _, t := range f {
		walk(t, 0)
	}
	return sb.String()
}

func c15sameForest(a, b []*TNode) bool {
	if len(a) != len(b) {
		return false
	}
	for i := range a {
		if a[i].Tag != b[i].Tag || a[i].Value != b[i].Value || a[i].Ptr != b[i].Ptr || !c15sameForest(a[i].Kids, b[i].Kids) {
			return false
		}
	}
	return true
}

// c15mkDoc renders the forest and checks that the decoder reads back exactly this forest (the
// generators stay inside what the decoder preserves; anything else is dropped and counted).
func c15mkDoc(f []*TNode) (d *c15Doc, ok bool) {
	defer func() {
		if recover() != nil {
			ok = false
		}
	}()
	text := c15render(f)
	doc, err := gedcom.NewDocumentFromString(text)
	if err != nil {
		return nil, false
	}
	if !c15sameForest(abstractNodes(doc.Nodes()), f) {
		return nil, false
	}
	return &c15Doc{f, text}, true
}

var c15given = []string{"John", "Nan", "Inf", "Mary Ann", "  Bob  ", "Élise", "10", "9", "1e1", "x", "Infinity", "nan", "J  R   R", "0"}
var c15sur = []string{"Smith", "Doe", "NaN", "de la Cruz", "O'Neil", "10", "Smith ", "Ünal", ""}

var c15dates = []string{"3 Sep 1943", "Abt. 1900", "1850", "Bef. Oct 1943", "Mar 1901", "garbage", "Bet. 1990 and 1995", "(about noon)",
	"Aft. 3 Sep 1926", "1926", "1927", "Bef. 1800", "1 Jan 2020", "29 Feb 2000", "Dec 1999", "from 1901 to 1905", "31 Dec 1925", "2 Jan 1926"}
var c15places = []string{"Oldtown", "Sydney, Australia", "Paris", "Sydney, , NSW, Australia", "Paris, France", "a,b,c,d", "London, England.",
	", ,", "New York, USA", " Oslo , x, y , Norway ", "Somewhere in new zealand", "Georgia"}

func c15name(r *Rand) string {
	switch r.Intn(8) {
	case 0:
		return r.Pick(c15given)
	case 1:
		return "/" + r.Pick(c15sur) + "/"
	case 2:
		return r.Pick(c15given) + " /" + r.Pick(c15sur) + "/ Jr"
	case 3:
		return r.Pick(c15given) + " /" + r.Pick(c15sur)
	}
	return r.Pick(c15given) + " /" + r.Pick(c15sur) + "/"
}

// c15famDoc draws a family-graph document: individuals with 0–3 names (GIVN/SURN/NPFX/NSFX/TITL
// sub-nodes sometimes), optional SEX, events with dates and places, families, a few other
// records; pointers are unique.
func c15famDoc(r *Rand, maxInd int) []*TNode {
	var f []*TNode
	if r.Chance(3, 4) {
		f = append(f, T("HEAD", "", "", T("CHAR", "UTF-8", "")))
	}
	n := r.Intn(maxInd + 1)
	for i := 0; i < n; i++ {
		ind := T("INDI", "", fmt.Sprintf("I%d", i+1))
		for k := []int{1, 1, 1, 0, 2, 3}[r.Intn(6)]; k > 0; k-- {
			nm := T("NAME", c15name(r), "")
			if r.Chance(1, 4) {
				nm.Kids = append(nm.Kids, T("GIVN", r.Pick(c15given), ""))
			}
			if r.Chance(1, 4) {
				nm.Kids = append(nm.Kids, T("SURN", r.Pick(c15sur), ""))
			}
			if r.Chance(1, 8) {
				nm.Kids = append(nm.Kids, T("NPFX", r.Pick([]string{"Dr", "Sir", ""}), ""))
			}
			if r.Chance(1, 8) {
				nm.Kids = append(nm.Kids, T("NSFX", r.Pick([]string{"Esq.", "III"}), ""))
			}
			if r.Chance(1, 10) {
				nm.Kids = append(nm.Kids, T("TITL", "Duke", ""))
			}
			if r.Chance(1, 10) {
				nm.Kids = append(nm.Kids, T("SPFX", "van", ""))
			}
			ind.Kids = append(ind.Kids, nm)
		}
		if r.Chance(2, 3) {
			ind.Kids = append(ind.Kids, T("SEX", r.Pick([]string{"M", "F", "U", "X", ""}), ""))
		}
		for _, ev := range []string{"BIRT", "BIRT", "DEAT", "BAPM", "BAPL", "BURI", "RESI", "EVEN"} {
			if r.Chance(1, 3) {
				e := T(ev, "", "")
				for nd := []int{1, 1, 1, 0, 2}[r.Intn(5)]; nd > 0; nd-- {
					e.Kids = append(e.Kids, T("DATE", r.Pick(c15dates), ""))
				}
				if r.Chance(1, 2) {
					pl := T("PLAC", r.Pick(c15places), "")
					if r.Chance(1, 8) {
						pl.Kids = append(pl.Kids, T("FORM", r.Pick([]string{"City, County, State, Country", "a,b,c,Norway", ""}), ""))
					}
					e.Kids = append(e.Kids, pl)
				}
				ind.Kids = append(ind.Kids, e)
			}
		}
		if r.Chance(1, 6) {
			ind.Kids = append(ind.Kids, T("NOTE", "a note", "", T("CONT", "more", "")))
		}
		f = append(f, ind)
	}
	nf := 0
	if n > 0 {
		nf = r.Intn(n/2 + 2)
	}
	for i := 0; i < nf; i++ {
		fam := T("FAM", "", fmt.Sprintf("F%d", i+1))
		ref := func() string { // mostly a person of the file; sometimes dangling, of the wrong kind, or not a pointer
			switch r.Intn(14) {
			case 0:
				return "@I99@"
			case 1:
				return "@F1@"
			case 2:
				return r.Pick([]string{"I1", "@@", "@I1", "x", ""}) // not a pointer / an empty role value
			}
			return fmt.Sprintf("@I%d@", 1+r.Intn(n))
		}
		if r.Chance(3, 4) {
			fam.Kids = append(fam.Kids, T("HUSB", ref(), ""))
		}
		if r.Chance(3, 4) {
			fam.Kids = append(fam.Kids, T("WIFE", ref(), ""))
		}
		if r.Chance(1, 12) {
			fam.Kids = append(fam.Kids, T("HUSB", ref(), "")) // a second HUSB line: the first one counts
		}
		for k := r.Intn(4); k > 0; k-- {
			fam.Kids = append(fam.Kids, T("CHIL", ref(), ""))
		}
		if r.Chance(1, 4) {
			fam.Kids = append(fam.Kids, T(r.Pick([]string{"MARR", "DIV"}), "", "", T("DATE", r.Pick(c15dates), "")))
		}
		f = append(f, fam)
	}
	if r.Chance(1, 3) {
		f = append(f, T("SOUR", "", "S1", T("TITL", "A source", "")))
	}
	if n > 0 && r.Chance(1, 10) { // a second record with a pointer that is already taken
		f = append(f, T("INDI", "", fmt.Sprintf("I%d", 1+r.Intn(n)), T("NAME", "Dup /Licate/", "")))
	}
	if r.Chance(1, 2) {
		f = append(f, T("TRLR", "", ""))
	}
	return f
}

// c15faultyDocs: the C14 fault layer in small — a couple whose one side dangles / is a record of
// the wrong kind (Spouses() then holds a nil entry), empty role values, people without NAME,
// duplicate pointers.
func c15faultyDocs() [][]*TNode {
	indi := func(p, name string) *TNode {
		t := T("INDI", "", p)
		if name != "" {
			t.Kids = append(t.Kids, T("NAME", name, ""))
		}
		return t
	}
	return [][]*TNode{
		{indi("I1", "Ann /Lee/"), indi("I2", ""), T("FAM", "", "F1", T("HUSB", "@I1@", ""), T("WIFE", "@I9@", ""), T("CHIL", "@I2@", ""), T("CHIL", "@I7@", ""))},
		{indi("I1", "Ann /Lee/"), T("FAM", "", "F1", T("HUSB", "@F1@", ""), T("WIFE", "@I1@", ""), T("CHIL", "@F1@", ""))},
		{indi("I1", ""), indi("I2", "Bob /Ray/"), T("FAM", "", "F1", T("HUSB", "", ""), T("WIFE", "@I1@", ""), T("CHIL", "", "")), T("FAM", "", "F2", T("HUSB", "@I2@", ""), T("WIFE", "@I1@", ""))},
		{indi("I1", "Ann /Lee/"), indi("I1", "Other /Ann/"), indi("I2", "Bob /Ray/"), T("FAM", "", "F1", T("HUSB", "@I2@", ""), T("WIFE", "@I1@", "")), T("FAM", "", "F1", T("HUSB", "@I1@", ""))},
	}
}

// c15docPool: the empty document, tiny documents and random family graphs.
func c15docPool(c *Ctx, r *Rand, n, maxInd int) []*c15Doc {
	var pool []*c15Doc
	add := func(f []*TNode) {
		if d, ok := c15mkDoc(f); ok {
			pool = append(pool, d)
		} else {
			c.Count("doc=dropped(decoder does not preserve it)")
		}
	}
	add(nil)
	add([]*TNode{T("HEAD", "", "")})
	add([]*TNode{T("INDI", "", "I1")})
	add([]*TNode{T("INDI", "", "I1", T("NAME", "Nan /Doe/", ""), T("SEX", "F", "")), T("INDI", "", "I2", T("NAME", "John /Smith/", ""), T("NAME", "Jack /Smyth/", "")),
		T("FAM", "", "F1", T("HUSB", "@I2@", ""), T("WIFE", "@I1@", ""))})
	for _, f := range c15faultyDocs() { // pool[4..7]
		add(f)
	}
	for len(pool) < n {
		add(c15famDoc(r, maxInd))
	}
	return pool
}

// ---------------------------------------------------------------- child-process evaluator

type c15Job struct {
	Query string
	Docs  []int  // indexes into the pool
	Mode  string // "c" classes only, "j" classes and the JSON value
}

type c15Obs struct {
	Parse string // ok | error | panic
	Raw   string // value | error | panic   (the statements evaluated without Engine.Evaluate's own recover)
	Top   string // value | error | panic | fatal | timeout
	Fmt   string // five classes written|error|panic, or "-"
	JSON  string // canonical JSON of the value ("" unless mode j)
	Type  string // Go type of the value
	Err   string
	FmtCheck string // "" = every formatter wrote the whole result and reported writer errors; else what was wrong
	Reuse string // modes "r" / "f": "same", or how the reused engine / formatter differed from a fresh one
	Hist  string // mode "r": outcome classes of the evaluations of the one engine, in order
	Ast   string // mode "d" only: the syntax tree dump (parsed in the child: a parser that hangs must not hang the harness)
}

func (o c15Obs) line(mode string) string {
	if o.Parse != "ok" {
		if o.Parse == "error" {
			return "parse-error"
		}
		return "parse-" + o.Parse
	}
	s := fmt.Sprintf("raw=%s top=%s fmt=%s", o.Raw, o.Top, o.Fmt)
	if mode == "j" && o.Top == "value" {
		s += " json=" + o.JSON
	}
	return s
}

func c15canonJSON(v interface{}, sb *strings.Builder) {
	switch x := v.(type) {
	case nil:
		sb.WriteString("n")
	case bool:
		if x {
			sb.WriteString("t")
		} else {
			sb.WriteString("f")
		}
	case json.Number:
		sb.WriteString("i" + x.String())
	case string:
		sb.WriteString("s" + hexs(x))
	case []interface{}:
		sb.WriteString("[ ")
		for _, e := range x {
			c15canonJSON(e, sb)
			sb.WriteString(" ")
		}
		sb.WriteString("]")
	case map[string]interface{}:
		keys := make([]string, 0, len(x))
		for k := range x {
			keys = append(keys, k)
		}
		sort.Strings(keys)
		sb.WriteString("{ ")
		for _, k := range keys {
			sb.WriteString("k" + hexs(k) + " ")
			c15canonJSON(x[k], sb)
			sb.WriteString(" ")
		}
		sb.WriteString("}")
	default:
		fmt.Fprintf(sb, "?%T", v)
	}
}

func c15jsonOf(res interface{}) (out string) {
	defer func() {
		if r := recover(); r != nil {
			out = "marshal-panic"
		}
	}()
	b, err := json.Marshal(res)
	if err != nil {
		return "marshal-error"
	}
	dec := json.NewDecoder(bytes.NewReader(b))
	dec.UseNumber()
	var v interface{}
	if err := dec.Decode(&v); err != nil {
		return "decode-error"
	}
	var sb strings.Builder
	c15canonJSON(v, &sb)
	return strings.ReplaceAll(strings.ReplaceAll(sb.String(), "[ ]", "[  ]"), "{ }", "{  }")
}

// c15listShape (set per job by c15evalOne, modes "l:<shape>") selects the *document list* handed
// to Engine.Evaluate: "nil" / "empty" (no documents), "nildoc" ([nil]), "docnil" ([d, nil]),
// "nildocfirst" ([nil, d]), "new" ([NewDocument()]), "same" ([d, d], one pointer twice); "" = one
// decoded document per text.
var c15listShape string

func c15decodeAll(texts []string) []*gedcom.Document {
	one := func() *gedcom.Document {
		if len(texts) == 0 {
			return gedcom.NewDocument()
		}
		d, err := gedcom.NewDocumentFromString(texts[0])
		if err != nil {
			d = gedcom.NewDocument()
		}
		return d
	}
	switch c15listShape {
	case "nil":
		return nil
	case "empty":
		return []*gedcom.Document{}
	case "nildoc":
		return []*gedcom.Document{nil}
	case "docnil":
		return []*gedcom.Document{one(), nil}
	case "nildocfirst":
		return []*gedcom.Document{nil, one()}
	case "new":
		return []*gedcom.Document{gedcom.NewDocument()}
	case "same":
		d := one()
		return []*gedcom.Document{d, d}
	}
	var docs []*gedcom.Document
	for _, t := range texts {
		d, err := gedcom.NewDocumentFromString(t)
		if err != nil {
			d = gedcom.NewDocument()
		}
		docs = append(docs, d)
	}
	return docs
}

// c15evalRaw repeats the loop of Engine.Evaluate on a fresh engine without any recover of the
// library in between: document variables first, every statement on the first document, the last
// statement once more.
func c15evalRaw(query string, texts []string) (cls string) {
	defer func() {
		if r := recover(); r != nil {
			cls = "panic"
		}
	}()
	eng, err := q.NewParser().ParseString(query)
	if err != nil {
		return "parse-error"
	}
	docs := c15decodeAll(texts)
	for i, d := range docs {
		eng.Statements = append([]*q.Statement{{VariableName: fmt.Sprintf("Document%d", i+1),
			Expressions: []q.Expression{&q.ValueExpr{Value: d}}}}, eng.Statements...)
	}
	for _, s := range eng.Statements {
		if _, err := s.Evaluate(eng, docs[0]); err != nil {
			return "error"
		}
	}
	if _, err := eng.Statements[len(eng.Statements)-1].Evaluate(eng, docs[0]); err != nil {
		return "error"
	}
	return "value"
}

func c15fmtClass(f q.Formatter, res interface{}) (cls string) {
	defer func() {
		if r := recover(); r != nil {
			cls = "panic"
		}
	}()
	if err := f.Write(res); err != nil {
		return "error"
	}
	return "written"
}

// c15evalOne runs one job in this process (only ever called inside a worker child).
// c15classJSON evaluates with the given engine and renders class + canonical JSON.
func c15classJSON(eng *q.Engine, texts []string) (s string) {
	defer func() {
		if r := recover(); r != nil {
			s = "panic"
		}
	}()
	res, err := eng.Evaluate(c15decodeAll(texts))
	if err != nil {
		return "error"
	}
	return "value " + c15jsonOf(res)
}

// c15engineMarks reads the number of names left in the engine's recursion-guard set
// (`evaluating`, unexported) by reflection; -1 when the engine has no such field.
func c15engineMarks(eng *q.Engine) (n int) {
	defer func() {
		if recover() != nil {
			n = -1
		}
	}()
	f := reflect.ValueOf(eng).Elem().FieldByName("evaluating")
	if !f.IsValid() || f.Kind() != reflect.Map {
		return -1
	}
	return f.Len()
}

// c15reuseEngine (mode "r", documents d0 … dk): one compiled query evaluated on d0, d1, … d(k-1)
// in turn and then twice on dk; every evaluation must give what a freshly compiled query gives on
// that document (so an evaluation that fails — because of the document, of a variable referenced
// before its definition, of an ill-typed item — must leave nothing behind in the engine), and
// after every evaluation, whatever its outcome, the recursion-guard set must be empty and the
// statement list must be the parsed one. The second result is the history of outcome classes.
func c15reuseEngine(query string, texts []string) (string, string) {
	eng, err := q.NewParser().ParseString(query)
	if err != nil || len(texts) < 2 {
		return "same", ""
	}
	nStatements := len(eng.Statements)
	var hist []string
	steps := make([]int, 0, len(texts)+1)
	for i := range texts {
		steps = append(steps, i)
	}
	steps = append(steps, len(texts)-1)
	for k, i := range steps {
		got := c15classJSON(eng, texts[i:i+1])
		hist = append(hist, strings.SplitN(got, " ", 2)[0])
		fresh, _ := q.NewParser().ParseString(query)
		want := c15classJSON(fresh, texts[i:i+1])
		h := strings.Join(hist, ",")
		if got != want {
			return fmt.Sprintf("evaluation %d of one compiled query (outcomes so far: %s), on document %d: %s / fresh: %s", k+1, h, i+1, got, want), h
		}
		if m := c15engineMarks(eng); m > 0 {
			return fmt.Sprintf("after evaluation %d (outcomes so far: %s) %d variable(s) are still marked as being evaluated in the engine", k+1, h, m), h
		}
		if len(eng.Statements) != nStatements {
			return fmt.Sprintf("after evaluation %d (outcomes so far: %s) the engine has %d statements, parsed: %d", k+1, h, len(eng.Statements), nStatements), h
		}
	}
	return "same", strings.Join(hist, ",")
}

// c15reuseFormatters (mode "f", query = q1 \x01 q2): each formatter writes the result of q1 and
// then the result of q2; what it writes for q2 must be what a fresh formatter writes.
func c15reuseFormatters(query string, texts []string) (out string) {
	defer func() {
		if r := recover(); r != nil {
			out = fmt.Sprintf("panic: %v", r)
		}
	}()
	qs := strings.SplitN(query, "\x01", 2)
	if len(qs) != 2 {
		return "same"
	}
	var results []interface{}
	for _, qq := range qs {
		eng, err := q.NewParser().ParseString(qq)
		if err != nil {
			return "same"
		}
		res, err := eng.Evaluate(c15decodeAll(texts))
		if err != nil {
			return "same"
		}
		results = append(results, res)
	}
	mk := func(name string, w io.Writer) q.Formatter {
		switch name {
		case "json":
			return &q.JSONFormatter{Writer: w}
		case "pretty-json":
			return &q.PrettyJSONFormatter{Writer: w}
		case "csv":
			return &q.CSVFormatter{Writer: w}
		case "gedcom":
			return &q.GEDCOMFormatter{Writer: w}
		}
		return &q.HTMLFormatter{Writer: w}
	}
	for _, name := range []string{"json", "pretty-json", "csv", "gedcom", "html"} {
		var reused, fresh bytes.Buffer
		f := mk(name, &reused)
		c15fmtClass(f, results[0])
		mark := reused.Len()
		c1 := c15fmtClass(f, results[1])
		c2 := c15fmtClass(mk(name, &fresh), results[1])
		if c1 != c2 || !bytes.Equal(reused.Bytes()[mark:], fresh.Bytes()) {
			return "formatter " + name + " reused after another result: " + c1 + " / fresh: " + c2
		}
	}
	return "same"
}

func c15evalOne(query string, texts []string, mode string) (o c15Obs) {
	c15listShape = ""
	if strings.HasPrefix(mode, "l:") {
		c15listShape = mode[2:]
		mode = "c"
	}
	if mode == "f" {
		o.Parse, o.Raw, o.Top, o.Fmt = "ok", "-", "-", "-"
		o.Reuse = c15reuseFormatters(query, texts)
		return
	}
	if mode == "r" {
		o.Reuse, o.Hist = c15reuseEngine(query, texts)
		if len(texts) > 1 {
			texts = texts[len(texts)-1:]
		}
		mode = "j"
	}
	func() {
		defer func() {
			if r := recover(); r != nil {
				o.Parse = "panic"
			}
		}()
		if _, err := q.NewParser().ParseString(query); err != nil {
			o.Parse = "error"
		} else {
			o.Parse = "ok"
		}
	}()
	if mode == "d" {
		o.Ast = c15parseObs(query)
	}
	if o.Parse != "ok" {
		return
	}
	o.Raw = c15evalRaw(query, texts)
	var res interface{}
	func() {
		defer func() {
			if r := recover(); r != nil {
				o.Top = "panic"
				o.Err = fmt.Sprint(r)
			}
		}()
		eng, _ := q.NewParser().ParseString(query)
		var err error
		res, err = eng.Evaluate(c15decodeAll(texts))
		if err != nil {
			o.Top = "error"
			o.Err = err.Error()
			if len(o.Err) > 120 {
				o.Err = o.Err[:120]
			}
		} else {
			o.Top = "value"
		}
	}()
	o.Fmt = "-"
	if o.Top == "value" {
		o.Type = fmt.Sprintf("%T", res)
		w := io.Discard
		o.Fmt = strings.Join([]string{
			c15fmtClass(&q.JSONFormatter{Writer: w}, res),
			c15fmtClass(&q.PrettyJSONFormatter{Writer: w}, res),
			c15fmtClass(&q.CSVFormatter{Writer: w}, res),
			c15fmtClass(&q.GEDCOMFormatter{Writer: w}, res),
			c15fmtClass(&q.HTMLFormatter{Writer: w}, res)}, ",")
		if mode == "j" {
			o.JSON = c15jsonOf(res)
		}
		o.FmtCheck = c15fmtCompleteness(res)
	}
	return
}

type c15formatterKind struct {
	name string
	mk   func(w io.Writer) q.Formatter
}

var c15formatterKinds = []c15formatterKind{
	{"json", func(w io.Writer) q.Formatter { return &q.JSONFormatter{Writer: w} }},
	{"pretty-json", func(w io.Writer) q.Formatter { return &q.PrettyJSONFormatter{Writer: w} }},
	{"csv", func(w io.Writer) q.Formatter { return &q.CSVFormatter{Writer: w} }},
	{"gedcom", func(w io.Writer) q.Formatter { return &q.GEDCOMFormatter{Writer: w} }},
	{"html", func(w io.Writer) q.Formatter { return &q.HTMLFormatter{Writer: w} }},
}

// c15failWriter accepts failAt-1 calls of Write and refuses every later one.
type c15failWriter struct {
	failAt, calls int
	failed        bool
}

func (w *c15failWriter) Write(p []byte) (int, error) {
	w.calls++
	if w.calls >= w.failAt {
		w.failed = true
		return 0, fmt.Errorf("writer refuses write number %d", w.calls)
	}
	return len(p), nil
}

func c15fmtBytes(k c15formatterKind, res interface{}) (cls string, out []byte) {
	var buf bytes.Buffer
	cls = c15fmtClass(k.mk(&buf), res)
	return cls, buf.Bytes()
}

// c15fmtCompleteness: "writes it" means the whole result, and a result that could not be written is
// an error.  Without a model of the formats: a list of n elements must decode to n JSON values,
// give n CSV rows below the header, and its GEDCOM / HTML output must be the outputs of its
// elements one after the other; a writer that refuses its k-th Write must make Write return an error.
func c15fmtCompleteness(res interface{}) (problem string) {
	defer func() {
		if r := recover(); r != nil {
			problem = fmt.Sprintf("completeness check panicked: %v", r)
		}
	}()
	v := reflect.ValueOf(res)
	isList := res != nil && v.Kind() == reflect.Slice && !v.IsNil()
	n := 0
	if isList {
		n = v.Len()
	}
	_, isComponent := res.(core.Component)
	for _, k := range c15formatterKinds {
		cls, out := c15fmtBytes(k, res)
		if cls == "written" && isList && n <= 300 {
			switch k.name {
			case "json", "pretty-json":
				var dec interface{}
				if err := json.Unmarshal(out, &dec); err != nil {
					return k.name + ": the output is not JSON"
				}
				if l, ok := dec.([]interface{}); !ok || len(l) != n {
					return fmt.Sprintf("%s: a list of %d elements was written as %d JSON values", k.name, n, len(l))
				}
			case "csv":
				// the header and the first row, then for every further element the row it adds to them
				pair := func(i int) ([]byte, bool) {
					sl := reflect.MakeSlice(v.Type(), 0, 2)
					sl = reflect.Append(sl, v.Index(0))
					if i > 0 {
						sl = reflect.Append(sl, v.Index(i))
					}
					c, o := c15fmtBytes(k, sl.Interface())
					return o, c == "written"
				}
				if n >= 1 {
					head, ok := pair(0)
					want := append([]byte{}, head...)
					for i := 1; i < n && ok; i++ {
						var o []byte
						if o, ok = pair(i); ok {
							if ok = bytes.HasPrefix(o, head); ok {
								want = append(want, o[len(head):]...)
							}
						}
					}
					if ok && !bytes.Equal(want, out) {
						return fmt.Sprintf("csv: the output of a list of %d elements (%d bytes) is not the header and one row per element (%d bytes)", n, len(out), len(want))
					}
				}
			case "gedcom", "html":
				if k.name == "html" && isComponent {
					break
				}
				var parts []byte
				ok := true
				for i := 0; i < n && ok; i++ {
					c, o := c15fmtBytes(k, v.Index(i).Interface())
					ok = c == "written"
					parts = append(parts, o...)
				}
				if ok && !bytes.Equal(parts, out) {
					return fmt.Sprintf("%s: the output of a list of %d elements (%d bytes) is not the outputs of its elements one after the other (%d bytes)", k.name, n, len(out), len(parts))
				}
			}
		}
	}
	// second pass (so that a known writer-error finding of one formatter cannot hide an incomplete
	// output of another): a refused write must be reported
	for _, k := range c15formatterKinds {
		if cls, _ := c15fmtBytes(k, res); cls == "panic" {
			continue // reported by the class oracle
		}
		for failAt := 1; failAt <= 3; failAt++ {
			w := &c15failWriter{failAt: failAt}
			if c := c15fmtClass(k.mk(w), res); w.failed && c == "written" {
				return fmt.Sprintf("%s: Write returns nil although the writer failed on its write number %d", k.name, failAt)
			}
		}
	}
	return ""
}

// worker protocol (stdin): "doc <hex gedcom>" defines the next document id (0,1,…);
// "job <mode> <docid,docid> <hex query>" is answered by one line "<json of c15Obs>", flushed, so
// the parent knows which job a dying child was working on.
func c15workerMain(args []string) int {
	// unbounded recursion should hit the limit quickly (Go's default of 1 GB takes seconds to fill)
	debug.SetMaxStack(128 << 20)
	in := bufio.NewReaderSize(os.Stdin, 1<<20)
	out := bufio.NewWriter(os.Stdout)
	var texts []string
	for {
		line, err := in.ReadString('\n')
		line = strings.TrimRight(line, "\n")
		if line != "" {
			parts := strings.Split(line, " ")
			switch parts[0] {
			case "doc":
				texts = append(texts, unhex(parts[1]))
			case "job":
				var dt []string
				for _, id := range strings.Split(parts[2], ",") {
					if id == "-" || id == "" { // no documents
						continue
					}
					n, _ := strconv.Atoi(id)
					dt = append(dt, texts[n])
				}
				o := c15evalOne(unhex(parts[3]), dt, parts[1])
				b, _ := json.Marshal(o)
				out.Write(b)
				out.WriteByte('\n')
				out.Flush()
			}
		}
		if err != nil {
			return 0
		}
	}
}

func init() { workers["c15eval"] = c15workerMain }

// c15runChunk feeds jobs[lo:hi] to one child; when the child dies or stalls, the job it was
// working on is re-run alone to confirm (fatal / timeout) and a new child takes the rest.
func c15runChunk(pool []*c15Doc, jobs []c15Job, res []c15Obs, lo, hi int, perJob time.Duration) {
	bin := os.Getenv("GVH_BIN")
	if bin == "" {
		bin, _ = os.Executable()
	}
	runFrom := func(start, end int, perJob time.Duration) (done int, cause string) {
		cmd := exec.Command(bin, "worker", "c15eval")
		cmd.Env = append(os.Environ(), "GOMEMLIMIT=3GiB", "GOMAXPROCS=2")
		stdin, _ := cmd.StdinPipe()
		stdout, _ := cmd.StdoutPipe()
		cmd.Stderr = io.Discard
		if err := cmd.Start(); err != nil {
			return start, "spawn"
		}
		go func() {
			w := bufio.NewWriterSize(stdin, 1<<20)
			for _, d := range pool {
				fmt.Fprintf(w, "doc %s\n", hexs(d.Text))
			}
			for i := start; i < end; i++ {
				ids := make([]string, len(jobs[i].Docs))
				for k, d := range jobs[i].Docs {
					ids[k] = strconv.Itoa(d)
				}
				idList := strings.Join(ids, ",")
				if idList == "" {
					idList = "-"
				}
				fmt.Fprintf(w, "job %s %s %s\n", jobs[i].Mode, idList, hexs(jobs[i].Query))
			}
			w.Flush()
			stdin.Close()
		}()
		lines := make(chan string, 256)
		go func() {
			sc := bufio.NewScanner(stdout)
			sc.Buffer(make([]byte, 1<<20), 1<<28)
			for sc.Scan() {
				lines <- sc.Text()
			}
			close(lines)
		}()
		next := start
		timer := time.NewTimer(perJob)
		defer timer.Stop()
		for next < end {
			select {
			case l, ok := <-lines:
				if !ok {
					cmd.Wait()
					return next, "fatal"
				}
				var o c15Obs
				if json.Unmarshal([]byte(l), &o) == nil {
					res[next] = o
				} else {
					res[next] = c15Obs{Parse: "ok", Raw: "?", Top: "garbled"}
				}
				next++
				if !timer.Stop() {
					select {
					case <-timer.C:
					default:
					}
				}
				timer.Reset(perJob)
			case <-timer.C:
				cmd.Process.Kill()
				cmd.Wait()
				return next, "timeout"
			}
		}
		cmd.Process.Kill()
		cmd.Wait()
		return next, ""
	}
	pos := lo
	for pos < hi {
		done, cause := runFrom(pos, hi, perJob)
		pos = done
		if cause == "" || pos >= hi {
			break
		}
		// the job at `pos` killed or stalled the child: confirm alone, with a limit that a loaded
		// machine cannot reach on the unchanged tree (three times the limit, at least 60 s)
		confirm := 3 * perJob
		if confirm < 60*time.Second {
			confirm = 60 * time.Second
		}
		d2, cause2 := runFrom(pos, pos+1, confirm)
		if d2 == pos {
			if cause2 == "" {
				cause2 = cause
			}
			res[pos] = c15Obs{Parse: "ok", Raw: cause2, Top: cause2, Fmt: "-"}
		}
		pos++
	}
}

// c15runJobs evaluates all jobs in child processes, in parallel chunks.
func c15runJobs(pool []*c15Doc, jobs []c15Job, perJob time.Duration) []c15Obs {
	return c15runJobsMin(pool, jobs, perJob, 200)
}

// c15runJobsMin: as c15runJobs with a given minimal chunk size (1 = every job may get its own child,
// for the few jobs that are expected to be able to hang).
func c15runJobsMin(pool []*c15Doc, jobs []c15Job, perJob time.Duration, minChunk int) []c15Obs {
	res := make([]c15Obs, len(jobs))
	nw := runtime.NumCPU()
	if nw > 12 {
		nw = 12
	}
	chunk := (len(jobs) + nw*4 - 1) / (nw * 4)
	if chunk < minChunk {
		chunk = minChunk
	}
	var wg sync.WaitGroup
	sem := make(chan struct{}, nw)
	for lo := 0; lo < len(jobs); lo += chunk {
		hi := lo + chunk
		if hi > len(jobs) {
			hi = len(jobs)
		}
		wg.Add(1)
		go func(lo, hi int) {
			defer wg.Done()
			sem <- struct{}{}
			defer func() { <-sem }()
			c15runChunk(pool, jobs, res, lo, hi, perJob)
		}(lo, hi)
	}
	wg.Wait()
	return res
}

func c15docsWire(pool []*c15Doc, ids []int) string {
	var sb strings.Builder
	sb.WriteString(strconv.Itoa(len(ids)))
	for _, id := range ids {
		sb.WriteString(" " + encForest(pool[id].Forest))
	}
	return sb.String()
}

// c15year is the current year the implementation reads from the clock (IndividualNode.IsLiving);
// it is an explicit input of the model.
var c15year = strconv.Itoa(time.Now().Year())

func c15req(pool []*c15Doc, j c15Job) string {
	if j.Mode == "d" || strings.HasPrefix(j.Mode, "l:") {
		if j.Mode == "l:same" && len(j.Docs) == 1 {
			j.Docs = []int{j.Docs[0], j.Docs[0]}
		}
		j.Mode = "c"
	}
	if j.Mode == "r" { // the model sees what a fresh engine sees: the last document of the history only
		j.Mode = "j"
		if len(j.Docs) > 1 {
			j.Docs = j.Docs[len(j.Docs)-1:]
		}
	}
	return "qeval " + j.Mode + " " + c15year + " " + hexs(j.Query) + " " + c15docsWire(pool, j.Docs)
}

// ---------------------------------------------------------------- query generators

// c15alphabet is the token alphabet of the exhaustive enumeration: every token kind, accessors
// inside and outside the menu, every built-in, a variable, the statement words.
var c15alphabet = []string{".Individuals", ".Name", ".Nodes", ".Foo", "X", "is", "First", "Only", "Combine", "Length",
	"NodesWithTagPath", "?", "(", ")", "{", "}", ":", ",", "|", ";", "=", "!", "<", "1", `"a"`}

var c15alphabetSmall = []string{".Individuals", ".Names", "X", "is", "Last", "Only", "Combine", "?", "(", ")", "{", "}", ":", ",", "|", ";", "=", ">", "2"}

func c15enumerate(alpha []string, n int, emit func(string)) {
	idx := make([]int, n)
	for {
		parts := make([]string, n)
		for i, k := range idx {
			parts[i] = alpha[k]
		}
		emit(strings.Join(parts, " "))
		i := n - 1
		for i >= 0 {
			idx[i]++
			if idx[i] < len(alpha) {
				break
			}
			idx[i] = 0
			i--
		}
		if i < 0 {
			return
		}
	}
}

// c15reflectAccessors lists every method name reflection finds on the document, on every node
// type, on gedcom.Tag and on the named slice types.
func c15reflectAccessors() []string {
	seen := map[string]bool{}
	add := func(t reflect.Type) {
		for i := 0; i < t.NumMethod(); i++ {
			seen[t.Method(i).Name] = true
		}
	}
	add(reflect.TypeOf(&gedcom.Document{}))
	add(reflect.PtrTo(reflect.TypeOf(gedcom.Tag{})))
	for _, t := range c15nodeTypes() {
		add(t)
		for i := 0; i < t.NumMethod(); i++ {
			m := t.Method(i)
			if m.Type.NumOut() > 0 {
				ot := m.Type.Out(0)
				for ot.Kind() == reflect.Slice {
					if ot.Name() != "" {
						add(reflect.PtrTo(ot))
					}
					ot = ot.Elem()
				}
				if ot.Kind() == reflect.Struct && ot.PkgPath() == c15nodeIface.PkgPath() {
					add(reflect.PtrTo(ot))
				}
			}
		}
	}
	var names []string
	for n := range seen {
		names = append(names, n)
	}
	sort.Strings(names)
	return names
}

var c15menu = []string{"Individuals", "Families", "Nodes", "Tag", "Value", "Pointer", "Name", "Names", "Sex", "String", "GivenName", "Surname"}

type c15Gen struct {
	r    *Rand
	accs []string // accessor vocabulary
	vars []string
}

func (g *c15Gen) constant() string {
	return g.r.Pick([]string{"0", "1", "2", "3", "7", `"a"`, `"Nan"`, `"John"`, `"BIRT"`, `"DATE"`, `"NAME"`, `"-1"`, `"10"`, `"x y"`, `""`, `"M"`})
}

func (g *c15Gen) accessor() string {
	if g.r.Chance(2, 3) {
		return "." + g.r.Pick(c15menu)
	}
	return "." + g.r.Pick(g.accs)
}

func (g *c15Gen) stmt(d int) string {
	n := 1
	if d > 0 {
		n = 1 + g.r.Intn(3)
	}
	var es []string
	for i := 0; i < n; i++ {
		es = append(es, g.expr(d))
	}
	return strings.Join(es, " | ")
}

func (g *c15Gen) primary(d int) string {
	k := g.r.Intn(20)
	if d <= 0 && k >= 8 {
		k = g.r.Intn(8)
	}
	switch {
	case k < 6:
		return g.accessor()
	case k < 7:
		return g.constant()
	case k < 8:
		return g.r.Pick([]string{"Length", "?", "Combine", "First", "Only", "NodesWithTagPath", "Document1", "Document2", "Nope"})
	case k < 10:
		return g.r.Pick([]string{"First", "Last"}) + "(" + g.r.Pick([]string{"0", "1", "2", "3", "5", `"-1"`, `"x"`, "Length", g.stmt(d - 1)}) + ")"
	case k < 12:
		return "Only(" + g.stmt(d-1) + ")"
	case k < 13:
		n := 1 + g.r.Intn(3)
		var as []string
		for i := 0; i < n; i++ {
			as = append(as, g.stmt(d-1))
		}
		return "Combine(" + strings.Join(as, ", ") + ")"
	case k < 14:
		n := 1 + g.r.Intn(2)
		var as []string
		for i := 0; i < n; i++ {
			as = append(as, g.r.Pick([]string{`"BIRT"`, `"DATE"`, `"NAME"`, `"GIVN"`, `"PLAC"`, "1", g.stmt(d - 1)}))
		}
		return "NodesWithTagPath(" + strings.Join(as, ", ") + ")"
	case k < 16:
		n := g.r.Intn(3)
		var fs []string
		for i := 0; i < n; i++ {
			fs = append(fs, g.r.Pick([]string{"a", "b", "name"})+": "+g.stmt(d-1))
		}
		return "{" + strings.Join(fs, ", ") + "}"
	case k < 17:
		if len(g.vars) > 0 {
			return g.r.Pick(g.vars)
		}
		return "Length"
	case k < 18:
		return g.r.Pick([]string{"Length", "First", "Last", "Only", "MergeDocumentsAndIndividuals"}) + "(" + g.stmt(d-1) + ", " + g.stmt(d-1) + ")"
	}
	return g.accessor()
}

func (g *c15Gen) expr(d int) string {
	p := g.primary(d)
	if g.r.Chance(1, 5) {
		p += " " + g.r.Pick([]string{"=", "!=", ">", "<", ">=", "<="}) + " " + g.primary(d-1)
	}
	return p
}

// program: optional variable definitions (sometimes cyclic, sometimes shadowed), then a result.
func (g *c15Gen) program(d int) string {
	g.vars = nil
	var ss []string
	nv := []int{0, 0, 0, 1, 2, 3}[g.r.Intn(6)]
	names := []string{"X", "Y", "Names", "X", "Document1", "Document2", "Documents", "DocumentA", "_", "Length1"}
	for i := 0; i < nv; i++ {
		name := names[g.r.Intn(len(names))]
		if g.r.Chance(1, 6) {
			g.vars = append(g.vars, name) // the definition may refer to itself or to later ones
		}
		ss = append(ss, name+" "+g.r.Pick([]string{"is", "are"})+" "+g.stmt(d))
		g.vars = append(g.vars, name)
	}
	ss = append(ss, g.stmt(d))
	return strings.Join(ss, "; ")
}

var c15varNames = []string{"Document1", "Document2", "Document3", "Document", "Documents", "DocumentA", "DocumentB", "document1", "Doc", "X", "_", "_1", "X9", "is", "are",
	"Individuals", "Name", "Tag", "nil", "Lengths", "first", "Only1"}

// N = the name, M = another name
var c15cycleTemplates = []string{"N is N; N", "N are N | Length; N", "N is M; M is N; N", "N is M; M is N; .Individuals | Only(N)", "N is .Individuals | Only(N); N",
	"N is {a: N}; N", "N is Combine(N); N", "N is 1 = N; N", "N is N; 1", "N is .Individuals | {a: M}; M is N | Length; N", "N is First(N); .Individuals | N",
	"N is .Individuals; N | Length", "N is M; M is .Individuals | Length; N", "N is Only(N); N", "N is NodesWithTagPath(N); .Individuals | N"}

var c15bigSources = []string{".Individuals", ".Families", ".Nodes", ".Individuals | .Name", ".Individuals | .Pointer", ".Individuals | .Names"}

// conditions for Only(…): most of them panic inside package reflect (recovered by Evaluate into an
// error), some return an error, some are fine
var c15illTyped = []string{".Nodes | .Tag", "Combine(1)", `First("-1")`, `Last("-1")`, ".Names | .GivenName", "Combine | ?", `"a" | NodesWithTagPath("X")`, "NodesWithTagPath",
	"Combine(.Names, .Pointer)", ".Names | {}", ".Foo", "Nope", "First", "1 = 1", `.Pointer = "I64"`, ".Name | .GivenName = \"G64\"", ".Nodes | .Nodes | .Nodes", "Only(Combine(1))"}

// c15bigDoc: n individuals (NAME, SEX), n families, so that .Individuals, .Families and .Nodes all
// have at least n elements.
func c15bigDoc(n int) []*TNode {
	f := []*TNode{T("HEAD", "", "")}
	for i := 1; i <= n; i++ {
		f = append(f, T("INDI", "", fmt.Sprintf("I%d", i), T("NAME", fmt.Sprintf("G%d /S%d/", i, i%7), ""), T("SEX", []string{"M", "F"}[i%2], "")))
	}
	for i := 1; i <= n; i++ {
		f = append(f, T("FAM", "", fmt.Sprintf("F%d", i), T("HUSB", fmt.Sprintf("@I%d@", i), ""), T("WIFE", fmt.Sprintf("@I%d@", i%n+1), "")))
	}
	return append(f, T("TRLR", "", ""))
}

// c15deepQueries: queries whose nesting depth is d.
func c15deepQueries(d int) []string {
	nest := func(open, close, core string) string {
		return strings.Repeat(open, d) + core + strings.Repeat(close, d)
	}
	mixed := "1"
	for i := 0; i < d; i++ {
		if i%2 == 0 {
			mixed = "First(" + mixed + ")"
		} else {
			mixed = "{a: " + mixed + "}"
		}
	}
	return []string{
		nest("First(", ")", "1"),
		".Individuals | " + nest("Only(", ")", "1 = 1"),
		nest("{a: ", "}", "1"),
		mixed,
		nest("Combine(", ")", ".Individuals") + " | Length",
		".Individuals | " + nest("NodesWithTagPath(", ")", `"NAME"`),
		strings.Repeat("1 = ", d) + "1",
		".Individuals | " + nest("{n: .Name | ", "}", ".String"),
	}
}

// where lists of nodes of one type come from (tag paths below the individuals / families)
var c15kindSources = func() []struct{ kind, query string } {
	out := []struct{ kind, query string }{{"IndividualNode", ".Individuals"}, {"FamilyNode", ".Families"}, {"NameNode", ".Individuals | .Name"},
		{"NameNode", `.Individuals | NodesWithTagPath("NAME")`}, {"SexNode", ".Individuals | .Sex"}, {"HusbandNode", ".Families | .Husband"}, {"WifeNode", ".Families | .Wife"},
		{"ChildNode", `.Families | NodesWithTagPath("CHIL")`}, {"NoteNode", `.Individuals | NodesWithTagPath("NOTE")`}, {"SourceNode", `.Nodes | Only(.Tag | .Tag = "SOUR")`},
		{"DateNode", ".Individuals | .Birth"}, {"DateNode", ".Individuals | .Death"}}
	for ev, kind := range map[string]string{"BIRT": "BirthNode", "DEAT": "DeathNode", "BAPM": "BaptismNode", "BURI": "BurialNode", "RESI": "ResidenceNode", "EVEN": "EventNode"} {
		p := `.Individuals | NodesWithTagPath("` + ev + `"`
		out = append(out, struct{ kind, query string }{kind, p + ")"}, struct{ kind, query string }{"PlaceNode", p + `, "PLAC")`},
			struct{ kind, query string }{"DateNode", p + `, "DATE")`}, struct{ kind, query string }{"TypeNode", p + `, "TYPE")`},
			struct{ kind, query string }{"MapNode", p + `, "PLAC", "MAP")`}, struct{ kind, query string }{"FormatNode", p + `, "PLAC", "FORM")`},
			struct{ kind, query string }{"LatitudeNode", p + `, "PLAC", "MAP", "LATI")`}, struct{ kind, query string }{"LongitudeNode", p + `, "PLAC", "MAP", "LONG")`})
	}
	sort.Slice(out, func(i, j int) bool { return out[i].query < out[j].query })
	return out
}()

// c15nilCellDocs: places with and without MAP / FORM, maps with and without LATI / LONG, events
// with and without TYPE / DATE / PLAC, people without birth, death, sex or name, families without
// husband or wife — so that every pointer-valued accessor is nil for some rows and not for others.
func c15nilCellDocs() [][]*TNode {
	full := T("PLAC", "Sydney, , NSW, Australia", "", T("FORM", "City, County, State, Country", ""), T("MAP", "", "", T("LATI", "S33.8", ""), T("LONG", "E151.2", "")), T("NOTE", "harbour", ""))
	noMap := T("PLAC", "Paris, France", "")
	emptyMap := T("PLAC", "Oslo", "", T("MAP", "", ""))
	halfMap := T("PLAC", "Rome", "", T("MAP", "", "", T("LATI", "N41.9", "")), T("FORM", "", ""))
	indi1 := T("INDI", "", "I1", T("NAME", "Ann /Lee/", "", T("GIVN", "Ann", "")), T("SEX", "F", ""),
		T("BIRT", "", "", T("TYPE", "hospital", ""), T("DATE", "3 Sep 1943", ""), full.Clone()),
		T("DEAT", "", "", T("DATE", "1 Jan 2000", ""), noMap.Clone()),
		T("RESI", "", "", emptyMap.Clone()), T("EVEN", "", "", T("TYPE", "moved", ""), halfMap.Clone()), T("EVEN", "", ""),
		T("BAPM", "", "", noMap.Clone()), T("BURI", "", "", T("DATE", "5 Jan 2000", ""), full.Clone()), T("NOTE", "a note", ""))
	indi2 := T("INDI", "", "I2", T("BIRT", "", "", noMap.Clone()), T("RESI", "", "", full.Clone()), T("EVEN", "", "", emptyMap.Clone()))
	indi3 := T("INDI", "", "I3")
	indi4 := T("INDI", "", "I4", T("NAME", "Bob /Ray/", ""), T("BIRT", "", "", T("DATE", "garbage", "")), T("DEAT", "", ""), T("BURI", "", "", halfMap.Clone()))
	fams := []*TNode{T("FAM", "", "F1", T("HUSB", "@I4@", ""), T("WIFE", "@I1@", ""), T("CHIL", "@I3@", "")), T("FAM", "", "F2", T("WIFE", "@I1@", "")),
		T("FAM", "", "F3", T("HUSB", "@I9@", ""), T("CHIL", "@I2@", ""), T("CHIL", "@I9@", "")), T("FAM", "", "F4")}
	src := T("SOUR", "", "S1", T("TITL", "A source", ""))
	doc1 := append([]*TNode{T("HEAD", "", ""), indi1, indi2, indi3, indi4}, append(fams, src, T("TRLR", "", ""))...)
	doc2 := []*TNode{indi2.Clone(), indi1.Clone(), T("FAM", "", "F1", T("HUSB", "@I2@", ""))} // the first row is the one with the nil cells
	doc3 := []*TNode{indi3.Clone(), indi4.Clone(), indi1.Clone()}
	return [][]*TNode{doc1, doc2, doc3}
}

var c15relationQueries = []string{".Individuals | .Spouses", ".Individuals | .Families", ".Individuals | .Parents", ".Individuals | .Children", ".Individuals | .SpouseChildren",
	".Families | .Husband", ".Families | .Wife", ".Families | .Children", ".Families | .Husband | .Individual", ".Families | .Wife | .Individual",
	".Families | {c: .Children | .Individual}", ".Individuals | First(1) | Only(1 = 1) | .Spouses", ".Individuals | Last(1) | .Spouses", ".Individuals | {s: .Spouses}",
	".Families | .Husband | .Individual | .Spouses", ".Individuals | .Name", ".Individuals | .Birth", ".Individuals | .Births", ".Families | .Children | Length",
	".Individuals | .Spouses | First(1)", "Combine(.Individuals | .Spouses, .Individuals | .Spouses)", ".Individuals | .FamilyWithUnknownSpouse", ".Individuals | .AllEvents"}

var c15examples = []string{
	`.Individuals | .Name`, `.Individuals | .Name | .String`, `.Individuals | NodesWithTagPath("DEAT")`,
	`.Individuals | NodesWithTagPath("BIRT", "DATE")`,
	`Births are .Individuals | NodesWithTagPath("BIRT", "DATE") | {type: "birth", date: .String}; Deaths are .Individuals | NodesWithTagPath("DEAT", "DATE") | {type: "death", date: .String}; Combine(Births, Deaths)`,
	`.Individuals | Only(.Age > 100)`, `.Individuals | ?`, `Events are .Individuals | .AllEvents`, `Name is .Individual | .Name`,
	`Names are .Individuals | .Name; Names | .String`, `Indi is .Individuals; Names are Indi | .Name; Names | .String`,
	`.Individuals | { name: .Name | .String, born: .Birth | .String }`, `.Individuals | {}`, `.Individuals | Length`,
	`.Individuals | First(3) | { name: .Name | .String, born: .Birth | .String, died: .Death | .String}`,
	`.Individuals | .Name | Only(.GivenName = "John") | .String`, `.Individuals | Last(2) | .Name | .Surname`,
	`MergeDocumentsAndIndividuals(Document1, Document2) | .Individuals | Length`, `X is X; X`, `X is Y; Y is X; .Individuals | Only(X)`,
	`Combine | ?`, `.Individuals | .Nodes | First(1) | .Nodes`, `.Nodes | .Nodes | .Nodes`, `.Individuals | First("-1")`, `Combine(1)`,
	`"a" | NodesWithTagPath("X")`, `.Individuals | .Name | .GivenName = "Nan"`,
}

func c15mutate(r *Rand, s string) string {
	toks := q.NewTokenizer().TokenizeString(s).Tokens
	var parts []string
	for _, t := range toks {
		parts = append(parts, t.Value)
	}
	for k := 1 + r.Intn(2); k > 0 && len(parts) > 0; k-- {
		i := r.Intn(len(parts))
		switch r.Intn(5) {
		case 0:
			parts = append(parts[:i], parts[i+1:]...)
		case 1:
			parts[i] = r.Pick(c15alphabet)
		case 2:
			parts = append(parts[:i], append([]string{r.Pick(c15alphabet)}, parts[i:]...)...)
		case 3:
			j := r.Intn(len(parts))
			parts[i], parts[j] = parts[j], parts[i]
		case 4:
			b := []byte(parts[i])
			if len(b) > 0 {
				b[r.Intn(len(b))] = byte(r.Intn(256))
			}
			parts[i] = string(b)
		}
	}
	return strings.Join(parts, " ")
}

func c15randBytes(r *Rand) string {
	n := r.Intn(24)
	b := make([]byte, n)
	for i := range b {
		switch r.Intn(4) {
		case 0:
			b[i] = byte(r.Intn(256))
		case 1:
			const punct = " \t\n|;?(){}:,=!<>\".aZ_09@"
			b[i] = punct[r.Intn(len(punct))]
		default:
			const words = ".IndividualsNameFirst(1)|\" "
			b[i] = words[r.Intn(len(words))]
		}
	}
	return string(b)
}

// ---------------------------------------------------------------- known-finding matchers (narrow)

// c15cyclic: the variable definitions reachable from evaluation contain a cycle (static check on
// the parsed program; used only to label a fatal / timeout outcome).
func c15cyclic(query string) bool {
	eng, err := q.NewParser().ParseString(query)
	if err != nil {
		return false
	}
	refs := map[string][]string{}
	var walkS func(s *q.Statement, into *[]string)
	var walkE func(e q.Expression, into *[]string)
	walkE = func(e q.Expression, into *[]string) {
		switch x := e.(type) {
		case *q.VariableExpr:
			*into = append(*into, x.Name)
		case *q.CallExpr:
			for _, a := range x.Args {
				walkS(a, into)
			}
		case *q.ObjectExpr:
			for _, s := range x.Data {
				walkS(s, into)
			}
		case *q.BinaryExpr:
			walkE(x.Left, into)
			walkE(x.Right, into)
		}
	}
	walkS = func(s *q.Statement, into *[]string) {
		for _, e := range s.Expressions {
			walkE(e, into)
		}
	}
	for _, s := range eng.Statements {
		if s.VariableName != "" {
			if _, dup := refs[s.VariableName]; !dup {
				var r []string
				walkS(s, &r)
				refs[s.VariableName] = r
			}
		}
	}
	state := map[string]int{}
	var dfs func(n string) bool
	dfs = func(n string) bool {
		if state[n] == 1 {
			return true
		}
		if state[n] == 2 {
			return false
		}
		state[n] = 1
		for _, m := range refs[n] {
			if dfs(m) {
				return true
			}
		}
		state[n] = 2
		return false
	}
	for n := range refs {
		if dfs(n) {
			return true
		}
	}
	return false
}

// ---------------------------------------------------------------- the property run

func c15sig(o c15Obs) string {
	return o.Parse + "/" + o.Raw + "/" + o.Top + "/" + o.Fmt + "/" + o.Type
}

func init() {
	runners["C15"] = func(c *Ctx) {
		c.Rule = "query strings: every token sequence up to length 3 over a 25-token alphabet (4 over a 19-token one; thorough: 4, and 5 over 14 tokens), grammar-generated programs of depth ≤ 3 over every accessor reflection finds and every built-in, mutated documented examples, random bytes; × empty / tiny / random documents (1–2) × 5 formatters; evaluated in child processes; distinct = (parse, raw, top, formatter classes, Go type of the result)"
		r := c.R
		pool := c15docPool(c, r.Fork("docs"), c.N(18, 60), 6)
		var jobs []c15Job
		nSmall := len(pool) // the large documents appended below are used by the large-input queries only
		pickDocs := func(rr *Rand) []int {
			if rr.Chance(1, 5) {
				return []int{rr.Intn(nSmall), rr.Intn(nSmall)}
			}
			return []int{rr.Intn(nSmall)}
		}
		add := func(src, query string, docs []int) {
			jobs = append(jobs, c15Job{query, docs, "c"})
			c.Count("source=" + src)
		}
		// 1. syntax correspondence (tokens, tree) and exhaustive short token sequences
		rs := r.Fork("enum")
		full, small := c.N(3, 4), c.N(4, 5)
		for n := 0; n <= full; n++ {
			c15enumerate(c15alphabet, n, func(s string) { add("exhaustive", s, []int{3}) })
		}
		for n := full + 1; n <= small; n++ {
			alpha := c15alphabetSmall
			if n >= 5 {
				alpha = alpha[:14] // 14^5 ≈ 538k
			}
			c15enumerate(alpha, n, func(s string) { add("exhaustive-small-alphabet", s, []int{3}) })
		}
		_ = rs
		// large inputs (list lengths straddling 63/64, 127/128, 255/256: thresholds at which an
		// implementation might switch to chunked / concurrent evaluation) with conditions and stages
		// that are ill-typed — an error, never a crash, whatever the size
		sizes := []int{63, 64, 65, 100, 128, 257}
		if !c.Quick() {
			sizes = []int{1, 2, 31, 32, 33, 63, 64, 65, 100, 127, 128, 129, 200, 255, 256, 257, 513, 1024}
		}
		if os.Getenv("C15_NO_LARGE") != "" { // debugging aid: time the run without the large inputs
			sizes = nil
		}
		for _, n := range sizes {
			if d, ok := c15mkDoc(c15bigDoc(n)); ok {
				pool = append(pool, d)
				id := len(pool) - 1
				for _, src := range c15bigSources {
					for _, cond := range c15illTyped {
						add("large-input", src+" | Only("+cond+")", []int{id})
					}
					for _, st := range []string{"{a: Combine(1)}", "{a: First(\"-1\")}", ".Nodes | .Tag", "Combine(1) = 1", ".Foo", "First(70) | Only(.Nodes | .Tag)", "Last(64) | Only(Combine(1))", "?", "Length"} {
						add("large-input", src+" | "+st, []int{id})
					}
				}
				add("large-input", "P is Combine(1); .Individuals | Only(P)", []int{id})
				add("large-input", "P is .Nodes | .Tag; Q is P; .Nodes | Only(Q)", []int{id})
				add("large-input", ".Individuals | Only(Document1 | .Individuals | Only(Combine(1)))", []int{id})
			}
		}
		// boundary corpus (notes/boundary-audit.md): every size dimension of a query at and just past
		// 8 / 64 / 65 (…): number of arguments, object fields, statements, variable chain length,
		// pipeline length, number of documents, list lengths 1 and 1025
		{
			rep := func(x string, k int) []string {
				out := make([]string, k)
				for i := range out {
					out[i] = x
				}
				return out
			}
			for _, fn := range []string{"First", "Last", "Only", "Combine", "NodesWithTagPath", "Length", "MergeDocumentsAndIndividuals", "Nope"} {
				for _, k := range []int{0, 1, 2, 8, 64, 65} {
					for _, arg := range []string{"1", ".Individuals", `"NAME"`, "Document1"} {
						call := fn
						if k > 0 {
							call += "(" + strings.Join(rep(arg, k), ", ") + ")"
						}
						add("boundary-arguments", call, []int{3})
						add("boundary-arguments", ".Individuals | "+call, []int{3, 2})
					}
				}
			}
			for _, k := range []int{0, 1, 8, 64, 65, 256} {
				var fields, stmts, chain, chainRev, stages []string
				for i := 0; i < k; i++ {
					fields = append(fields, fmt.Sprintf("f%d: .Pointer", i))
					stmts = append(stmts, fmt.Sprintf("V%d is %d", i, i))
					stages = append(stages, "Only(1 = 1)")
					if i == 0 {
						chain = append(chain, "V0 is .Individuals")
					} else {
						chain = append(chain, fmt.Sprintf("V%d is V%d", i, i-1))
					}
				}
				for i := len(chain) - 1; i >= 0; i-- {
					chainRev = append(chainRev, chain[i])
				}
				jobs = append(jobs, c15Job{".Individuals | {" + strings.Join(fields, ", ") + "}", []int{3}, "j"})
				jobs = append(jobs, c15Job{strings.Join(append(stmts, ".Individuals | Length"), "; "), []int{3}, "j"})
				jobs = append(jobs, c15Job{strings.Join(append([]string{".Individuals"}, stages...), " | ") + " | Length", []int{3}, "j"})
				if k > 0 {
					last := fmt.Sprintf("V%d", k-1)
					jobs = append(jobs, c15Job{strings.Join(append(chain, last+" | Length"), "; "), []int{3}, "j"})
					jobs = append(jobs, c15Job{strings.Join(append(chainRev, ".Individuals | Only("+last+" | Length = 2) | Length"), "; "), []int{3}, "j"})
					// the same chain closed into a cycle of length k
					jobs = append(jobs, c15Job{strings.Join(append(append([]string{}, chain[1:]...), fmt.Sprintf("V0 is %s", last), last), "; "), []int{3}, "c"})
				}
				c.Count("source=boundary-sizes")
			}
			for _, k := range []int{1, 2, 8, 64, 65} { // number of documents
				ids := make([]int, k)
				for i := range ids {
					ids[i] = []int{3, 2, 4}[i%3]
				}
				for _, query := range []string{fmt.Sprintf("Document%d | .Individuals | Length", k), fmt.Sprintf("Document%d", k+1), "?",
					fmt.Sprintf("MergeDocumentsAndIndividuals(Document1, Document%d) | .Individuals | Length", k), fmt.Sprintf("Document%d is .Families; Document%d | .Individuals | Length", k, k)} {
					jobs = append(jobs, c15Job{query, ids, "j"})
					c.Count("source=boundary-documents")
				}
			}
			for _, n := range []int{1, 1025} { // list lengths (0 is the empty document, 63…257 are the large inputs above)
				if d, ok := c15mkDoc(c15bigDoc(n)); ok {
					pool = append(pool, d)
					id := len(pool) - 1
					for _, query := range []string{
						fmt.Sprintf(".Individuals | First(%d) | Length", n-1), fmt.Sprintf(".Individuals | First(%d) | Length", n), fmt.Sprintf(".Individuals | First(%d) | Length", n+1),
						fmt.Sprintf(".Individuals | Last(%d) | Length", n-1), fmt.Sprintf(".Individuals | Last(%d) | Length", n), fmt.Sprintf(".Individuals | Last(%d) | Length", n+1),
						".Individuals | Last(1) | .Pointer", ".Individuals | First(1) | .Pointer", ".Individuals | Only(1 = 1) | Length", ".Individuals | Only(.Nodes | .Tag)",
						fmt.Sprintf(".Individuals | Only(.Pointer = \"I%d\") | .Pointer", n), "Combine(.Individuals, .Individuals) | Length", ".Nodes | Length",
						".Individuals | {p: .Pointer} | Last(1)", ".Families | Last(2) | .Husband | .Individual | .Pointer", ".Individuals | Last(1) | .Spouses | Length"} {
						jobs = append(jobs, c15Job{query, []int{id}, "j"})
						c.Count("source=boundary-list-length")
					}
				}
			}
			// MergeDocumentsAndIndividuals on documents of 0 / 1 / 64 / 65 individuals
			mergeIDs := map[int]int{0: 0}
			for _, n := range []int{1, 64, 65} {
				for id := nSmall; id < len(pool); id++ {
					if len(pool[id].Forest) == 2*n+2 {
						mergeIDs[n] = id
					}
				}
			}
			for _, pr := range [][2]int{{0, 1}, {1, 0}, {1, 64}, {64, 65}, {65, 65}} {
				a, okA := mergeIDs[pr[0]]
				b, okB := mergeIDs[pr[1]]
				if okA && okB {
					jobs = append(jobs, c15Job{"MergeDocumentsAndIndividuals(Document1, Document2) | .Individuals | Length", []int{a, b}, "c"})
					c.Count("source=boundary-merge")
				}
			}
			// the document-list dimension of Engine.Evaluate: no documents (nil and empty slice), an
			// empty document, one document twice, three documents, lists with a nil *Document
			listQ := []string{".Individuals", ".Nodes", ".Families | Length", ".String", "Document1", "Document2", "Document3", "Document1 | .Individuals | .Name | .String", "Document2 | .Nodes | Length",
				"?", ".Individuals | ?", "Document1 | ?", "MergeDocumentsAndIndividuals(Document1, Document2)", "MergeDocumentsAndIndividuals(Document1)", "MergeDocumentsAndIndividuals(Document2, Document3) | .Individuals | Length",
				`"x"`, "Length", "X is .Individuals; X | Length", "Combine(.Individuals, Document2 | .Individuals) | Length", "{a: .Individuals | Length, b: Document1}", `NodesWithTagPath("INDI")`,
				"First(1)", "Last(1) | Length", "Only(1 = 1)", "Combine", "X is X; X", ".Foo", "Nope", "Document0", "Document1 = Document2", ".Individuals | {d: Document1 | .Families | Length}",
				"Document3 | .Individuals | Length", "1 = 1", ".Individuals | .Spouses", ".Families | .Husband | .Individual | .String"}
			emptyID := -1
			if d, ok := c15mkDoc(nil); ok {
				pool = append(pool, d)
				emptyID = len(pool) - 1
			}
			rl := r.Fork("doclist")
			for _, qy := range listQ {
				for _, shape := range []string{"nil", "empty", "nildoc"} {
					jobs = append(jobs, c15Job{qy, nil, "l:" + shape})
					c.Count("source=document-list " + shape)
				}
				for _, shape := range []string{"docnil", "nildocfirst", "same"} {
					jobs = append(jobs, c15Job{qy, []int{rl.Intn(nSmall)}, "l:" + shape})
					c.Count("source=document-list " + shape)
				}
				if emptyID >= 0 {
					jobs = append(jobs, c15Job{qy, []int{emptyID}, "l:new"})
					c.Count("source=document-list new")
				}
				jobs = append(jobs, c15Job{qy, []int{rl.Intn(nSmall), rl.Intn(nSmall), rl.Intn(nSmall)}, "c"})
				c.Count("source=document-list three")
				jobs = append(jobs, c15Job{qy, []int{rl.Intn(nSmall), rl.Intn(nSmall)}, "c"})
				c.Count("source=document-list two")
			}
			// formatter state: one formatter object writes two results with different column sets
			fq := []string{".Individuals | {a: .Pointer}", ".Individuals | {b: .Pointer, c: .Value}", ".Individuals", ".Families", ".Individuals | .Name", ".Individuals | Length",
				`"x"`, ".Nodes", ".Individuals | {}", "Combine", ".Individuals | .Names", ".Individuals | .Spouses"}
			for _, q1 := range fq {
				for _, q2 := range fq {
					for _, d := range []int{3, 4, 8 % nSmall} {
						jobs = append(jobs, c15Job{q1 + "\x01" + q2, []int{d}, "f"})
						c.Count("source=formatter-reuse")
					}
				}
			}
		}
		// rows whose cells are typed nil pointers: for every node type that a tag path reaches and every
		// niladic accessor reflection finds on it that returns a pointer or an interface, objects with
		// that accessor as a cell (one object with all of them, one per accessor, and the bare mapped
		// accessor), on documents where it is nil for some rows and not for others — every result goes
		// to all five formatters
		{
			nilDocs := []int{}
			for _, f := range c15nilCellDocs() {
				if d, ok := c15mkDoc(f); ok {
					pool = append(pool, d)
					nilDocs = append(nilDocs, len(pool)-1)
				}
			}
			nilDocs = append(nilDocs, 3, 4, 8%nSmall)
			types := c15nodeTypes()
			for _, src := range c15kindSources {
				t, ok := types[src.kind]
				if !ok {
					continue
				}
				var ptrAcc []string
				for i := 0; i < t.NumMethod(); i++ {
					m := t.Method(i)
					if m.Type.NumIn() != 1 || m.Type.NumOut() < 1 {
						continue
					}
					if k := m.Type.Out(0).Kind(); k == reflect.Ptr || k == reflect.Interface {
						ptrAcc = append(ptrAcc, m.Name)
					}
				}
				var all []string
				for i, a := range ptrAcc {
					all = append(all, fmt.Sprintf("c%d: .%s", i, a))
				}
				queries := []string{src.query + " | {s: .String, " + strings.Join(all, ", ") + "}"}
				for _, a := range ptrAcc {
					queries = append(queries, src.query+" | {s: .String, x: ."+a+"}", src.query+" | {x: ."+a+" | .String}", src.query+" | Only(1 = 1) | {x: ."+a+"}")
					if !strings.Contains(src.query, "NodesWithTagPath") && !strings.HasPrefix(src.query, ".Nodes") {
						queries = append(queries, src.query+" | ."+a, src.query+" | ."+a+" | {s: .String}")
					}
				}
				for _, query := range queries {
					for _, d := range nilDocs {
						add("nil-cells", query, []int{d})
					}
				}
			}
		}
		// variable names that look reserved (DocumentN and its prefix, function / accessor / keyword
		// names, `_`, digits) in direct and indirect self-reference, inside and outside Only(…) and
		// objects, with one and with two documents
		for _, name := range c15varNames {
			other := c15varNames[(len(name)*7+3)%len(c15varNames)]
			if other == name {
				other = "Zz"
			}
			for _, tmpl := range c15cycleTemplates {
				query := strings.ReplaceAll(strings.ReplaceAll(tmpl, "N", name), "M", other)
				add("cycle-sweep", query, []int{3})
				add("cycle-sweep", query, []int{3, 2})
			}
		}
		// 2. grammar-generated programs over all accessors
		g := &c15Gen{r: r.Fork("grammar"), accs: c15reflectAccessors()}
		for i := c.N(40000, 400000); i > 0; i-- {
			add("grammar", g.program(1+g.r.Intn(3)), pickDocs(g.r))
		}
		// every reflected accessor at least once on each interesting receiver
		for _, a := range g.accs {
			for _, pre := range []string{"", ".Individuals | ", ".Individuals | First(1) | Only(1 = 1) | ", ".Families | ", ".Individuals | .Name | ", ".Nodes | Only(1 = 1) | {a: ", ".Individuals | .Tag | ", ".Families | .Children | "} {
				query := pre + "." + a
				if strings.HasSuffix(pre, "{a: ") {
					query += "}"
				}
				add("accessor-sweep", query, []int{3})
				add("accessor-sweep", query, []int{4 % len(pool)})
			}
		}
		// relations and role nodes on every document (faulty references give nil entries), so that
		// such results reach all five formatters
		for d := 0; d < nSmall; d++ {
			for _, query := range c15relationQueries {
				add("relation-sweep", query, []int{d})
			}
		}
		// 3. mutated documented examples
		rm := r.Fork("mutate")
		for _, e := range c15examples {
			for _, d := range []int{0, 2, 3} {
				add("documented", e, []int{d})
			}
			add("documented", e, []int{3, 3})
		}
		for i := c.N(15000, 100000); i > 0; i-- {
			add("mutated-example", c15mutate(rm, rm.Pick(c15examples)), pickDocs(rm))
		}
		// 4. random bytes
		rb := r.Fork("bytes")
		for i := c.N(10000, 100000); i > 0; i-- {
			add("random-bytes", c15randBytes(rb), pickDocs(rb))
		}

		// deeply nested queries (calls inside call arguments, objects inside objects, operator
		// chains): parsing and evaluation must stay fast at any depth.  They are parsed in the child
		// only, each in its own child (20 s, then once more alone with 60 s before it counts as a hang; the
		// unchanged tree needs milliseconds).
		depths := []int{20, 30, 40, 64}
		if !c.Quick() {
			depths = []int{8, 12, 16, 20, 24, 30, 40, 64, 100, 200}
		}
		var deepJobs []c15Job
		for _, d := range depths {
			for _, query := range c15deepQueries(d) {
				deepJobs = append(deepJobs, c15Job{query, []int{3}, "d"})
				c.Count("source=deep-nesting")
			}
		}
		deepObs := c15runJobsMin(pool, deepJobs, 20*time.Second, 1)
		for i, j := range deepJobs {
			o := deepObs[i]
			if o.Ast != "" {
				c.Tie("qparse "+hexs(j.Query), o.Ast)
			}
		}

		// syntax correspondence on every distinct query string
		seen := map[string]bool{}
		for _, j := range jobs {
			if seen[j.Query] {
				continue
			}
			seen[j.Query] = true
			c.Tie("qtok "+hexs(j.Query), c15dumpTokens(j.Query))
			c.Tie("qparse "+hexs(j.Query), c15parseObs(j.Query))
		}

		t0 := time.Now()
		obs := c15runJobs(pool, jobs, 20*time.Second)
		jobs = append(jobs, deepJobs...)
		obs = append(obs, deepObs...)
		c.Notes = append(c.Notes, fmt.Sprintf("child-process evaluation of %d jobs: %.1fs", len(jobs), time.Since(t0).Seconds()))
		for i, j := range jobs {
			o := obs[i]
			c.Eval()
			c.Nontrivial(c15sig(o))
			c.Count("parse=" + o.Parse)
			if o.Parse == "ok" {
				c.Count("top=" + o.Top)
				c.Count("raw=" + o.Raw)
			}
			if o.Top == "value" && i%97 == 0 {
				c.Sample(map[string]string{"query": j.Query, "type": o.Type, "formatters": o.Fmt})
			}
			nilDocList := j.Mode == "l:nildoc" || j.Mode == "l:docnil" || j.Mode == "l:nildocfirst" // a nil *Document is outside the model: direct oracle only
			if strings.HasPrefix(j.Mode, "l:") && o.Parse == "ok" {
				c.Count("document-list " + j.Mode[2:] + ": top=" + o.Top)
			}
			if j.Mode != "f" && !nilDocList && !(j.Mode == "d" && (o.Top == "timeout" || o.Top == "fatal")) { // a deep query that does not finish is reported by the oracle below
				lm := "c"
				if j.Mode == "j" || j.Mode == "r" {
					lm = "j"
				}
				c.Tie(c15req(pool, j), o.line(lm))
			}
			if (j.Mode == "f" || j.Mode == "r") && o.Reuse != "same" && o.Reuse != "" {
				what := "a formatter that has already written another result writes something else than a fresh one"
				if j.Mode == "r" {
					what = "a compiled query that was already evaluated gives another result than a freshly compiled one"
				}
				c.Oracle("", what, map[string]interface{}{"queries": strings.Split(j.Query, "\x01"), "documents": c15texts(pool, j.Docs)}, o.Reuse, "same")
			}
			if j.Mode == "f" {
				continue
			}
			// (S) the property itself
			in := map[string]interface{}{"query": j.Query, "query_hex": hex.EncodeToString([]byte(j.Query)), "documents": c15texts(pool, j.Docs)}
			if strings.HasPrefix(j.Mode, "l:") {
				in["document_list"] = map[string]string{"nil": "nil slice", "empty": "empty slice", "nildoc": "[nil]", "docnil": "[document, nil]", "nildocfirst": "[nil, document]",
					"new": "[gedcom.NewDocument()]", "same": "[d, d] (one *Document twice)"}[j.Mode[2:]]
			}
			if o.Parse != "ok" && o.Parse != "error" {
				c.Oracle("", "parsing does not return a query or a syntax error", in, o.Parse, "ok | error")
				continue
			}
			if o.Parse != "ok" {
				continue
			}
			switch o.Top {
			case "value", "error":
			case "fatal", "timeout":
				key := ""
				what := "evaluation kills the process or does not finish (" + o.Top + ")"
				if j.Mode == "d" { // never parsed in this process: a hanging parser must not hang the harness
					what = "parsing or evaluating a deeply nested query does not finish (" + o.Top + " after 20 s and again after 60 s alone)"
					in["nesting"] = strings.Count(j.Query, "(") + strings.Count(j.Query, "{") + strings.Count(j.Query, " = ")
				} else if c15cyclic(j.Query) {
					key = "variable-cycle"
				}
				c.Oracle(key, what, in, o.Top, "value | error")
			default:
				c.Oracle("", "evaluation panics", in, o.Top+": "+o.Err, "value | error")
			}
			if o.Top == "value" && o.FmtCheck != "" {
				key := ""
				c.Oracle(key, "a formatter does not write the whole result, or hides that it could not be written",
					map[string]interface{}{"query": j.Query, "documents": in["documents"], "result_type": o.Type}, o.FmtCheck, "the whole result written, or an error")
			}
			if o.Top == "value" {
				for k, f := range strings.Split(o.Fmt, ",") {
					if f != "written" && f != "error" {
						name := []string{"json", "pretty-json", "csv", "gedcom", "html"}[k]
						in2 := map[string]interface{}{"query": j.Query, "documents": in["documents"], "format": name, "result_type": o.Type}
						c.Oracle("", "formatter "+name+" panics on a query result", in2, f, "written | error")
					}
				}
			}
		}
		c.Compare = c15compare(c)
		c.Notes = append(c.Notes, "model answers `unsupported` (the query leaves the modelled accessor menu) are counted in the distribution as model=unsupported…, not compared; the direct oracle still runs on them")
	}
}

// c15compare: equality, except that `unsupported` answers of the model are counted instead of
// compared and the model's error kind is ignored (see c15sameClasses).
func c15compare(c *Ctx) func(req, impl, model string) bool {
	return func(req, impl, model string) bool {
		if strings.HasPrefix(req, "qeval ") {
			if strings.Contains(model, "unsupported") {
				c.Count("model=" + c15unsupportedWhy(model))
				return true
			}
			if i := strings.Index(model, " json=?"); i >= 0 {
				// the value depends on a comparison the model does not determine (float64 text): classes only
				c.Count("model=value undetermined (classes compared)")
				if j := strings.Index(impl, " json="); j >= 0 {
					impl = impl[:j]
				}
				model = model[:i]
			} else {
				c.Count("model=compared")
			}
			if impl == model {
				return true
			}
			return c15sameClasses(req, impl, model)
		}
		if strings.HasPrefix(req, "qnum ") {
			if model == "?" { // outside the exact domain of the number model (float64 rounding, non-ASCII text)
				c.Count("model=comparison undetermined (qnum)")
				return true
			}
			c.Count("model=compared (qnum)")
		}
		return impl == model
	}
}


func c15texts(pool []*c15Doc, ids []int) []string {
	var ts []string
	for _, id := range ids {
		ts = append(ts, pool[id].Text)
	}
	return ts
}

func c15unsupportedWhy(model string) string {
	i := strings.Index(model, "unsupported:")
	if i < 0 {
		return "unsupported"
	}
	w := model[i+len("unsupported:"):]
	if j := strings.IndexByte(w, ' '); j >= 0 {
		w = w[:j]
	}
	return "unsupported: " + strings.ReplaceAll(w, "_", " ")
}

// c15sameClasses compares "raw=… top=… fmt=…" lines: the model's raw outcome carries the error
// kind (`error:atoi`), which the implementation side does not observe; an object with several
// fields is evaluated in Go map order, so which of an error and a panic comes first is not
// determined — any two failing classes are accepted there (after the repairs all of them are `error`).
func c15sameClasses(req, impl, model string) bool {
	fi, fm := strings.Fields(impl), strings.Fields(model)
	if len(fi) < 3 || len(fm) < 3 || len(fi) != len(fm) {
		return false
	}
	q := unhex(strings.Fields(req)[3])
	multiField := strings.Contains(q, "{") && strings.Contains(q, ",")
	bad := func(s string) bool { return s == "error" || s == "panic" || s == "fatal" }
	for k := range fi {
		a, b := fi[k], fm[k]
		if k < 2 { // raw=…, top=…
			a, b = a[strings.IndexByte(a, '=')+1:], b[strings.IndexByte(b, '=')+1:]
			if i := strings.IndexByte(b, ':'); i >= 0 {
				b = b[:i]
			}
			if a != b && !(multiField && bad(a) && bad(b)) {
				return false
			}
			continue
		}
		if a != b && !c15sameNumber(a, b) {
			return false
		}
	}
	return true
}

// c15sameNumber: a float64 of the implementation ("i1943.672131147541") against the model's exact
// fraction ("r<num>/<den>"), within 1e-9 relative.
func c15sameNumber(impl, model string) bool {
	if !strings.HasPrefix(model, "r") || !strings.HasPrefix(impl, "i") {
		return false
	}
	parts := strings.SplitN(model[1:], "/", 2)
	if len(parts) != 2 {
		return false
	}
	r, ok := new(big.Rat).SetString(parts[0] + "/" + parts[1])
	if !ok {
		return false
	}
	want, _ := r.Float64()
	got, err := strconv.ParseFloat(impl[1:], 64)
	if err != nil {
		return false
	}
	return math.Abs(got-want) <= 1e-9*math.Max(1, math.Abs(want))
}
