package main

// C09: fixed boundary corpus (notes/boundary-audit.md).  Runs before the random streams.
//   1. sizes: list lengths / children per node at and just past 8 .. 256 with the Equal pair at the
//      far end, both orders, all three merge functions
//   2. histories: merge, edit an input in place at depth 2, merge again; feed a merge result back
//      as the left input, as the right input, as both
//   3. aliasing: beyond harness/c09b.go — result used as input together with the input it came from
//   4. bytes: surrounding white space, invalid UTF-8, single-delimiter values, all-zero numbers

import (
	"fmt"

	"github.com/elliotchance/gedcom/v39"
)

func c09distinct(n int, tag, prefix string) []*TNode {
	ks := make([]*TNode, n)
	for i := range ks {
		ks[i] = T(tag, fmt.Sprintf("%s%d", prefix, i), "")
	}
	return ks
}

func c09boundarySizes(c *Ctx) {
	for _, n := range []int{8, 9, 16, 17, 32, 33, 63, 64, 65, 100, 128, 129, 256, 257} {
		// long list against a short one: the only Equal pair is (last of long, last of short)
		long := c09distinct(n, "NOTE", "v")
		long[n-1] = T("OCCU", "farmer", "", T("PLAC", "here", ""))
		short := []*TNode{T("NOTE", "w0", ""), T("OCCU", "farmer", "", T("DATE", "1900", ""))}
		c.Count(fmt.Sprintf("boundary:list-length=%d", n))
		for _, fn := range []string{"eq", "never", "always"} {
			if fn == "always" && n > 129 {
				continue
			}
			c09sliceCase(c, fn, long, short, fmt.Sprintf("boundary %d x 2", n))
			c09sliceCase(c, fn, short, long, fmt.Sprintf("boundary 2 x %d", n))
		}
		// MergeNodes: the same below a root, both orders
		c09nodesCase(c, &TNode{"X", "", "", long}, &TNode{"X", "", "", short}, fmt.Sprintf("boundary %d x 2 children", n))
		c09nodesCase(c, &TNode{"X", "", "", short}, &TNode{"X", "", "", long}, fmt.Sprintf("boundary 2 x %d children", n))
		// two long lists: Equal pairs (last, last) and (first of left, last of right); everything
		// else distinct — cubic in the list length, so only up to 129
		if n <= 129 {
			l := c09distinct(n, "NOTE", "l")
			r := c09distinct(n, "NOTE", "r")
			l[n-1], r[n-1] = T("OCCU", "farmer", ""), T("OCCU", "farmer", "")
			r[n-2] = l[0].Clone()
			c09sliceCase(c, "eq", l, r, fmt.Sprintf("boundary %d x %d", n, n))
			c09sliceCase(c, "eq", r, l, fmt.Sprintf("boundary %d x %d swapped", n, n))
			c09nodesCase(c, &TNode{"X", "", "", l}, &TNode{"X", "", "", r}, fmt.Sprintf("boundary %d x %d children", n, n))
			// duplicates: the same Equal element n times on the right (MergeNodes folds them all into one)
			dup := make([]*TNode, n)
			for i := range dup {
				dup[i] = T("OCCU", "farmer", "", T("NOTE", fmt.Sprintf("k%d", i), ""))
			}
			c09nodesCase(c, T("X", "", "", T("OCCU", "farmer", "")), &TNode{"X", "", "", dup}, fmt.Sprintf("boundary 1 x %d equal children", n))
			c09sliceCase(c, "eq", []*TNode{T("OCCU", "farmer", "")}, dup, fmt.Sprintf("boundary 1 x %d equal", n))
		}
	}
}

// c09mergeObjects runs MergeNodes on existing objects, ties it to the model on their current content
// and requires the answer freshly built inputs with the same content get.
func c09mergeObjects(c *Ctx, l, r gedcom.Node, label string) gedcom.Node {
	tl, tr := abstractNode(l), abstractNode(r)
	same := l == r
	var snap *c09snap
	if same {
		snap = c09snapshot(l)
	} else {
		snap = c09snapshot(l, r)
	}
	o := c09runNodes(l, r, snap)
	c.Eval()
	c.Count("history:" + label)
	in := map[string]string{"case": "MergeNodes " + label, "left": encTree(tl), "right": encTree(tr), "left_gedcom": c07text(tl), "right_gedcom": c07text(tr)}
	if !same { // the model numbers the objects of the two inputs separately
		c.Tie("mnodes "+encForest([]*TNode{tl, tr}), o.obs)
	}
	if o.panicked != "" || o.err != nil {
		c.Oracle("", "MergeNodes failed on "+label, in, o.obs, "a merged node")
		return nil
	}
	if o.shared && !same {
		c.Oracle("", "the merged tree shares a node with an input", in, o.dump, "only new nodes")
	}
	if o.written {
		c.Oracle("", "MergeNodes modified an input node", in, "child list of an input object changed", "inputs untouched")
	}
	l2, e1 := newPlain(tl)
	r2, e2 := newPlain(tr)
	if e1 == nil && e2 == nil {
		m2, err := gedcom.MergeNodes(l2, r2, gedcom.NewDocument())
		if err != nil || !c07sameTree(abstractNode(m2), abstractNode(o.m)) {
			got := o.m.GEDCOMString(0)
			want := "error"
			if err == nil {
				want = m2.GEDCOMString(0)
			}
			c.Oracle("", "the merge of nodes with a history differs from the merge of freshly built nodes with the same content", in, got, want)
		}
	}
	return o.m
}

func c09boundaryHistories(c *Ctx) {
	r := c.R
	g := &c07gen{r: r, small: true}
	n := c.N(120, 3000)
	for i := 0; i < n; i++ {
		// inputs with a RESI / EVEN (children remembered by tag) whose grandchildren can be edited
		w := c07wrapper(g)
		w.Kids = append(w.Kids, T("PLAC", "England", "", T("MAP", "", "", T("LATI", "N1", ""))))
		tl := T("INDI0", "", "P1", T("NAME", "A /B/", ""), w, g.node(1))
		tr := c09related(g, tl)
		if i%3 == 0 {
			tr = tl.Clone()
		}
		l, e1 := newPlain(tl)
		rr, e2 := newPlain(tr)
		if e1 != nil || e2 != nil || c09needsDoc([]*TNode{tl, tr}) {
			continue
		}
		m1 := c09mergeObjects(c, l, rr, "first merge")
		if m1 == nil {
			continue
		}
		// edit an input in place at depth 2 (a grandchild of the root, or below it)
		side := l
		if r.Bool() {
			side = rr
		}
		var deep []gedcom.Node
		for _, k := range side.Nodes() {
			deep = append(deep, k.Nodes()...)
			for _, gk := range k.Nodes() {
				deep = append(deep, gk.Nodes()...)
			}
		}
		if len(deep) == 0 {
			deep = side.Nodes()
		}
		if len(deep) == 0 {
			continue
		}
		t := deep[r.Intn(len(deep))]
		switch r.Intn(4) {
		case 0:
			t.AddNode(gedcom.NewNode(gedcom.TagFromString("DATE"), r.Pick([]string{"1943", "3 Sep 1943"}), ""))
		case 1:
			if ks := t.Nodes(); len(ks) > 0 {
				t.DeleteNode(ks[r.Intn(len(ks))])
			} else {
				t.AddNode(gedcom.NewNode(gedcom.TagFromString("PLAC"), "b", ""))
			}
		case 2:
			t.SetNodes(gedcom.Nodes{gedcom.NewNode(gedcom.TagFromString("NOTE"), "set", "")})
		default:
			t.AddNode(gedcom.NewNode(gedcom.TagFromString("NOTE"), "added", ""))
		}
		c09mergeObjects(c, l, rr, "merge again after an in-place edit of an input at depth 2")
		// the first result fed back
		switch i % 4 {
		case 0:
			c09mergeObjects(c, m1, rr, "result as the left input")
		case 1:
			c09mergeObjects(c, l, m1, "result as the right input")
		case 2:
			c09mergeObjects(c, m1, m1, "result as both inputs")
		default:
			m2 := c09mergeObjects(c, m1, l, "result merged with the input it came from")
			if m2 != nil {
				c09mergeObjects(c, m2, m1, "second result with the first")
			}
		}
		// lists: a merged list fed back together with one of its inputs (same objects in both lists)
		if i%5 == 0 {
			res := gedcom.MergeNodeSlices(l.Nodes(), rr.Nodes(), gedcom.NewDocument(), gedcom.EqualityMergeFunction)
			before := len(res)
			res2 := gedcom.MergeNodeSlices(res, res, gedcom.NewDocument(), gedcom.EqualityMergeFunction)
			c.Eval()
			c.Count("history:list-result-as-both-inputs")
			if len(res2) < before || len(res2) > 2*before {
				c.Oracle("", "the merged slice is outside max(|l|,|r|) .. |l|+|r|", map[string]string{"case": "MergeNodeSlices(res, res) where res is a merge result",
					"left": encForest(abstractNodes(res))}, fmt.Sprint(len(res2)), fmt.Sprintf("%d..%d", before, 2*before))
			}
			if len(res) != before {
				c.Oracle("", "MergeNodeSlices changed the length of its input slice", map[string]string{"case": "MergeNodeSlices(res, res)"}, fmt.Sprint(len(res)), fmt.Sprint(before))
			}
		}
	}
}

func c09boundaryBytes(c *Ctx) {
	values := []string{" x", "x ", " x ", " ", "\tx", "a  b", "\xc3", "\xff", "\xc3@", "\xff@I1@", "\xe2\x82/x/", "\x80\x80", "@", "@@", "/", ",", "0", "00", "-", "\xc3\xa9\xc3\xa9", "\xe6\x97\xa5"}
	tags := []string{"NOTE", "NAME", "PLAC", "_UID", "BIRT", "EVEN", "RESI"}
	for _, v := range values {
		for _, tag := range tags {
			l := T("X", v, "", T(tag, v, "", T("NOTE", "a", "")), T("NOTE", "z", ""))
			r := T("X", v, "", T(tag, v, "", T("NOTE", "b", "")), T(tag, v+"x", ""), T("OCCU", v, v))
			c.Count("bytes:" + tag)
			c09nodesCase(c, l, r, "bytes")
			c09nodesCase(c, r, l, "bytes")
			c09sliceCase(c, "eq", l.Kids, r.Kids, "bytes")
		}
	}
}

func c09boundary(c *Ctx) {
	c09boundarySizes(c)
	c09boundaryHistories(c)
	c09boundaryBytes(c)
}
