package main

import (
	"fmt"
	"go/ast"
	"go/parser"
	"go/token"
	"path/filepath"
	"strconv"
	"strings"
)

// Translator for the conditions of the warning rules (C20): the go/ast expressions of
//   family_node.go      siblingsBornTooCloseWarnings   (skip chain of both loops, the report test,
//                                                        the two windows `time.Duration(N * 24 * time.Hour)`)
//                       appendMarriedOutOfRange        (the "young" and the "old" test)
//                       childrenBornBeforeParentsWarnings (skip test, the report tests and their parent)
//   individual_node.go  tooOldWarnings                 (the report test)
// are printed as terms of Gedcom.WarnSrc.Cond / Num (lean/Gedcom/Model/WarningsSrc.lean).  Nothing is
// guessed: an expression or statement shape outside the fragment becomes `.bad` / an empty list /
// `false`, which Props/C20Src.lean rejects.

func wsrcIsIdent(e ast.Expr, name string) bool {
	id, ok := e.(*ast.Ident)
	return ok && id.Name == name
}

// wsrcCallOn recognises `<recv>.<method>(args…)` and returns recv, args.
func wsrcCallOn(e ast.Expr, method string) (ast.Expr, []ast.Expr, bool) {
	call, ok := e.(*ast.CallExpr)
	if !ok {
		return nil, nil, false
	}
	sel, ok := call.Fun.(*ast.SelectorExpr)
	if !ok || sel.Sel.Name != method {
		return nil, nil, false
	}
	return sel.X, call.Args, true
}

// `<v>.Individual()`
func wsrcIndividualOf(e ast.Expr, v string) bool {
	recv, args, ok := wsrcCallOn(e, "Individual")
	return ok && len(args) == 0 && wsrcIsIdent(recv, v)
}

// ageVar: the identifier whose `.Years()` is the age ("age" / "max")
func wsrcNum(e ast.Expr, ageVar string) string {
	switch e := e.(type) {
	case *ast.ParenExpr:
		return wsrcNum(e.X, ageVar)
	case *ast.Ident:
		switch e.Name {
		case "nineMonths":
			return ".nineMonths"
		case "twoDays":
			return ".twoDays"
		case "DefaultMinMarriageAge":
			return ".minMarr"
		case "DefaultMaxMarriageAge":
			return ".maxMarr"
		case "DefaultMaxLivingAge":
			return ".maxLiving"
		}
	case *ast.SelectorExpr:
		if e.Sel.Name != "Duration" {
			return ".bad"
		}
		if wsrcIsIdent(e.X, "min") {
			return ".min"
		}
		if wsrcIsIdent(e.X, "max") {
			return ".max"
		}
		// childNBirth.DateRange().Duration().Duration
		if r1, a1, ok := wsrcCallOn(e.X, "Duration"); ok && len(a1) == 0 {
			if r2, a2, ok := wsrcCallOn(r1, "DateRange"); ok && len(a2) == 0 {
				if wsrcIsIdent(r2, "child1Birth") {
					return ".dur1"
				}
				if wsrcIsIdent(r2, "child2Birth") {
					return ".dur2"
				}
			}
		}
	case *ast.CallExpr:
		if recv, args, ok := wsrcCallOn(e, "Years"); ok && len(args) == 0 && ageVar != "" && wsrcIsIdent(recv, ageVar) {
			return ".ageYears"
		}
	}
	return ".bad"
}

func wsrcCond(e ast.Expr, ageVar string) string {
	switch e := e.(type) {
	case *ast.ParenExpr:
		return wsrcCond(e.X, ageVar)
	case *ast.UnaryExpr:
		if e.Op == token.NOT {
			return "(.not " + wsrcCond(e.X, ageVar) + ")"
		}
	case *ast.SelectorExpr:
		if wsrcIsIdent(e.X, "age") && e.Sel.Name == "IsKnown" && ageVar == "age" {
			return "(.flag .ageKnown)"
		}
	case *ast.CallExpr:
		if recv, args, ok := wsrcCallOn(e, "Is"); ok && len(args) == 1 &&
			wsrcIndividualOf(recv, "child1") && wsrcIndividualOf(args[0], "child2") {
			return "(.flag .same)"
		}
		if recv, args, ok := wsrcCallOn(e, "IsValid"); ok && len(args) == 0 {
			switch {
			case wsrcIsIdent(recv, "childBirth"):
				return "(.flag .childValid)"
			case wsrcIsIdent(recv, "fatherBirth"):
				return "(.flag .fatherValid)"
			case wsrcIsIdent(recv, "motherBirth"):
				return "(.flag .motherValid)"
			}
		}
		if recv, args, ok := wsrcCallOn(e, "IsBefore"); ok && len(args) == 1 && wsrcIsIdent(recv, "childBirth") {
			switch {
			case wsrcIsIdent(args[0], "fatherBirth"):
				return "(.flag .childBeforeFather)"
			case wsrcIsIdent(args[0], "motherBirth"):
				return "(.flag .childBeforeMother)"
			}
		}
	case *ast.BinaryExpr:
		switch e.Op {
		case token.LAND:
			return "(.and " + wsrcCond(e.X, ageVar) + " " + wsrcCond(e.Y, ageVar) + ")"
		case token.LOR:
			return "(.or " + wsrcCond(e.X, ageVar) + " " + wsrcCond(e.Y, ageVar) + ")"
		case token.NEQ:
			if wsrcIsIdent(e.Y, "nil") {
				if wsrcIsIdent(e.X, "err") {
					return "(.flag .subErr)"
				}
				if wsrcIsIdent(e.X, "estimatedDeathDate") {
					return "(.flag .deathKnown)"
				}
			}
		case token.LSS, token.LEQ, token.GTR, token.GEQ:
			op := map[token.Token]string{token.LSS: ".lt", token.LEQ: ".le", token.GTR: ".gt", token.GEQ: ".ge"}[e.Op]
			return "(.cmp " + op + " " + wsrcNum(e.X, ageVar) + " " + wsrcNum(e.Y, ageVar) + ")"
		}
	}
	return ".bad"
}

func wsrcOnlyContinue(b *ast.BlockStmt) bool {
	if b == nil || len(b.List) != 1 {
		return false
	}
	br, ok := b.List[0].(*ast.BranchStmt)
	return ok && br.Tok == token.CONTINUE
}

// wsrcDays recognises `time.Duration(N * 24 * time.Hour)` and returns N.
func wsrcDays(e ast.Expr) (int, bool) {
	call, ok := e.(*ast.CallExpr)
	if !ok || len(call.Args) != 1 {
		return 0, false
	}
	sel, ok := call.Fun.(*ast.SelectorExpr)
	if !ok || !wsrcIsIdent(sel.X, "time") || sel.Sel.Name != "Duration" {
		return 0, false
	}
	outer, ok := call.Args[0].(*ast.BinaryExpr) // (N * 24) * time.Hour
	if !ok || outer.Op != token.MUL {
		return 0, false
	}
	hr, ok := outer.Y.(*ast.SelectorExpr)
	if !ok || !wsrcIsIdent(hr.X, "time") || hr.Sel.Name != "Hour" {
		return 0, false
	}
	inner, ok := outer.X.(*ast.BinaryExpr)
	if !ok || inner.Op != token.MUL {
		return 0, false
	}
	n, ok1 := inner.X.(*ast.BasicLit)
	d, ok2 := inner.Y.(*ast.BasicLit)
	if !ok1 || !ok2 || n.Kind != token.INT || d.Kind != token.INT || d.Value != "24" {
		return 0, false
	}
	v, err := strconv.Atoi(n.Value)
	return v, err == nil
}

// wsrcDefines: `<names…> := <recognised by f>`
func wsrcDefines(st ast.Stmt, names []string, f func(rhs ast.Expr) bool) bool {
	as, ok := st.(*ast.AssignStmt)
	if !ok || as.Tok != token.DEFINE || len(as.Lhs) != len(names) || len(as.Rhs) != 1 {
		return false
	}
	for i, n := range names {
		if !wsrcIsIdent(as.Lhs[i], n) {
			return false
		}
	}
	return f(as.Rhs[0])
}

// `<child>.Individual().Birth()`
func wsrcBirthOf(child string) func(ast.Expr) bool {
	return func(e ast.Expr) bool {
		recv, args, ok := wsrcCallOn(e, "Birth")
		return ok && len(args) == 0 && wsrcIndividualOf(recv, child)
	}
}

// `node.<Husband|Wife>().Individual()`
func wsrcSpouse(e ast.Expr) string {
	recv, args, ok := wsrcCallOn(e, "Individual")
	if !ok || len(args) != 0 {
		return ".bad"
	}
	for _, role := range [][2]string{{"Husband", ".husb"}, {"Wife", ".wife"}} {
		if r2, a2, ok := wsrcCallOn(recv, role[0]); ok && len(a2) == 0 && wsrcIsIdent(r2, "node") {
			return role[1]
		}
	}
	return ".bad"
}

// wsrcAppendsNew: the block is `warning := <ctor>(args…); warnings = append(warnings, warning)`;
// returns the constructor's arguments.
func wsrcAppendsNew(b *ast.BlockStmt, ctor string) ([]ast.Expr, bool) {
	if b == nil || len(b.List) != 2 {
		return nil, false
	}
	var args []ast.Expr
	if !wsrcDefines(b.List[0], []string{"warning"}, func(rhs ast.Expr) bool {
		call, ok := rhs.(*ast.CallExpr)
		if !ok || !wsrcIsIdent(call.Fun, ctor) {
			return false
		}
		args = call.Args
		return true
	}) {
		return nil, false
	}
	as, ok := b.List[1].(*ast.AssignStmt)
	if !ok || as.Tok != token.ASSIGN || len(as.Lhs) != 1 || len(as.Rhs) != 1 || !wsrcIsIdent(as.Lhs[0], "warnings") {
		return nil, false
	}
	call, ok := as.Rhs[0].(*ast.CallExpr)
	if !ok || !wsrcIsIdent(call.Fun, "append") || len(call.Args) != 2 || !wsrcIsIdent(call.Args[0], "warnings") || !wsrcIsIdent(call.Args[1], "warning") {
		return nil, false
	}
	return args, true
}

func wsrcFunc(file *ast.File, recv, name string) *ast.FuncDecl {
	if file == nil {
		return nil
	}
	for _, d := range file.Decls {
		fn, ok := d.(*ast.FuncDecl)
		if !ok || fn.Name.Name != name || fn.Body == nil || fn.Recv == nil || len(fn.Recv.List) != 1 {
			continue
		}
		if st, ok := fn.Recv.List[0].Type.(*ast.StarExpr); ok && wsrcIsIdent(st.X, recv) {
			return fn
		}
	}
	return nil
}

func wsrcList(xs []string) string { return "[" + strings.Join(xs, ", ") + "]" }

func init() {
	extractors["WarningsSrc"] = func() string {
		fset := token.NewFileSet()
		fam, _ := parser.ParseFile(fset, filepath.Join(repoRoot(), "family_node.go"), nil, 0)
		ind, _ := parser.ParseFile(fset, filepath.Join(repoRoot(), "individual_node.go"), nil, 0)

		// ---- siblingsBornTooCloseWarnings
		nine, two := -1, -1
		sibBindings := false
		outerSkips, innerSkips := []string{}, []string{}
		sibReport := ".bad"
		if fn := wsrcFunc(fam, "FamilyNode", "siblingsBornTooCloseWarnings"); fn != nil {
			var outer *ast.RangeStmt
			for _, st := range fn.Body.List {
				if as, ok := st.(*ast.AssignStmt); ok && as.Tok == token.DEFINE && len(as.Lhs) == 1 && len(as.Rhs) == 1 {
					if n, ok := wsrcDays(as.Rhs[0]); ok {
						if wsrcIsIdent(as.Lhs[0], "nineMonths") {
							nine = n
						}
						if wsrcIsIdent(as.Lhs[0], "twoDays") {
							two = n
						}
					}
				}
				if rs, ok := st.(*ast.RangeStmt); ok && outer == nil {
					outer = rs
				}
			}
			// for _, child1 := range node.Children() { child1Birth, _ := …; if … {continue}; for _, child2 := range node.Children() {…} }
			rangesChildren := func(rs *ast.RangeStmt, v string) bool {
				recv, args, ok := wsrcCallOn(rs.X, "Children")
				return ok && len(args) == 0 && wsrcIsIdent(recv, "node") && wsrcIsIdent(rs.Value, v) && wsrcIsIdent(rs.Key, "_")
			}
			if outer != nil && rangesChildren(outer, "child1") {
				b1, b2, sub := false, false, false
				var inner *ast.RangeStmt
				shapeOK := true
				for _, st := range outer.Body.List {
					switch s := st.(type) {
					case *ast.AssignStmt:
						if wsrcDefines(s, []string{"child1Birth", "_"}, wsrcBirthOf("child1")) {
							b1 = true
						} else {
							shapeOK = false
						}
					case *ast.IfStmt:
						if s.Init == nil && s.Else == nil && wsrcOnlyContinue(s.Body) && inner == nil {
							outerSkips = append(outerSkips, wsrcCond(s.Cond, ""))
						} else {
							shapeOK = false
						}
					case *ast.RangeStmt:
						if inner == nil && rangesChildren(s, "child2") {
							inner = s
						} else {
							shapeOK = false
						}
					default:
						shapeOK = false
					}
				}
				if inner != nil {
					for i, st := range inner.Body.List {
						last := i == len(inner.Body.List)-1
						switch s := st.(type) {
						case *ast.AssignStmt:
							switch {
							case wsrcDefines(s, []string{"child2Birth", "_"}, wsrcBirthOf("child2")):
								b2 = true
							case wsrcDefines(s, []string{"min", "max", "err"}, func(rhs ast.Expr) bool {
								recv, args, ok := wsrcCallOn(rhs, "Sub")
								return ok && len(args) == 1 && wsrcIsIdent(recv, "child1Birth") && wsrcIsIdent(args[0], "child2Birth")
							}):
								sub = true
							default:
								shapeOK = false
							}
						case *ast.IfStmt:
							switch {
							case s.Init == nil && s.Else == nil && wsrcOnlyContinue(s.Body) && !last:
								innerSkips = append(innerSkips, wsrcCond(s.Cond, ""))
							case s.Init == nil && s.Else == nil && last:
								sibReport = wsrcCond(s.Cond, "")
							default:
								shapeOK = false
							}
						default:
							shapeOK = false
						}
					}
				}
				sibBindings = shapeOK && b1 && b2 && sub && inner != nil
			}
		}

		// ---- appendMarriedOutOfRange
		young, old := ".bad", ".bad"
		marriedShape := false
		if fn := wsrcFunc(fam, "FamilyNode", "appendMarriedOutOfRange"); fn != nil {
			nIf := 0
			ok := true
			for i, st := range fn.Body.List {
				switch s := st.(type) {
				case *ast.IfStmt:
					nIf++
					args, good := wsrcAppendsNew(s.Body, "NewMarriedOutOfRangeWarning")
					if !good || s.Init != nil || s.Else != nil || len(args) != 4 {
						ok = false
						continue
					}
					lit, isLit := args[3].(*ast.BasicLit)
					if !isLit || lit.Kind != token.STRING {
						ok = false
						continue
					}
					switch lit.Value {
					case `"young"`:
						if nIf == 1 {
							young = wsrcCond(s.Cond, "age")
						} else {
							ok = false
						}
					case `"old"`:
						if nIf == 2 {
							old = wsrcCond(s.Cond, "age")
						} else {
							ok = false
						}
					default:
						ok = false
					}
				case *ast.ReturnStmt:
					if i != len(fn.Body.List)-1 {
						ok = false
					}
				default:
					ok = false
				}
			}
			marriedShape = ok && nIf == 2
		}

		// ---- tooOldWarnings
		tooOld := ".bad"
		tooOldShape := false
		if fn := wsrcFunc(ind, "IndividualNode", "tooOldWarnings"); fn != nil && len(fn.Body.List) == 4 {
			d := wsrcDefines(fn.Body.List[0], []string{"estimatedDeathDate", "_"}, func(rhs ast.Expr) bool {
				recv, args, ok := wsrcCallOn(rhs, "EstimatedDeathDate")
				return ok && len(args) == 0 && wsrcIsIdent(recv, "node")
			})
			a := wsrcDefines(fn.Body.List[1], []string{"_", "max"}, func(rhs ast.Expr) bool {
				recv, args, ok := wsrcCallOn(rhs, "Age")
				return ok && len(args) == 0 && wsrcIsIdent(recv, "node")
			})
			if s, ok := fn.Body.List[2].(*ast.IfStmt); ok && s.Init == nil && s.Else == nil {
				tooOld = wsrcCond(s.Cond, "max")
				_, isRet := fn.Body.List[3].(*ast.ReturnStmt)
				tooOldShape = d && a && isRet
			}
		}

		// ---- childrenBornBeforeParentsWarnings
		cbbpSkips, cbbpReports := []string{}, []string{}
		cbbpShape := false
		if fn := wsrcFunc(fam, "FamilyNode", "childrenBornBeforeParentsWarnings"); fn != nil {
			fb, mb, cb := false, false, false
			ok := true
			var loop *ast.RangeStmt
			for _, st := range fn.Body.List {
				switch s := st.(type) {
				case *ast.AssignStmt:
					birthOfSpouse := func(role string) func(ast.Expr) bool {
						return func(e ast.Expr) bool {
							recv, args, good := wsrcCallOn(e, "Birth")
							return good && len(args) == 0 && wsrcSpouse(recv) == role
						}
					}
					switch {
					case wsrcDefines(s, []string{"fatherBirth", "_"}, birthOfSpouse(".husb")):
						fb = true
					case wsrcDefines(s, []string{"motherBirth", "_"}, birthOfSpouse(".wife")):
						mb = true
					default:
						ok = false
					}
				case *ast.RangeStmt:
					recv, args, good := wsrcCallOn(s.X, "Children")
					if loop == nil && good && len(args) == 0 && wsrcIsIdent(recv, "node") && wsrcIsIdent(s.Value, "child") {
						loop = s
					} else {
						ok = false
					}
				case *ast.ReturnStmt:
				default:
					ok = false
				}
			}
			if loop != nil {
				seenReport := false
				for _, st := range loop.Body.List {
					switch s := st.(type) {
					case *ast.AssignStmt:
						if wsrcDefines(s, []string{"childBirth", "_"}, wsrcBirthOf("child")) {
							cb = true
						} else {
							ok = false
						}
					case *ast.IfStmt:
						if s.Init != nil || s.Else != nil {
							ok = false
							continue
						}
						if wsrcOnlyContinue(s.Body) && !seenReport {
							cbbpSkips = append(cbbpSkips, wsrcCond(s.Cond, ""))
							continue
						}
						args, good := wsrcAppendsNew(s.Body, "NewChildBornBeforeParentWarning")
						if good && len(args) == 2 && wsrcIsIdent(args[1], "child") {
							seenReport = true
							cbbpReports = append(cbbpReports, "("+wsrcCond(s.Cond, "")+", "+wsrcSpouse(args[0])+")")
						} else {
							ok = false
						}
					default:
						ok = false
					}
				}
			}
			cbbpShape = ok && fb && mb && cb && loop != nil
		}

		var b strings.Builder
		b.WriteString("-- Source: family_node.go (siblingsBornTooCloseWarnings, appendMarriedOutOfRange,\n")
		b.WriteString("-- childrenBornBeforeParentsWarnings) and individual_node.go (tooOldWarnings): the conditions of the\n")
		b.WriteString("-- warning rules translated from go/ast (see harness/extract_warningssrc.go).\n")
		b.WriteString("import Gedcom.Model.WarningsSrc\nnamespace Gedcom.Generated\nopen Gedcom.WarnSrc\n\n")
		fmt.Fprintf(&b, "/-- `nineMonths := time.Duration(N * 24 * time.Hour)`: N (-1 = not of that shape) -/\ndef srcNineMonthsDays : Int := %d\n", nine)
		fmt.Fprintf(&b, "/-- `twoDays := time.Duration(N * 24 * time.Hour)`: N -/\ndef srcTwoDaysDays : Int := %d\n", two)
		fmt.Fprintf(&b, "/-- both loops range over `node.Children()`, the births are `childN.Individual().Birth()`, `min, max,\n    err := child1Birth.Sub(child2Birth)`, and the loops hold nothing but these bindings and the tests below -/\ndef srcSiblingShape : Bool := %v\n", sibBindings)
		fmt.Fprintf(&b, "/-- `if c { continue }` of the outer loop, in order -/\ndef srcSiblingOuterSkips : List Cond := %s\n", wsrcList(outerSkips))
		fmt.Fprintf(&b, "/-- `if c { continue }` of the inner loop, in order -/\ndef srcSiblingInnerSkips : List Cond := %s\n", wsrcList(innerSkips))
		fmt.Fprintf(&b, "/-- the last `if` of the inner loop: the pair is a candidate for a warning -/\ndef srcSiblingReport : Cond := %s\n\n", sibReport)
		fmt.Fprintf(&b, "/-- appendMarriedOutOfRange is two `if`s that append the \"young\" and then the \"old\" warning -/\ndef srcMarriedShape : Bool := %v\ndef srcMarriedYoung : Cond := %s\ndef srcMarriedOld : Cond := %s\n\n", marriedShape, young, old)
		fmt.Fprintf(&b, "/-- tooOldWarnings: `estimatedDeathDate, _ := node.EstimatedDeathDate(); _, max := node.Age(); if c {…}; return` -/\ndef srcTooOldShape : Bool := %v\ndef srcTooOld : Cond := %s\n\n", tooOldShape, tooOld)
		fmt.Fprintf(&b, "/-- childrenBornBeforeParentsWarnings: the births of `node.Husband()/Wife().Individual()`, a loop over\n    `node.Children()` with `childBirth`, skip tests, then `if c { append NewChildBornBeforeParentWarning(parent, child) }` -/\ndef srcCbbpShape : Bool := %v\ndef srcCbbpSkips : List Cond := %s\ndef srcCbbpReports : List (Cond × Parent) := %s\n", cbbpShape, wsrcList(cbbpSkips), wsrcList(cbbpReports))
		b.WriteString("\nend Gedcom.Generated\n")
		return b.String()
	}
}
