package main

import (
	"encoding/hex"
	"fmt"
	"reflect"
	"strconv"
	"strings"

	"github.com/elliotchance/gedcom/v39"
)

// TNode is the abstract node both sides of the line protocol talk about.
type TNode struct {
	Tag, Value, Ptr string
	Kids            []*TNode
}

func T(tag, value, ptr string, kids ...*TNode) *TNode { return &TNode{tag, value, ptr, kids} }

func hexs(s string) string {
	if s == "" {
		return "-"
	}
	return hex.EncodeToString([]byte(s))
}

func unhex(s string) string {
	if s == "-" {
		return ""
	}
	b, err := hex.DecodeString(s)
	if err != nil {
		return "?" + s
	}
	return string(b)
}

func (t *TNode) enc(sb *strings.Builder) {
	sb.WriteString(hexs(t.Tag))
	sb.WriteByte(' ')
	sb.WriteString(hexs(t.Value))
	sb.WriteByte(' ')
	sb.WriteString(hexs(t.Ptr))
	sb.WriteByte(' ')
	sb.WriteString(strconv.Itoa(len(t.Kids)))
	for _, k := range t.Kids {
		sb.WriteByte(' ')
		k.enc(sb)
	}
}

// encForest: "<n> (<tag> <value> <ptr> <nkids> kids…)*", all byte strings hex, preorder.
func encForest(f []*TNode) string {
	var sb strings.Builder
	sb.WriteString(strconv.Itoa(len(f)))
	for _, t := range f {
		sb.WriteByte(' ')
		t.enc(&sb)
	}
	return sb.String()
}

func encTree(t *TNode) string {
	var sb strings.Builder
	t.enc(&sb)
	return sb.String()
}

// decForest parses the same format (used for the model's answers).
func decForest(s string) ([]*TNode, error) {
	toks := strings.Fields(s)
	pos := 0
	var node func() (*TNode, error)
	node = func() (*TNode, error) {
		if pos+4 > len(toks) {
			return nil, fmt.Errorf("truncated forest")
		}
		t := &TNode{Tag: unhex(toks[pos]), Value: unhex(toks[pos+1]), Ptr: unhex(toks[pos+2])}
		n, err := strconv.Atoi(toks[pos+3])
		if err != nil {
			return nil, err
		}
		pos += 4
		for i := 0; i < n; i++ {
			k, err := node()
			if err != nil {
				return nil, err
			}
			t.Kids = append(t.Kids, k)
		}
		return t, nil
	}
	if len(toks) == 0 {
		return nil, fmt.Errorf("empty")
	}
	n, err := strconv.Atoi(toks[0])
	if err != nil {
		return nil, err
	}
	pos = 1
	var f []*TNode
	for i := 0; i < n; i++ {
		t, err := node()
		if err != nil {
			return nil, err
		}
		f = append(f, t)
	}
	return f, nil
}

func (t *TNode) Size() int {
	n := 1
	for _, k := range t.Kids {
		n += k.Size()
	}
	return n
}

func (t *TNode) Depth() int {
	d := 0
	for _, k := range t.Kids {
		if x := k.Depth() + 1; x > d {
			d = x
		}
	}
	return d
}

func (t *TNode) Clone() *TNode {
	c := &TNode{t.Tag, t.Value, t.Ptr, nil}
	for _, k := range t.Kids {
		c.Kids = append(c.Kids, k.Clone())
	}
	return c
}

// abstractNode reads a real node tree into the abstract form.
func abstractNode(n gedcom.Node) *TNode {
	t := &TNode{Tag: n.Tag().Tag(), Value: n.Value(), Ptr: n.Pointer()}
	for _, k := range n.Nodes() {
		t.Kids = append(t.Kids, abstractNode(k))
	}
	return t
}

func abstractNodes(ns gedcom.Nodes) []*TNode {
	var f []*TNode
	for _, n := range ns {
		f = append(f, abstractNode(n))
	}
	return f
}

// kindOf is the Go dynamic type of a node, e.g. "BirthNode", "SimpleNode".
func kindOf(n gedcom.Node) string {
	return strings.TrimPrefix(reflect.TypeOf(n).String(), "*gedcom.")
}

// dumpNodes is the canonical preorder dump "(depth kind tag value ptr)*" used as observation.
func dumpNodes(ns gedcom.Nodes) string {
	var sb strings.Builder
	var walk func(n gedcom.Node, d int)
	cnt := 0
	walk = func(n gedcom.Node, d int) {
		cnt++
		fmt.Fprintf(&sb, " %d %s %s %s %s", d, kindOf(n), hexs(n.Tag().Tag()), hexs(n.Value()), hexs(n.Pointer()))
		for _, k := range n.Nodes() {
			walk(k, d+1)
		}
	}
	for _, n := range ns {
		walk(n, 0)
	}
	return strconv.Itoa(cnt) + sb.String()
}

// newPlain builds a node through gedcom.NewNode; panics (INDI/FAM/HUSB/WIFE/CHIL need a document or
// family) are returned as errors.
func newPlain(t *TNode) (n gedcom.Node, err error) {
	defer func() {
		if r := recover(); r != nil {
			err = fmt.Errorf("panic: %v", r)
		}
	}()
	var kids []gedcom.Node
	for _, k := range t.Kids {
		kn, e := newPlain(k)
		if e != nil {
			return nil, e
		}
		kids = append(kids, kn)
	}
	n = gedcom.NewNode(gedcom.TagFromString(t.Tag), t.Value, t.Ptr)
	for _, k := range kids { // AddNode rather than the variadic constructor: SEX drops constructor children
		n.AddNode(k)
	}
	return n, nil
}
