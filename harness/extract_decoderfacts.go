package main

import (
	"fmt"
	"go/ast"
	"go/parser"
	"go/token"
	"path/filepath"
	"strconv"
	"strings"
	"unicode/utf8"
)

// Facts about decoder.go that the byte-level model hard-codes: which code points
// strings.TrimSpace strips (probed on every valid code point), that trimNodeValue goes through
// strings.TrimSpace, which bytes end a line in readLine, and the byte order mark.

func charLitValue(e ast.Expr) (int, bool) {
	lit, ok := e.(*ast.BasicLit)
	if !ok {
		return 0, false
	}
	switch lit.Kind {
	case token.CHAR:
		s, err := strconv.Unquote(lit.Value)
		if err != nil || len(s) == 0 {
			return 0, false
		}
		r, _ := utf8.DecodeRuneInString(s)
		return int(r), true
	case token.INT:
		v, err := strconv.ParseInt(lit.Value, 0, 32)
		return int(v), err == nil
	}
	return 0, false
}

func init() {
	extractors["DecoderFacts"] = func() string {
		var b strings.Builder
		b.WriteString("-- Source: probe of strings.TrimSpace on every valid code point; go/ast facts about\n")
		b.WriteString("-- decoder.go (trimNodeValue, readLine, byteOrderMark).\n")
		b.WriteString("namespace Gedcom.Generated\n\n")
		// every code point that TrimSpace removes, as UTF-8 bytes, in code point order
		seqs := []string{}
		for r := rune(0); r <= utf8.MaxRune; r++ {
			if !utf8.ValidRune(r) {
				continue
			}
			if strings.TrimSpace(string(r)) == "" {
				parts := []string{}
				for _, by := range []byte(string(r)) {
					parts = append(parts, strconv.Itoa(int(by)))
				}
				seqs = append(seqs, "["+strings.Join(parts, ", ")+"]")
			}
		}
		fmt.Fprintf(&b, "/-- UTF-8 encodings of the code points strings.TrimSpace strips -/\ndef goSpaceSeqs : List (List UInt8) :=\n  [%s]\n\n", strings.Join(seqs, ", "))
		// TrimSpace does not strip an invalid byte or a truncated encoding
		inv := strings.TrimSpace("\xff") == "\xff" && strings.TrimSpace("\xc2") == "\xc2" && strings.TrimSpace("\xe2\x80") == "\xe2\x80"
		fmt.Fprintf(&b, "/-- invalid / truncated UTF-8 is not stripped -/\ndef goTrimKeepsInvalid : Bool := %v\n\n", inv)

		trimUses := false
		breaks := []string{}
		bom := []string{}
		fset := token.NewFileSet()
		file, err := parser.ParseFile(fset, filepath.Join(repoRoot(), "decoder.go"), nil, 0)
		if err == nil {
			for _, d := range file.Decls {
				switch d := d.(type) {
				case *ast.GenDecl:
					for _, s := range d.Specs {
						vs, ok := s.(*ast.ValueSpec)
						if !ok || len(vs.Names) != 1 || vs.Names[0].Name != "byteOrderMark" || len(vs.Values) != 1 {
							continue
						}
						if cl, ok := vs.Values[0].(*ast.CompositeLit); ok {
							for _, e := range cl.Elts {
								if v, ok := charLitValue(e); ok {
									bom = append(bom, strconv.Itoa(v))
								}
							}
						}
					}
				case *ast.FuncDecl:
					if d.Body == nil {
						continue
					}
					switch d.Name.Name {
					case "trimNodeValue":
						// newValue := strings.TrimSpace(<node>.RawSimpleNode().value) ; <node>.RawSimpleNode().value = newValue
						var from string
						ast.Inspect(d.Body, func(n ast.Node) bool {
							as, ok := n.(*ast.AssignStmt)
							if !ok || len(as.Lhs) != 1 || len(as.Rhs) != 1 {
								return true
							}
							if call, ok := as.Rhs[0].(*ast.CallExpr); ok && len(call.Args) == 1 {
								if sel, ok := call.Fun.(*ast.SelectorExpr); ok && sel.Sel.Name == "TrimSpace" {
									if x, ok := sel.X.(*ast.Ident); ok && x.Name == "strings" {
										if a, ok := call.Args[0].(*ast.SelectorExpr); ok && a.Sel.Name == "value" {
											if id, ok := as.Lhs[0].(*ast.Ident); ok {
												from = id.Name
											}
										}
									}
								}
							}
							if id, ok := as.Rhs[0].(*ast.Ident); ok && from != "" && id.Name == from {
								if l, ok := as.Lhs[0].(*ast.SelectorExpr); ok && l.Sel.Name == "value" {
									trimUses = true
								}
							}
							return true
						})
					case "readLine":
						ast.Inspect(d.Body, func(n ast.Node) bool {
							ifs, ok := n.(*ast.IfStmt)
							if !ok {
								return true
							}
							var collect func(e ast.Expr) bool
							collect = func(e ast.Expr) bool {
								be, ok := e.(*ast.BinaryExpr)
								if !ok {
									return false
								}
								if be.Op == token.LOR {
									return collect(be.X) && collect(be.Y)
								}
								if be.Op == token.EQL {
									if id, ok := be.X.(*ast.Ident); ok && id.Name == "b" {
										if v, ok := charLitValue(be.Y); ok {
											breaks = append(breaks, strconv.Itoa(v))
											return true
										}
									}
								}
								return false
							}
							saved := breaks
							if !collect(ifs.Cond) || len(ifs.Body.List) != 1 {
								breaks = saved
								return true
							}
							if br, ok := ifs.Body.List[0].(*ast.BranchStmt); !ok || br.Tok != token.BREAK {
								breaks = saved
							}
							return true
						})
					}
				}
			}
		}
		fmt.Fprintf(&b, "/-- trimNodeValue replaces the value by strings.TrimSpace of it -/\ndef trimUsesTrimSpace : Bool := %v\n", trimUses)
		fmt.Fprintf(&b, "/-- the bytes at which readLine ends a line (`if b == … || b == … { break }`) -/\ndef readLineBreaks : List UInt8 := [%s]\n", strings.Join(breaks, ", "))
		fmt.Fprintf(&b, "/-- `byteOrderMark` -/\ndef bomBytes : List UInt8 := [%s]\n", strings.Join(bom, ", "))
		b.WriteString("\nend Gedcom.Generated\n")
		return b.String()
	}
}
