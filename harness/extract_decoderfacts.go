package main

import (
	"fmt"
	"go/ast"
	"go/parser"
	"go/token"
	"path/filepath"
	"strconv"
	"strings"
	"unicode/utf8"
)

// Facts about decoder.go that the byte-level model hard-codes: which code points
// strings.TrimSpace strips (probed on every valid code point), that trimNodeValue goes through
// strings.TrimSpace, which bytes end a line in readLine, and the byte order mark.

func charLitValue(e ast.Expr) (int, bool) {
	lit, ok := e.(*ast.BasicLit)
	if !ok {
		return 0, false
	}
	switch lit.Kind {
	case token.CHAR:
		s, err := strconv.Unquote(lit.Value)
		if err != nil || len(s) == 0 {
			return 0, false
		}
		r, _ := utf8.DecodeRuneInString(s)
		return int(r), true
	case token.INT:
		v, err := strconv.ParseInt(lit.Value, 0, 32)
		return int(v), err == nil
	}
	return 0, false
}

func init() {
	extractors["DecoderFacts"] = func() string {
		var b strings.Builder
		b.WriteString("-- Source: probe of strings.TrimSpace on every valid code point; go/ast facts about\n")
		b.WriteString("-- decoder.go (trimNodeValue, readLine, byteOrderMark).\n")
		b.WriteString("namespace Gedcom.Generated\n\n")
		// every code point that TrimSpace removes, as UTF-8 bytes, in code point order
		seqs := []string{}
		for r := rune(0); r <= utf8.MaxRune; r++ {
			if !utf8.ValidRune(r) {
				continue
			}
			if strings.TrimSpace(string(r)) == "" {
				parts := []string{}
				for _, by := range []byte(string(r)) {
					parts = append(parts, strconv.Itoa(int(by)))
				}
				seqs = append(seqs, "["+strings.Join(parts, ", ")+"]")
			}
		}
		fmt.Fprintf(&b, "/-- UTF-8 encodings of the code points strings.TrimSpace strips -/\ndef goSpaceSeqs : List (List UInt8) :=\n  [%s]\n\n", strings.Join(seqs, ", "))
		// TrimSpace does not strip an invalid byte or a truncated encoding
		inv := strings.TrimSpace("\xff") == "\xff" && strings.TrimSpace("\xc2") == "\xc2" && strings.TrimSpace("\xe2\x80") == "\xe2\x80"
		fmt.Fprintf(&b, "/-- invalid / truncated UTF-8 is not stripped -/\ndef goTrimKeepsInvalid : Bool := %v\n\n", inv)

		trimUses := false
		breaks := []string{}
		bom := []string{}
		fset := token.NewFileSet()
		file, err := parser.ParseFile(fset, filepath.Join(repoRoot(), "decoder.go"), nil, 0)
		if err == nil {
			for _, d := range file.Decls {
				switch d := d.(type) {
				case *ast.GenDecl:
					for _, s := range d.Specs {
						vs, ok := s.(*ast.ValueSpec)
						if !ok || len(vs.Names) != 1 || vs.Names[0].Name != "byteOrderMark" || len(vs.Values) != 1 {
							continue
						}
						if cl, ok := vs.Values[0].(*ast.CompositeLit); ok {
							for _, e := range cl.Elts {
								if v, ok := charLitValue(e); ok {
									bom = append(bom, strconv.Itoa(v))
								}
							}
						}
					}
				case *ast.FuncDecl:
					if d.Body == nil {
						continue
					}
					switch d.Name.Name {
					case "trimNodeValue":
						// newValue := strings.TrimSpace(<node>.RawSimpleNode().value) ; <node>.RawSimpleNode().value = newValue
						var from string
						ast.Inspect(d.Body, func(n ast.Node) bool {
							as, ok := n.(*ast.AssignStmt)
							if !ok || len(as.Lhs) != 1 || len(as.Rhs) != 1 {
								return true
							}
							if call, ok := as.Rhs[0].(*ast.CallExpr); ok && len(call.Args) == 1 {
								if sel, ok := call.Fun.(*ast.SelectorExpr); ok && sel.Sel.Name == "TrimSpace" {
									if x, ok := sel.X.(*ast.Ident); ok && x.Name == "strings" {
										if a, ok := call.Args[0].(*ast.SelectorExpr); ok && a.Sel.Name == "value" {
											if id, ok := as.Lhs[0].(*ast.Ident); ok {
												from = id.Name
											}
										}
									}
								}
							}
							if id, ok := as.Rhs[0].(*ast.Ident); ok && from != "" && id.Name == from {
								if l, ok := as.Lhs[0].(*ast.SelectorExpr); ok && l.Sel.Name == "value" {
									trimUses = true
								}
							}
							return true
						})
					case "readLine":
						// the stop bytes of the translated byte loop (extract_readline.go)
						if d.Recv != nil {
							for _, cl := range readLineClauses(fset, d) {
								if strings.HasPrefix(cl, ".onByteStop [") {
									for _, x := range strings.Split(strings.TrimSuffix(strings.TrimPrefix(cl, ".onByteStop ["), "]"), ", ") {
										if x != "" {
											breaks = append(breaks, x)
										}
									}
								}
							}
						}
					}
				}
			}
		}
		fmt.Fprintf(&b, "/-- trimNodeValue replaces the value by strings.TrimSpace of it -/\ndef trimUsesTrimSpace : Bool := %v\n", trimUses)
		fmt.Fprintf(&b, "/-- the bytes at which readLine ends a line (the stop clause of `readLineProgram`) -/\ndef readLineBreaks : List UInt8 := [%s]\n", strings.Join(breaks, ", "))
		fmt.Fprintf(&b, "/-- `byteOrderMark` -/\ndef bomBytes : List UInt8 := [%s]\n", strings.Join(bom, ", "))
		b.WriteString("\nend Gedcom.Generated\n")
		return b.String()
	}
}

// decodeConditions lists, in source order, the text of every `if` condition and every `case`
// expression list of the given function (go/printer, white space normalised), each prefixed with
// the kind of exit its body starts with when it is a plain return/continue/panic/break.
func decodeConditions(fset *token.FileSet, fn *ast.FuncDecl) []string {
	out := []string{}
	exit := func(body []ast.Stmt) string {
		if len(body) == 0 {
			return ""
		}
		switch st := body[len(body)-1].(type) {
		case *ast.ReturnStmt:
			return " => return"
		case *ast.BranchStmt:
			return " => " + st.Tok.String()
		case *ast.ExprStmt:
			if call, ok := st.X.(*ast.CallExpr); ok {
				if id, ok := call.Fun.(*ast.Ident); ok && id.Name == "panic" {
					return " => panic"
				}
			}
		}
		return ""
	}
	ast.Inspect(fn.Body, func(n ast.Node) bool {
		switch n := n.(type) {
		case *ast.IfStmt:
			init := ""
			if n.Init != nil {
				init = printNode(fset, n.Init) + "; "
			}
			out = append(out, "if "+init+printNode(fset, n.Cond)+exit(n.Body.List))
			if blk, ok := n.Else.(*ast.BlockStmt); ok {
				out = append(out, "else of "+printNode(fset, n.Cond)+exit(blk.List))
			}
		case *ast.ForStmt:
			if n.Cond != nil {
				out = append(out, "for "+printNode(fset, n.Cond))
			} else {
				out = append(out, "for")
			}
		case *ast.CaseClause:
			parts := []string{}
			for _, e := range n.List {
				parts = append(parts, printNode(fset, e))
			}
			if len(parts) == 0 {
				out = append(out, "default"+exit(n.Body))
			} else {
				out = append(out, "case "+strings.Join(parts, ", ")+exit(n.Body))
			}
		}
		return true
	})
	return out
}

func init() {
	extractors["DecodeShape"] = func() string {
		var b strings.Builder
		b.WriteString("-- Source: decoder.go — the conditions of Decoder.Decode and parseLine in source order (go/ast,\n")
		b.WriteString("-- printed with go/printer, white space normalised), with the exit their branch ends in.\n")
		b.WriteString("namespace Gedcom.Generated\n\n")
		fset := token.NewFileSet()
		file, err := parser.ParseFile(fset, filepath.Join(repoRoot(), "decoder.go"), nil, 0)
		lists := map[string][]string{}
		conc := []string{}
		if err == nil {
			// goroutines, channels, deferred calls anywhere in decoder.go: the model's loop is
			// sequential and its exits are the ones listed below
			ast.Inspect(file, func(n ast.Node) bool {
				switch n.(type) {
				case *ast.GoStmt:
					conc = append(conc, "go")
				case *ast.SendStmt:
					conc = append(conc, "send")
				case *ast.ChanType:
					conc = append(conc, "chan")
				case *ast.SelectStmt:
					conc = append(conc, "select")
				case *ast.DeferStmt:
					conc = append(conc, "defer")
				}
				return true
			})
		} else {
			conc = append(conc, "unreadable")
		}
		if err == nil {
			for _, d := range file.Decls {
				if fn, ok := d.(*ast.FuncDecl); ok && fn.Body != nil {
					switch fn.Name.Name {
					case "Decode", "parseLine", "readLine", "consumeOptionalBOM":
						lists[fn.Name.Name] = decodeConditions(fset, fn)
					}
				}
			}
		}
		for _, name := range []string{"Decode", "parseLine", "readLine", "consumeOptionalBOM"} {
			q := []string{}
			for _, s := range lists[name] {
				q = append(q, strconv.Quote(s))
			}
			fmt.Fprintf(&b, "def conditionsOf%s : List String := [\n  %s]\n\n", strings.ToUpper(name[:1])+name[1:], strings.Join(q, ",\n  "))
		}
		cq := []string{}
		for _, x := range conc {
			cq = append(cq, strconv.Quote(x))
		}
		fmt.Fprintf(&b, "/-- go statements, channel operations, selects and deferred calls in decoder.go -/\ndef decoderConcurrency : List String := [%s]\n\n", strings.Join(cq, ", "))
		b.WriteString("end Gedcom.Generated\n")
		return b.String()
	}
}
