package main

import (
	"fmt"
	"strings"

	"github.com/elliotchance/gedcom/v39"
	"github.com/elliotchance/gedcom/v39/html"
)

// C17: facts about the code that used to ignore the living visibility, by behavioural probes.
// `gvh extract` is a fresh process, so the process-global surname cache of html/publish_header.go
// is filled by this one probe only.
func init() {
	extractors["Living"] = func() string {
		year := 2000 // a person born in 2000 without a death is living for the next century
		src := fmt.Sprintf("0 @I1@ INDI\n1 NAME Liv /Ingsurname/\n1 BIRT\n2 DATE 1 Jan %d\n2 PLAC Livingplace\n0 @I2@ INDI\n1 NAME Old /Timer/\n1 BIRT\n2 PLAC Oldplace\n1 DEAT Y\n", year)
		doc, err := gedcom.NewDocumentFromString(src)
		if err != nil {
			panic(err)
		}
		opts := &html.PublishShowOptions{ShowIndividuals: true, ShowSurnames: true, ShowPlaces: true, LivingVisibility: html.LivingVisibilityHide}
		pub := html.NewPublisher(doc, opts)
		surnamePage := c17render(html.NewSurnameListPage(doc, "", opts, html.GetIndexLetters(doc, html.LivingVisibilityHide), nil))
		_, livingPlace := pub.Places()["livingplace"]
		_, oldPlace := pub.Places()["oldplace"]
		letters := html.GetIndexLetters(doc, html.LivingVisibilityHide)
		// the statistics page in hide mode: the Individuals card (Total / Living / Dead) and the Events
		// card (Total). I1 (living) has one event (BIRT), I2 (dead) has two (BIRT, DEAT).
		statOpts := &html.PublishShowOptions{ShowStatistics: true, LivingVisibility: html.LivingVisibilityHide}
		statAtoms := c17Atoms(c17render(html.NewStatisticsPage(doc, "", statOpts, letters, html.NewPublisher(doc, statOpts).Places())))
		after := func(card string, n int) string {
			for i, a := range statAtoms {
				if a == "T"+card && i >= 3 && i+n < len(statAtoms) { // past title, nav item and big title
					return strings.Join(statAtoms[i+1:i+1+n], " ")
				}
			}
			return ""
		}
		indCard := after("Individuals", 6)
		evTotal := after("Events", 2)
		// the surname memo of html/publish_header.go over a history of publishers of one document:
		// (1) two publishers constructed up front, the show site published first, then the hide site;
		// (2) a hide site published, the living person dies, a new publisher publishes again.
		allOpts := func(v html.LivingVisibility) *html.PublishShowOptions {
			return &html.PublishShowOptions{ShowIndividuals: true, ShowSurnames: true, LivingVisibility: v}
		}
		surnamesPage := func(p *html.Publisher) string {
			site := &c17Site{Files: map[string]string{}}
			if err := p.Publish(&c17Writer{site: site}, 1); err != nil {
				panic(err)
			}
			return site.Files["surnames.html"]
		}
		doc2, _ := gedcom.NewDocumentFromString(src)
		pubShow, pubHide := html.NewPublisher(doc2, allOpts(html.LivingVisibilityShow)), html.NewPublisher(doc2, allOpts(html.LivingVisibilityHide))
		showFirst := surnamesPage(pubShow)
		hideSecond := surnamesPage(pubHide)
		keyedByVisibility := strings.Contains(showFirst, "Ingsurname") && !strings.Contains(hideSecond, "Ingsurname") && strings.Contains(hideSecond, "Timer")
		doc3, _ := gedcom.NewDocumentFromString(src)
		before := surnamesPage(html.NewPublisher(doc3, allOpts(html.LivingVisibilityHide)))
		doc3.Individuals()[0].AddNode(gedcom.NewDeathNode("Y"))
		afterDeath := surnamesPage(html.NewPublisher(doc3, allOpts(html.LivingVisibilityHide)))
		forgets := !strings.Contains(before, "Ingsurname") && strings.Contains(afterDeath, "Ingsurname")
		var b strings.Builder
		b.WriteString("-- Source: behavioural probes (harness/extract_living.go) on a two-person file (one living, one dead)\n")
		b.WriteString("-- published with -living hide: surnames.html, Publisher.Places(), GetIndexLetters.\n")
		b.WriteString("namespace Gedcom.Generated.Living\n")
		fmt.Fprintf(&b, "def surnamesRespectVisibility : Bool := %v\n", !strings.Contains(surnamePage, "Ingsurname") && strings.Contains(surnamePage, "Timer"))
		fmt.Fprintf(&b, "def placesRespectHide : Bool := %v\n", !livingPlace && oldPlace)
		fmt.Fprintf(&b, "def hideLettersFromDead : Bool := %v\n", string(letters) == "t")
		b.WriteString("-- statistics.html in hide mode (same file): the Individuals card shows Total 1 / Living 0 / Dead 1;\n")
		b.WriteString("-- the Events card leaves out the living person's event (Total 2 instead of 3).\n")
		fmt.Fprintf(&b, "def statsIndividualsHideLiving : Bool := %v\n", indCard == "TTotal T1 TLiving T0 TDead T1")
		fmt.Fprintf(&b, "def statsEventsHideLiving : Bool := %v\n", evTotal == "TTotal T2")
		b.WriteString("-- the surname memo (getSurnames / forgetSurnames): a show and a hide publisher of one document constructed\n")
		b.WriteString("-- up front, show published first: the hide site lists only the dead person's surname; a hide site\n")
		b.WriteString("-- published, `1 DEAT Y` added to the living person, a new publisher: the surname is listed.\n")
		fmt.Fprintf(&b, "def surnameCacheKeyedByVisibility : Bool := %v\n", keyedByVisibility)
		fmt.Fprintf(&b, "def newPublisherForgetsSurnames : Bool := %v\n", forgets)
		b.WriteString("end Gedcom.Generated.Living\n")
		return b.String()
	}
}
