package main

// C07 — Deep equality ignores order and deep copies are independent.
//
// Correspondence: `deq` (Equals / DeepEqual in both directions), `deqn` (DeepEqualNodes), `copy`
// (DeepCopy: structure, rendering, freshness, families added to the destination document, panic)
// and `mut` (copy, then AddNode / DeleteNode / SetNodes on one object of the source or of the copy,
// then both renderings).
// Oracle: reflexivity up to copying, symmetry, permutation invariance, edit detection, and the
// independence of copy and source, checked on the implementation itself.

import (
	"fmt"
	"sort"
	"strings"

	"github.com/elliotchance/gedcom/v39"
)

const c07KeyDates = "C07-date-equality-not-an-equivalence"

var c07PlainTags = []string{"NOTE", "NAME", "PLAC", "SOUR", "_CUSTOM", "OCCU", "TYPE", "SEX", "FORM", "NICK", "1NUM", "MAP", "LATI"}
var c07VitalTags = []string{"BIRT", "DEAT", "BURI", "BAPM"}
var c07PlainValues = []string{"", "a", "b", "x y", "England", "Caf\xc3\xa9", "@I1@", "0", "A /B/"}
var c07Pointers = []string{"", "", "", "P1", "X2"}

// DATE values on which DateRange.Equals is an equivalence (exact dates in several spellings,
// ranges, phrases, unparsable text) …
var c07TameDates = []string{"3 Sep 1943", "3 SEP 1943", "5 Sep 1943", "Sep 1943", "1943", "1 Jan 1900",
	"Bet. 1940 and 1950", "Between 1 Jan 1940 and 5 Feb 1941", "(unknown)", "(about then)", "foo",
	"Decmbr 5 1901", "", " 3  Sep 1943", "Abt. 1943", "3 Sep 1943 "}

// … and constraint-bearing ones, on which it is not (defect 7 and the Before/Before asymmetry)
var c07WildDates = []string{"Bef. Oct 1943", "Aft. 1940", "Bef. 1900", "Bef. 1901", "Aft. 3 Sep 1943",
	"Bef. 5 Sep 1943", "Abt. Sep 1943", "bef 1950", "After 1 Jan 1900", "Bet. Bef. 1940 and 1950"}

// zero-year / half-zero dates (parse without error but are zero dates), years above 9999, a month
// without a usable year, leading-zero days, runs of five and more spaces
var c07EdgeDates = []string{"0", "0000", "Abt. 0", "BET 0 AND 0", "BET 1900 AND 0", "Bet. 0 and 1900", "Bef. 0",
	"Mar 0", "3 Mar 0", "12345", "Mar 12345", "3 Sep 12345", "03 Sep 1943", "003 Sep 1943", "00 Sep 1943",
	"3     Sep 1943", "3      Sep   1943", "1 Jan 0001", "Aft. 0000", "0 Sep 1943"}

var c07UIDs = []string{
	"EE13561DDB204985BFFDEEBF82A5226C", "ee13561ddb204985bffdeebf82a5226c",
	"ee13561d-db20-4985-bffd-eebf82a5226c", "{EE13561D-DB20-4985-BFFD-EEBF82A5226C}",
	"EE13561DDB204985BFFDEEBF82A5226C5B2E", "EE13561DDB204985BFFDEEBF82A5226CZZZZ",
	"92FF8B766F327F48A256C3AE6DAE50D3A114", "92FF8B766F327F48A256C3AE6DAE50D3",
	"notauuid", "", "EE13561DDB204985BFFDEEBF82A5226", "GE13561DDB204985BFFDEEBF82A5226C",
	"EE13561DDB204985BFFDEEBF82A5226\xc3\xa9", "----", "ee13561ddb204985bffdeebf82a5226c-",
}

type c07gen struct {
	r     *Rand
	wild  bool // constraint-bearing dates / several dates per RESI, EVEN allowed
	small bool // shallow trees (generated first, so that the first failing inputs reported are small)
}

func (g *c07gen) date() *TNode {
	pool := c07TameDates
	if g.r.Chance(1, 5) {
		pool = c07EdgeDates
	}
	if g.r.Chance(1, 12) {
		pool = c07TieDates // exact ties of Years(): see c07e.go
	}
	if g.wild && g.r.Chance(1, 2) {
		pool = c07WildDates
	}
	t := T("DATE", g.r.Pick(pool), "")
	if g.r.Chance(1, 8) {
		t.Kids = append(t.Kids, T("TIME", g.r.Pick([]string{"12:00", "13:00"}), ""))
	}
	return t
}

// c07docDate: a DATE value for a generated document line (the decoder trims it)
func c07docDate(r *Rand) string {
	if r.Chance(1, 3) {
		return r.Pick(c07EdgeDates)
	}
	return r.Pick(c07TameDates[:6])
}

func (g *c07gen) plainLeaf() *TNode {
	return T(g.r.Pick(c07PlainTags), g.r.Pick(c07PlainValues), g.r.Pick(c07Pointers))
}

func (g *c07gen) node(depth int) *TNode {
	r := g.r
	var t *TNode
	switch k := r.Intn(20); {
	case k < 7:
		t = g.plainLeaf()
	case k < 10:
		t = T(r.Pick(c07VitalTags), r.Pick([]string{"", "", "Y"}), "")
	case k < 12:
		t = g.date()
		return t
	case k < 14:
		t = T("_UID", r.Pick(c07UIDs), "")
	case k < 17:
		t = T("RESI", r.Pick([]string{"", "", "home"}), "")
		nd := r.Pick([]string{"0", "1", "1", "1"})
		if g.wild && r.Chance(1, 3) {
			nd = "2"
		}
		for i := 0; i < int(nd[0]-'0'); i++ {
			t.Kids = append(t.Kids, g.date())
		}
		for i := r.Intn(3); i > 0; i-- {
			p := T("PLAC", r.Pick([]string{"England", "Wales", "a"}), "")
			if r.Chance(1, 3) {
				p.Kids = append(p.Kids, T("MAP", "", "", T("LATI", r.Pick([]string{"N1", "N2"}), "")))
			}
			t.Kids = append(t.Kids, p)
		}
	default:
		t = T("EVEN", r.Pick([]string{"", "a", "b"}), "")
		nd := r.Pick([]string{"0", "0", "1", "1"})
		if g.wild && r.Chance(1, 3) {
			nd = "2"
		}
		for i := 0; i < int(nd[0]-'0'); i++ {
			t.Kids = append(t.Kids, g.date())
		}
	}
	if depth > 0 {
		n := 0
		switch k := r.Intn(10); {
		case k < 3:
			n = 0
		case k < 8:
			n = 1 + r.Intn(3)
		case k < 9:
			n = 4 + r.Intn(3)
		default:
			n = 7 + r.Intn(4)
		}
		for i := 0; i < n; i++ {
			t.Kids = append(t.Kids, g.node(depth-1))
		}
		if len(t.Kids) > 1 && r.Chance(1, 3) { // duplicate siblings
			t.Kids = append(t.Kids, t.Kids[r.Intn(len(t.Kids))].Clone())
		}
		r2 := r.Perm(len(t.Kids))
		ks := make([]*TNode, len(t.Kids))
		for i, j := range r2 {
			ks[i] = t.Kids[j]
		}
		t.Kids = ks
	}
	return t
}

func (g *c07gen) tree() *TNode {
	d := g.r.Pick([]string{"0", "1", "1", "2", "2", "2", "2", "3", "3", "4"})
	if g.small {
		d = g.r.Pick([]string{"0", "1", "1", "1", "2"})
	}
	return g.node(int(d[0] - '0'))
}

// ---- helpers on abstract trees ----

func c07preorder(t *TNode, f func(n *TNode)) {
	f(t)
	for _, k := range t.Kids {
		c07preorder(k, f)
	}
}

// c07shuffle re-orders children at every level with probability p/4.
func c07shuffle(r *Rand, t *TNode, p int) *TNode {
	c := &TNode{t.Tag, t.Value, t.Ptr, nil}
	for _, k := range t.Kids {
		c.Kids = append(c.Kids, c07shuffle(r, k, p))
	}
	if len(c.Kids) > 1 && r.Chance(p, 4) {
		perm := r.Perm(len(c.Kids))
		ks := make([]*TNode, len(c.Kids))
		for i, j := range perm {
			ks[i] = c.Kids[j]
		}
		c.Kids = ks
	}
	return c
}

func c07isPlain(tag string) bool {
	switch tag {
	case "BIRT", "DEAT", "BURI", "BAPM", "RESI", "EVEN", "DATE", "_UID":
		return false
	}
	return true
}

// c07edits returns single-node edits of t: (description, edited tree).
type c07edit struct {
	what string
	t    *TNode
}

func c07edits(r *Rand, t *TNode, max int) []c07edit {
	var out []c07edit
	var nodes []*TNode
	c07preorder(t, func(n *TNode) { nodes = append(nodes, n) })
	idx := r.Perm(len(nodes))
	for _, i := range idx {
		if len(out) >= max {
			break
		}
		// clone and locate the i-th node of the clone
		mk := func() (*TNode, *TNode, *TNode) { // clone root, target, parent of target
			c := t.Clone()
			var ns []*TNode
			par := map[*TNode]*TNode{}
			var walk func(n, p *TNode)
			walk = func(n, p *TNode) {
				ns = append(ns, n)
				par[n] = p
				for _, k := range n.Kids {
					walk(k, n)
				}
			}
			walk(c, nil)
			return c, ns[i], par[ns[i]]
		}
		switch r.Intn(3) {
		case 0: // insert a plain leaf under node i at a random position
			c, n, _ := mk()
			pos := r.Intn(len(n.Kids) + 1)
			leaf := T(r.Pick(c07PlainTags), r.Pick(c07PlainValues), "")
			n.Kids = append(n.Kids[:pos:pos], append([]*TNode{leaf}, n.Kids[pos:]...)...)
			out = append(out, c07edit{fmt.Sprintf("insert %s under node %d at %d", leaf.Tag, i, pos), c})
		case 1: // delete node i (not the root)
			c, n, p := mk()
			if p == nil {
				continue
			}
			for j, k := range p.Kids {
				if k == n {
					p.Kids = append(p.Kids[:j:j], p.Kids[j+1:]...)
					break
				}
			}
			out = append(out, c07edit{fmt.Sprintf("delete node %d", i), c})
		default: // change the value of plain node i
			c, n, _ := mk()
			if !c07isPlain(n.Tag) {
				continue
			}
			n.Value = n.Value + "!"
			out = append(out, c07edit{fmt.Sprintf("change value of node %d", i), c})
		}
	}
	return out
}

// ---- the guard, evaluated on the implementation ----

// c07guard returns "" when DateNode.Equals is symmetric and transitive on all DATE values of the
// trees; otherwise the matcher key of the finding (the same guard as dateEquiv / okNode in Lean).
func c07guard(trees ...*TNode) string {
	seen := map[string]bool{}
	var vals []string
	for _, t := range trees {
		c07preorder(t, func(n *TNode) {
			if n.Tag == "DATE" && !seen[n.Value] {
				seen[n.Value] = true
				vals = append(vals, n.Value)
			}
		})
	}
	n := len(vals)
	eq := make([][]bool, n)
	for i := range vals {
		eq[i] = make([]bool, n)
		for j := range vals {
			eq[i][j] = gedcom.NewDateNode(vals[i]).Equals(gedcom.NewDateNode(vals[j]))
		}
	}
	for i := 0; i < n; i++ {
		for j := 0; j < n; j++ {
			if eq[i][j] && !eq[j][i] {
				return c07KeyDates
			}
			if eq[i][j] {
				for k := 0; k < n; k++ {
					if eq[j][k] && !eq[i][k] {
						return c07KeyDates
					}
				}
			}
		}
	}
	return ""
}

// ---- implementation side ----

func c07deq(a, b gedcom.Node) (s string) {
	defer func() {
		if r := recover(); r != nil {
			s = fmt.Sprintf("panic:%v", r)
		}
	}()
	return bit(a.Equals(b)) + bit(b.Equals(a)) + " " + bit(gedcom.DeepEqual(a, b)) + bit(gedcom.DeepEqual(b, a))
}

type c07stats struct{ kinds map[string]bool }

// c07pair registers the correspondence of one pair and returns DeepEqual(a,b), DeepEqual(b,a).
func c07pair(c *Ctx, ta, tb *TNode, label string) (ab, ba bool, ok bool) {
	a, e1 := newPlain(ta)
	b, e2 := newPlain(tb)
	if e1 != nil || e2 != nil {
		c.Count("unbuildable")
		return false, false, false
	}
	obs := c07deq(a, b)
	c.Tie("deq "+encForest([]*TNode{ta, tb}), obs)
	c.Eval()
	c.Count("deq:" + label + "=" + obs)
	if len(obs) == 5 {
		return obs[3] == '1', obs[4] == '1', true
	}
	return false, false, false
}

func c07kindsig(t *TNode) string {
	m := map[string]bool{}
	c07preorder(t, func(n *TNode) {
		switch n.Tag {
		case "BIRT", "DEAT", "BURI", "BAPM":
			m["vital"] = true
		case "RESI", "EVEN", "DATE", "_UID":
			m[n.Tag] = true
		default:
			m["plain"] = true
		}
	})
	var ks []string
	for k := range m {
		ks = append(ks, k)
	}
	sort.Strings(ks)
	return strings.Join(ks, "+")
}

func c07in(ta, tb *TNode, what string) map[string]string {
	return map[string]string{"case": what, "left": encTree(ta), "right": encTree(tb),
		"left_gedcom": c07text(ta), "right_gedcom": c07text(tb)}
}

func c07text(t *TNode) string {
	n, err := newPlain(t)
	if err != nil {
		return "?"
	}
	return n.GEDCOMString(0)
}

// c07laws: symmetry for any pair; `want` = "eq" (copy / permutation) or "ne" (edit) or "".
func c07laws(c *Ctx, ta, tb *TNode, label, want string) {
	ab, ba, ok := c07pair(c, ta, tb, label)
	if !ok {
		return
	}
	key := ""
	guarded := false
	guard := func() string {
		if !guarded {
			key = c07guard(ta, tb)
			guarded = true
		}
		return key
	}
	c.Nontrivial(label + "/" + c07kindsig(ta) + "/" + bit(ab) + bit(ba))
	if ab != ba {
		c.Oracle(guard(), "deep equality is not symmetric", c07in(ta, tb, label),
			fmt.Sprintf("DeepEqual(l,r)=%v DeepEqual(r,l)=%v", ab, ba), "equal results")
	}
	switch want {
	case "eq":
		if !ab {
			k := ""
			if label != "copy" {
				k = guard()
			}
			c.Oracle(k, "a tree is not deep-equal to "+label+" of itself", c07in(ta, tb, label),
				"DeepEqual=false", "true")
		}
	case "ne":
		if ab {
			c.Oracle(guard(), "trees that differ by one edit are deep-equal", c07in(ta, tb, label),
				"DeepEqual=true", "false")
		}
	}
}

// ---- copies ----

func c07identity(n gedcom.Node, set map[gedcom.Node]bool) {
	set[n] = true
	for _, k := range n.Nodes() {
		c07identity(k, set)
	}
}

func c07nth(n gedcom.Node, k int) gedcom.Node {
	var res gedcom.Node
	i := 0
	var walk func(n gedcom.Node)
	walk = func(n gedcom.Node) {
		if i == k {
			res = n
		}
		i++
		for _, c := range n.Nodes() {
			walk(c)
		}
	}
	walk(n)
	return res
}

func c07famPointers(doc *gedcom.Document) []string {
	var ps []string
	for _, n := range doc.Nodes() {
		if _, ok := n.(*gedcom.FamilyNode); ok {
			ps = append(ps, n.Pointer())
		}
	}
	return ps
}

func c07hexList(l []string) string {
	var sb strings.Builder
	fmt.Fprintf(&sb, "%d", len(l))
	for _, s := range l {
		sb.WriteByte(' ')
		sb.WriteString(hexs(s))
	}
	return sb.String()
}

func c07copy(src gedcom.Node, dst *gedcom.Document) (cp gedcom.Node, panicked bool) {
	defer func() {
		if r := recover(); r != nil {
			panicked = true
		}
	}()
	return gedcom.DeepCopy(src, dst), false
}

// c07copyCase: correspondence + oracle for DeepCopy of `src` (a real node, abstract form ts).
func c07copyCase(c *Ctx, src gedcom.Node, ts *TNode, label string) {
	before := src.GEDCOMString(0)
	dst := gedcom.NewDocument()
	cp, panicked := c07copy(src, dst)
	req := "copy " + encForest([]*TNode{ts})
	c.Eval()
	if panicked {
		c.Tie(req, "panic")
		c.Count("copy:" + label + "=panic")
		c.Nontrivial("copy-panic/" + ts.Tag)
		return
	}
	srcIDs, cpIDs := map[gedcom.Node]bool{}, map[gedcom.Node]bool{}
	c07identity(src, srcIDs)
	c07identity(cp, cpIDs)
	fresh := true
	for n := range cpIDs {
		if srcIDs[n] {
			fresh = false
		}
	}
	after := src.GEDCOMString(0)
	fams := c07famPointers(dst)
	obs := fmt.Sprintf("ok fresh=%s srcwritten=%s fams=%s copy=%s render=%s", bit(fresh), bit(before != after),
		c07hexList(fams), encTree(abstractNode(cp)), hexs(cp.GEDCOMString(0)))
	c.Tie(req, obs)
	c.Count("copy:" + label + "=ok")
	c.Nontrivial("copy/" + c07kindsig(ts) + fmt.Sprintf("/fams=%d", len(fams)))
	in := map[string]string{"case": "copy " + label, "tree": encTree(ts), "gedcom": before}
	if !fresh {
		c.Oracle("", "a deep copy shares a node with its source", in, "shared node", "disjoint identity sets")
	}
	if before != after {
		c.Oracle("", "copying modified the source", in, after, before)
	}
	if cp.GEDCOMString(0) != before {
		c.Oracle("", "a deep copy serialises differently from its source", in, cp.GEDCOMString(0), before)
	}
	if !gedcom.DeepEqual(src, cp) || !gedcom.DeepEqual(cp, src) {
		c.Oracle("", "a tree is not deep-equal to a deep copy of itself", in, "DeepEqual=false", "true")
	}
	if !gedcom.DeepEqual(src, src) {
		c.Oracle("", "a tree is not deep-equal to itself", in, "DeepEqual=false", "true")
	}
}

// c07mutCase: copy, mutate one object of one side, render both.
func c07mutCase(c *Ctx, build func() gedcom.Node, ts *TNode) {
	r := c.R
	side := r.Pick([]string{"s", "c"})
	k := r.Intn(ts.Size())
	var op, a1, a2 string
	switch r.Intn(3) {
	case 0:
		op, a1, a2 = "add", hexs(r.Pick(c07PlainTags)), hexs(r.Pick(c07PlainValues))
	case 1:
		op, a1, a2 = "del", fmt.Sprint(r.Intn(3)), "-"
	default:
		op, a1, a2 = "clear", "-", "-"
	}
	src := build()
	if src == nil {
		return
	}
	req := fmt.Sprintf("mut %s %d %s %s %s %s", side, k, op, a1, a2, encForest([]*TNode{ts}))
	dst := gedcom.NewDocument()
	cp, panicked := c07copy(src, dst)
	c.Eval()
	if panicked {
		c.Tie(req, "panic")
		return
	}
	srcBefore, cpBefore := src.GEDCOMString(0), cp.GEDCOMString(0)
	root := src
	if side == "c" {
		root = cp
	}
	target := c07nth(root, k)
	func() {
		defer func() { recover() }()
		switch op {
		case "add":
			target.AddNode(gedcom.NewNode(gedcom.TagFromString(unhex(a1)), unhex(a2), ""))
		case "del":
			j := int(a1[0] - '0')
			if j < len(target.Nodes()) {
				target.DeleteNode(target.Nodes()[j])
			}
		case "clear":
			target.SetNodes(nil)
		}
	}()
	srcAfter, cpAfter := src.GEDCOMString(0), cp.GEDCOMString(0)
	c.Tie(req, hexs(srcAfter)+" "+hexs(cpAfter))
	c.Count("mut:" + side + ":" + op)
	changed := srcAfter != srcBefore || cpAfter != cpBefore
	c.Nontrivial(fmt.Sprintf("mut/%s/%s/changed=%v", side, op, changed))
	in := map[string]string{"case": "mutate " + side + " after copy", "tree": encTree(ts), "request": req}
	if side == "c" && srcAfter != srcBefore {
		c.Oracle("", "changing the copy changed the source", in, srcAfter, srcBefore)
	}
	if side == "s" && cpAfter != cpBefore {
		c.Oracle("", "changing the source changed the copy", in, cpAfter, cpBefore)
	}
}

// ---- documents: INDI / FAM records with HUSB / WIFE / CHIL ----

func c07document(r *Rand) string {
	var sb strings.Builder
	ni := 1 + r.Intn(4)
	for i := 1; i <= ni; i++ {
		fmt.Fprintf(&sb, "0 @I%d@ INDI\n1 NAME %s /%s/\n", i, r.Pick([]string{"Ann", "Bob", "Cy"}), r.Pick([]string{"Smith", "Jones"}))
		if r.Bool() {
			fmt.Fprintf(&sb, "1 BIRT\n2 DATE %s\n", c07docDate(r))
		}
		if r.Chance(1, 3) {
			fmt.Fprintf(&sb, "1 _UID %s\n", r.Pick(c07UIDs[:9]))
		}
		if r.Chance(1, 3) {
			fmt.Fprintf(&sb, "1 FAMS @F1@\n")
		}
	}
	nf := r.Intn(3)
	for f := 1; f <= nf; f++ {
		fmt.Fprintf(&sb, "0 @F%d@ FAM\n", f)
		if r.Bool() {
			fmt.Fprintf(&sb, "1 HUSB @I%d@\n", 1+r.Intn(ni))
		}
		if r.Bool() {
			fmt.Fprintf(&sb, "1 WIFE @I%d@\n", 1+r.Intn(ni))
		}
		for k := r.Intn(3); k > 0; k-- {
			fmt.Fprintf(&sb, "1 CHIL @I%d@\n", 1+r.Intn(ni))
			if r.Chance(1, 3) {
				fmt.Fprintf(&sb, "2 NOTE adopted\n")
			}
		}
		if r.Bool() {
			fmt.Fprintf(&sb, "1 MARR\n2 DATE %s\n", c07docDate(r))
		}
	}
	if r.Chance(1, 2) {
		fmt.Fprintf(&sb, "0 @S1@ SOUR\n1 TITL t\n")
	}
	return sb.String()
}

func init() {
	runners["C07"] = func(c *Ctx) {
		c.Rule = "distinct = (case kind: copy / permuted / independent pair / single edit / all permutations of one sibling list / copy / mutation after copy, set of equality rules present in the tree, outcome bits)"
		c.Compare = c07tieCompare(c)
		r := c.R
		tame := &c07gen{r: r, wild: false}
		wild := &c07gen{r: r, wild: true}

		// 0. pinned witnesses (defects 6 and 7, the Before/Before asymmetry)
		w1 := T("BIRT", "", "", T("DATE", "3 Sep 1943", ""), T("DATE", "Bef. Oct 1943", ""), T("DATE", "5 Sep 1943", ""))
		w2 := T("BIRT", "", "", T("DATE", "Bef. Oct 1943", ""), T("DATE", "5 Sep 1943", ""), T("DATE", "3 Sep 1943", ""))
		c07laws(c, w1, w2, "permutation", "eq")
		c07laws(c, T("DATE", "Bef. 1900", ""), T("DATE", "Bef. 1901", ""), "pair", "")
		for _, z := range []string{"0", "Abt. 0", "BET 1900 AND 0"} { // dates that parse without error but are zero dates
			zt := T("BIRT", "", "", T("DATE", z, ""))
			c07laws(c, zt, zt.Clone(), "copy", "eq")
		}
		c07tiePinned(c)
		uid := T("INDI0", "", "", T("_UID", "notauuid", ""))
		c07laws(c, uid, uid.Clone(), "copy", "eq")

		// 0b. fixed boundary corpus (sizes, histories, aliasing, bytes): c07g.go
		c07boundary(c)

		// 1. random trees: copy, permutation, independent pair, edits
		n := c.N(6000, 120000)
		for i := 0; i < n; i++ {
			g := tame
			if i%4 == 3 {
				g = wild
			}
			g.small = i < n/6
			ta := g.tree()
			c.Count(fmt.Sprintf("size<=%d", 1<<uint(bitsLen(ta.Size()))))
			c.Count(fmt.Sprintf("depth=%d", ta.Depth()))
			if i < 4 {
				c.Sample(map[string]string{"tree": c07text(ta)})
			}
			c07laws(c, ta, ta.Clone(), "copy", "eq")
			c07laws(c, ta, c07shuffle(r, ta, 3), "permutation", "eq")
			tb := g.tree()
			if r.Chance(1, 2) && len(ta.Kids) > 0 { // related pair: same root, some shared children
				tb = &TNode{ta.Tag, ta.Value, ta.Ptr, nil}
				for _, k := range ta.Kids {
					if r.Chance(3, 4) {
						tb.Kids = append(tb.Kids, k.Clone())
					} else {
						tb.Kids = append(tb.Kids, g.node(1))
					}
				}
				tb = c07shuffle(r, tb, 2)
			}
			c07laws(c, ta, tb, "pair", "")
			for _, e := range c07edits(r, ta, c.N(3, 6)) {
				c07laws(c, ta, e.t, "edit", "ne")
				c07laws(c, c07shuffle(r, ta, 2), e.t, "edit+permutation", "ne")
			}
			// DeepEqualNodes on the child lists
			if len(ta.Kids) > 0 {
				l, e1 := newPlain(ta)
				p := c07shuffle(r, ta, 4)
				rr, e2 := newPlain(p)
				if e1 == nil && e2 == nil {
					c.Tie("deqn "+encForest(ta.Kids)+" "+encForest(p.Kids), bit(gedcom.DeepEqualNodes(l.Nodes(), rr.Nodes())))
					c.Eval()
				}
			}
			// copy + mutation
			build := func() gedcom.Node {
				nn, err := newPlain(ta)
				if err != nil {
					return nil
				}
				return nn
			}
			if src := build(); src != nil {
				c07copyCase(c, src, ta, "tree")
			}
			c07mutCase(c, build, ta)
			c07mutCase(c, build, ta)
		}

		// 1b. sibling groups aimed at the two findings: related constrained dates under one parent,
		// and RESI / EVEN siblings with one or two dates from a two-value pool
		related := []string{"3 Sep 1943", "Bef. Oct 1943", "5 Sep 1943", "Sep 1943", "Aft. 1 Sep 1943", "Abt. 3 Sep 1943", "1943",
			"0", "Abt. 0", "BET 1900 AND 0", "03 Sep 1943", "3     Sep 1943"}
		ng := c.N(300, 6000)
		for i := 0; i < ng; i++ {
			var parent *TNode
			if i%2 == 0 {
				parent = T(r.Pick([]string{"BIRT", "NOTE", "EVEN"}), "", "")
				for k := 2 + r.Intn(3); k > 0; k-- {
					parent.Kids = append(parent.Kids, T("DATE", r.Pick(related), ""))
				}
			} else {
				parent = T("INDI0", "", "")
				tag := r.Pick([]string{"RESI", "EVEN"})
				for k := 2 + r.Intn(3); k > 0; k-- {
					x := T(tag, "", "")
					for d := 1 + r.Intn(2); d > 0; d-- {
						x.Kids = append(x.Kids, T("DATE", r.Pick([]string{"1 Jan 1900", "1943", "1943", "0", "BET 0 AND 0", "Mar 0"}), ""))
					}
					if r.Bool() {
						x.Kids = append(x.Kids, T("PLAC", r.Pick([]string{"England", "Wales"}), ""))
					}
					parent.Kids = append(parent.Kids, x)
				}
			}
			c07laws(c, parent, c07shuffle(r, parent, 4), "permutation", "eq")
			for _, e := range c07edits(r, parent, 2) {
				c07laws(c, c07shuffle(r, parent, 4), e.t, "edit+permutation", "ne")
			}
		}

		// 2. all permutations of one sibling list (duplicates and near-duplicates included)
		maxk := c.N(5, 6)
		np := c.N(40, 400)
		for i := 0; i < np; i++ {
			g := tame
			if i%3 == 2 {
				g = wild
			}
			k := 2 + r.Intn(maxk-1)
			parent := T(r.Pick([]string{"INDI0", "BIRT", "EVEN", "RESI", "NOTE"}), "", "")
			pool := []*TNode{g.node(1), g.node(1), g.node(0), g.date(), T("PLAC", "England", "")}
			for j := 0; j < k; j++ {
				parent.Kids = append(parent.Kids, pool[r.Intn(len(pool))].Clone())
			}
			c07allPerms(len(parent.Kids), func(p []int) {
				q := &TNode{parent.Tag, parent.Value, parent.Ptr, nil}
				for _, j := range p {
					q.Kids = append(q.Kids, parent.Kids[j].Clone())
				}
				c07laws(c, parent, q, "all-permutations", "eq")
			})
		}

		// 3. records inside documents (INDI, FAM with HUSB / WIFE / CHIL): copy of every record;
		// c07round2 (c07b.go): copies of any node of a document — role nodes on their own included —
		// into an empty document and into the document itself, and the nil document
		nd := c.N(150, 3000)
		for i := 0; i < nd; i++ {
			c07round2(c, i)
			text := c07document(r)
			doc, err := gedcom.NewDocumentFromString(text)
			if err != nil {
				c.Count("doc:decode-error")
				continue
			}
			for _, rec := range doc.Nodes() {
				c07copyCase(c, rec, abstractNode(rec), "record:"+rec.Tag().Tag())
				trec := abstractNode(rec)
				text2 := text
				c07mutCase(c, func() gedcom.Node {
					d2, err := gedcom.NewDocumentFromString(text2)
					if err != nil {
						return nil
					}
					for _, x := range d2.Nodes() {
						if x.Pointer() == trec.Ptr && x.Tag().Tag() == trec.Tag {
							return x
						}
					}
					return nil
				}, trec)
			}
			// equality of records across two decodings of the same text, shuffled
			d2, _ := gedcom.NewDocumentFromString(text)
			if d2 != nil && len(d2.Nodes()) == len(doc.Nodes()) {
				for j, rec := range doc.Nodes() {
					o := d2.Nodes()[j]
					c.Eval()
					if !gedcom.DeepEqual(rec, o) || !gedcom.DeepEqual(o, rec) {
						c.Oracle("", "a record is not deep-equal to a second decoding of itself",
							map[string]string{"gedcom": text, "record": rec.Pointer()}, "DeepEqual=false", "true")
					}
					c.Tie("deq "+encForest([]*TNode{abstractNode(rec), abstractNode(o)}), c07deq(rec, o))
				}
			}
		}
		// 3b. round 4 (c07h.go): pairs of DATE values against the characterised guard; sequences of
		// copies between several documents
		c07round4(c)

		// 4. nil nodes
		c07nilCases(c)

		// 5. wide sibling lists (60..140 children, equal siblings near the end)
		c07wide(c)

		// 6. compare (warm the children-by-tag cache), edit in place, compare with fresh copies
		c07warmEdit(c)

		// 7. deep trees: 8 .. 100 levels below the copied node
		c07deep(c)
		c.Notes = append(c.Notes,
			"DATE values: "+fmt.Sprint(len(c07EdgeDates))+" edge values (zero / half-zero dates, year > 9999, leading zeros, long space runs) in every stream, "+fmt.Sprint(len(c07TameDates))+" on which DateRange.Equals is an equivalence, "+fmt.Sprint(len(c07WildDates))+" constraint-bearing (every 4th tree)",
			"not covered: NodesWithTag cache staleness after DeleteNode/SetNodes (C13); role nodes whose family is not a record of the document")
	}
}

func bitsLen(n int) int {
	l := 0
	for n > 1 {
		n >>= 1
		l++
	}
	return l + 1
}

func c07allPerms(n int, f func(p []int)) {
	p := make([]int, n)
	for i := range p {
		p[i] = i
	}
	var rec func(k int)
	rec = func(k int) {
		if k == n {
			f(p)
			return
		}
		for i := k; i < n; i++ {
			p[k], p[i] = p[i], p[k]
			rec(k + 1)
			p[k], p[i] = p[i], p[k]
		}
	}
	rec(0)
}
