package main

// C17 component correspondence: the real html components through their public constructors
// against the Lean model (Gedcom/Model/Living.lean), and IsLiving against isLiving.

import (
	"bytes"
	"fmt"
	stdhtml "html"
	"math"
	"regexp"
	"sort"
	"strings"

	"github.com/elliotchance/gedcom/v39"
	"github.com/elliotchance/gedcom/v39/html"
	"github.com/elliotchance/gedcom/v39/html/core"
)

func c17render(comp core.Component) (s string) {
	defer func() {
		if r := recover(); r != nil {
			s = fmt.Sprintf("panic: %v", r)
		}
	}()
	var b bytes.Buffer
	comp.WriteHTMLTo(&b)
	return b.String()
}

func c17sex(p *gedcom.IndividualNode) string {
	switch {
	case p.Sex().IsMale():
		return "m"
	case p.Sex().IsFemale():
		return "f"
	}
	return "u"
}

var c17HiddenLine = regexp.MustCompile(`(\d+) individuals are hidden because they are living`)

func init() {
	c17Components = func(c *Ctx, now int) {
		visAll := []html.LivingVisibility{html.LivingVisibilityShow, html.LivingVisibilityHide, html.LivingVisibilityPlaceholder}
		ndocs := c.N(100, 600)
		for di := 0; di < ndocs; di++ {
			r := c.R.Fork(fmt.Sprintf("comp%d", di))
			d := c17Gen(r, now)
			text := d.Text()
			// awkward people: no NAME, a name that needs escaping, a date phrase, a future birth
			text = strings.Replace(text, "0 TRLR\n", "", 1)
			text += "0 @X1@ INDI\n1 SEX F\n1 BIRT\n2 DATE (unknown)\n"
			text += "0 @X2@ INDI\n1 NAME Tom & <Jerry> /O'Neil/\n1 SEX M\n1 BIRT\n2 DATE " + fmt.Sprint(now+1) + "\n"
			text += "0 @X3@ INDI\n1 NAME Bap /Tized/\n1 BAPM\n2 DATE 3 Mar " + fmt.Sprint(now-100) + "\n"
			text += "0 @X4@ INDI\n1 NAME Edge /Case/\n1 BIRT\n2 DATE 1 Jan " + fmt.Sprint(now-100) + "\n"
			text += "0 @X5@ INDI\n1 NAME Edge /Dead/\n1 BIRT\n2 DATE 31 Dec " + fmt.Sprint(now-101) + "\n0 TRLR\n"
			doc, err := gedcom.NewDocumentFromString(text)
			if err != nil {
				c.Oracle("", "generator produced a file the decoder rejects", map[string]string{"file": text}, err.Error(), "decodable")
				continue
			}
			people := append(gedcom.IndividualNodes{nil}, doc.Individuals()...)

			// ---- IsLiving against the model, for three MaxLivingAge settings
			for _, p := range people[1:] {
				birth, _ := p.EstimatedBirthDate()
				micro := int64(math.Round(gedcom.Years(birth) * 1e6))
				for _, max := range []int{100, 0, 50} {
					doc.MaxLivingAge = float64(max)
					c.Tie(fmt.Sprintf("c17living %s %d %d %d", bit(len(p.Deaths()) > 0), micro, now, max), bit(p.IsLiving()))
					c.Eval()
				}
				doc.MaxLivingAge = gedcom.DefaultMaxLivingAge
				c.Count("living=" + bit(p.IsLiving()))
			}

			// ---- components
			for _, p := range people {
				person := "nil"
				evDate, evDescr := "-", "-"
				var evNode gedcom.Node
				if p != nil {
					hasNames := len(p.Names()) > 0
					name := "-"
					if hasNames {
						name = hexs(c17render(html.NewIndividualName(p, html.LivingVisibilityShow, html.UnknownEmphasis)))
					}
					person = fmt.Sprintf("%s %s %s %s %s PAGE", bit(p.IsLiving()), c17sex(p), bit(hasNames), name,
						hexs(c17render(html.NewIndividualDates(p, html.LivingVisibilityShow))))
					if bs := p.Births(); len(bs) > 0 {
						evNode = bs[0]
					}
				} else if fams := doc.Families(); len(fams) > 0 {
					if m := gedcom.First(gedcom.NodesWithTag(fams[0], gedcom.TagMarriage)); m != nil {
						evNode = m
					}
				}
				if evNode != nil {
					if dn := gedcom.Dates(evNode).Minimum(); dn != nil {
						evDate = hexs(stdhtml.EscapeString(dn.Value()))
					}
					evDescr = hexs(evNode.Tag().String())
				}
				personTemplate := person
				for _, vis := range visAll {
					// the page name a person has in this mode (people who get no page: the show-mode name,
					// which the components must not use)
					if p != nil {
						pg := html.PageIndividual(doc, p, vis, nil)
						if pg == "#" {
							pg = html.PageIndividual(doc, p, html.LivingVisibilityShow, nil)
						}
						person = strings.Replace(personTemplate, "PAGE", hexs(pg), 1)
					}
					pe := "-"
					if evNode != nil {
						pe = hexs(c17render(html.NewPlaceEvent(doc, evNode, vis, nil)))
					}
					obs := strings.Join([]string{
						hexs(c17render(html.NewIndividualName(p, vis, html.UnknownEmphasis))),
						hexs(c17render(html.NewIndividualDates(p, vis))),
						hexs(func() string {
							if p == nil {
								return "#"
							}
							return html.PageIndividual(doc, p, vis, nil)
						}()),
						hexs(c17render(html.NewIndividualLink(doc, p, vis, nil))),
						hexs(c17render(html.NewIndividualButton(doc, p, vis, nil))),
						pe}, " ")
					c.Tie(fmt.Sprintf("c17comp %s %s %s %s", vis, person, evDate, evDescr), obs)
					c.Eval()
					kind := "nil"
					if p != nil {
						kind = "living=" + bit(p.IsLiving()) + "/names=" + bit(len(p.Names()) > 0) + "/sex=" + c17sex(p)
					}
					c.Nontrivial("comp/" + string(vis) + "/" + kind + "/event=" + bit(evNode != nil))
					c.Count("component-case/" + string(vis))
					// (S) on the component itself: a living person's name is not in what a hidden component writes
					if p != nil && p.IsLiving() && vis != html.LivingVisibilityShow && len(p.Names()) > 0 {
						nm := stdhtml.EscapeString(p.Names()[0].String())
						if nm != "" && strings.Contains(obsDecode(obs), nm) {
							c.Oracle("", "a component writes the name of a living person in "+string(vis)+" mode",
								map[string]string{"gedcom": text, "person": p.Pointer(), "living": string(vis)}, obsDecode(obs), "no name")
						}
					}
				}
			}

			// ---- list pages and generated pages
			for _, vis := range visAll {
				opts := &html.PublishShowOptions{ShowIndividuals: true, LivingVisibility: vis}
				pub := html.NewPublisher(doc, opts)
				generated := map[string]bool{}
				for f := range pub.Files(1) {
					generated[f.Name] = true
				}
				byLetter := map[rune]gedcom.IndividualNodes{}
				for _, p := range doc.Individuals() {
					n := p.Name().Format(gedcom.NameFormatIndex)
					if n == "" {
						n = "#"
					}
					l := rune(strings.ToLower(n)[0])
					byLetter[l] = append(byLetter[l], p)
				}
				for letter, ps := range byLetter {
					pageOf := func(p *gedcom.IndividualNode) string {
						if pg := html.PageIndividual(doc, p, vis, nil); pg != "#" {
							return pg
						}
						return "hidden-" + html.PageIndividual(doc, p, html.LivingVisibilityShow, nil)
					}
					sort.SliceStable(ps, func(i, j int) bool { return pageOf(ps[i]) < pageOf(ps[j]) })
					page := c17render(html.NewIndividualListPage(doc, letter, "", opts, html.GetIndexLetters(doc, vis), nil))
					var req, pages []string
					var rows int
					for _, p := range ps {
						key := pageOf(p)
						req = append(req, bit(p.IsLiving()), hexs(key))
						if generated[key] {
							pages = append(pages, hexs(key))
						}
					}
					// person rows are the table rows whose first cell is the (no-wrap) link cell; surname
					// heading rows and the table head are not
					rows = strings.Count(page, `<tr><td scope="col" nowrap="nowrap">`)
					cnt := "-"
					if m := c17HiddenLine.FindStringSubmatch(page); m != nil {
						cnt = m[1]
					}
					pg := "-"
					if len(pages) > 0 {
						pg = strings.Join(pages, ",")
					}
					c.Tie(fmt.Sprintf("c17rows %s %s", vis, strings.Join(req, " ")), fmt.Sprintf("%s %d %s", pg, rows, cnt))
					c.Eval()
					c.Count("list-page/" + string(vis))
				}
			}
		}
	}
}

func obsDecode(obs string) string {
	var parts []string
	for _, h := range strings.Fields(obs) {
		parts = append(parts, unhex(h))
	}
	return strings.Join(parts, " | ")
}
