package main

import (
	"fmt"
	"strconv"
	"strings"

	"github.com/elliotchance/gedcom/v39"
)

// evaluators answer one request line from the real implementation (used by `./check … --replay`):
// the Go-side counterpart of the Lean driver's dispatch.
var evaluators = map[string]func(args []string) string{}

func evalMain(req string) int {
	f := strings.Fields(req)
	if len(f) == 0 {
		return 2
	}
	ev, ok := evaluators[f[0]]
	if !ok {
		fmt.Println("(no implementation-side evaluator for this request kind; re-run the recorded seed instead)")
		return 0
	}
	fmt.Println(ev(f[1:]))
	return 0
}

func evalInts(args []string) ([]int, bool) {
	var r []int
	for _, a := range args {
		n, err := strconv.Atoi(a)
		if err != nil {
			return nil, false
		}
		r = append(r, n)
	}
	return r, true
}

func init() {
	evaluators["decode"] = func(a []string) string {
		if len(a) != 2 || len(a[0]) != 2 {
			return "bad-op"
		}
		obs, _ := decObserve(unhex(a[1]), a[0][0] == '1', a[0][1] == '1')
		return obs
	}
	evaluators["encode"] = func(a []string) string {
		if len(a) < 2 {
			return "bad-op"
		}
		f, err := decForest(strings.Join(a[1:], " "))
		if err != nil {
			return "bad-op"
		}
		doc, err := decBuild(f, a[0] == "1")
		if err != nil {
			return "build-error " + err.Error()
		}
		return hexs(doc.String())
	}
	evaluators["cmp"] = func(a []string) string {
		n, ok := evalInts(a)
		if !ok || len(n) != 12 {
			return "bad-op"
		}
		d := func(i int) gedcom.Date { return gdate{n[i], n[i+1], n[i+2]}.Date() }
		r := gedcom.NewDateRange(d(0), d(3)).Compare(gedcom.NewDateRange(d(6), d(9)))
		return fmt.Sprintf("%s %s%s%s", relShort(r), bit(r.IsEqual()), bit(r.IsPartiallyEqual()), bit(r.IsNotEqual()))
	}
	evaluators["date"] = func(a []string) string {
		n, ok := evalInts(a)
		if !ok || len(n) != 3 {
			return "bad-op"
		}
		g := gdate{n[0], n[1], n[2]}
		ds, de := g.Date(), g.Date()
		de.IsEndOfRange = true
		st, en := ds.Time(), de.Time()
		return fmt.Sprintf("%d %d %d %d %.12f", st.Unix(), st.Nanosecond(), en.Unix(), en.Nanosecond(), ds.Years())
	}
	evaluators["before"] = func(a []string) string {
		n, ok := evalInts(a[:6])
		if !ok {
			return "bad-op"
		}
		x, y := gdate{n[0], n[1], n[2]}.Date(), gdate{n[3], n[4], n[5]}.Date()
		return bit(x.IsBefore(y)) + bit(x.IsAfter(y))
	}
}
