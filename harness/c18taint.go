package main

// C18 page-level oracle: look for taint tokens whose special characters reached the page in a form
// that is dangerous where they stand.

import (
	"bytes"
	"fmt"
	"regexp"
	"strings"
)

// an invalid UTF-8 lead byte (or what a JSON encoder makes of it) may stand between the marker and
// the character
var c18MarkerRe = regexp.MustCompile(`(?i)q(\d+)(?:\x{FFFD}|\\ufffd)?([<"'>&])`)

// c18Hit is one special character of a taint token found raw in a page.
type c18Hit struct {
	ID      string // taint id
	Char    byte
	Sink    string // attr:<name> | content:<element> | script | unknown
	Pos     int
	Context string
}

// c18Context finds out where position pos of the page is: inside a double-quoted attribute value
// (name returned), or in element content (enclosing start tag returned).  It looks backwards from
// the *start of the token instance* so that characters injected by this very token do not confuse it.
func c18Context(page []byte, pos int) string {
	i := pos - 1
	for i >= 0 {
		switch page[i] {
		case '"':
			// opening quote of an attribute value?
			if i >= 1 && page[i-1] == '=' {
				j := i - 2
				for j >= 0 && (c18IsWordByte(page[j]) || page[j] == '-') {
					j--
				}
				return "attr:" + strings.ToLower(string(page[j+1:i-1]))
			}
			// an ordinary quote (text, JSON inside <pre>) or the end of an earlier attribute:
			// the next '<' or '>' to the left tells which
		case '>':
			// element content: name of the tag that ends here
			j := i - 1
			for j >= 0 && page[j] != '<' {
				j--
			}
			if j < 0 {
				return "unknown"
			}
			k := j + 1
			if k < i && page[k] == '/' {
				k++
			}
			e := k
			for e < i && (c18IsWordByte(page[e])) {
				e++
			}
			return "content:" + strings.ToLower(string(page[k:e]))
		case '<':
			return "unknown"
		}
		i--
	}
	return "content:"
}

// c18AsciiLower lowers A-Z only (bytes.ToLower may change the length of non-ASCII text).
func c18AsciiLower(b []byte) []byte {
	out := make([]byte, len(b))
	for i, c := range b {
		if c >= 'A' && c <= 'Z' {
			c += 32
		}
		out[i] = c
	}
	return out
}

func c18IsWordByte(b byte) bool {
	return b >= 'a' && b <= 'z' || b >= 'A' && b <= 'Z' || b >= '0' && b <= '9' || b == '_'
}

// c18InstanceStart walks back from a marker match to the start of its token instance: the token is
// q<n> SPECIAL q<n> SPECIAL …; earlier specials of the same instance may be raw or escaped.
func c18InstanceStart(page []byte, pos int, id string) int {
	lower := c18AsciiLower(page[:pos])
	m := []byte("q" + id)
	for {
		// the previous element of the token is  m + (raw | &lt; | &gt; | &#34; | &#39; | &amp; | \u00XX | \")
		found := false
		for _, esc := range []string{"<", ">", "\"", "'", "&", "&lt;", "&gt;", "&#34;", "&#39;", "&amp;", "&quot;", "\\u003c", "\\u003e", "\\u0026", "\\\"", "-",
			"＜", "＞", "＂", "＇", "＆", "﹤", "﹥", "﹠", "</td", "&lt;/td", "＜／td"} {
			for _, lead := range []string{"", "\xc3", "\xe9", "\xf1", "\xf5", "\xef\xbf\xbd", "\\ufffd"} {
				suffix := append(append(append([]byte{}, m...), []byte(lead)...), []byte(esc)...)
				if bytes.HasSuffix(lower[:pos], suffix) {
					pos -= len(suffix)
					found = true
					break
				}
			}
			if found {
				break
			}
		}
		if !found {
			return pos
		}
	}
}

// c18ScanPage returns the dangerous raw characters of taint tokens in the page.
//
//	element content:            < > &   (quotes cannot change structure there)
//	double-quoted attribute:    " < > & (and ' in an event-handler attribute)
//	script / unknown context:   all five
func c18ScanPage(page []byte) []c18Hit {
	var hits []c18Hit
	for _, m := range c18MarkerRe.FindAllSubmatchIndex(page, -1) {
		id := string(page[m[2]:m[3]])
		ch := page[m[4]]
		if ch == '&' {
			// escaped forms are fine: &lt; &gt; &amp; &#34; &#39; (the token never contains these itself)
			rest := page[m[4]:]
			ok := false
			for _, e := range []string{"&lt;", "&gt;", "&amp;", "&#34;", "&#39;", "&quot;"} {
				if bytes.HasPrefix(rest, []byte(e)) {
					ok = true
				}
			}
			if ok {
				continue
			}
		}
		start := c18InstanceStart(page, m[0], id)
		ctx := c18Context(page, start)
		danger := false
		switch {
		case strings.HasPrefix(ctx, "content:script"), ctx == "unknown":
			danger = true
		case strings.HasPrefix(ctx, "content:"):
			danger = ch == '<' || ch == '>' || ch == '&'
		case strings.HasPrefix(ctx, "attr:on"):
			danger = true
		case strings.HasPrefix(ctx, "attr:"):
			danger = ch != '\''
		}
		if !danger {
			continue
		}
		lo, hi := start-40, m[5]+20
		if lo < 0 {
			lo = 0
		}
		if hi > len(page) {
			hi = len(page)
		}
		hits = append(hits, c18Hit{ID: id, Char: ch, Sink: ctx, Pos: m[4], Context: string(page[lo:hi])})
	}
	return hits
}

func (h c18Hit) String() string {
	return fmt.Sprintf("taint %s char %q raw in %s: …%s…", h.ID, h.Char, h.Sink, h.Context)
}

// c18RefineKind tells individual, place and source pages apart by fixed texts of the page itself.
func c18RefineKind(name string, data []byte) string {
	k := c18PageKind(name)
	if k != "page" {
		return k
	}
	switch {
	case bytes.Contains(data, []byte("Spouses &amp; Children")):
		return "individual"
	case bytes.Contains(data, []byte(`href="#">Source</a>`)):
		return "source"
	}
	return "place"
}
