package main

import (
	"fmt"
	"strings"
	"time"

	"github.com/elliotchance/gedcom/v39"
)

type gdate struct{ d, m, y int }

func (g gdate) Date() gedcom.Date { return gedcom.Date{Day: g.d, Month: time.Month(g.m), Year: g.y} }
func (g gdate) String() string    { return fmt.Sprintf("%d %d %d", g.d, g.m, g.y) }

func fromTime(t time.Time) gdate { return gdate{t.Day(), int(t.Month()), t.Year()} }

func daysIn(m, y int) int {
	return time.Date(y, time.Month(m)+1, 0, 0, 0, 0, 0, time.UTC).Day()
}

// randDate draws a valid date of random granularity, year 1..9999.
func randDate(r *Rand) gdate {
	y := 1 + r.Intn(9999)
	if r.Chance(1, 4) {
		y = []int{1, 4, 100, 400, 1582, 1899, 1900, 1999, 2000, 2001, 9999}[r.Intn(11)]
	}
	switch r.Intn(4) {
	case 0:
		return gdate{0, 0, y}
	case 1:
		return gdate{0, 1 + r.Intn(12), y}
	}
	m := 1 + r.Intn(12)
	return gdate{1 + r.Intn(daysIn(m, y)), m, y}
}

func relShort(c gedcom.DateRangeComparison) (s string) {
	defer func() {
		if r := recover(); r != nil {
			s = fmt.Sprintf("panic(%d)", int(c))
		}
	}()
	return strings.TrimPrefix(c.String(), "DateRangeComparison")
}

func bit(b bool) string {
	if b {
		return "1"
	}
	return "0"
}

var converseOf = map[string]string{
	"Equal": "Equal", "Inside": "Outside", "Outside": "Inside", "InsideStart": "OutsideStart",
	"OutsideStart": "InsideStart", "InsideEnd": "OutsideEnd", "OutsideEnd": "InsideEnd",
	"PartiallyBefore": "PartiallyAfter", "PartiallyAfter": "PartiallyBefore", "Before": "After",
	"After": "Before", "EntirelyBefore": "EntirelyAfter", "EntirelyAfter": "EntirelyBefore",
	"Invalid": "Invalid",
}

// c06pair evaluates one ordered pair of ranges x=[s1,e1], y=[s2,e2]: correspondence request and the
// direct oracle (reflexive, never invalid, converse, exactly one verdict).
func c06pair(c *Ctx, s1, e1, s2, e2 gdate) {
	x := gedcom.NewDateRange(s1.Date(), e1.Date())
	y := gedcom.NewDateRange(s2.Date(), e2.Date())
	r := x.Compare(y)
	// the comparison is one of day intervals: about / before / after constraints on the endpoints
	// (every combination over the evaluated pairs, chosen from the pair's own hash) must not change it
	{
		h := uint32(2166136261)
		for _, ch := range []byte(s1.String() + e1.String() + s2.String() + e2.String()) {
			h = (h ^ uint32(ch)) * 16777619
		}
		cs := [4]gedcom.DateConstraint{gedcom.DateConstraint(h % 4), gedcom.DateConstraint((h >> 2) % 4),
			gedcom.DateConstraint((h >> 4) % 4), gedcom.DateConstraint((h >> 6) % 4)}
		d := [4]gedcom.Date{s1.Date(), e1.Date(), s2.Date(), e2.Date()}
		for i := range d {
			d[i].Constraint = cs[i]
		}
		if rc := gedcom.NewDateRange(d[0], d[1]).Compare(gedcom.NewDateRange(d[2], d[3])); rc != r {
			c.Oracle("", "date constraints (Abt./Bef./Aft.) on the endpoints change the interval relation",
				map[string]interface{}{"x": s1.String() + " .. " + e1.String(), "y": s2.String() + " .. " + e2.String(),
					"constraints": fmt.Sprint(cs)}, relShort(rc), relShort(r))
		}
	}
	name := relShort(r)
	obs := fmt.Sprintf("%s %s%s%s", name, bit(r.IsEqual()), bit(r.IsPartiallyEqual()), bit(r.IsNotEqual()))
	req := fmt.Sprintf("cmp %s %s %s %s", s1, e1, s2, e2)
	c.Tie(req, obs)
	c.Eval()
	c.Nontrivial(name + "/" + gran(s1) + gran(e1) + gran(s2) + gran(e2))
	c.Count("rel=" + name)
	in := map[string]string{"x": s1.String() + " .. " + e1.String(), "y": s2.String() + " .. " + e2.String()}
	c.Sample(map[string]string{"x": in["x"], "y": in["y"], "result": obs})
	// (S) the property on the implementation
	// the documented diagram, on independently computed civil day numbers
	a, b := c06first(s1), c06last(e1)
	cc, d := c06first(s2), c06last(e2)
	if want := c06Documented(a, b, cc, d); want != name {
		c.Oracle("", "the result is not the relation drawn in the documentation", in, name, want)
	}
	if name == "Invalid" {
		c.Oracle("", "comparison of two forward ranges is invalid", in, obs, "not Invalid")
	}
	n := 0
	for _, v := range []bool{r.IsEqual(), r.IsPartiallyEqual(), r.IsNotEqual()} {
		if v {
			n++
		}
	}
	if n != 1 {
		c.Oracle("", "not exactly one of equal / partially-equal / not-equal", in, obs, "exactly one verdict")
	}
	back := relShort(y.Compare(x))
	if converseOf[name] != back {
		c.Oracle("", "swapping the operands does not give the converse relation", in,
			name+" / swapped: "+back, "swapped: "+converseOf[name])
	}
	if self := relShort(x.Compare(x)); self != "Equal" {
		c.Oracle("", "a range compared with itself is not equal",
			map[string]string{"x": in["x"]}, self, "Equal")
	}
}

func c06first(g gdate) int64 {
	switch gran(g) {
	case "y":
		return civilDays(g.y, 1, 1)
	case "m":
		return civilDays(g.y, g.m, 1)
	}
	return civilDays(g.y, g.m, g.d)
}

func c06last(g gdate) int64 {
	switch gran(g) {
	case "y":
		return civilDays(g.y, 12, 31)
	case "m":
		return civilDays(g.y, g.m, civilDim(g.m, g.y))
	}
	return civilDays(g.y, g.m, g.d)
}

// c06Documented is the diagram of date_range_comparison.go as endpoint inequalities: x=[a,b] is the
// receiver, [c,d] the argument that frames the picture (dr.Compare(base) in TestDateRange_Compare).
func c06Documented(a, b, c, d int64) string {
	switch {
	case a == c && b == d:
		return "Equal"
	case a == c:
		if b < d {
			return "InsideStart"
		}
		return "OutsideStart"
	case b == d:
		if c < a {
			return "InsideEnd"
		}
		return "OutsideEnd"
	case a < c:
		switch {
		case b < c:
			return "EntirelyBefore"
		case b == c:
			return "Before"
		case b < d:
			return "PartiallyBefore"
		}
		return "Outside"
	}
	switch {
	case d < a:
		return "EntirelyAfter"
	case a == d:
		return "After"
	case b < d:
		return "Inside"
	}
	return "PartiallyAfter"
}

func gran(g gdate) string {
	switch {
	case g.m == 0:
		return "y"
	case g.d == 0:
		return "m"
	}
	return "d"
}

func dayNum(g gdate, end bool) int64 {
	d := g.Date()
	d.IsEndOfRange = end
	u := d.Time().Unix()
	if u < 0 {
		return -((-u + 86399) / 86400)
	}
	return u / 86400
}

func init() {
	runners["C06"] = func(c *Ctx) {
		c.Rule = "ordered pairs of forward date ranges: every [a,b]x[c,d] in a 10-day window over 27 Dec 1999..5 Jan 2000 (exhaustive), every pairing of day/month/year granularity around it, random ranges over years 1..9999; distinct = (relation, granularity of the four endpoints)"
		// 1. exhaustive window spanning a month and a year boundary
		base := time.Date(1999, 12, 27, 0, 0, 0, 0, time.UTC)
		var days []gdate
		w := 10
		for i := 0; i < w; i++ {
			days = append(days, fromTime(base.AddDate(0, 0, i)))
		}
		for a := 0; a < w; a++ {
			for b := a; b < w; b++ {
				for cc := 0; cc < w; cc++ {
					for d := cc; d < w; d++ {
						c06pair(c, days[a], days[b], days[cc], days[d])
					}
				}
			}
		}
		// 2. granularity pairings around the window
		var pool []gdate
		for _, y := range []int{1999, 2000} {
			pool = append(pool, gdate{0, 0, y})
			for _, m := range []int{1, 2, 11, 12} {
				pool = append(pool, gdate{0, m, y})
				for _, d := range []int{1, 15, daysIn(m, y)} {
					pool = append(pool, gdate{d, m, y})
				}
			}
		}
		fwd := func(s, e gdate) bool { return dayNum(s, false) <= dayNum(e, true) }
		var ranges [][2]gdate
		for _, s := range pool {
			for _, e := range pool {
				if fwd(s, e) {
					ranges = append(ranges, [2]gdate{s, e})
				}
			}
		}
		step := 1
		if c.Quick() {
			step = 7
		}
		k := 0
		for _, x := range ranges {
			for _, y := range ranges {
				k++
				if k%step == 0 {
					c06pair(c, x[0], x[1], y[0], y[1])
				}
			}
		}
		// 2b. calendar edges: the end of February in leap, non-leap, century and 400-year years, the
		// years where the year gains a digit, the first and the last supported years; and the end of
		// every month of four years — month- and year-precision boundaries against the days around them
		edgeYears := []int{1, 4, 9, 10, 99, 100, 200, 400, 900, 999, 1000, 1582, 1700, 1752, 1800, 1900, 2000, 2023, 2024, 2100, 2400, 9996, 9999}
		for yi, y := range edgeYears {
			var ep []gdate
			ep = append(ep, gdate{0, 0, y}, gdate{0, 1, y}, gdate{0, 2, y}, gdate{0, 3, y}, gdate{31, 1, y}, gdate{1, 2, y},
				gdate{27, 2, y}, gdate{28, 2, y}, gdate{1, 3, y}, gdate{2, 3, y}, gdate{31, 12, y}, gdate{0, 12, y})
			if daysIn(2, y) == 29 {
				ep = append(ep, gdate{29, 2, y})
			}
			if y > 1 {
				ep = append(ep, gdate{31, 12, y - 1}, gdate{0, 0, y - 1})
			}
			if y < 9999 {
				ep = append(ep, gdate{1, 1, y + 1}, gdate{0, 0, y + 1})
			}
			var er [][2]gdate
			for _, s := range ep {
				for _, e := range ep {
					if fwd(s, e) {
						er = append(er, [2]gdate{s, e})
					}
				}
			}
			k := yi
			estep := 1
			if c.Quick() {
				estep = 11
			}
			for _, x := range er {
				for _, y2 := range er {
					k++
					if k%estep == 0 {
						c06pair(c, x[0], x[1], y2[0], y2[1])
					}
				}
			}
		}
		for _, y := range []int{1900, 2000, 2023, 2024} {
			for m := 1; m <= 12; m++ {
				mo := gdate{0, m, y}
				first, last := gdate{1, m, y}, gdate{daysIn(m, y), m, y}
				next := gdate{1, 1, y + 1}
				if m < 12 {
					next = gdate{1, m + 1, y}
				}
				c06pair(c, mo, mo, first, last)
				c06pair(c, first, last, mo, mo)
				c06pair(c, mo, mo, next, next)
				c06pair(c, mo, mo, last, last)
				c06pair(c, first, mo, last, next)
				c06pair(c, gdate{0, 0, y}, mo, mo, gdate{0, 0, y})
			}
		}
		// 3. random ranges over years 1..9999
		n := c.N(50000, 2000000)
		for i := 0; i < n; i++ {
			var ds [4]gdate
			for j := range ds {
				ds[j] = randDate(c.R)
			}
			if c.R.Chance(1, 2) { // correlated endpoints: coincidences are the interesting cases
				ds[2+c.R.Intn(2)] = ds[c.R.Intn(2)]
			}
			if c.R.Chance(1, 4) {
				ds[1] = ds[0]
			}
			if !fwd(ds[0], ds[1]) {
				ds[0], ds[1] = ds[1], ds[0]
			}
			if !fwd(ds[2], ds[3]) {
				ds[2], ds[3] = ds[3], ds[2]
			}
			if !fwd(ds[0], ds[1]) || !fwd(ds[2], ds[3]) {
				continue
			}
			c06pair(c, ds[0], ds[1], ds[2], ds[3])
		}
	}
}
