package main

// Source translation for package q (go/ast → Lean data, see lean/Gedcom/Model/QuerySrc.lean):
//   - q/binary_expr.go: the condition of binaryFloats, the normalisation of compareStrings, the
//     body shape of every operator function, the Operators composite literal;
//   - q/first_expr.go, q/last_expr.go: the statements between strconv.Atoi and in.Slice(lo, hi).
// The translator never guesses: a shape it does not know becomes `.bad` (or an empty list), which
// the obligations of Props/C16 reject.

import (
	"fmt"
	"go/ast"
	"go/parser"
	"go/token"
	"path/filepath"
	"strconv"
	"strings"
)

func c16ident(e ast.Expr) string {
	if id, ok := e.(*ast.Ident); ok {
		return id.Name
	}
	return ""
}

// c16selCall recognises pkg.Fn(args…).
func c16selCall(e ast.Expr, pkg, fn string) ([]ast.Expr, bool) {
	call, ok := e.(*ast.CallExpr)
	if !ok {
		return nil, false
	}
	sel, ok := call.Fun.(*ast.SelectorExpr)
	if !ok || c16ident(sel.X) != pkg || sel.Sel.Name != fn {
		return nil, false
	}
	return call.Args, true
}

// ---- binaryFloats

type c16floats struct {
	valL, errL, valR, errR string
	bits                   int
}

// numeric condition: errX == nil, !math.IsNaN(valX), &&
func (f c16floats) cond(e ast.Expr) string {
	switch x := e.(type) {
	case *ast.ParenExpr:
		return f.cond(x.X)
	case *ast.BinaryExpr:
		if x.Op == token.LAND {
			return "(.and " + f.cond(x.X) + " " + f.cond(x.Y) + ")"
		}
		if x.Op == token.EQL && c16ident(x.Y) == "nil" {
			switch c16ident(x.X) {
			case f.errL:
				return ".okL"
			case f.errR:
				return ".okR"
			}
		}
	case *ast.UnaryExpr:
		if x.Op == token.NOT {
			return "(.not " + f.cond(x.X) + ")"
		}
	case *ast.CallExpr:
		if args, ok := c16selCall(x, "math", "IsNaN"); ok && len(args) == 1 {
			switch c16ident(args[0]) {
			case f.valL:
				return ".nanL"
			case f.valR:
				return ".nanR"
			}
		}
	}
	return ".bad"
}

// c16parseFloatAssign: `v, err := strconv.ParseFloat(<param>, 64)`
func c16parseFloatAssign(st ast.Stmt, param string) (v, errv string, bits int, ok bool) {
	as, isAs := st.(*ast.AssignStmt)
	if !isAs || as.Tok != token.DEFINE || len(as.Lhs) != 2 || len(as.Rhs) != 1 {
		return
	}
	args, isCall := c16selCall(as.Rhs[0], "strconv", "ParseFloat")
	if !isCall || len(args) != 2 || c16ident(args[0]) != param {
		return
	}
	lit, isLit := args[1].(*ast.BasicLit)
	if !isLit || lit.Kind != token.INT {
		return
	}
	bits, _ = strconv.Atoi(lit.Value)
	return c16ident(as.Lhs[0]), c16ident(as.Lhs[1]), bits, c16ident(as.Lhs[0]) != "" && c16ident(as.Lhs[1]) != ""
}

func c16translateBinaryFloats(fd *ast.FuncDecl) (cond string, bits int) {
	cond = ".bad"
	if fd == nil || fd.Body == nil || fd.Type.Params == nil || len(fd.Body.List) != 4 {
		return
	}
	var params []string
	for _, p := range fd.Type.Params.List {
		for _, n := range p.Names {
			params = append(params, n.Name)
		}
	}
	if len(params) != 2 {
		return
	}
	var f c16floats
	var okL, okR bool
	var bitsR int
	f.valL, f.errL, f.bits, okL = c16parseFloatAssign(fd.Body.List[0], params[0])
	f.valR, f.errR, bitsR, okR = c16parseFloatAssign(fd.Body.List[1], params[1])
	if !okL || !okR || f.bits != bitsR {
		return
	}
	ifs, isIf := fd.Body.List[2].(*ast.IfStmt)
	if !isIf || ifs.Init != nil || ifs.Else != nil || len(ifs.Body.List) != 1 {
		return
	}
	// return valL, valR, true
	ret, isRet := ifs.Body.List[0].(*ast.ReturnStmt)
	if !isRet || len(ret.Results) != 3 || c16ident(ret.Results[0]) != f.valL || c16ident(ret.Results[1]) != f.valR || c16ident(ret.Results[2]) != "true" {
		return
	}
	// return 0, 0, false
	last, isRet := fd.Body.List[3].(*ast.ReturnStmt)
	if !isRet || len(last.Results) != 3 || c16ident(last.Results[2]) != "false" {
		return
	}
	return f.cond(ifs.Cond), f.bits
}

// ---- compareStrings: `p = strings.F(strings.G(p))` for both parameters, then `return op(s, t)`

func c16normChain(e ast.Expr, param string) ([]string, bool) {
	if c16ident(e) == param {
		return nil, true
	}
	call, ok := e.(*ast.CallExpr)
	if !ok || len(call.Args) != 1 {
		return nil, false
	}
	sel, ok := call.Fun.(*ast.SelectorExpr)
	if !ok || c16ident(sel.X) != "strings" {
		return nil, false
	}
	inner, ok := c16normChain(call.Args[0], param)
	if !ok {
		return nil, false
	}
	return append(inner, sel.Sel.Name), true // innermost first
}

func c16translateCompareStrings(fd *ast.FuncDecl) (left, right []string, ok bool) {
	if fd == nil || fd.Body == nil || fd.Type.Params == nil {
		return nil, nil, false
	}
	var params []string
	for _, p := range fd.Type.Params.List {
		for _, n := range p.Names {
			params = append(params, n.Name)
		}
	}
	if len(params) != 3 || len(fd.Body.List) != 3 {
		return nil, nil, false
	}
	norm := func(st ast.Stmt, param string) ([]string, bool) {
		as, isAs := st.(*ast.AssignStmt)
		if !isAs || as.Tok != token.ASSIGN || len(as.Lhs) != 1 || len(as.Rhs) != 1 || c16ident(as.Lhs[0]) != param {
			return nil, false
		}
		return c16normChain(as.Rhs[0], param)
	}
	l, okL := norm(fd.Body.List[0], params[0])
	r, okR := norm(fd.Body.List[1], params[1])
	ret, isRet := fd.Body.List[2].(*ast.ReturnStmt)
	if !okL || !okR || !isRet || len(ret.Results) != 1 {
		return nil, nil, false
	}
	call, isCall := ret.Results[0].(*ast.CallExpr)
	if !isCall || c16ident(call.Fun) != params[2] || len(call.Args) != 2 || c16ident(call.Args[0]) != params[0] || c16ident(call.Args[1]) != params[1] {
		return nil, nil, false
	}
	return l, r, true
}

// ---- operator functions

func c16relOp(op token.Token) string {
	switch op {
	case token.EQL:
		return ".eq"
	case token.NEQ:
		return ".ne"
	case token.LSS:
		return ".lt"
	case token.LEQ:
		return ".le"
	case token.GTR:
		return ".gt"
	case token.GEQ:
		return ".ge"
	}
	return ".bad"
}

// c16relOf recognises `a <op> b` over exactly these two identifiers, in this order.
func c16relOf(e ast.Expr, a, b string) string {
	be, ok := e.(*ast.BinaryExpr)
	if !ok || c16ident(be.X) != a || c16ident(be.Y) != b || a == "" || b == "" {
		return ".bad"
	}
	return c16relOp(be.Op)
}

func c16translateOperatorFn(fd *ast.FuncDecl) string {
	if fd == nil || fd.Body == nil || fd.Type.Params == nil {
		return ".bad"
	}
	var params []string
	for _, p := range fd.Type.Params.List {
		for _, n := range p.Names {
			params = append(params, n.Name)
		}
	}
	if len(params) != 2 {
		return ".bad"
	}
	body := fd.Body.List
	// negation: result, err := f(left, right); if err != nil { return false, err }; return !result, nil
	if len(body) == 3 {
		as, isAs := body[0].(*ast.AssignStmt)
		ret, isRet := body[2].(*ast.ReturnStmt)
		ifs, isIf := body[1].(*ast.IfStmt)
		if isAs && isRet && isIf && as.Tok == token.DEFINE && len(as.Lhs) == 2 && len(as.Rhs) == 1 && len(ret.Results) == 2 {
			call, isCall := as.Rhs[0].(*ast.CallExpr)
			un, isUn := ret.Results[0].(*ast.UnaryExpr)
			if isCall && isUn && un.Op == token.NOT && c16ident(un.X) == c16ident(as.Lhs[0]) && c16ident(un.X) != "" &&
				c16ident(call.Fun) != "" && len(call.Args) == 2 && c16ident(call.Args[0]) == params[0] && c16ident(call.Args[1]) == params[1] &&
				c16ident(ret.Results[1]) == "nil" {
				// the error branch must not return a result of its own
				if be, ok := ifs.Cond.(*ast.BinaryExpr); ok && be.Op == token.NEQ && c16ident(be.X) == c16ident(as.Lhs[1]) && c16ident(be.Y) == "nil" && len(ifs.Body.List) == 1 {
					if r, ok := ifs.Body.List[0].(*ast.ReturnStmt); ok && len(r.Results) == 2 && c16ident(r.Results[0]) == "false" && c16ident(r.Results[1]) == c16ident(as.Lhs[1]) {
						return fmt.Sprintf("(.negationOf %q)", c16ident(call.Fun))
					}
				}
			}
		}
		return ".bad"
	}
	if len(body) != 4 {
		return ".bad"
	}
	// sLeft, sRight := binaryStrings(left, right)
	as, isAs := body[0].(*ast.AssignStmt)
	if !isAs || as.Tok != token.DEFINE || len(as.Lhs) != 2 || len(as.Rhs) != 1 {
		return ".bad"
	}
	call, isCall := as.Rhs[0].(*ast.CallExpr)
	if !isCall || c16ident(call.Fun) != "binaryStrings" || len(call.Args) != 2 || c16ident(call.Args[0]) != params[0] || c16ident(call.Args[1]) != params[1] {
		return ".bad"
	}
	sL, sR := c16ident(as.Lhs[0]), c16ident(as.Lhs[1])
	// if fl, fr, ok := binaryFloats(sLeft, sRight); ok { return fl <op> fr, nil }
	ifs, isIf := body[1].(*ast.IfStmt)
	if !isIf || ifs.Else != nil || ifs.Init == nil || len(ifs.Body.List) != 1 {
		return ".bad"
	}
	init, isAs := ifs.Init.(*ast.AssignStmt)
	if !isAs || init.Tok != token.DEFINE || len(init.Lhs) != 3 || len(init.Rhs) != 1 || c16ident(ifs.Cond) != c16ident(init.Lhs[2]) || c16ident(ifs.Cond) == "" {
		return ".bad"
	}
	fcall, isCall := init.Rhs[0].(*ast.CallExpr)
	if !isCall || c16ident(fcall.Fun) != "binaryFloats" || len(fcall.Args) != 2 || c16ident(fcall.Args[0]) != sL || c16ident(fcall.Args[1]) != sR {
		return ".bad"
	}
	ret, isRet := ifs.Body.List[0].(*ast.ReturnStmt)
	if !isRet || len(ret.Results) != 2 || c16ident(ret.Results[1]) != "nil" {
		return ".bad"
	}
	num := c16relOf(ret.Results[0], c16ident(init.Lhs[0]), c16ident(init.Lhs[1]))
	// compare := func(s, t string) bool { return s <op> t }
	cas, isAs := body[2].(*ast.AssignStmt)
	if !isAs || cas.Tok != token.DEFINE || len(cas.Lhs) != 1 || len(cas.Rhs) != 1 {
		return ".bad"
	}
	fl, isFn := cas.Rhs[0].(*ast.FuncLit)
	if !isFn || len(fl.Body.List) != 1 || fl.Type.Params == nil {
		return ".bad"
	}
	var fp []string
	for _, p := range fl.Type.Params.List {
		for _, n := range p.Names {
			fp = append(fp, n.Name)
		}
	}
	fret, isRet := fl.Body.List[0].(*ast.ReturnStmt)
	if len(fp) != 2 || !isRet || len(fret.Results) != 1 {
		return ".bad"
	}
	text := c16relOf(fret.Results[0], fp[0], fp[1])
	// return compareStrings(sLeft, sRight, compare), nil
	last, isRet := body[3].(*ast.ReturnStmt)
	if !isRet || len(last.Results) != 2 || c16ident(last.Results[1]) != "nil" {
		return ".bad"
	}
	ccall, isCall := last.Results[0].(*ast.CallExpr)
	if !isCall || c16ident(ccall.Fun) != "compareStrings" || len(ccall.Args) != 3 || c16ident(ccall.Args[0]) != sL || c16ident(ccall.Args[1]) != sR || c16ident(ccall.Args[2]) != c16ident(cas.Lhs[0]) {
		return ".bad"
	}
	return fmt.Sprintf("(.numericElseText %s %s)", num, text)
}

// ---- First / Last: statements after `<count>, err := strconv.Atoi(…)` and its error check

type c16slice struct{ in string }

func (t c16slice) iexp(e ast.Expr) string {
	switch x := e.(type) {
	case *ast.ParenExpr:
		return t.iexp(x.X)
	case *ast.Ident:
		return fmt.Sprintf("(.var %q)", x.Name)
	case *ast.BasicLit:
		if x.Kind == token.INT {
			if n, err := strconv.Atoi(x.Value); err == nil {
				return fmt.Sprintf("(.lit %d)", n)
			}
		}
	case *ast.CallExpr:
		if sel, ok := x.Fun.(*ast.SelectorExpr); ok && c16ident(sel.X) == t.in && sel.Sel.Name == "Len" && len(x.Args) == 0 {
			return ".len"
		}
	case *ast.BinaryExpr:
		switch x.Op {
		case token.ADD:
			return "(.add " + t.iexp(x.X) + " " + t.iexp(x.Y) + ")"
		case token.SUB:
			return "(.sub " + t.iexp(x.X) + " " + t.iexp(x.Y) + ")"
		}
	}
	return ".bad"
}

func (t c16slice) bexp(e ast.Expr) string {
	if p, ok := e.(*ast.ParenExpr); ok {
		return t.bexp(p.X)
	}
	be, ok := e.(*ast.BinaryExpr)
	if !ok {
		return ".bad"
	}
	op := map[token.Token]string{token.EQL: ".eq", token.GEQ: ".ge", token.GTR: ".gt", token.LSS: ".lt", token.LEQ: ".le"}[be.Op]
	if op == "" {
		return ".bad"
	}
	return "(" + op + " " + t.iexp(be.X) + " " + t.iexp(be.Y) + ")"
}

// `return in.Slice(lo, hi).Interface(), nil`
func (t c16slice) sliceReturn(st ast.Stmt) (lo, hi string, ok bool) {
	ret, isRet := st.(*ast.ReturnStmt)
	if !isRet || len(ret.Results) != 2 || c16ident(ret.Results[1]) != "nil" {
		return
	}
	ic, isCall := ret.Results[0].(*ast.CallExpr)
	if !isCall || len(ic.Args) != 0 {
		return
	}
	isel, isSel := ic.Fun.(*ast.SelectorExpr)
	if !isSel || isel.Sel.Name != "Interface" {
		return
	}
	sc, isCall := isel.X.(*ast.CallExpr)
	if !isCall || len(sc.Args) != 2 {
		return
	}
	ssel, isSel := sc.Fun.(*ast.SelectorExpr)
	if !isSel || ssel.Sel.Name != "Slice" || c16ident(ssel.X) != t.in {
		return
	}
	return t.iexp(sc.Args[0]), t.iexp(sc.Args[1]), true
}

func (t c16slice) assign(st ast.Stmt) (v, e string, ok bool) {
	as, isAs := st.(*ast.AssignStmt)
	if !isAs || (as.Tok != token.DEFINE && as.Tok != token.ASSIGN) || len(as.Lhs) != 1 || len(as.Rhs) != 1 || c16ident(as.Lhs[0]) == "" {
		return
	}
	return c16ident(as.Lhs[0]), t.iexp(as.Rhs[0]), true
}

func (t c16slice) stmts(list []ast.Stmt) []string {
	var out []string
	for _, st := range list {
		switch x := st.(type) {
		case *ast.AssignStmt:
			if v, e, ok := t.assign(x); ok {
				out = append(out, fmt.Sprintf("(.assign %q %s)", v, e))
			} else {
				out = append(out, ".bad")
			}
		case *ast.ReturnStmt:
			if lo, hi, ok := t.sliceReturn(x); ok {
				out = append(out, fmt.Sprintf("(.ret %s %s)", lo, hi))
			} else {
				out = append(out, ".bad")
			}
		case *ast.IfStmt:
			if x.Else != nil || len(x.Body.List) != 1 {
				out = append(out, ".bad")
				continue
			}
			if x.Init != nil {
				if v, e, ok := t.assign(x.Init); ok {
					out = append(out, fmt.Sprintf("(.assign %q %s)", v, e))
				} else {
					out = append(out, ".bad")
				}
			}
			if v, e, ok := t.assign(x.Body.List[0]); ok {
				out = append(out, fmt.Sprintf("(.ifAssign %s %q %s)", t.bexp(x.Cond), v, e))
			} else if lo, hi, ok := t.sliceReturn(x.Body.List[0]); ok {
				out = append(out, fmt.Sprintf("(.ifReturn %s %s %s)", t.bexp(x.Cond), lo, hi))
			} else {
				out = append(out, ".bad")
			}
		default:
			out = append(out, ".bad")
		}
	}
	return out
}

// c16translateSlicing finds `<count>, err := strconv.Atoi(…)` in T.Evaluate, skips the error check
// that follows and translates the rest of the body.
func c16translateSlicing(file *ast.File, recv string) (countVar string, stmts []string) {
	for _, d := range file.Decls {
		fd, ok := d.(*ast.FuncDecl)
		if !ok || fd.Name.Name != "Evaluate" || fd.Recv == nil || len(fd.Recv.List) != 1 || fd.Body == nil {
			continue
		}
		star, ok := fd.Recv.List[0].Type.(*ast.StarExpr)
		if !ok || c16ident(star.X) != recv {
			continue
		}
		// the reflect.Value the slicing works on: `in := reflect.ValueOf(input)`
		in := ""
		for _, st := range fd.Body.List {
			if as, ok := st.(*ast.AssignStmt); ok && as.Tok == token.DEFINE && len(as.Lhs) == 1 && len(as.Rhs) == 1 {
				if _, ok := c16selCall(as.Rhs[0], "reflect", "ValueOf"); ok {
					in = c16ident(as.Lhs[0])
					break
				}
			}
		}
		for i, st := range fd.Body.List {
			as, ok := st.(*ast.AssignStmt)
			if !ok || len(as.Lhs) != 2 || len(as.Rhs) != 1 {
				continue
			}
			if _, ok := c16selCall(as.Rhs[0], "strconv", "Atoi"); !ok {
				continue
			}
			rest := fd.Body.List[i+1:]
			// if err != nil { return nil, err }
			if len(rest) == 0 || in == "" {
				return "", nil
			}
			ifs, ok := rest[0].(*ast.IfStmt)
			if !ok {
				return "", nil
			}
			be, ok := ifs.Cond.(*ast.BinaryExpr)
			if !ok || be.Op != token.NEQ || c16ident(be.X) != c16ident(as.Lhs[1]) || c16ident(be.Y) != "nil" {
				return "", nil
			}
			return c16ident(as.Lhs[0]), c16slice{in}.stmts(rest[1:])
		}
	}
	return "", nil
}

func init() {
	extractors["QuerySrc"] = func() string {
		var b strings.Builder
		b.WriteString("-- Source: q/binary_expr.go (binaryFloats, compareStrings, the operator functions, Operators),\n")
		b.WriteString("-- q/first_expr.go and q/last_expr.go (statements between strconv.Atoi and in.Slice), read with\n")
		b.WriteString("-- go/ast (harness/extract_querysrc.go).  Unknown shapes are `.bad` / empty.\n")
		b.WriteString("import Gedcom.Model.QuerySrc\nnamespace Gedcom.Generated.QuerySrc\nopen Gedcom.QuerySrc\n\n")
		fset := token.NewFileSet()
		dir := filepath.Join(repoRoot(), "q")

		cond, bits := ".bad", 0
		var normL, normR []string
		var fns, table []string
		if file, err := parser.ParseFile(fset, filepath.Join(dir, "binary_expr.go"), nil, 0); err == nil {
			decls := map[string]*ast.FuncDecl{}
			for _, d := range file.Decls {
				if fd, ok := d.(*ast.FuncDecl); ok && fd.Recv == nil {
					decls[fd.Name.Name] = fd
				}
			}
			cond, bits = c16translateBinaryFloats(decls["binaryFloats"])
			if l, r, ok := c16translateCompareStrings(decls["compareStrings"]); ok {
				normL, normR = l, r
			} else {
				normL, normR = []string{"?"}, []string{"?"}
			}
			// Operators = []struct{…}{ {"name", tokens, fn}, … }
			seen := map[string]bool{}
			for _, d := range file.Decls {
				gd, ok := d.(*ast.GenDecl)
				if !ok {
					continue
				}
				for _, s := range gd.Specs {
					vs, ok := s.(*ast.ValueSpec)
					if !ok || len(vs.Names) != 1 || vs.Names[0].Name != "Operators" || len(vs.Values) != 1 {
						continue
					}
					cl, ok := vs.Values[0].(*ast.CompositeLit)
					if !ok {
						continue
					}
					for _, e := range cl.Elts {
						row, ok := e.(*ast.CompositeLit)
						name, fn := "?", "?"
						if ok && len(row.Elts) == 3 {
							if lit, ok := row.Elts[0].(*ast.BasicLit); ok && lit.Kind == token.STRING {
								name, _ = strconv.Unquote(lit.Value)
							}
							if id := c16ident(row.Elts[2]); id != "" {
								fn = id
							}
						}
						table = append(table, fmt.Sprintf("(%q, %q)", name, fn))
						if fn != "?" && !seen[fn] {
							seen[fn] = true
							fns = append(fns, fmt.Sprintf("(%q, %s)", fn, c16translateOperatorFn(decls[fn])))
						}
					}
				}
			}
		}
		q := func(xs []string) string {
			var o []string
			for _, x := range xs {
				o = append(o, fmt.Sprintf("%q", x))
			}
			return "[" + strings.Join(o, ", ") + "]"
		}
		b.WriteString("/-- binary_expr.go -/\ndef ops : OpsSrc :=\n")
		fmt.Fprintf(&b, "  { numericCond := %s\n    parseBits := %d\n    normLeft := %s\n    normRight := %s\n", cond, bits, q(normL), q(normR))
		fmt.Fprintf(&b, "    fns := [%s]\n    table := [%s] }\n\n", strings.Join(fns, ",\n      "), strings.Join(table, ", "))

		for _, x := range []struct{ file, recv, name string }{{"first_expr.go", "FirstExpr", "first"}, {"last_expr.go", "LastExpr", "last"}} {
			countVar, stmts := "", []string(nil)
			if file, err := parser.ParseFile(fset, filepath.Join(dir, x.file), nil, 0); err == nil {
				countVar, stmts = c16translateSlicing(file, x.recv)
			}
			fmt.Fprintf(&b, "/-- %s: the variable that receives strconv.Atoi of the argument, and the statements after it -/\n", x.file)
			fmt.Fprintf(&b, "def %sCountVar : String := %q\n", x.name, countVar)
			fmt.Fprintf(&b, "def %sStmts : List Stmt := [%s]\n\n", x.name, strings.Join(stmts, ",\n  "))
		}
		b.WriteString("end Gedcom.Generated.QuerySrc\n")
		return b.String()
	}
}
