package main

// C14: the records around the people — realistic headers and non-INDI/FAM records (SUBM, SOUR,
// REPO, OBJE, NOTE, custom) with the substructures real files have, including tags the html pages
// special-case (PLAC, DATE, NAME, SEX, BIRT, FAMC/FAMS) under records that are not individuals, and
// empty PLAC values; and a few LARGE files (> 1000 individuals / families / places / sources), which
// is where buffered pipelines and quadratic page code show.

import (
	"fmt"
	"os"
	"path/filepath"
	"sort"
	"strconv"
	"strings"
	"time"
)

// `gvh worker c14large <individuals> <families> <places> <sources> <pointer prefix>` prints a large
// file again (the replay of a failing large-file run names this command instead of 50 000 lines).
func init() {
	workers["c14large"] = func(args []string) int {
		if len(args) != 5 {
			fmt.Fprintln(os.Stderr, "usage: c14large <individuals> <families> <places> <sources> <prefix>")
			return 2
		}
		var n [4]int
		for i := range n {
			n[i], _ = strconv.Atoi(args[i])
		}
		fmt.Print(c14Large(n[0], n[1], n[2], n[3], args[4]))
		return 0
	}
}

var c14HeaderNames = []string{"bare", "full+place-format", "full", "place-with-value", "odd-children", "place-format-only", "none"}

// c14Header returns the lines of header variant v.
func c14Header(r *Rand, v int) []string {
	full := []string{
		"0 HEAD", "1 SOUR GedGen", "2 VERS 7.1", "2 NAME Ged Gen for Testing", "2 CORP Gen & Sons <Ltd>", "3 ADDR 1 Main Street",
		"4 CONT Oldtown", "4 CITY Oldtown", "4 CTRY Oz", "3 PHON +1 555", "2 DATA Parish Extract", "3 DATE 1 JAN 2000", "3 COPR (c) nobody",
		"1 DEST ANSTFILE", "1 DATE 2 FEB 2020", "2 TIME 12:34:56", "1 SUBM @U1@", "1 SUBN @SN1@", "1 FILE family.ged", "1 COPR (c) 2020",
		"1 GEDC", "2 VERS 5.5.1", "2 FORM LINEAGE-LINKED", "1 CHAR UTF-8", "2 VERS 1", "1 LANG English",
	}
	note := []string{"1 NOTE This file was made for a test", "2 CONT and has a second line", "2 CONC atenated"}
	placeForm := []string{"1 PLAC", "2 FORM City, County, State, Country"}
	switch c14HeaderNames[v%len(c14HeaderNames)] {
	case "bare":
		return []string{"0 HEAD", "1 CHAR UTF-8"}
	case "full+place-format":
		return append(append(append([]string{}, full...), placeForm...), note...)
	case "full":
		return append(append([]string{}, full...), note...)
	case "place-with-value":
		return append(append([]string{}, full...), "1 PLAC "+r.Pick([]string{"Oldtown", "Headerplace, Oz", ",,", "Smith"}), "2 FORM City, Country", "2 MAP", "3 LATI N1", "3 LONG E1")
	case "odd-children":
		return []string{"0 HEAD", "1 NAME Head /Er/", "1 SEX M", "1 BIRT", "2 DATE 1 JAN 1900", "2 PLAC " + r.Pick(c14Places), "1 DEAT", "2 PLAC",
			"1 FAMC @F1@", "1 FAMS @F9@", "1 SOUR @S1@", "1 _UID x", "1 PLAC", "2 PLAC", "3 PLAC Deep"}
	case "place-format-only":
		return []string{"0 HEAD", "1 PLAC", "2 FORM City, County, State, Country"}
	}
	return nil
}

// c14OtherRecords returns records that are neither individuals nor families.
func c14OtherRecords(r *Rand) []string {
	pool := [][]string{
		{"0 @U1@ SUBM", "1 NAME Sub /Mitter/", "1 ADDR 2 Side Street", "2 CONT Newtown", "1 PLAC Subplace, Oz", "1 SEX F", "1 BIRT", "2 DATE 3 MAR 1950",
			"2 PLAC", "1 FAMS @F1@", "1 LANG English", "1 RIN 1"},
		{"0 @SN1@ SUBN", "1 SUBM @U1@", "1 FAMF file", "1 ANCE 2", "1 PLAC"},
		{"0 @R1@ REPO", "1 NAME County Archive", "1 ADDR", "2 ADR1 x", "1 PLAC", "2 FORM City", "1 NOTE @N1@", "1 DATE garbage"},
		{"0 @O1@ OBJE", "1 FILE photo.jpg", "2 FORM jpg", "3 TYPE photo", "2 TITL A photo", "1 DATE 1 JAN 1999", "1 PLAC Photoplace", "1 NAME x /y/", "1 CHAN",
			"2 DATE 1 JAN 2001", "3 TIME 1:00"},
		{"0 @N1@ NOTE A note record", "1 CONT with more", "1 PLAC Noteplace, Oz", "1 NAME Not /Aperson/", "1 DEAT", "2 DATE 1900", "2 PLAC", "1 SOUR @S1@", "2 PAGE 5"},
		{"0 @S77@ SOUR", "1 DATA", "2 EVEN BIRT, DEAT", "3 DATE FROM 1800 TO 1900", "3 PLAC Sourceregion, Oz", "2 AGNC Parish", "1 AUTH Author", "1 PUBL Publ",
			"1 REPO @R1@", "2 CALN 12", "3 MEDI Book", "1 PLAC", "1 NAME Src /Name/", "1 SEX U", "1 FAMC @F1@"},
		{"0 _CUSTOM record", "1 PLAC Customplace", "1 DATE 1 JAN 1800", "1 _SUB", "2 PLAC", "2 NAME a /b/"},
		{"0 @X1@ _LOC", "1 NAME Location record", "1 PLAC", "1 MAP", "2 LATI", "2 LONG"},
		{"0 @O2@ OBJE", "1 PLAC"},
	}
	var out []string
	for _, rec := range pool {
		if r.Chance(1, 3) {
			out = append(out, rec...)
		}
	}
	return out
}

// c14WithRecords replaces the header of a generated file and adds the other records (before TRLR).
func c14WithRecords(text string, header, others []string) string {
	lines := strings.Split(strings.TrimSuffix(text, "\n"), "\n")
	// drop the generated header (0 HEAD and its children)
	if len(lines) > 0 && lines[0] == "0 HEAD" {
		i := 1
		for i < len(lines) && !strings.HasPrefix(lines[i], "0 ") {
			i++
		}
		lines = lines[i:]
	}
	trlr := false
	if n := len(lines); n > 0 && lines[n-1] == "0 TRLR" {
		lines, trlr = lines[:n-1], true
	}
	all := append(append(append([]string{}, header...), lines...), others...)
	if trlr {
		all = append(all, "0 TRLR")
	}
	if len(all) == 0 || (len(all) == 1 && all[0] == "") {
		return ""
	}
	return strings.Join(all, "\n") + "\n"
}

// c14Large builds a file with n individuals, nFam families, nPlaces distinct places and nSour sources;
// prefix = pointer prefix of the individuals (a renumbered copy has another one).
func c14Large(n, nFam, nPlaces, nSour int, prefix string) string {
	var b strings.Builder
	w := func(format string, a ...interface{}) { fmt.Fprintf(&b, format+"\n", a...) }
	w("0 HEAD")
	w("1 GEDC")
	w("2 VERS 5.5.1")
	w("1 CHAR UTF-8")
	months := []string{"Jan", "Feb", "Mar", "Apr", "May", "Jun"}
	place := 0
	for i := 1; i <= n; i++ {
		w("0 @%s%d@ INDI", prefix, i)
		w("1 NAME Given%d /Sur%d/", i, i%97)
		w("1 SEX %c", "MF"[i%2])
		w("1 BIRT")
		w("2 DATE %d %s %d", 1+i%28, months[i%6], 1700+i%250)
		perPerson := (nPlaces + n - 1) / n
		if perPerson < 1 {
			perPerson = 1
		}
		for k := 0; k < perPerson && (place < nPlaces || k == 0); k++ {
			if k == 0 {
				w("2 PLAC Town%d, Oz", place%nPlaces)
			} else {
				w("1 RESI")
				w("2 PLAC Town%d, Oz", place%nPlaces)
			}
			place++
		}
		if i <= nSour {
			w("2 SOUR @S%d@", i)
		}
		if i%3 == 0 {
			w("1 DEAT")
			w("2 DATE %d", 1760+i%250)
		}
	}
	for s := 1; s <= nSour; s++ {
		w("0 @S%d@ SOUR", s)
		w("1 TITL Source %d", s)
	}
	for f := 1; f <= nFam; f++ {
		w("0 @F%d@ FAM", f)
		h, wf, ch := (2*f-2)%n+1, (2*f-1)%n+1, (2*f)%n+1
		w("1 HUSB @%s%d@", prefix, h)
		w("1 WIFE @%s%d@", prefix, wf)
		w("1 CHIL @%s%d@", prefix, ch)
		if f%4 == 0 {
			w("1 MARR")
			w("2 DATE %d", 1720+f%250)
		}
	}
	w("0 TRLR")
	return b.String()
}

// ---- boundary corpus (runs in every tier) ---------------------------------------------------------

// c14BoundaryFiles: reference values at the byte boundaries and counts of dangling references.
func c14BoundaryFiles() map[string]string {
	p64, p255 := strings.Repeat("p", 64), strings.Repeat("q", 255)
	ptrs := []string{"A", p64, p255, "I 1", "Ié王", "1", "_", "i-1.x"}
	var b strings.Builder
	w := func(format string, a ...interface{}) { fmt.Fprintf(&b, format+"\n", a...) }
	w("0 HEAD")
	for i, p := range ptrs {
		w("0 @%s@ INDI", p)
		w("1 NAME P%d /Ref/", i)
		w("1 BIRT")
		w("2 DATE %d", 1800+i)
		w("1 FAMC @F1@")
		w("1 FAMS @%s@", p)
	}
	w("0 @F1@ FAM")
	for _, v := range []string{"@", "@@", "@x", "x@", "@ @", "@@@", "@@@@", " @A@", "@A@ ", "@a@", "A"} {
		w("1 HUSB %s", v)
		w("1 WIFE %s", v)
		w("1 CHIL %s", v)
	}
	for _, p := range ptrs {
		w("1 CHIL @%s@", p)
	}
	w("0 @F2@ FAM")
	w("1 HUSB @%s@", p255)
	w("1 WIFE @I 1@")
	w("1 CHIL @Ié王@")
	w("1 CHIL @%s@", p64)
	w("0 @%s@ FAM", p255) // a family with the pointer of an individual, 255 bytes
	w("1 HUSB @A@")
	w("0 TRLR")
	files := map[string]string{"reference values at the byte boundaries": b.String()}

	b.Reset()
	w("0 HEAD")
	w("0 @I1@ INDI")
	w("1 NAME Real /Person/")
	w("0 @I2@ INDI")
	w("1 NAME Other /Person/")
	for fi, n := range []int{0, 1, 64, 65} {
		w("0 @F%d@ FAM", fi+1)
		w("1 HUSB @I1@")
		if fi%2 == 1 {
			w("1 WIFE @W%d@", fi)
		}
		for k := 0; k < n; k++ {
			w("1 CHIL @D%d_%d@", fi, k)
		}
		w("1 CHIL @I2@")
	}
	w("0 TRLR")
	files["families with 0, 1, 64 and 65 dangling references"] = b.String()

	// name shapes: every name of the pool that has no ASCII letter or digit (other scripts, one
	// non-ASCII letter, punctuation only, combining marks only, 1-3 characters, long ones), each on
	// two people, so that diff and the merge query — which get this file on both sides — compare
	// such names with themselves and with each other; couples and children for the surrounding
	// similarity
	b.Reset()
	w("0 HEAD")
	for i, nm := range c14NonLatin {
		for k := 0; k < 2; k++ {
			w("0 @N%d_%d@ INDI", i, k)
			w("1 NAME %s", nm)
			if i%3 == 0 {
				w("1 NAME %s", c14NonLatin[(i+5)%len(c14NonLatin)])
			}
			w("1 SEX %s", []string{"M", "F"}[k])
			w("1 BIRT")
			w("2 DATE %d", 1800+i)
			w("2 PLAC %s", []string{"Ελλάδα", "東京", "", ",,", "Ø"}[i%5])
			if i%2 == 0 {
				w("1 DEAT")
				w("2 DATE %d", 1870+i)
			}
			w("1 FAMS @NF%d@", i)
			if i > 0 {
				w("1 FAMC @NF%d@", i-1)
			}
		}
		w("0 @NF%d@ FAM", i)
		w("1 HUSB @N%d_0@", i)
		w("1 WIFE @N%d_1@", i)
		if i+1 < len(c14NonLatin) {
			w("1 CHIL @N%d_0@", i+1)
			w("1 CHIL @N%d_1@", i+1)
		}
	}
	w("0 TRLR")
	files["name shapes without an ASCII letter or digit"] = b.String()
	return files
}

// c14Sized: n individuals in n/2 families, small records (for diff -jobs N at the size boundaries).
func c14Sized(n int) string {
	var b strings.Builder
	w := func(format string, a ...interface{}) { fmt.Fprintf(&b, format+"\n", a...) }
	w("0 HEAD")
	for i := 1; i <= n; i++ {
		w("0 @I%d@ INDI", i)
		w("1 NAME G%d /S%d/", i, i%7)
		w("1 BIRT")
		w("2 DATE %d", 1800+i%150)
	}
	for f := 1; f <= n/2; f++ {
		w("0 @F%d@ FAM", f)
		w("1 HUSB @I%d@", 2*f-1)
		w("1 WIFE @I%d@", 2*f)
		w("1 CHIL @I%d@", (2*f)%n+1)
	}
	w("0 TRLR")
	return b.String()
}

// c14BoundaryRuns appends the boundary corpus to the runs: every subcommand that decodes a file, with
// its flags, on the boundary files (the same file on both sides), `diff -jobs N` at the size
// boundaries, and output sinks that cannot be created.
func c14BoundaryRuns(c *Ctx, tmp string, runs *[]*c14Run) {
	add := func(label, kind, text, outDir string, args ...string) {
		*runs = append(*runs, &c14Run{file: "", text: text, kind: kind, args: args, outDir: outDir, label: label, limit: 120 * time.Second})
	}
	n := 0
	out := func(ext string) string { n++; return filepath.Join(tmp, fmt.Sprintf("bnd-%d%s", n, ext)) }
	bfiles := c14BoundaryFiles()
	var names []string
	for name := range bfiles {
		names = append(names, name)
	}
	sort.Strings(names)
	for bi, name := range names {
		text := bfiles[name]
		file := filepath.Join(tmp, fmt.Sprintf("boundary-%d.ged", bi))
		os.WriteFile(file, []byte(text), 0o644)
		label := "boundary file: " + name
		c.Count(label)
		add(label, "warnings", text, "", "warnings", file)
		for _, vis := range []string{"show", "hide", "placeholder"} {
			for _, extra := range [][]string{nil, {"-no-individuals", "-no-places"}, {"-no-families", "-no-surnames", "-no-sources", "-no-statistics"}, {"-jobs", "17"}} {
				o := out("")
				add(label, "publish", text, o, append([]string{"publish", "-gedcom", file, "-output-dir", o, "-living", vis}, extra...)...)
			}
		}
		for _, show := range []string{"all", "subset", "only-matches"} {
			for _, srt := range []string{"written-name", "highest-similarity"} {
				for _, jobs := range []string{"1", "3"} {
					o := out(".html")
					add(label, "diff", text, o, "diff", "-left-gedcom", file, "-right-gedcom", file, "-output", o, "-show", show, "-sort", srt, "-jobs", jobs)
				}
			}
		}
		for _, extra := range append(append([][]string{}, c14FilterFlags[1:]...),
			[]string{"-allow-multi-line", "-allow-invalid-indents"}, []string{"-progress"}, []string{"-prefer-pointer-above", "0"}, []string{"-prefer-pointer-above", "1"},
			[]string{"-minimum-similarity", "0", "-minimum-weighted-similarity", "0"}, []string{"-minimum-similarity", "1", "-minimum-weighted-similarity", "1"},
			[]string{"-google-analytics-id", "UA-1"}) {
			o := out(".html")
			add(label, "diff", text, o, append([]string{"diff", "-left-gedcom", file, "-right-gedcom", file, "-output", o}, extra...)...)
		}
		for _, format := range []string{"json", "pretty-json", "csv", "gedcom", "html"} {
			for _, q := range []string{".Individuals | .Name | .String", ".Families | { husband: .Husband | .String, wife: .Wife | .String, children: .Children }",
				".Individuals | { spouses: .Spouses, parents: .Parents, families: .Families }"} {
				add(label, "query", text, "", "query", "-gedcom", file, "-format", format, q)
			}
		}
		add(label+" merged with itself", "query", text, "", "query", "-gedcom", file, "-gedcom", file, "-format", "gedcom", "MergeDocumentsAndIndividuals(Document1, Document2)")
		add(label, "tune", text, "", "tune", "-gedcom1", file, "-gedcom2", file)
		// output sinks that cannot be created
		add(label+", output in a directory that does not exist", "diff", text, "", "diff", "-left-gedcom", file, "-right-gedcom", file, "-output", filepath.Join(tmp, "no-such-dir", "d.html"))
		add(label+", output is a directory", "diff", text, "", "diff", "-left-gedcom", file, "-right-gedcom", file, "-output", tmp)
		add(label+", output directory does not exist", "publish-sink", text, "", "publish", "-gedcom", file, "-output-dir", filepath.Join(tmp, "no-such-dir", "site"))
		add(label+", output directory is a file", "publish-sink", text, "", "publish", "-gedcom", file, "-output-dir", file)
	}
	// diff -jobs N at the size boundaries (the same file on both sides)
	for _, size := range []int{0, 1, 2, 3, 4, 7, 8, 9, 15, 16, 17, 18, 64, 65, 257} {
		file := filepath.Join(tmp, fmt.Sprintf("sized-%d.ged", size))
		text := c14Sized(size)
		os.WriteFile(file, []byte(text), 0o644)
		for _, jobs := range []int{1, 2, 3, 8, 16, 17} {
			if c.Quick() && size == 257 && jobs != 3 && jobs != 17 {
				continue
			}
			o := out(".html")
			label := fmt.Sprintf("sized file: %d individuals, diff -jobs %d", size, jobs)
			if size > 20 {
				text = fmt.Sprintf("(generated: %d individuals G<i> /S<i%%7>/ born 1800+i%%150, %d families HUSB 2f-1, WIFE 2f, CHIL 2f%%n+1)", size, size/2)
			}
			add(label, "diff", text, o, "diff", "-left-gedcom", file, "-right-gedcom", file, "-output", o, "-jobs", fmt.Sprint(jobs))
		}
	}
}
