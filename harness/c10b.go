package main

// C10, second wave of shapes (see c10.go for the oracles, which are shared):
//
//   api-edit      an input that was edited through the document API before the merge: DeleteNode or
//                 SetNodes, then AddIndividual (and now and then AddFamilyWithHusbandAndWife /
//                 AddChild around the new person);
//   merge-chain   the result of a merge gets a person added through the API and is merged again
//                 with an independently edited copy of itself (2 or 3 merges), every merge under all
//                 oracles, so the accounting composes along the chain (an input individual of a later
//                 merge carries the markers of everybody it already stands for);
//   uid-namesake  a copy in which a person with a _UID and a namesake have swapped pointers: the
//                 _UID pairs left @I2@ with right @I1@ while right @I1@ also shares its pointer with
//                 the left namesake;
//   perfect-copy  fully documented parents with children (names, births, deaths identical on both
//                 sides: weighted similarity 1.0 for the children) where the copy adds or changes
//                 only non-vital facts (occupation, places).

import (
	"fmt"
	"sort"
	"strconv"
	"strings"
	"time"

	"github.com/elliotchance/gedcom/v39"
)

// c10Describe reads the abstract description of a document off the document itself (for inputs
// that were not rendered from a world: API edits, merge results).
func c10Describe(doc *gedcom.Document) *c10ADoc {
	d := &c10ADoc{Text: doc.String()}
	for _, n := range doc.Nodes() {
		switch n.Tag().Tag() {
		case "INDI":
			paths, markers, refs := c10FactPaths(n)
			sort.Strings(markers)
			d.Indis = append(d.Indis, c10AIndi{Ptr: n.Pointer(), Marker: strings.Join(markers, " "), Facts: paths, Refs: refs})
		case "FAM":
			f := c10AFam{Ptr: n.Pointer()}
			for _, k := range n.Nodes() {
				switch t := k.Tag().Tag(); t {
				case "HUSB", "WIFE", "CHIL":
					f.Refs = append(f.Refs, [2]string{t, strings.Trim(k.Value(), "@")})
				}
			}
			d.Fams = append(d.Fams, f)
		}
	}
	return d
}

func c10N(tag, value string, kids ...gedcom.Node) gedcom.Node {
	return gedcom.NewNode(gedcom.TagFromString(tag), value, "", kids...)
}

// c10AddPerson adds a new individual through the API and returns it.
func c10AddPerson(r *Rand, doc *gedcom.Document, ptr, marker string) *gedcom.IndividualNode {
	p := c10NewPerson(r, 900)
	return doc.AddIndividual(ptr,
		c10N("NAME", fmt.Sprintf("%s /%s/", p.Given, p.Surn)),
		c10N("SEX", p.Sex),
		c10N("BIRT", "", c10N("DATE", fmt.Sprintf("%d %s %d", p.BD, c10Mon[p.BM-1], p.BY)), c10N("PLAC", p.Place)),
		c10N("_MARK", marker))
}

func c10Unlinked(doc *gedcom.Document) []gedcom.Node {
	var out []gedcom.Node
	for _, n := range doc.Nodes() {
		if n.Tag().Tag() != "INDI" {
			continue
		}
		linked := false
		for _, k := range n.Nodes() {
			if t := k.Tag().Tag(); t == "FAMS" || t == "FAMC" {
				linked = true
			}
		}
		if !linked {
			out = append(out, n)
		}
	}
	return out
}

// c10Read is an earlier use of the document in the same process, before it is edited and merged:
// whatever the document remembers about its records (lists of individuals / families, pointer
// table, family links) is filled by it. Returns what was done ("" = nothing).
func c10Read(r *Rand, doc *gedcom.Document) string {
	switch r.Intn(7) {
	case 0:
		doc.Individuals()
		return "earlier read: Individuals()"
	case 1:
		doc.Families()
		doc.Individuals()
		return "earlier read: Families(), Individuals()"
	case 2:
		doc.Warnings()
		return "earlier read: Warnings()"
	case 3:
		// an earlier merge of the same document (result discarded)
		if _, err := c10Merge(doc, gedcom.NewDocument(), "library", 0); err == nil {
			return "earlier merge: MergeDocumentsAndIndividuals(doc, empty) through the library"
		}
	case 4:
		if _, err := c10Merge(gedcom.NewDocument(), doc, "query", 0); err == nil {
			return "earlier merge: MergeDocumentsAndIndividuals(empty, doc) through q"
		}
	}
	return ""
}

// c10AddThroughAddNode attaches records with the generic Document.AddNode (not AddIndividual /
// AddFamily): a person copied from another document with DeepCopy, a person
// copied from a freshly decoded document, or a whole family (two new people and their FAM record) copied
// record by record. Every new person carries a unique marker.
func c10AddThroughAddNode(r *Rand, doc *gedcom.Document, tag string) string {
	scratch := gedcom.NewDocument()
	switch r.Intn(3) {
	case 0:
		src := c10AddPerson(r, scratch, "A"+tag, "A"+tag)
		doc.AddNode(gedcom.DeepCopy(src, doc))
		return "AddNode(DeepCopy(@A" + tag + "@ of another document))"
	case 1:
		// a person of a freshly decoded document
		p := c10NewPerson(r, 950)
		text := fmt.Sprintf("0 @A%s@ INDI\n1 NAME %s /%s/\n1 SEX %s\n1 BIRT\n2 DATE %d %s %d\n1 _MARK A%s\n", tag, p.Given, p.Surn, p.Sex, p.BD, c10Mon[p.BM-1], p.BY, tag)
		dec, err := gedcom.NewDocumentFromString(text)
		if err != nil || len(dec.Individuals()) != 1 {
			return ""
		}
		doc.AddNode(gedcom.DeepCopy(dec.Individuals()[0], doc))
		return "AddNode(DeepCopy(@A" + tag + "@ of a decoded document))"
	default:
		h := c10AddPerson(r, scratch, "A"+tag+"h", "A"+tag+"h")
		w := c10AddPerson(r, scratch, "A"+tag+"w", "A"+tag+"w")
		// (DeepCopy of a FAM record attaches an empty family of its own to the destination: the
		// family is made with the family API around the two copied people instead)
		hc, ok1 := gedcom.DeepCopy(h, doc).(*gedcom.IndividualNode)
		wc, ok2 := gedcom.DeepCopy(w, doc).(*gedcom.IndividualNode)
		if !ok1 || !ok2 {
			return ""
		}
		doc.AddNode(hc)
		doc.AddNode(wc)
		doc.AddFamilyWithHusbandAndWife("FA"+tag, hc, wc)
		return "AddNode(DeepCopy(..)) of @A" + tag + "h@ and @A" + tag + "w@, AddFamilyWithHusbandAndWife(@FA" + tag + "@)"
	}
}

func c10CountHistory(c *Ctx, hist string) {
	for _, k := range []string{"earlier read", "earlier merge", "AddNode(DeepCopy", "AddIndividual(", "AddFamilyWithHusbandAndWife(", "DeleteNode(", "SetNodes("} {
		if strings.Contains(hist, k) {
			c.Count("history:" + strings.TrimRight(k, "("))
		}
	}
	if (strings.Contains(hist, "earlier") || strings.Contains(hist, "AddIndividual(")) && strings.Contains(hist, "AddNode(DeepCopy") {
		c.Count("history:records attached through AddNode after the document was read")
	}
}

// c10APIEdit edits a decoded document through the API and says what it did.
func c10APIEdit(r *Rand, doc *gedcom.Document, tag string) string {
	var hist []string
	if rd := c10Read(r, doc); rd != "" {
		hist = append(hist, rd)
	}
	switch r.Intn(4) {
	case 0, 1:
		if un := c10Unlinked(doc); len(un) > 0 {
			n := un[r.Intn(len(un))]
			doc.DeleteNode(n)
			hist = append(hist, "DeleteNode(@"+n.Pointer()+"@)")
		}
	case 2:
		nodes := doc.Nodes()
		cp := make(gedcom.Nodes, len(nodes))
		copy(cp, nodes)
		if len(cp) > 3 { // move one record
			i, j := 1+r.Intn(len(cp)-2), 1+r.Intn(len(cp)-2)
			cp[i], cp[j] = cp[j], cp[i]
		}
		doc.SetNodes(cp)
		hist = append(hist, "SetNodes(reordered)")
	}
	ptr := "N" + tag
	added := c10AddPerson(r, doc, ptr, "N"+tag)
	hist = append(hist, "AddIndividual(@"+ptr+"@)")
	if r.Chance(1, 3) {
		// a new family around the new person: an existing unlinked person as partner
		var partner *gedcom.IndividualNode
		for _, n := range c10Unlinked(doc) {
			if i, ok := n.(*gedcom.IndividualNode); ok && i != added {
				partner = i
				break
			}
		}
		fam := doc.AddFamilyWithHusbandAndWife("FN"+tag, added, partner)
		hist = append(hist, "AddFamilyWithHusbandAndWife(@FN"+tag+"@)")
		if r.Bool() {
			kid := c10AddPerson(r, doc, ptr+"c", "N"+tag+"c")
			fam.AddChild(kid)
			hist = append(hist, "AddIndividual(@"+ptr+"c@), AddChild")
		}
	}
	if r.Chance(2, 3) {
		// records attached through the generic AddNode, after everything above has used the document
		if r.Chance(1, 3) {
			if rd := c10Read(r, doc); rd != "" {
				hist = append(hist, rd)
			}
		}
		hist = append(hist, c10AddThroughAddNode(r, doc, tag))
	}
	return strings.Join(hist, ", ")
}

// c10Remark: an independently kept copy of a document, as text: every individual gets one fresh
// marker, a few unlinked people are dropped and some get an occupation.
func c10Remark(r *Rand, doc *gedcom.Document, prefix string) string {
	var sb strings.Builder
	k := 0
	skip := false
	unlinked := map[string]bool{}
	for _, n := range c10Unlinked(doc) {
		unlinked[n.Pointer()] = true
	}
	for _, line := range strings.Split(doc.String(), "\n") {
		if line == "" {
			continue
		}
		if strings.HasPrefix(line, "0 ") {
			skip = false
			if strings.HasSuffix(line, " INDI") {
				ptr := strings.Trim(strings.Fields(line)[1], "@")
				if unlinked[ptr] && r.Chance(1, 6) {
					skip = true
					continue
				}
				k++
				sb.WriteString(line + "\n")
				sb.WriteString("1 _MARK " + prefix + strconv.Itoa(k) + "\n")
				if r.Chance(1, 5) {
					sb.WriteString("1 OCCU " + r.Pick(c10Occu) + " " + prefix + "\n")
				}
				continue
			}
		}
		if skip || strings.HasPrefix(line, "1 _MARK ") {
			continue
		}
		sb.WriteString(line + "\n")
	}
	return sb.String()
}

var c10JobsPool = []int{0, 1, 2, 3, 4, 5, 8, 16}

// c10Jobs adds a Jobs option value to a library merge (the query function has no options).
func c10Jobs(via string, k int) string {
	if via != "library" {
		return via
	}
	if j := c10JobsPool[k%len(c10JobsPool)]; j != 0 {
		return "library-jobs=" + strconv.Itoa(j)
	}
	return via
}

func c10Opts(k int) (via string, minSim float64) {
	via, minSim = c10Opts0(k)
	return c10Jobs(via, k/6), minSim
}

func c10Opts0(k int) (via string, minSim float64) {
	switch k % 6 {
	case 1:
		return "query", 0
	case 2:
		return "library", 0.95
	case 3:
		return "library", 0.4
	case 4:
		return "library", -1 // PreferPointerAbove = 0
	}
	return "library", 0
}

// c10UIDPair: a world in which some people have a _UID and a namesake; on the right the two have
// swapped pointers.
func c10UIDPair(r *Rand) (l, rt *c10ADoc) {
	w := c10NewWorld(r, 8, 1)
	n0 := len(w.P)
	if n0 == 0 {
		w.P = append(w.P, c10NewPerson(r, 1))
		n0 = 1
	}
	swap := map[int]int{}
	m := 1 + r.Intn(2)
	for t := 0; t < m && t < n0; t++ {
		i := r.Intn(n0)
		if _, done := swap[i]; done {
			continue
		}
		w.P[i].UID = fmt.Sprintf("%032X", 0xABCDEF00+w.P[i].Key)
		ns := w.P[i] // the namesake: same name, born within two years, another person
		ns.Key = 700 + t
		ns.UID = ""
		ns.BY += r.Intn(5) - 2
		ns.BM, ns.BD = 1+r.Intn(12), 1+r.Intn(28)
		if ns.DY != 0 {
			ns.DY += r.Intn(5) - 2
		}
		ns.Place = r.Pick(c10Place)
		w.P = append(w.P, ns)
		j := len(w.P) - 1
		swap[i], swap[j] = j, i
	}
	np := len(w.P)
	mk := func(side string) *c10View {
		v := &c10View{Side: side, IPtr: map[int]string{}, Edit: map[int]c10Person{}, Detail: map[int]uint32{}}
		for i := 0; i < np; i++ {
			v.People = append(v.People, i)
			v.IPtr[i] = "I" + strconv.Itoa(i+1)
		}
		v.FPtr = c10AllFams(w, "F", nil)
		return v
	}
	lv, rv := mk("L"), mk("R")
	for i, j := range swap {
		rv.IPtr[i] = "I" + strconv.Itoa(j+1)
	}
	// some other people are dropped on the right, records shuffled
	var keep []int
	for _, i := range rv.People {
		if _, s := swap[i]; s || !r.Chance(1, 8) {
			keep = append(keep, i)
		}
	}
	rv.People = keep
	l, rt = c10Render(w, lv), c10Render(w, rv)
	if r.Bool() {
		rv.Shuffle = r.Perm(len(rt.Indis) + len(rt.Fams))
		rt = c10Render(w, rv)
	}
	return
}

// c10PerfectPair: both parents and their children fully documented and identical on both sides;
// the copy edits non-vital facts only.
func c10PerfectPair(r *Rand) (l, rt *c10ADoc) {
	w := &c10World{}
	full := func(key int, sex string, by int) c10Person {
		p := c10NewPerson(r, key)
		p.Sex, p.BY = sex, by
		p.DY = by + 40 + r.Intn(40)
		return p
	}
	nf := 1 + r.Intn(2)
	for f := 0; f < nf; f++ {
		base := len(w.P)
		by := 1780 + r.Intn(60)
		w.P = append(w.P, full(base+1, "M", by), full(base+2, "F", by+r.Intn(6)))
		fam := c10Family{Husb: base, Wife: base + 1, MarrYear: by + 22}
		for k := 0; k < 1+r.Intn(4); k++ {
			c := full(len(w.P)+1, r.Pick([]string{"M", "F"}), by+23+2*k)
			c.Surn = w.P[base].Surn
			w.P = append(w.P, c)
			fam.Chil = append(fam.Chil, len(w.P)-1)
		}
		w.F = append(w.F, fam)
	}
	np := len(w.P)
	mk := func(side, ip, fp string) *c10View {
		v := &c10View{Side: side, IPtr: map[int]string{}, Edit: map[int]c10Person{}, Detail: map[int]uint32{}}
		for i := 0; i < np; i++ {
			v.People = append(v.People, i)
			v.IPtr[i] = ip + strconv.Itoa(i+1)
		}
		v.FPtr = c10AllFams(w, fp, nil)
		return v
	}
	lv := mk("L", "I", "F")
	rv := mk("R", "I", "F")
	if r.Chance(1, 3) {
		rv = mk("R", "P", "G")
	}
	for i := 0; i < np; i++ {
		if r.Chance(2, 3) {
			p := w.P[i]
			if r.Bool() {
				p.Occu = r.Pick(c10Occu) + " (later)"
			}
			if r.Bool() {
				p.Place = r.Pick(c10Place) // birth / death places, the note and the source title
			}
			rv.Edit[i] = p
		}
	}
	return c10Render(w, lv), c10Render(w, rv)
}

func c10Wave2(c *Ctx, k int) {
	r := c.R
	via, minSim := c10Opts(k)
	switch k % 4 {
	case 0: // an input edited through the API
		shape := []string{"copy-samepointers", "copy-renumbered", "disjoint"}[k/4%3]
		l, rt, _ := c10Pair(r, shape, 10)
		ld, err1 := gedcom.NewDocumentFromString(l.Text)
		rd, err2 := gedcom.NewDocumentFromString(rt.Text)
		if err1 != nil || err2 != nil {
			return
		}
		var hist string
		if k/4%2 == 0 {
			hist = "left: " + c10APIEdit(r, ld, "1")
		} else {
			hist = "right: " + c10APIEdit(r, rd, "1")
		}
		c10CountHistory(c, hist)
		c10RunDocs(c, ld, rd, c10Describe(ld), c10Describe(rd), "api-edit", via, minSim, hist)
	case 1: // a chain of merges
		l, rt, _ := c10Pair(r, []string{"copy-samepointers", "copy-renumbered", "copy-shifted"}[k/4%3], 8)
		ld, err1 := gedcom.NewDocumentFromString(l.Text)
		rd, err2 := gedcom.NewDocumentFromString(rt.Text)
		if err1 != nil || err2 != nil {
			return
		}
		cur := c10RunDocs(c, ld, rd, l, rt, "merge-chain-1", via, minSim, "")
		steps := 1 + k/4%2
		for s := 1; cur != nil && s <= steps; s++ {
			tag := strconv.Itoa(s + 1)
			// the independent copy is taken first, then the merge result is edited through the API
			other := c10Remark(r, cur, []string{"S", "T"}[s-1])
			hist := fmt.Sprintf("left = result of merge %d, then %s; right = a re-marked copy of that result", s, c10APIEdit(r, cur, tag))
			c10CountHistory(c, hist)
			od, err := gedcom.NewDocumentFromString(other)
			if err != nil {
				c.Oracle("", "a re-marked copy of a merge result does not decode", map[string]interface{}{"text": other}, err.Error(), "decodes")
				return
			}
			cur = c10RunDocs(c, cur, od, c10Describe(cur), c10Describe(od), "merge-chain-"+tag, via, minSim, hist)
		}
	case 2:
		l, rt := c10UIDPair(r)
		c10Run(c, l, rt, "uid-namesake", via, minSim)
	default:
		l, rt := c10PerfectPair(r)
		c10Run(c, l, rt, "perfect-copy", via, minSim)
	}
}

// ---------------------------------------------------------------- several unique identifiers

func c10UUID(n int) string { return fmt.Sprintf("%032X", 0x5EED0000+n) }

func c10FSID(n int) string {
	const a = "BCDFGHJKLMNPQRSTVWXYZ123456789"
	return fmt.Sprintf("K%c%c%c-%c%c%c", a[n%30], a[n/30%30], a[(n+7)%30], a[(n+11)%30], a[n/7%30], a[(n+3)%30])
}

// c10MultiUIDPair: individuals that carry two or three unique identifiers (_UID several times, _UID
// with _FSFTID / _FID) which lead to different individuals of the other document, to one and the
// same individual, or to nobody; the carrier is on the left or on the right; the people the
// identifiers lead to may carry them on the carrier's side too. Whatever is matched, every input
// individual has to end up in exactly one output individual.
func c10MultiUIDPair(r *Rand) (l, rt *c10ADoc, how string) {
	w := c10NewWorld(r, 8, 1)
	for len(w.P) < 4 {
		w.P = append(w.P, c10NewPerson(r, 300+len(w.P)))
	}
	np := len(w.P)
	rp := "I"
	if r.Chance(1, 2) {
		rp = "P" // no pointer in common: only the identifiers and the similarity can match
	}
	mk := func(side, ip string) *c10View {
		v := &c10View{Side: side, IPtr: map[int]string{}, Edit: map[int]c10Person{}, Detail: map[int]uint32{}}
		for i := 0; i < np; i++ {
			v.People = append(v.People, i)
			v.IPtr[i] = ip + strconv.Itoa(i+1)
		}
		v.FPtr = c10AllFams(w, map[string]string{"I": "F", "P": "G"}[ip], nil)
		return v
	}
	lv, rv := mk("L", "I"), mk("R", rp)
	addID := func(v *c10View, i int, id string) {
		p := v.person(w, i)
		p.IDs = append(append([]string{}, p.IDs...), id)
		v.Edit[i] = p
	}
	idOf := func(kind, n int) string {
		switch kind {
		case 0:
			return "_UID " + c10UUID(n)
		case 1:
			return "_FSFTID " + c10FSID(n)
		}
		return "_FID " + c10FSID(n+400)
	}
	var hows []string
	m := 1 + r.Intn(2)
	for t := 0; t < m; t++ {
		cv, ov := lv, rv // the carrier's document and the other one
		dir := "left"
		if r.Chance(1, 3) {
			cv, ov, dir = rv, lv, "right"
		}
		a := r.Intn(np)
		nIDs := 2 + r.Intn(2)
		mode := r.Intn(4)
		hows = append(hows, fmt.Sprintf("%s-carrier:%s", dir, []string{"different-people", "same-person", "nobody", "mixed"}[mode]))
		for j := 0; j < nIDs; j++ {
			kind := r.Intn(3)
			if j == 0 && r.Chance(2, 3) {
				kind = 0
			}
			n := 1000*t + 10*a + j
			id := idOf(kind, n)
			addID(cv, a, id)
			target := -1
			switch mode {
			case 0: // every identifier leads to another individual
				target = (a + j) % np
			case 1: // all lead to the carrier's own counterpart
				target = a
			case 2: // nobody carries them
			default:
				if r.Chance(2, 3) {
					target = r.Intn(np)
				}
			}
			if target >= 0 {
				addID(ov, target, id)
				if target != a && r.Chance(1, 4) {
					addID(cv, target, id) // the same identifier twice in the carrier's document
				}
			}
		}
	}
	// a few people are missing on either side
	drop := func(v *c10View) {
		var keep []int
		for _, i := range v.People {
			if _, edited := v.Edit[i]; edited || !r.Chance(1, 8) {
				keep = append(keep, i)
			}
		}
		v.People = keep
	}
	drop(lv)
	drop(rv)
	l, rt = c10Render(w, lv), c10Render(w, rv)
	if r.Bool() {
		rv.Shuffle = r.Perm(len(rt.Indis) + len(rt.Fams))
		rt = c10Render(w, rv)
	}
	if r.Chance(1, 3) {
		lv.Shuffle = r.Perm(len(l.Indis) + len(l.Fams))
		l = c10Render(w, lv)
	}
	return l, rt, strings.Join(hows, "+")
}

// ---------------------------------------------------------------- large merges under a watchdog

// c10LargeDoc: n individuals that are nothing but a pointer, an identifier and a marker.
func c10LargeDoc(n int, side string, uid bool) string {
	var sb strings.Builder
	sb.WriteString("0 HEAD\n1 CHAR UTF-8\n")
	for i := 1; i <= n; i++ {
		fmt.Fprintf(&sb, "0 @I%d@ INDI\n", i)
		if uid {
			fmt.Fprintf(&sb, "1 _UID %032X\n", 0xAB000000+i)
		}
		fmt.Fprintf(&sb, "1 _MARK %s%d\n", side, i)
	}
	sb.WriteString("0 TRLR\n")
	return sb.String()
}

const c10LargeLimit = 25 * time.Second // the unchanged tree needs 0.6 s (n = 1000) to 3 s (n = 4100, q)

// c10Large merges a document of n tiny individuals with its re-marked copy, all of them matched for
// certain (by _UID under the default options and through q; by pointer with PreferPointerAbove = 0),
// for sizes around the capacities of the channels between the stages of Compare. The merge has to
// return, and every individual of either input has to be in exactly one output individual.
func c10Large(c *Ctx) {
	sizes := []int{999, 1000, 1001, 2000, 2001, 2002, 2100}
	variants := []string{"uid/library", "pointer/library", "uid/query", "uid/library-jobs=4", "pointer/library-jobs=2", "uid/library-jobs=16"}
	type job struct {
		n       int
		variant string
	}
	var jobs []job
	if c.Quick() { // quick: every size once, the variants in rotation (the start depends on the seed)
		off := int(c.Seed % int64(len(variants)))
		if off < 0 {
			off = -off
		}
		for i, n := range sizes {
			jobs = append(jobs, job{n, variants[(off+i)%len(variants)]})
		}
	} else {
		for _, n := range append(sizes, 4100) {
			for _, v := range variants {
				jobs = append(jobs, job{n, v})
			}
		}
	}
	for _, j := range jobs {
		if !c10LargeOne(c, j.n, j.variant) {
			return // the goroutines of a merge that hangs stay behind: no further large merges
		}
	}
}

func c10LargeOne(c *Ctx, n int, variant string) (returned bool) {
	parts := strings.SplitN(variant, "/", 2)
	uid, via := parts[0] == "uid", parts[1]
	minSim := 0.0
	if !uid {
		minSim = -1 // PreferPointerAbove = 0: the shared pointer decides
	}
	lt, rtxt := c10LargeDoc(n, "L", uid), c10LargeDoc(n, "R", uid)
	input := map[string]interface{}{"shape": "large-copy", "n": n, "matched_by": parts[0], "via": via, "min_similarity": minSim,
		"left": "n records of the form: " + strings.Join(strings.Split(c10LargeDoc(1, "L", uid), "\n")[2:5], " / ") + " (I1..In, L1..Ln)",
		"right": "the same records with markers R1..Rn"}
	ld, err1 := gedcom.NewDocumentFromString(lt)
	rd, err2 := gedcom.NewDocumentFromString(rtxt)
	if err1 != nil || err2 != nil {
		c.Oracle("", "a generated document does not decode", input, fmt.Sprint(err1, err2), "decodes")
		return true
	}
	type res struct {
		out *gedcom.Document
		err error
	}
	done := make(chan res, 1)
	t0 := time.Now()
	go func() {
		out, err := c10Merge(ld, rd, via, minSim)
		done <- res{out, err}
	}()
	var out *gedcom.Document
	select {
	case x := <-done:
		if x.err != nil {
			c.Oracle("", "the merge of two documents fails", input, x.err.Error(), "a merged document")
			return true
		}
		out = x.out
	case <-time.After(c10LargeLimit):
		c.Oracle("", "the merge of two documents does not return", input,
			fmt.Sprintf("no result after %v", c10LargeLimit), "a merged document within seconds (the same merge of 1000 people takes well under a second)")
		return false
	}
	c.Eval()
	c.Count("large-merge")
	c.Count(fmt.Sprintf("large-merge n=%d", n))
	c.Count("large-merge " + variant)
	if el := time.Since(t0); el > 5*time.Second {
		c.Count("large-merge slower than 5 s")
	}
	// accounting by markers; pointers identify one record
	seenL, seenR := make([]int, n+1), make([]int, n+1)
	ptrs := map[string]int{}
	var bad []string
	note := func(s string) {
		if len(bad) < 8 {
			bad = append(bad, s)
		}
	}
	nOut := 0
	for _, ind := range out.Individuals() {
		nOut++
		ptrs[ind.Pointer()]++
		nl, nr := 0, 0
		for _, k := range ind.Nodes() {
			if k.Tag().Tag() != "_MARK" {
				continue
			}
			v := k.Value()
			i, err := strconv.Atoi(v[1:])
			if err != nil || i < 1 || i > n {
				note("unknown marker " + v)
				continue
			}
			if v[0] == 'L' {
				seenL[i]++
				nl++
			} else {
				seenR[i]++
				nr++
			}
		}
		if nl > 1 || nr > 1 {
			note(fmt.Sprintf("output individual %s holds %d left and %d right individuals", ind.Pointer(), nl, nr))
		}
	}
	for i := 1; i <= n; i++ {
		if seenL[i] != 1 {
			note(fmt.Sprintf("left individual L%d (@I%d@) is represented by %d output individuals", i, i, seenL[i]))
		}
		if seenR[i] != 1 {
			note(fmt.Sprintf("right individual R%d (@I%d@) is represented by %d output individuals", i, i, seenR[i]))
		}
	}
	for p, k := range ptrs {
		if k != 1 {
			note(fmt.Sprintf("pointer %s names %d output individuals", p, k))
		}
	}
	if nOut != n {
		note(fmt.Sprintf("%d output individuals for %d certain pairs", nOut, n))
	}
	if len(bad) > 0 {
		sort.Strings(bad)
		c.Oracle("", "an individual is dropped, duplicated or merged twice", input, strings.Join(bad, "; "),
			"every individual of either input in exactly one output individual, every pair merged into one record")
	}
	return true
}
