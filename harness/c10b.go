package main

// C10, second wave of shapes (see c10.go for the oracles, which are shared):
//
//   api-edit      an input that was edited through the document API before the merge: DeleteNode or
//                 SetNodes, then AddIndividual (and now and then AddFamilyWithHusbandAndWife /
//                 AddChild around the new person);
//   merge-chain   the result of a merge gets a person added through the API and is merged again
//                 with an independently edited copy of itself (2 or 3 merges), every merge under all
//                 oracles, so the accounting composes along the chain (an input individual of a later
//                 merge carries the markers of everybody it already stands for);
//   uid-namesake  a copy in which a person with a _UID and a namesake have swapped pointers: the
//                 _UID pairs left @I2@ with right @I1@ while right @I1@ also shares its pointer with
//                 the left namesake;
//   perfect-copy  fully documented parents with children (names, births, deaths identical on both
//                 sides: weighted similarity 1.0 for the children) where the copy adds or changes
//                 only non-vital facts (occupation, places).

import (
	"fmt"
	"sort"
	"strconv"
	"strings"

	"github.com/elliotchance/gedcom/v39"
)

// c10Describe reads the abstract description of a document off the document itself (for inputs
// that were not rendered from a world: API edits, merge results).
func c10Describe(doc *gedcom.Document) *c10ADoc {
	d := &c10ADoc{Text: doc.String()}
	for _, n := range doc.Nodes() {
		switch n.Tag().Tag() {
		case "INDI":
			paths, markers, refs := c10FactPaths(n)
			sort.Strings(markers)
			d.Indis = append(d.Indis, c10AIndi{Ptr: n.Pointer(), Marker: strings.Join(markers, " "), Facts: paths, Refs: refs})
		case "FAM":
			f := c10AFam{Ptr: n.Pointer()}
			for _, k := range n.Nodes() {
				switch t := k.Tag().Tag(); t {
				case "HUSB", "WIFE", "CHIL":
					f.Refs = append(f.Refs, [2]string{t, strings.Trim(k.Value(), "@")})
				}
			}
			d.Fams = append(d.Fams, f)
		}
	}
	return d
}

func c10N(tag, value string, kids ...gedcom.Node) gedcom.Node {
	return gedcom.NewNode(gedcom.TagFromString(tag), value, "", kids...)
}

// c10AddPerson adds a new individual through the API and returns it.
func c10AddPerson(r *Rand, doc *gedcom.Document, ptr, marker string) *gedcom.IndividualNode {
	p := c10NewPerson(r, 900)
	return doc.AddIndividual(ptr,
		c10N("NAME", fmt.Sprintf("%s /%s/", p.Given, p.Surn)),
		c10N("SEX", p.Sex),
		c10N("BIRT", "", c10N("DATE", fmt.Sprintf("%d %s %d", p.BD, c10Mon[p.BM-1], p.BY)), c10N("PLAC", p.Place)),
		c10N("_MARK", marker))
}

func c10Unlinked(doc *gedcom.Document) []gedcom.Node {
	var out []gedcom.Node
	for _, n := range doc.Nodes() {
		if n.Tag().Tag() != "INDI" {
			continue
		}
		linked := false
		for _, k := range n.Nodes() {
			if t := k.Tag().Tag(); t == "FAMS" || t == "FAMC" {
				linked = true
			}
		}
		if !linked {
			out = append(out, n)
		}
	}
	return out
}

// c10APIEdit edits a decoded document through the API and says what it did.
func c10APIEdit(r *Rand, doc *gedcom.Document, tag string) string {
	var hist []string
	switch r.Intn(4) {
	case 0, 1:
		if un := c10Unlinked(doc); len(un) > 0 {
			n := un[r.Intn(len(un))]
			doc.DeleteNode(n)
			hist = append(hist, "DeleteNode(@"+n.Pointer()+"@)")
		}
	case 2:
		nodes := doc.Nodes()
		cp := make(gedcom.Nodes, len(nodes))
		copy(cp, nodes)
		if len(cp) > 3 { // move one record
			i, j := 1+r.Intn(len(cp)-2), 1+r.Intn(len(cp)-2)
			cp[i], cp[j] = cp[j], cp[i]
		}
		doc.SetNodes(cp)
		hist = append(hist, "SetNodes(reordered)")
	}
	ptr := "N" + tag
	added := c10AddPerson(r, doc, ptr, "N"+tag)
	hist = append(hist, "AddIndividual(@"+ptr+"@)")
	if r.Chance(1, 3) {
		// a new family around the new person: an existing unlinked person as partner
		var partner *gedcom.IndividualNode
		for _, n := range c10Unlinked(doc) {
			if i, ok := n.(*gedcom.IndividualNode); ok && i != added {
				partner = i
				break
			}
		}
		fam := doc.AddFamilyWithHusbandAndWife("FN"+tag, added, partner)
		hist = append(hist, "AddFamilyWithHusbandAndWife(@FN"+tag+"@)")
		if r.Bool() {
			kid := c10AddPerson(r, doc, ptr+"c", "N"+tag+"c")
			fam.AddChild(kid)
			hist = append(hist, "AddIndividual(@"+ptr+"c@), AddChild")
		}
	}
	return strings.Join(hist, ", ")
}

// c10Remark: an independently kept copy of a document, as text: every individual gets one fresh
// marker, a few unlinked people are dropped and some get an occupation.
func c10Remark(r *Rand, doc *gedcom.Document, prefix string) string {
	var sb strings.Builder
	k := 0
	skip := false
	unlinked := map[string]bool{}
	for _, n := range c10Unlinked(doc) {
		unlinked[n.Pointer()] = true
	}
	for _, line := range strings.Split(doc.String(), "\n") {
		if line == "" {
			continue
		}
		if strings.HasPrefix(line, "0 ") {
			skip = false
			if strings.HasSuffix(line, " INDI") {
				ptr := strings.Trim(strings.Fields(line)[1], "@")
				if unlinked[ptr] && r.Chance(1, 6) {
					skip = true
					continue
				}
				k++
				sb.WriteString(line + "\n")
				sb.WriteString("1 _MARK " + prefix + strconv.Itoa(k) + "\n")
				if r.Chance(1, 5) {
					sb.WriteString("1 OCCU " + r.Pick(c10Occu) + " " + prefix + "\n")
				}
				continue
			}
		}
		if skip || strings.HasPrefix(line, "1 _MARK ") {
			continue
		}
		sb.WriteString(line + "\n")
	}
	return sb.String()
}

var c10JobsPool = []int{0, 1, 2, 3, 4, 5, 8, 16}

// c10Jobs adds a Jobs option value to a library merge (the query function has no options).
func c10Jobs(via string, k int) string {
	if via != "library" {
		return via
	}
	if j := c10JobsPool[k%len(c10JobsPool)]; j != 0 {
		return "library-jobs=" + strconv.Itoa(j)
	}
	return via
}

func c10Opts(k int) (via string, minSim float64) {
	via, minSim = c10Opts0(k)
	return c10Jobs(via, k/6), minSim
}

func c10Opts0(k int) (via string, minSim float64) {
	switch k % 6 {
	case 1:
		return "query", 0
	case 2:
		return "library", 0.95
	case 3:
		return "library", 0.4
	case 4:
		return "library", -1 // PreferPointerAbove = 0
	}
	return "library", 0
}

// c10UIDPair: a world in which some people have a _UID and a namesake; on the right the two have
// swapped pointers.
func c10UIDPair(r *Rand) (l, rt *c10ADoc) {
	w := c10NewWorld(r, 8, 1)
	n0 := len(w.P)
	if n0 == 0 {
		w.P = append(w.P, c10NewPerson(r, 1))
		n0 = 1
	}
	swap := map[int]int{}
	m := 1 + r.Intn(2)
	for t := 0; t < m && t < n0; t++ {
		i := r.Intn(n0)
		if _, done := swap[i]; done {
			continue
		}
		w.P[i].UID = fmt.Sprintf("%032X", 0xABCDEF00+w.P[i].Key)
		ns := w.P[i] // the namesake: same name, born within two years, another person
		ns.Key = 700 + t
		ns.UID = ""
		ns.BY += r.Intn(5) - 2
		ns.BM, ns.BD = 1+r.Intn(12), 1+r.Intn(28)
		if ns.DY != 0 {
			ns.DY += r.Intn(5) - 2
		}
		ns.Place = r.Pick(c10Place)
		w.P = append(w.P, ns)
		j := len(w.P) - 1
		swap[i], swap[j] = j, i
	}
	np := len(w.P)
	mk := func(side string) *c10View {
		v := &c10View{Side: side, IPtr: map[int]string{}, Edit: map[int]c10Person{}, Detail: map[int]uint32{}}
		for i := 0; i < np; i++ {
			v.People = append(v.People, i)
			v.IPtr[i] = "I" + strconv.Itoa(i+1)
		}
		v.FPtr = c10AllFams(w, "F", nil)
		return v
	}
	lv, rv := mk("L"), mk("R")
	for i, j := range swap {
		rv.IPtr[i] = "I" + strconv.Itoa(j+1)
	}
	// some other people are dropped on the right, records shuffled
	var keep []int
	for _, i := range rv.People {
		if _, s := swap[i]; s || !r.Chance(1, 8) {
			keep = append(keep, i)
		}
	}
	rv.People = keep
	l, rt = c10Render(w, lv), c10Render(w, rv)
	if r.Bool() {
		rv.Shuffle = r.Perm(len(rt.Indis) + len(rt.Fams))
		rt = c10Render(w, rv)
	}
	return
}

// c10PerfectPair: both parents and their children fully documented and identical on both sides;
// the copy edits non-vital facts only.
func c10PerfectPair(r *Rand) (l, rt *c10ADoc) {
	w := &c10World{}
	full := func(key int, sex string, by int) c10Person {
		p := c10NewPerson(r, key)
		p.Sex, p.BY = sex, by
		p.DY = by + 40 + r.Intn(40)
		return p
	}
	nf := 1 + r.Intn(2)
	for f := 0; f < nf; f++ {
		base := len(w.P)
		by := 1780 + r.Intn(60)
		w.P = append(w.P, full(base+1, "M", by), full(base+2, "F", by+r.Intn(6)))
		fam := c10Family{Husb: base, Wife: base + 1, MarrYear: by + 22}
		for k := 0; k < 1+r.Intn(4); k++ {
			c := full(len(w.P)+1, r.Pick([]string{"M", "F"}), by+23+2*k)
			c.Surn = w.P[base].Surn
			w.P = append(w.P, c)
			fam.Chil = append(fam.Chil, len(w.P)-1)
		}
		w.F = append(w.F, fam)
	}
	np := len(w.P)
	mk := func(side, ip, fp string) *c10View {
		v := &c10View{Side: side, IPtr: map[int]string{}, Edit: map[int]c10Person{}, Detail: map[int]uint32{}}
		for i := 0; i < np; i++ {
			v.People = append(v.People, i)
			v.IPtr[i] = ip + strconv.Itoa(i+1)
		}
		v.FPtr = c10AllFams(w, fp, nil)
		return v
	}
	lv := mk("L", "I", "F")
	rv := mk("R", "I", "F")
	if r.Chance(1, 3) {
		rv = mk("R", "P", "G")
	}
	for i := 0; i < np; i++ {
		if r.Chance(2, 3) {
			p := w.P[i]
			if r.Bool() {
				p.Occu = r.Pick(c10Occu) + " (later)"
			}
			if r.Bool() {
				p.Place = r.Pick(c10Place) // birth / death places, the note and the source title
			}
			rv.Edit[i] = p
		}
	}
	return c10Render(w, lv), c10Render(w, rv)
}

func c10Wave2(c *Ctx, k int) {
	r := c.R
	via, minSim := c10Opts(k)
	switch k % 4 {
	case 0: // an input edited through the API
		shape := []string{"copy-samepointers", "copy-renumbered", "disjoint"}[k/4%3]
		l, rt, _ := c10Pair(r, shape, 10)
		ld, err1 := gedcom.NewDocumentFromString(l.Text)
		rd, err2 := gedcom.NewDocumentFromString(rt.Text)
		if err1 != nil || err2 != nil {
			return
		}
		var hist string
		if k/4%2 == 0 {
			hist = "left: " + c10APIEdit(r, ld, "1")
		} else {
			hist = "right: " + c10APIEdit(r, rd, "1")
		}
		c10RunDocs(c, ld, rd, c10Describe(ld), c10Describe(rd), "api-edit", via, minSim, hist)
	case 1: // a chain of merges
		l, rt, _ := c10Pair(r, []string{"copy-samepointers", "copy-renumbered", "copy-shifted"}[k/4%3], 8)
		ld, err1 := gedcom.NewDocumentFromString(l.Text)
		rd, err2 := gedcom.NewDocumentFromString(rt.Text)
		if err1 != nil || err2 != nil {
			return
		}
		cur := c10RunDocs(c, ld, rd, l, rt, "merge-chain-1", via, minSim, "")
		steps := 1 + k/4%2
		for s := 1; cur != nil && s <= steps; s++ {
			tag := strconv.Itoa(s + 1)
			// the independent copy is taken first, then the merge result is edited through the API
			other := c10Remark(r, cur, []string{"S", "T"}[s-1])
			hist := fmt.Sprintf("left = result of merge %d, then %s; right = a re-marked copy of that result", s, c10APIEdit(r, cur, tag))
			od, err := gedcom.NewDocumentFromString(other)
			if err != nil {
				c.Oracle("", "a re-marked copy of a merge result does not decode", map[string]interface{}{"text": other}, err.Error(), "decodes")
				return
			}
			cur = c10RunDocs(c, cur, od, c10Describe(cur), c10Describe(od), "merge-chain-"+tag, via, minSim, hist)
		}
	case 2:
		l, rt := c10UIDPair(r)
		c10Run(c, l, rt, "uid-namesake", via, minSim)
	default:
		l, rt := c10PerfectPair(r)
		c10Run(c, l, rt, "perfect-copy", via, minSim)
	}
}
