package main

// Source translator for the naming decisions of the publisher (C19): the go/ast of
//   html/util.go                      sourceKey, isFixedPageKey, getUniqueKey
//   html/individual_index_header.go   indexLetterForSurname
// is translated into terms of the Lean types of Gedcom/Model/PublishSrc.lean (byte conditions,
// Sprintf formats with the shape of their arguments, the `continue` conditions of the probing loop
// in source order, the page-name calls a key is compared with).  The translator never guesses: an
// expression or statement outside the fragment becomes `.bad` / `false`, which an obligation in
// Props/C19 rejects.  Props/C19 proves that interpreting the translated pieces gives the
// definitions of Model/PublishNames.lean for all inputs.

import (
	"fmt"
	"go/ast"
	"go/parser"
	"go/token"
	"path/filepath"
	"strconv"
	"strings"
)

func c19srcFuncs(rel string) map[string]*ast.FuncDecl {
	out := map[string]*ast.FuncDecl{}
	fset := token.NewFileSet()
	f, err := parser.ParseFile(fset, filepath.Join(c19RepoDir(), rel), nil, 0)
	if err != nil {
		return out
	}
	for _, d := range f.Decls {
		if fd, ok := d.(*ast.FuncDecl); ok && fd.Body != nil && fd.Recv == nil {
			out[fd.Name.Name] = fd
		}
	}
	return out
}

func c19srcIdent(e ast.Expr, name string) bool {
	id, ok := e.(*ast.Ident)
	return ok && id.Name == name
}

// c19srcChar is the value of a character or integer literal.
func c19srcChar(e ast.Expr) (int, bool) {
	if p, ok := e.(*ast.ParenExpr); ok {
		return c19srcChar(p.X)
	}
	lit, ok := e.(*ast.BasicLit)
	if !ok {
		return 0, false
	}
	switch lit.Kind {
	case token.CHAR:
		s, err := strconv.Unquote(lit.Value)
		if err != nil || len([]rune(s)) != 1 || []rune(s)[0] > 255 {
			return 0, false
		}
		return int([]rune(s)[0]), true
	case token.INT:
		n, err := strconv.Atoi(lit.Value)
		return n, err == nil && n >= 0 && n <= 255
	}
	return 0, false
}

func c19srcString(e ast.Expr) (string, bool) {
	lit, ok := e.(*ast.BasicLit)
	if !ok || lit.Kind != token.STRING {
		return "", false
	}
	s, err := strconv.Unquote(lit.Value)
	return s, err == nil
}

// c19srcBCond translates a condition over the byte `isByte` recognises (`c`, `name[0]`) and, when
// strVar != "", the emptiness test `strVar == ""`.
func c19srcBCond(e ast.Expr, isByte func(ast.Expr) bool, strVar string) string {
	switch e := e.(type) {
	case *ast.ParenExpr:
		return c19srcBCond(e.X, isByte, strVar)
	case *ast.BinaryExpr:
		if e.Op == token.LAND || e.Op == token.LOR {
			a, b := c19srcBCond(e.X, isByte, strVar), c19srcBCond(e.Y, isByte, strVar)
			if a == ".bad" || b == ".bad" {
				return ".bad"
			}
			if e.Op == token.LAND {
				return "(.and " + a + " " + b + ")"
			}
			return "(.or " + a + " " + b + ")"
		}
		if strVar != "" && e.Op == token.EQL && c19srcIdent(e.X, strVar) {
			if s, ok := c19srcString(e.Y); ok && s == "" {
				return ".empty"
			}
			return ".bad"
		}
		if !isByte(e.X) {
			return ".bad"
		}
		n, ok := c19srcChar(e.Y)
		if !ok {
			return ".bad"
		}
		switch e.Op {
		case token.GEQ:
			return fmt.Sprintf("(.ge %d)", n)
		case token.LEQ:
			return fmt.Sprintf("(.le %d)", n)
		case token.LSS:
			return fmt.Sprintf("(.lt %d)", n)
		case token.GTR:
			return fmt.Sprintf("(.gt %d)", n)
		case token.EQL:
			return fmt.Sprintf("(.eq %d)", n)
		}
	}
	return ".bad"
}

// c19srcFormat splits a Sprintf format into literal text and the verbs %s, %d, %02x.
func c19srcFormat(f string) []string {
	var parts []string
	lit := ""
	flush := func() {
		if lit != "" {
			parts = append(parts, "(.lit "+c19LeanBytes(lit)+")")
			lit = ""
		}
	}
	for i := 0; i < len(f); i++ {
		if f[i] != '%' {
			lit += string(f[i])
			continue
		}
		rest := f[i:]
		switch {
		case strings.HasPrefix(rest, "%s"):
			flush()
			parts = append(parts, ".str")
			i++
		case strings.HasPrefix(rest, "%d"):
			flush()
			parts = append(parts, ".dec")
			i++
		case strings.HasPrefix(rest, "%02x"):
			flush()
			parts = append(parts, ".hex02")
			i += 3
		default:
			flush()
			parts = append(parts, ".bad")
			return parts
		}
	}
	flush()
	return parts
}

// c19srcSprintf recognises fmt.Sprintf(<string literal>, args…) and translates format and arguments
// (byteVar: the byte variable, keyVar: the string variable, counter: the loop counter; "" = none).
func c19srcSprintf(e ast.Expr, byteVar, keyVar, counter string) (parts, args []string, ok bool) {
	call, isCall := e.(*ast.CallExpr)
	if !isCall || len(call.Args) < 1 {
		return nil, nil, false
	}
	sel, isSel := call.Fun.(*ast.SelectorExpr)
	if !isSel || !c19srcIdent(sel.X, "fmt") || sel.Sel.Name != "Sprintf" {
		return nil, nil, false
	}
	f, isStr := c19srcString(call.Args[0])
	if !isStr {
		return nil, nil, false
	}
	parts = c19srcFormat(f)
	for _, a := range call.Args[1:] {
		switch {
		case byteVar != "" && c19srcIdent(a, byteVar):
			args = append(args, ".byteVar")
		case keyVar != "" && c19srcIdent(a, keyVar):
			args = append(args, ".keyVar")
		case counter != "" && c19srcIdent(a, counter):
			args = append(args, ".counter")
		default:
			arg := ".bad"
			if ix, isIx := a.(*ast.IndexExpr); isIx && keyVar != "" && c19srcIdent(ix.X, keyVar) {
				if n, isN := c19srcChar(ix.Index); isN && n == 0 {
					arg = ".first"
				}
			}
			if sl, isSl := a.(*ast.SliceExpr); isSl && keyVar != "" && c19srcIdent(sl.X, keyVar) && sl.High == nil && sl.Max == nil && sl.Low != nil {
				if n, isN := c19srcChar(sl.Low); isN && n == 1 {
					arg = ".rest"
				}
			}
			args = append(args, arg)
		}
	}
	return parts, args, true
}

func c19srcList(xs []string) string { return "[" + strings.Join(xs, ", ") + "]" }

func c19srcReturns(s ast.Stmt, pred func(ast.Expr) bool) bool {
	r, ok := s.(*ast.ReturnStmt)
	return ok && len(r.Results) == 1 && pred(r.Results[0])
}

func c19srcOnly(b *ast.BlockStmt) ast.Stmt {
	if b == nil || len(b.List) != 1 {
		return nil
	}
	return b.List[0]
}

// ---- sourceKey

func c19srcSourceKey(fd *ast.FuncDecl) string {
	keep, other, otherArgs, fixed, fixedArgs := []string{".bad"}, []string{".bad"}, []string{}, []string{".bad"}, []string{}
	keepAppends, fixedGuard := false, false
	func() {
		if fd == nil || len(fd.Body.List) != 4 {
			return
		}
		// key := "" ; for … { c := pointer[i]; switch {…} } ; if isFixedPageKey(key) {…} ; return key
		loop, ok := fd.Body.List[1].(*ast.ForStmt)
		if !ok || len(loop.Body.List) != 2 {
			return
		}
		def, ok := loop.Body.List[0].(*ast.AssignStmt)
		if !ok || def.Tok != token.DEFINE || len(def.Lhs) != 1 || !c19srcIdent(def.Lhs[0], "c") {
			return
		}
		if ix, ok := def.Rhs[0].(*ast.IndexExpr); !ok || !c19srcIdent(ix.X, "pointer") {
			return
		}
		sw, ok := loop.Body.List[1].(*ast.SwitchStmt)
		if !ok || sw.Tag != nil || sw.Init != nil || len(sw.Body.List) != 2 {
			return
		}
		isC := func(e ast.Expr) bool { return c19srcIdent(e, "c") }
		appendTo := func(s ast.Stmt) ast.Expr { // key += <expr>
			as, ok := s.(*ast.AssignStmt)
			if !ok || as.Tok != token.ADD_ASSIGN || len(as.Lhs) != 1 || !c19srcIdent(as.Lhs[0], "key") {
				return nil
			}
			return as.Rhs[0]
		}
		for _, cl := range sw.Body.List {
			cc := cl.(*ast.CaseClause)
			rhs := appendTo(c19srcOnly(&ast.BlockStmt{List: cc.Body}))
			if cc.List == nil { // default
				if p, a, ok := c19srcSprintf(rhs, "c", "", ""); ok {
					other, otherArgs = p, a
				}
				continue
			}
			keep = nil
			for _, e := range cc.List {
				keep = append(keep, c19srcBCond(e, isC, ""))
			}
			if call, ok := rhs.(*ast.CallExpr); ok && c19srcIdent(call.Fun, "string") && len(call.Args) == 1 && isC(call.Args[0]) {
				keepAppends = true
			}
		}
		ifs, ok := fd.Body.List[2].(*ast.IfStmt)
		if ok && ifs.Init == nil && ifs.Else == nil {
			if call, ok := ifs.Cond.(*ast.CallExpr); ok && c19srcIdent(call.Fun, "isFixedPageKey") && len(call.Args) == 1 && c19srcIdent(call.Args[0], "key") {
				if as, ok := c19srcOnly(ifs.Body).(*ast.AssignStmt); ok && as.Tok == token.ASSIGN && len(as.Lhs) == 1 && c19srcIdent(as.Lhs[0], "key") {
					if p, a, ok := c19srcSprintf(as.Rhs[0], "", "key", ""); ok {
						fixed, fixedArgs, fixedGuard = p, a, true
					}
				}
			}
		}
		if !c19srcReturns(fd.Body.List[3], func(e ast.Expr) bool { return c19srcIdent(e, "key") }) {
			fixedGuard = false
		}
	}()
	return fmt.Sprintf("{ keep := %s, keepAppendsByte := %s, other := %s, otherArgs := %s,\n    fixedGuard := %s, fixed := %s, fixedArgs := %s }",
		c19srcList(keep), c19LeanBool(keepAppends), c19srcList(other), c19srcList(otherArgs), c19LeanBool(fixedGuard), c19srcList(fixed), c19srcList(fixedArgs))
}

// ---- isFixedPageKey

func c19srcPageCall(e ast.Expr, letterVar string) string {
	call, ok := e.(*ast.CallExpr)
	if !ok {
		return ".bad"
	}
	name, ok := call.Fun.(*ast.Ident)
	if !ok {
		return ".bad"
	}
	if len(call.Args) == 0 {
		switch name.Name {
		case "PagePlaces":
			return ".places"
		case "PageFamilies":
			return ".families"
		case "PageSurnames":
			return ".surnames"
		case "PageSources":
			return ".sources"
		case "PageStatistics":
			return ".statistics"
		}
		return ".bad"
	}
	if name.Name == "PageIndividuals" && len(call.Args) == 1 {
		if c19srcIdent(call.Args[0], "symbolLetter") {
			return ".individualsSymbol"
		}
		if letterVar != "" && c19srcIdent(call.Args[0], letterVar) {
			return "letter"
		}
	}
	return ".bad"
}

func c19srcFixed(fd *ast.FuncDecl) string {
	page, pageArgs, items := []string{".bad"}, []string{}, []string{}
	elseFalse := true
	isTrue := func(e ast.Expr) bool { return c19srcIdent(e, "true") }
	func() {
		if fd == nil || len(fd.Body.List) < 3 {
			items, elseFalse = []string{".bad"}, false
			return
		}
		if as, ok := fd.Body.List[0].(*ast.AssignStmt); ok && as.Tok == token.DEFINE && len(as.Lhs) == 1 && c19srcIdent(as.Lhs[0], "page") {
			if p, a, ok := c19srcSprintf(as.Rhs[0], "", "key", ""); ok {
				page, pageArgs = p, a
			}
		}
		last := len(fd.Body.List) - 1
		for _, st := range fd.Body.List[1:last] {
			switch st := st.(type) {
			case *ast.SwitchStmt:
				if st.Init != nil || !c19srcIdent(st.Tag, "page") {
					items = append(items, ".bad")
					continue
				}
				for _, cl := range st.Body.List {
					cc := cl.(*ast.CaseClause)
					if cc.List == nil || !c19srcReturns(c19srcOnly(&ast.BlockStmt{List: cc.Body}), isTrue) {
						items = append(items, ".bad")
						continue
					}
					for _, e := range cc.List {
						it := c19srcPageCall(e, "")
						if it == "letter" {
							it = ".bad"
						}
						items = append(items, it)
					}
				}
			case *ast.ForStmt:
				item := ".bad"
				func() {
					init, ok := st.Init.(*ast.AssignStmt)
					if !ok || init.Tok != token.DEFINE || len(init.Lhs) != 1 {
						return
					}
					v, ok := init.Lhs[0].(*ast.Ident)
					if !ok {
						return
					}
					lo, ok1 := c19srcChar(init.Rhs[0])
					cond, ok2 := st.Cond.(*ast.BinaryExpr)
					post, ok3 := st.Post.(*ast.IncDecStmt)
					if !ok1 || !ok2 || !ok3 || cond.Op != token.LEQ || !c19srcIdent(cond.X, v.Name) || post.Tok != token.INC || !c19srcIdent(post.X, v.Name) {
						return
					}
					hi, ok := c19srcChar(cond.Y)
					if !ok {
						return
					}
					ifs, ok := c19srcOnly(st.Body).(*ast.IfStmt)
					if !ok || ifs.Init != nil || ifs.Else != nil || !c19srcReturns(c19srcOnly(ifs.Body), isTrue) {
						return
					}
					cmp, ok := ifs.Cond.(*ast.BinaryExpr)
					if !ok || cmp.Op != token.EQL || !c19srcIdent(cmp.X, "page") || c19srcPageCall(cmp.Y, v.Name) != "letter" {
						return
					}
					item = fmt.Sprintf("(.individualsRange %d %d)", lo, hi)
				}()
				items = append(items, item)
			default:
				items = append(items, ".bad")
			}
		}
		elseFalse = c19srcReturns(fd.Body.List[last], func(e ast.Expr) bool { return c19srcIdent(e, "false") })
	}()
	return fmt.Sprintf("{ page := %s, pageArgs := %s,\n    items := %s, elseFalse := %s }", c19srcList(page), c19srcList(pageArgs), c19srcList(items), c19LeanBool(elseFalse))
}

// ---- getUniqueKey

func c19srcKCond(e ast.Expr) string {
	switch e := e.(type) {
	case *ast.ParenExpr:
		return c19srcKCond(e.X)
	case *ast.BinaryExpr:
		if e.Op == token.LOR {
			a, b := c19srcKCond(e.X), c19srcKCond(e.Y)
			if a == ".bad" || b == ".bad" {
				return ".bad"
			}
			return "(.or " + a + " " + b + ")"
		}
	case *ast.IndexExpr:
		if c19srcIdent(e.X, "reserved") && c19srcIdent(e.Index, "testString") {
			return ".reserved"
		}
	case *ast.CallExpr:
		if c19srcIdent(e.Fun, "isFixedPageKey") && len(e.Args) == 1 && c19srcIdent(e.Args[0], "testString") {
			return ".fixed"
		}
	}
	return ".bad"
}

func c19srcUniqueKey(fd *ast.FuncDecl) string {
	shape := false
	numbered, numberedArgs, skips := []string{".bad"}, []string{}, []string{}
	func() {
		if fd == nil || len(fd.Body.List) < 2 {
			return
		}
		// i := -1
		init, ok := fd.Body.List[0].(*ast.AssignStmt)
		if !ok || init.Tok != token.DEFINE || len(init.Lhs) != 1 || !c19srcIdent(init.Lhs[0], "i") {
			return
		}
		neg, ok := init.Rhs[0].(*ast.UnaryExpr)
		if !ok || neg.Op != token.SUB {
			return
		}
		if n, ok := c19srcChar(neg.X); !ok || n != 1 {
			return
		}
		loop, ok := fd.Body.List[1].(*ast.ForStmt)
		if !ok || loop.Init != nil || loop.Cond != nil || loop.Post != nil || len(loop.Body.List) < 4 {
			return
		}
		body := loop.Body.List
		// i += 1
		inc, ok := body[0].(*ast.AssignStmt)
		if !ok || inc.Tok != token.ADD_ASSIGN || !c19srcIdent(inc.Lhs[0], "i") {
			return
		}
		if n, ok := c19srcChar(inc.Rhs[0]); !ok || n != 1 {
			return
		}
		// testString := s
		ts, ok := body[1].(*ast.AssignStmt)
		if !ok || ts.Tok != token.DEFINE || !c19srcIdent(ts.Lhs[0], "testString") || !c19srcIdent(ts.Rhs[0], "s") {
			return
		}
		// if i > 0 { testString = fmt.Sprintf(…, s, i) }
		num, ok := body[2].(*ast.IfStmt)
		if !ok || num.Init != nil || num.Else != nil {
			return
		}
		cond, ok := num.Cond.(*ast.BinaryExpr)
		if !ok || cond.Op != token.GTR || !c19srcIdent(cond.X, "i") {
			return
		}
		if n, ok := c19srcChar(cond.Y); !ok || n != 0 {
			return
		}
		as, ok := c19srcOnly(num.Body).(*ast.AssignStmt)
		if !ok || as.Tok != token.ASSIGN || !c19srcIdent(as.Lhs[0], "testString") {
			return
		}
		p, a, ok := c19srcSprintf(as.Rhs[0], "", "s", "i")
		if !ok {
			return
		}
		numbered, numberedArgs = p, a
		// if … { continue } …; return testString
		shape = true
		for _, st := range body[3 : len(body)-1] {
			ifs, ok := st.(*ast.IfStmt)
			if !ok || ifs.Else != nil {
				shape = false
				skips = append(skips, ".bad")
				continue
			}
			if br, ok := c19srcOnly(ifs.Body).(*ast.BranchStmt); !ok || br.Tok != token.CONTINUE || br.Label != nil {
				shape = false
				skips = append(skips, ".bad")
				continue
			}
			if ifs.Init == nil {
				skips = append(skips, c19srcKCond(ifs.Cond))
				continue
			}
			// _, ok := M[testString]; ok
			k := ".bad"
			if lookup, isAs := ifs.Init.(*ast.AssignStmt); isAs && lookup.Tok == token.DEFINE && len(lookup.Lhs) == 2 && len(lookup.Rhs) == 1 &&
				c19srcIdent(lookup.Lhs[0], "_") && c19srcIdent(ifs.Cond, lookup.Lhs[1].(*ast.Ident).Name) {
				if ix, isIx := lookup.Rhs[0].(*ast.IndexExpr); isIx && c19srcIdent(ix.Index, "testString") {
					switch {
					case c19srcIdent(ix.X, "individualMap"):
						k = ".inIndividuals"
					case c19srcIdent(ix.X, "placesMap"):
						k = ".inPlaces"
					}
				}
			}
			skips = append(skips, k)
		}
		if !c19srcReturns(body[len(body)-1], func(e ast.Expr) bool { return c19srcIdent(e, "testString") }) {
			shape = false
		}
		// after the loop only the unreachable panic
		for _, st := range fd.Body.List[2:] {
			es, ok := st.(*ast.ExprStmt)
			if !ok {
				shape = false
				continue
			}
			if call, ok := es.X.(*ast.CallExpr); !ok || !c19srcIdent(call.Fun, "panic") {
				shape = false
			}
		}
	}()
	return fmt.Sprintf("{ loopShape := %s, numbered := %s, numberedArgs := %s,\n    skips := %s }", c19LeanBool(shape), c19srcList(numbered), c19srcList(numberedArgs), c19srcList(skips))
}

// ---- indexLetterForSurname

func c19srcIndexLetter(fd *ast.FuncDecl) string {
	lowers, elseFirst := false, false
	conds := []string{".bad"}
	isFirst := func(e ast.Expr) bool {
		ix, ok := e.(*ast.IndexExpr)
		if !ok || !c19srcIdent(ix.X, "name") {
			return false
		}
		n, ok := c19srcChar(ix.Index)
		return ok && n == 0
	}
	func() {
		if fd == nil || len(fd.Body.List) != 3 {
			return
		}
		if as, ok := fd.Body.List[0].(*ast.AssignStmt); ok && as.Tok == token.DEFINE && len(as.Lhs) == 1 && c19srcIdent(as.Lhs[0], "name") {
			if call, ok := as.Rhs[0].(*ast.CallExpr); ok && len(call.Args) == 1 && c19srcIdent(call.Args[0], "surname") {
				if sel, ok := call.Fun.(*ast.SelectorExpr); ok && c19srcIdent(sel.X, "strings") && sel.Sel.Name == "ToLower" {
					lowers = true
				}
			}
		}
		sw, ok := fd.Body.List[1].(*ast.SwitchStmt)
		if !ok || sw.Tag != nil || sw.Init != nil || len(sw.Body.List) != 1 {
			return
		}
		cc := sw.Body.List[0].(*ast.CaseClause)
		if cc.List == nil || !c19srcReturns(c19srcOnly(&ast.BlockStmt{List: cc.Body}), func(e ast.Expr) bool { return c19srcIdent(e, "symbolLetter") }) {
			return
		}
		conds = nil
		for _, e := range cc.List {
			conds = append(conds, c19srcBCond(e, isFirst, "name"))
		}
		elseFirst = c19srcReturns(fd.Body.List[2], func(e ast.Expr) bool {
			call, ok := e.(*ast.CallExpr)
			return ok && c19srcIdent(call.Fun, "rune") && len(call.Args) == 1 && isFirst(call.Args[0])
		})
	}()
	return fmt.Sprintf("{ lowers := %s, symbolIf := %s, elseFirst := %s }", c19LeanBool(lowers), c19srcList(conds), c19LeanBool(elseFirst))
}

func init() {
	extractors["PublishSrc"] = func() (out string) {
		defer func() {
			if r := recover(); r != nil { // an unexpected node type: nothing is translated, the obligations fail
				out = "-- translator failed: " + c19LeanComment(fmt.Sprint(r)) + "\nimport Gedcom.Model.PublishSrc\nnamespace Gedcom.Generated\nopen Gedcom.PublishSrc\n" +
					"def sourceKeySrc : SourceKeySrc := { keep := [.bad], keepAppendsByte := false, other := [.bad], otherArgs := [], fixedGuard := false, fixed := [.bad], fixedArgs := [] }\n" +
					"def fixedSrc : FixedSrc := { page := [.bad], pageArgs := [], items := [.bad], elseFalse := false }\n" +
					"def uniqueKeySrc : UniqueKeySrc := { loopShape := false, numbered := [.bad], numberedArgs := [], skips := [.bad] }\n" +
					"def indexLetterSrc : IndexLetterSrc := { lowers := false, symbolIf := [.bad], elseFirst := false }\nend Gedcom.Generated\n"
			}
		}()
		util := c19srcFuncs("html/util.go")
		idx := c19srcFuncs("html/individual_index_header.go")
		var b strings.Builder
		b.WriteString("-- Source: go/ast of html/util.go (sourceKey, isFixedPageKey, getUniqueKey) and\n")
		b.WriteString("-- html/individual_index_header.go (indexLetterForSurname), translated into the target language\n")
		b.WriteString("-- of Gedcom/Model/PublishSrc.lean; `.bad` / `false` = outside the translated fragment.\n")
		b.WriteString("import Gedcom.Model.PublishSrc\nnamespace Gedcom.Generated\nopen Gedcom.PublishSrc\n\n")
		fmt.Fprintf(&b, "/-- `sourceKey`: the switch of the loop body and the rewrite of a key that names a fixed page -/\ndef sourceKeySrc : SourceKeySrc :=\n  %s\n\n", c19srcSourceKey(util["sourceKey"]))
		fmt.Fprintf(&b, "/-- `isFixedPageKey`: the page the key is formatted to and the page names it is compared with -/\ndef fixedSrc : FixedSrc :=\n  %s\n\n", c19srcFixed(util["isFixedPageKey"]))
		fmt.Fprintf(&b, "/-- `getUniqueKey`: the probing loop -/\ndef uniqueKeySrc : UniqueKeySrc :=\n  %s\n\n", c19srcUniqueKey(util["getUniqueKey"]))
		fmt.Fprintf(&b, "/-- `indexLetterForSurname` -/\ndef indexLetterSrc : IndexLetterSrc :=\n  %s\n\n", c19srcIndexLetter(idx["indexLetterForSurname"]))
		b.WriteString("end Gedcom.Generated\n")
		return b.String()
	}
}
