package main

import (
	"fmt"
	"go/ast"
	"go/parser"
	"go/token"
	"path/filepath"
	"strings"
)

// Translator for the level arithmetic of Decoder.Decode: the conditions that decide where a parsed
// line goes (root / over-deep: clamp, error, panic / parent index / the three cases of the switch
// with their slice operations) are translated from the go/ast expressions into terms of the Lean
// types Gedcom.DecodeLogic.IExp / BExp / Op.  Props/C02 proves that interpreting them gives the
// placement the model's `place` computes, for all levels and stack sizes.

func leanIExp(e ast.Expr) string {
	switch e := e.(type) {
	case *ast.ParenExpr:
		return leanIExp(e.X)
	case *ast.Ident:
		if e.Name == "indent" {
			return ".indent"
		}
	case *ast.BasicLit:
		if e.Kind == token.INT {
			return "(.lit " + e.Value + ")"
		}
	case *ast.CallExpr:
		if fn, ok := e.Fun.(*ast.Ident); ok && fn.Name == "len" && len(e.Args) == 1 {
			if a, ok := e.Args[0].(*ast.Ident); ok && a.Name == "indents" {
				return ".len"
			}
		}
	case *ast.BinaryExpr:
		a, b := leanIExp(e.X), leanIExp(e.Y)
		if a == ".bad" || b == ".bad" {
			return ".bad"
		}
		switch e.Op {
		case token.ADD:
			return "(.add " + a + " " + b + ")"
		case token.SUB:
			return "(.sub " + a + " " + b + ")"
		}
	}
	return ".bad"
}

func leanBExp(e ast.Expr) string {
	switch e := e.(type) {
	case *ast.ParenExpr:
		return leanBExp(e.X)
	case *ast.SelectorExpr:
		if x, ok := e.X.(*ast.Ident); ok && x.Name == "dec" && e.Sel.Name == "AllowInvalidIndents" {
			return ".allow"
		}
	case *ast.BinaryExpr:
		if e.Op == token.LAND {
			a, b := leanBExp(e.X), leanBExp(e.Y)
			if a == ".bad" || b == ".bad" {
				return ".bad"
			}
			return "(.and " + a + " " + b + ")"
		}
		a, b := leanIExp(e.X), leanIExp(e.Y)
		if a == ".bad" || b == ".bad" {
			return ".bad"
		}
		switch e.Op {
		case token.EQL:
			return "(.eq " + a + " " + b + ")"
		case token.GEQ:
			return "(.ge " + a + " " + b + ")"
		case token.GTR:
			return "(.gt " + a + " " + b + ")"
		case token.LSS:
			return "(.lt " + a + " " + b + ")"
		case token.LEQ:
			return "(.ge " + b + " " + a + ")"
		}
	}
	return ".bad"
}

// leanOps translates the statements of one switch case: indents = append(indents, node),
// indents = indents[:E], indents[E] = node.
func leanOps(stmts []ast.Stmt) string {
	ops := []string{}
	for _, st := range stmts {
		as, ok := st.(*ast.AssignStmt)
		if !ok || len(as.Lhs) != 1 || len(as.Rhs) != 1 || as.Tok != token.ASSIGN {
			return "[.bad]"
		}
		if id, ok := as.Lhs[0].(*ast.Ident); ok && id.Name == "indents" {
			switch r := as.Rhs[0].(type) {
			case *ast.CallExpr:
				fn, _ := r.Fun.(*ast.Ident)
				if fn != nil && fn.Name == "append" && len(r.Args) == 2 {
					a0, _ := r.Args[0].(*ast.Ident)
					a1, _ := r.Args[1].(*ast.Ident)
					if a0 != nil && a0.Name == "indents" && a1 != nil && a1.Name == "node" {
						ops = append(ops, ".append")
						continue
					}
				}
			case *ast.SliceExpr:
				x, _ := r.X.(*ast.Ident)
				if x != nil && x.Name == "indents" && r.Low == nil && r.High != nil && !r.Slice3 {
					ops = append(ops, "(.truncate "+leanIExp(r.High)+")")
					continue
				}
			}
			return "[.bad]"
		}
		if ix, ok := as.Lhs[0].(*ast.IndexExpr); ok {
			x, _ := ix.X.(*ast.Ident)
			v, _ := as.Rhs[0].(*ast.Ident)
			if x != nil && x.Name == "indents" && v != nil && v.Name == "node" {
				ops = append(ops, "(.set "+leanIExp(ix.Index)+")")
				continue
			}
		}
		return "[.bad]"
	}
	return "[" + strings.Join(ops, ", ") + "]"
}

func endsWith(stmts []ast.Stmt, kind string) bool {
	if len(stmts) == 0 {
		return false
	}
	switch st := stmts[len(stmts)-1].(type) {
	case *ast.ReturnStmt:
		return kind == "return"
	case *ast.BranchStmt:
		return kind == st.Tok.String()
	case *ast.ExprStmt:
		if call, ok := st.X.(*ast.CallExpr); ok {
			if id, ok := call.Fun.(*ast.Ident); ok && id.Name == "panic" {
				return kind == "panic"
			}
		}
	}
	return false
}

func init() {
	extractors["DecodeLogic"] = func() string {
		var b strings.Builder
		b.WriteString("-- Source: decoder.go, Decoder.Decode — the expressions that decide where a parsed line goes,\n")
		b.WriteString("-- translated from go/ast (see harness/extract_decodelogic.go).\n")
		b.WriteString("import Gedcom.Model.DecodeLogic\nnamespace Gedcom.Generated\nopen Gedcom.DecodeLogic\n\n")
		rootCond, overCond, clampCond, clampValue, errorCond, parentIndex := ".bad", ".bad", ".bad", ".bad", ".bad", ".bad"
		panicElse := false
		cases := []string{}
		dflt := "[.bad]"
		fset := token.NewFileSet()
		file, err := parser.ParseFile(fset, filepath.Join(repoRoot(), "decoder.go"), nil, 0)
		if err == nil {
			for _, d := range file.Decls {
				fn, ok := d.(*ast.FuncDecl)
				if !ok || fn.Name.Name != "Decode" || fn.Body == nil {
					continue
				}
				ast.Inspect(fn.Body, func(n ast.Node) bool {
					switch n := n.(type) {
					case *ast.IfStmt:
						c := leanBExp(n.Cond)
						// if indent == 0 { …; continue }
						if c != ".bad" && strings.HasPrefix(c, "(.eq .indent") && endsWith(n.Body.List, "continue") && rootCond == ".bad" {
							rootCond = c
						}
						// if indent-1 >= len(indents) { if A { indent = E } else if B { return … } else { panic } }
						if c != ".bad" && strings.HasPrefix(c, "(.ge ") && len(n.Body.List) == 1 && overCond == ".bad" {
							if inner, ok := n.Body.List[0].(*ast.IfStmt); ok {
								overCond = c
								clampCond = leanBExp(inner.Cond)
								if len(inner.Body.List) == 1 {
									if as, ok := inner.Body.List[0].(*ast.AssignStmt); ok && len(as.Lhs) == 1 && len(as.Rhs) == 1 {
										if id, ok := as.Lhs[0].(*ast.Ident); ok && id.Name == "indent" && as.Tok == token.ASSIGN {
											clampValue = leanIExp(as.Rhs[0])
										}
									}
								}
								if e2, ok := inner.Else.(*ast.IfStmt); ok {
									if endsWith(e2.Body.List, "return") {
										errorCond = leanBExp(e2.Cond)
									}
									if blk, ok := e2.Else.(*ast.BlockStmt); ok && endsWith(blk.List, "panic") {
										panicElse = true
									}
								}
							}
						}
					case *ast.AssignStmt:
						// i := indents[indent-1]
						if len(n.Lhs) == 1 && len(n.Rhs) == 1 && n.Tok == token.DEFINE {
							if ix, ok := n.Rhs[0].(*ast.IndexExpr); ok {
								if x, ok := ix.X.(*ast.Ident); ok && x.Name == "indents" {
									parentIndex = leanIExp(ix.Index)
								}
							}
						}
					case *ast.SwitchStmt:
						if n.Tag == nil && n.Init == nil {
							for _, cc := range n.Body.List {
								cl := cc.(*ast.CaseClause)
								if len(cl.List) == 0 {
									dflt = leanOps(cl.Body)
								} else if len(cl.List) == 1 {
									cases = append(cases, "("+leanBExp(cl.List[0])+", "+leanOps(cl.Body)+")")
								} else {
									cases = append(cases, "(.bad, [.bad])")
								}
							}
						}
					}
					return true
				})
			}
		}
		fmt.Fprintf(&b, "/-- `if indent == 0 { … continue }`: a root record -/\ndef rootCond : BExp := %s\n", rootCond)
		fmt.Fprintf(&b, "/-- the over-deep test -/\ndef overCond : BExp := %s\n", overCond)
		fmt.Fprintf(&b, "/-- over-deep and clamped: condition and the new value of `indent` -/\ndef clampCond : BExp := %s\ndef clampValue : IExp := %s\n", clampCond, clampValue)
		fmt.Fprintf(&b, "/-- over-deep, not clamped: an error under this condition … -/\ndef errorCond : BExp := %s\n", errorCond)
		fmt.Fprintf(&b, "/-- … and the documented panic otherwise -/\ndef panicOtherwise : Bool := %v\n", panicElse)
		fmt.Fprintf(&b, "/-- `i := indents[…]`: the parent -/\ndef parentIndex : IExp := %s\n", parentIndex)
		fmt.Fprintf(&b, "/-- the cases of the switch, in order, with their slice operations -/\ndef switchCases : List (BExp × List Op) := [%s]\n", strings.Join(cases, ", "))
		fmt.Fprintf(&b, "def switchDefault : List Op := %s\n", dflt)
		b.WriteString("\nend Gedcom.Generated\n")
		return b.String()
	}
}
