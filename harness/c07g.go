package main

// C07: fixed boundary corpus (notes/boundary-audit.md).  Runs before the random streams.
//   1. sizes: children per node at and just past 8 .. 256 (and 1024) with the equal pair at index
//      >= 64, 65, 128, 129, 256; value lengths in bytes and runes; DATE repeats below RESI / EVEN
//   2. histories: observe, edit in place at depth >= 2 below the node whose children are
//      remembered, observe again (against a copy, a re-decoding and freshly built trees); a
//      recovered panic and a second tree in between
//   3. aliasing: the same node object twice in one list, in both lists, slices returned by the API
//      appended to / re-ordered by the caller
//   4. bytes: surrounding white space, invalid UTF-8, single-delimiter values, all-zero numbers

import (
	"fmt"
	"strings"

	"github.com/elliotchance/gedcom/v39"
)

// c07flattenCheck: Flatten returns the nodes of the tree itself, each once, parents before children.
func c07flattenCheck(c *Ctx, t *TNode, label string) {
	n, err := newPlain(t)
	if err != nil {
		return
	}
	want := c07preorderNodes(gedcom.Nodes{n})
	got := gedcom.Flatten(gedcom.NewDocument(), n)
	c.Eval()
	ok := len(got) == len(want)
	for i := 0; ok && i < len(want); i++ {
		ok = got[i] == want[i]
	}
	if !ok {
		c.Oracle("", "Flatten does not return the nodes of the tree in preorder, each once",
			map[string]string{"case": "Flatten " + label, "tree": encTree(t), "gedcom": c07text(t)}, fmt.Sprintf("%d nodes", len(got)), fmt.Sprintf("%d nodes", len(want)))
	}
}

func c07boundarySizes(c *Ctx) {
	r := c.R
	g := &c07gen{r: r, small: true}
	// children per node; the equal pair sits at (i, j)
	type shape struct{ n, i, j int }
	var shapes []shape
	for _, n := range []int{8, 9, 16, 17, 32, 33, 63, 64, 65, 66, 100, 101, 128, 129, 130, 256, 257} {
		shapes = append(shapes, shape{n, n - 2, n - 1}, shape{n, 0, n - 1})
		for _, at := range []int{64, 65, 128, 129, 256} {
			if at < n {
				shapes = append(shapes, shape{n, at - 1, at}, shape{n, at, n - 1})
			}
		}
	}
	shapes = append(shapes, shape{1024, 1022, 1023})
	for k, s := range shapes {
		if c.Quick() && s.n > 130 && k%2 == 1 && s.n != 1024 {
			continue
		}
		for _, kind := range []string{"root", "EVEN", "RESI"} {
			if s.n >= 256 && kind != "root" && c.Quick() {
				continue
			}
			tag := "NOTE"
			if kind == "RESI" {
				tag = "PLAC"
			}
			kids := c07wideKids(r, s.n, tag, s.i, s.j-s.i)
			mk := func(ks []*TNode) *TNode {
				switch kind {
				case "EVEN":
					return T("INDI0", "", "", &TNode{"EVEN", "a", "", ks})
				case "RESI":
					return T("INDI0", "", "", &TNode{"RESI", "", "", ks})
				}
				return &TNode{"INDI0", "", "P1", ks}
			}
			a := mk(kids)
			ed := make([]*TNode, len(kids))
			for x, kk := range kids {
				ed[x] = kk.Clone()
			}
			ed[s.j].Value = "miller"
			b := mk(ed)
			c.Count(fmt.Sprintf("boundary:children=%d", s.n))
			c.Nontrivial(fmt.Sprintf("boundary/children/%s/%d/%d,%d", kind, s.n, s.i, s.j))
			c07laws(c, a, b, "edit", "ne")
			c07laws(c, b, a, "edit", "ne")
			if s.n <= 257 {
				c07laws(c, a, c07shuffle(r, a, 4), "permutation", "eq")
			}
			// DeepEqualNodes directly, both orders
			if l, e1 := newPlain(a); e1 == nil {
				if rr, e2 := newPlain(b); e2 == nil {
					la, lb := a, b
					if kind != "root" {
						la, lb = a.Kids[0], b.Kids[0]
						l, rr = l.Nodes()[0], rr.Nodes()[0]
					}
					c.Tie("deqn "+encForest(la.Kids)+" "+encForest(lb.Kids), bit(gedcom.DeepEqualNodes(l.Nodes(), rr.Nodes())))
					c.Tie("deqn "+encForest(lb.Kids)+" "+encForest(la.Kids), bit(gedcom.DeepEqualNodes(rr.Nodes(), l.Nodes())))
					c.Eval()
					if gedcom.DeepEqualNodes(l.Nodes(), rr.Nodes()) || gedcom.DeepEqualNodes(rr.Nodes(), l.Nodes()) {
						c.Oracle("", "DeepEqualNodes is true for lists that differ in one element", c07in(a, b, "boundary children"), "true", "false")
					}
				}
			}
			// Filter / DeepCopy / Flatten on the wide node
			if src, err := newPlain(a); err == nil && s.n <= 257 {
				c07copyCase(c, src, a, fmt.Sprintf("wide-%d", s.n))
			}
			c07flattenCheck(c, a, fmt.Sprintf("wide-%d", s.n))
		}
	}
	// value lengths in bytes and runes; DATE repeats
	for _, n := range []int{8, 16, 32, 64, 65, 100, 128, 256, 257, 1024, 4096} {
		for _, unit := range []string{"a", "\xc3\xa9", "\xe6\x97\xa5"} {
			v := strings.Repeat(unit, n)
			t := T("INDI0", "", "P1", T("NOTE", v, ""), T("NAME", v+" /"+v+"/", ""), T("_UID", v, ""), T("DATE", v, ""), T(g.r.Pick(c07PlainTags), "", v[:len(unit)*8]))
			t2 := t.Clone()
			t2.Kids[0].Value = v[:len(v)-len(unit)] + "b"
			c.Count(fmt.Sprintf("boundary:value-length=%d", n))
			c.Nontrivial(fmt.Sprintf("boundary/value/%d/%d", n, len(unit)))
			c07laws(c, t, t.Clone(), "copy", "eq")
			c07laws(c, t, t2, "edit", "ne")
			if src, err := newPlain(t); err == nil {
				c07copyCase(c, src, t, fmt.Sprintf("value-%d", n))
			}
		}
	}
	for _, n := range []int{8, 16, 32, 64, 65, 100, 128, 129} {
		for _, tag := range []string{"RESI", "EVEN"} {
			x := T(tag, "", "")
			for i := 0; i < n; i++ {
				x.Kids = append(x.Kids, T("DATE", fmt.Sprintf("%d Jan %d", 1+i%28, 1800+i), ""))
			}
			y := x.Clone()
			y.Kids[n-1].Value = "1 Jan 1700" // still Equal (shares n-1 dates), no longer deep-equal
			z := T(tag, "", "", T("DATE", x.Kids[n-1].Value, ""))
			c.Count(fmt.Sprintf("boundary:date-repeats=%d", n))
			c07laws(c, T("INDI0", "", "", x), T("INDI0", "", "", y), "edit", "ne")
			c07laws(c, x, z, "pair", "") // Equal through the last date only
			c07laws(c, z, x, "pair", "")
		}
	}
}

// c07boundaryHistories: observe, edit at depth >= 2 below the node that holds the memo, observe.
func c07boundaryHistories(c *Ctx) {
	r := c.R
	g := &c07gen{r: r, small: true}
	n := c.N(120, 3000)
	for i := 0; i < n; i++ {
		// root -> wrapper (RESI / EVEN, children remembered by tag) -> child -> grandchild
		w := c07wrapper(g)
		for k := 1 + r.Intn(2); k > 0; k-- {
			p := T("PLAC", r.Pick([]string{"England", "Wales"}), "", T("MAP", "", "", T("LATI", r.Pick([]string{"N1", "N2"}), "")))
			w.Kids = append(w.Kids, p)
		}
		if w.Tag == "EVEN" || r.Bool() {
			w.Kids = append(w.Kids, T("NOTE", "n", "", T("SOUR", "s", "", T("PAGE", "1", ""))))
		}
		ta := T("INDI0", "", "P1", T("NAME", "A /B/", ""), w)
		if i%3 == 0 {
			ta = T("INDI0", "", "P1", T("BIRT", "", "", w))
		}
		a, e1 := newPlain(ta)
		b, e2 := newPlain(ta.Clone())
		if e1 != nil || e2 != nil {
			continue
		}
		for k := 0; k < 2; k++ { // observe (twice: the second question is answered from memory)
			gedcom.DeepEqual(a, b)
			gedcom.DeepEqual(b, a)
		}
		// in between: a recovered panic and another tree through the same process
		if i%4 == 1 {
			func() {
				defer func() { recover() }()
				gedcom.DeepCopy(gedcom.NewDocument().AddIndividual("X"), nil)
			}()
		}
		if i%4 == 2 {
			o, _ := newPlain(g.tree())
			if o != nil {
				gedcom.DeepEqual(o, gedcom.DeepCopy(o, gedcom.NewDocument()))
			}
		}
		// edit at depth >= 2 below the wrapper
		var wrapper gedcom.Node
		for _, x := range c07preorderNodes(gedcom.Nodes{a}) {
			if t := x.Tag().Tag(); (t == "RESI" || t == "EVEN") && wrapper == nil {
				wrapper = x
			}
		}
		var deep []gedcom.Node
		for _, k := range wrapper.Nodes() {
			for _, gk := range k.Nodes() {
				deep = append(deep, gk)
				deep = append(deep, gk.Nodes()...)
			}
		}
		what := ""
		if len(deep) == 0 {
			deep = append(deep, wrapper.Nodes()...)
		}
		if len(deep) == 0 {
			continue
		}
		for k := 1 + r.Intn(2); k > 0; k-- {
			t := deep[r.Intn(len(deep))]
			switch r.Intn(4) {
			case 0:
				t.AddNode(gedcom.NewNode(gedcom.TagFromString("DATE"), "1943", ""))
				what += "add-date;"
			case 1:
				t.AddNode(gedcom.NewNode(gedcom.TagFromString("PLAC"), "b", ""))
				what += "add-place;"
			case 2:
				if ks := t.Nodes(); len(ks) > 0 {
					t.DeleteNode(ks[0])
					what += "delete;"
				} else {
					t.AddNode(gedcom.NewNode(gedcom.TagFromString("NOTE"), "x", ""))
					what += "add-note;"
				}
			default:
				t.SetNodes(gedcom.Nodes{gedcom.NewNode(gedcom.TagFromString("LATI"), "N9", "")})
				what += "set;"
			}
		}
		tEdited := abstractNode(a)
		after := a.GEDCOMString(0)
		c.Eval()
		c.Count("history:edit-below-memo")
		c.Nontrivial("history/" + what + "/" + w.Tag)
		in := map[string]string{"case": "compare both ways twice, edit at depth >= 2 below the RESI / EVEN: " + what + " then compare again",
			"before": c07text(ta), "after": after}
		fresh := gedcom.DeepCopy(a, gedcom.NewDocument())
		if !gedcom.DeepEqual(a, fresh) || !gedcom.DeepEqual(fresh, a) {
			c.Oracle("", "an edited tree is not deep-equal to a deep copy of itself", in, "false", "true both ways")
		}
		if doc, err := gedcom.NewDocumentFromString(after); err == nil && len(doc.Nodes()) == 1 && c07sameTree(abstractNode(doc.Nodes()[0]), tEdited) {
			re := doc.Nodes()[0]
			if !gedcom.DeepEqual(a, re) || !gedcom.DeepEqual(re, a) {
				c.Oracle("", "an edited tree is not deep-equal to a decoding of its own GEDCOM", in, "false", "true both ways")
			}
		}
		ab, ba := gedcom.DeepEqual(a, b), gedcom.DeepEqual(b, a)
		if a2, e3 := newPlain(tEdited); e3 == nil {
			if b2, e4 := newPlain(ta); e4 == nil {
				if ab != gedcom.DeepEqual(a2, b2) || ba != gedcom.DeepEqual(b2, a2) {
					c.Oracle("", "deep equality of an edited tree and its pre-edit copy differs from that of freshly built trees with the same content", in,
						fmt.Sprintf("%v/%v", ab, ba), "the answers for rebuilt trees")
				}
			}
		}
		c.Tie("deq "+encForest([]*TNode{tEdited, ta}), c07deq(a, b))
	}
}

// c07boundaryAliasing: the same node object at two positions / in both lists; slices returned by
// the API appended to and re-ordered by the caller.
func c07boundaryAliasing(c *Ctx) {
	r := c.R
	g := &c07gen{r: r, small: true}
	n := c.N(150, 3000)
	for i := 0; i < n; i++ {
		t := g.tree()
		if len(t.Kids) == 0 {
			t.Kids = append(t.Kids, g.node(1))
		}
		a, err := newPlain(t)
		if err != nil {
			continue
		}
		// the same child object twice below one parent
		x := a.Nodes()[r.Intn(len(a.Nodes()))]
		a.AddNode(x)
		ta := abstractNode(a) // as a value: the child occurs twice
		in := map[string]string{"case": "a child object added to its parent a second time", "tree": encTree(ta), "gedcom": a.GEDCOMString(0)}
		c.Eval()
		c.Count("alias:child-twice")
		b, e2 := newPlain(ta)
		if e2 != nil {
			continue
		}
		c.Tie("deq "+encForest([]*TNode{ta, ta}), c07deq(a, b))
		if !gedcom.DeepEqual(a, b) || !gedcom.DeepEqual(b, a) || !gedcom.DeepEqual(a, a) {
			c.Oracle("", "a tree with the same child object twice is not deep-equal to a tree with two equal children", in, "false", "true")
		}
		c07copyCase(c, a, ta, "aliased-child")
		// the same objects in both lists, same slice on both sides
		ks := a.Nodes()
		if !gedcom.DeepEqualNodes(ks, ks) {
			c.Oracle("", "DeepEqualNodes(l, l) is false", in, "false", "true")
		}
		sh := append(gedcom.Nodes{}, ks...)
		for j := len(sh) - 1; j > 0; j-- {
			k := r.Intn(j + 1)
			sh[j], sh[k] = sh[k], sh[j]
		}
		c.Tie("deqn "+encForest(ta.Kids)+" "+encForest(abstractNodes(sh)), bit(gedcom.DeepEqualNodes(ks, sh)))
		if !gedcom.DeepEqualNodes(ks, sh) || !gedcom.DeepEqualNodes(sh, ks) {
			key := c07guard(ta)
			c.Oracle(key, "DeepEqualNodes of a list and a re-ordering of the same objects is false", in, "false", "true")
		}
		// the caller appends to / re-orders the slice it was given: the tree must not change
		before := a.GEDCOMString(0)
		got := a.Nodes()
		got = append(got, gedcom.NewNode(gedcom.TagFromString("NOTE"), "appended by the caller", ""))
		_ = got
		if a.GEDCOMString(0) != before {
			c.Oracle("", "appending to the slice returned by Nodes() changed the tree", in, a.GEDCOMString(0), before)
		}
		fl := gedcom.Flatten(gedcom.NewDocument(), a)
		for j := len(fl) - 1; j > 0; j-- {
			k := r.Intn(j + 1)
			fl[j], fl[k] = fl[k], fl[j]
		}
		if a.GEDCOMString(0) != before {
			c.Oracle("", "re-ordering the slice returned by Flatten changed the tree", in, a.GEDCOMString(0), before)
		}
	}
}

// c07boundaryBytes: values that only API-built nodes can carry.
func c07boundaryBytes(c *Ctx) {
	r := c.R
	values := []string{" x", "x ", " x ", "  ", " ", "\tx\t", "x\ty", "a  b", "\xc3", "\xff", "\xc3@", "\xff@I1@", "\xe2\x82", "\xe2\x82/x/", "\xf0\x9f", "\xc3,", "\x80\x80",
		"@", "@@", "/", "//", ",", "0", "00", "000", "-", "{", "}", "@ @", "/ /", "\xc3\xa9\xc3\xa9\xc3\xa9", "\xe6\x97\xa5\xe6\x9c\xac", "é /ü/", " x ", " "}
	tags := []string{"NOTE", "NAME", "PLAC", "_UID", "OCCU", "SOUR", "BIRT", "EVEN", "RESI", "TYPE"}
	for _, v := range values {
		for _, tag := range tags {
			t := T("INDI0", "", "P1", T(tag, v, ""), T(tag, v, ""), T("NOTE", "z", ""))
			u := t.Clone()
			u.Kids[1].Value = v + "x"
			c.Count("bytes:" + tag)
			c.Nontrivial("bytes/" + tag + "/" + hexs(v))
			c07laws(c, t, t.Clone(), "copy", "eq")
			c07laws(c, t, c07shuffle(r, t, 4), "permutation", "eq")
			if c07isPlain(tag) {
				c07laws(c, t, u, "edit", "ne")
			} else {
				c07laws(c, t, u, "pair", "")
			}
			if src, err := newPlain(t); err == nil {
				c07copyCase(c, src, t, "bytes")
			}
		}
		// as a pointer
		t := T("NOTE", "x", v, T("OCCU", "y", v))
		c07laws(c, t, t.Clone(), "copy", "eq")
		c07laws(c, t, T("NOTE", "x", v+"x", T("OCCU", "y", v)), "edit", "ne")
	}
}

func c07boundary(c *Ctx) {
	c07boundarySizes(c)
	c07boundaryHistories(c)
	c07boundaryAliasing(c)
	c07boundaryBytes(c)
}
