package main

// C18 — File content can never change the structure of a published page.
//
//  (T) component correspondence: random trees of html/core components built through the public
//      constructors, mirrored as a description to the Lean driver; bytes compared.  Text / escape
//      functions on hostile strings.
//  (S) page level: documents whose every value carries a unique taint token containing < > " ' &,
//      all page kinds (publish: individual, lists per letter, places, families, surnames, sources,
//      statistics; diff report; HTML query output) x visibility x page groups; every page is
//      searched for a taint token in dangerous raw form and run through the Lean-defined
//      `wellNested` (via the driver).

import (
	"bytes"
	"encoding/base64"
	"fmt"
	"regexp"
	"sort"
	"strconv"
	"strings"
	"time"
	"unicode/utf8"

	"github.com/elliotchance/gedcom/v39/html/core"
)

var c18DataPool = []string{"", "a", "Hello World", "<", ">", "\"", "'", "&", "<b>", "</td>", "a&b", "&amp;", "&nbsp;",
	"~~space~~", "~~space~~space~~", "&nbsp;nbsp;", "~~~space~~", "&nbsp", "~~space~", "x&nbsp;y~~space~~z",
	"\"><script>alert(1)</script>", "' onclick='x", "é", "王小明", "\xff\xfe", "a\x00b", "a\nb", "  ", "%s", "%d%%", "-->", "<!--",
	"</script>", "&#34;", "O'Brien", "A & B \"C\" <D>"}

func c18Data(r *Rand) string {
	switch r.Intn(10) {
	case 0:
		n := r.Intn(6)
		b := make([]byte, n)
		for i := range b {
			b[i] = byte(r.Intn(256))
		}
		return string(b)
	case 1:
		return r.Pick(c18DataPool) + r.Pick(c18DataPool)
	case 2:
		n := 1 + r.Intn(5)
		b := make([]byte, n)
		for i := range b {
			b[i] = "<>\"'&;~nbsp#"[r.Intn(12)]
		}
		return string(b)
	}
	return r.Pick(c18DataPool)
}

// values for raw sinks (names, classes, styles): constants as the code uses them, sometimes hostile
func c18Raw(r *Rand, pool []string) string {
	if r.Chance(1, 12) {
		return c18Data(r)
	}
	return r.Pick(pool)
}

var c18Classes = []string{"", "row", "col-12", "text-center", "badge badge-light", "table", "nav nav-tabs", "bg-info"}
var c18Styles = []string{"", "color: black", "width: 40%", "color: #0275d8; font-size: 18px"}
var c18TagNames = []string{"div", "span", "em", "strong", "ul", "li", "button", "a", "h1", "p", "title"}
var c18AttrNames = []string{"class", "href", "style", "id", "onclick", "type", "data-x", "name"}
var c18RawHTML = []string{"&nbsp;", "<br/>", "<hr/>", "<em>Unknown</em>", "<em>Hidden</em>", "", "&nbsp;&nbsp;&nbsp;",
	"\n\t\t<svg style=\"width: 100%; height: 75px\">\n\t\t\t<line x1=\"0%\" y1=\"50%\" x2=\"100%\" y2=\"50%\" style=\"stroke:rgb(0,0,0);stroke-width:3\" />\n\t\t</svg>\n\t"}

type c18Built struct {
	c    core.Component
	desc string
	n    int // nodes
}

func c18Leaf(r *Rand) c18Built {
	switch r.Intn(12) {
	case 0, 1, 2, 3:
		s := c18Data(r)
		return c18Built{core.NewText(s), "text " + hexs(s), 1}
	case 4:
		s := c18Raw(r, c18RawHTML)
		return c18Built{core.NewHTML(s), "html " + hexs(s), 1}
	case 5:
		s := c18Data(r)
		return c18Built{core.NewAnchor(s), "anchor " + hexs(s), 1}
	case 6:
		n := c18Int(r)
		return c18Built{core.NewNumber(n), "number " + strconv.Itoa(n), 1}
	case 7:
		n := c18Int(r)
		return c18Built{core.NewCountBadge(n), "countbadge " + strconv.Itoa(n), 1}
	case 8:
		k := r.Intn(4)
		cols := make([]string, k)
		d := "thead " + strconv.Itoa(k)
		for i := range cols {
			cols[i] = c18Data(r)
			d += " " + hexs(cols[i])
		}
		return c18Built{core.NewTableHead(cols...), d, 1}
	case 9:
		a, b := c18Raw(r, []string{"primitive-dot", "location", "x"}), c18Raw(r, c18Styles)
		return c18Built{core.NewOcticon(a, b), "octicon " + hexs(a) + " " + hexs(b), 1}
	case 10:
		t, l := c18Data(r), c18Data(r)
		sel := r.Bool()
		return c18Built{core.NewNavLink(t, l, sel), "navlink " + hexs(t) + " " + hexs(l) + " " + bit(sel), 1}
	}
	switch r.Intn(7) {
	case 0:
		return c18Built{core.NewEmpty(), "empty", 1}
	case 1:
		return c18Built{core.NewLineBreak(), "br", 1}
	case 2:
		return c18Built{core.NewHorizontalRule(), "hr", 1}
	case 3:
		return c18Built{core.NewHorizontalRuleRow(), "hrrow", 1}
	case 4:
		return c18Built{core.NewSpace(), "space", 1}
	case 5:
		return c18Built{core.NewFooterRow(), "footer", 1}
	}
	id := c18Raw(r, []string{"", "UA-78454410-2", "G-1"})
	return c18Built{core.NewGoogleAnalytics(id), "ga " + hexs(id), 1}
}

func c18Int(r *Rand) int {
	switch r.Intn(6) {
	case 0:
		return []int{0, 1, 9, 10, 99, 100, 999, 1000, 1001, 9999, 10000, 999999, 1000000, -1, -999, -1000, -1234567}[r.Intn(17)]
	case 1:
		return r.Intn(2000000000) - 1000000000
	case 2:
		return r.Intn(1 << 40)
	}
	return r.Intn(3000)
}

func c18List(r *Rand, depth, max int) ([]core.Component, string, int) {
	k := r.Intn(max + 1)
	var cs []core.Component
	d := strconv.Itoa(k)
	n := 0
	for i := 0; i < k; i++ {
		b := c18Comp(r, depth-1)
		cs = append(cs, b.c)
		d += " " + b.desc
		n += b.n
	}
	return cs, d, n
}

// c18Comp builds a random component through the public constructors of html/core and its mirror.
func c18Comp(r *Rand, depth int) c18Built {
	if depth <= 0 || r.Chance(1, 4) {
		return c18Leaf(r)
	}
	sub := func() c18Built { return c18Comp(r, depth-1) }
	switch r.Intn(24) {
	case 0:
		cs, d, n := c18List(r, depth, 4)
		return c18Built{core.NewComponents(cs...), "comps " + d, n + 1}
	case 1:
		cs, d, n := c18List(r, depth, 3)
		return c18Built{core.NewLines(cs...), "lines " + d, n + 1}
	case 2:
		cs, d, n := c18List(r, depth, 3)
		return c18Built{core.NewTableRow(cs...), "tr " + d, n + 1}
	case 3:
		k := r.Intn(4)
		var cols []*core.Column
		d := "row " + strconv.Itoa(k)
		n := 1
		for i := 0; i < k; i++ {
			w := []int{3, 6, 12, 5, 2}[r.Intn(5)]
			b := sub()
			cols = append(cols, core.NewColumn(w, b.c))
			d += " column " + strconv.Itoa(w) + " " + b.desc
			n += b.n + 1
		}
		return c18Built{core.NewRow(cols...), d, n}
	case 4:
		cs, d, n := c18List(r, depth, 3)
		return c18Built{core.NewNavPills(cs), "navpills " + d, n + 1}
	case 5:
		cs, d, n := c18List(r, depth, 3)
		return c18Built{core.NewNavPillsRow(cs), "navpillsrow " + d, n + 1}
	case 6:
		k := r.Intn(4)
		var items []*core.NavItem
		d := "navtabs " + strconv.Itoa(k)
		n := 1
		for i := 0; i < k; i++ {
			b := sub()
			act := r.Bool()
			h := c18Data(r)
			items = append(items, core.NewNavItem(b.c, act, h))
			d += " navitem " + bit(act) + " " + hexs(h) + " " + b.desc
			n += b.n + 1
		}
		return c18Built{core.NewNavTabs(items), d, n}
	case 7:
		cls := c18Raw(r, c18Classes)
		cs, d, n := c18List(r, depth, 4)
		return c18Built{core.NewTable(cls, cs...), "table " + hexs(cls) + " " + d, n + 1}
	case 8, 9:
		b := sub()
		cell := core.NewTableCell(b.c)
		h, w := r.Bool(), r.Bool()
		cls, st := c18Raw(r, c18Classes), c18Raw(r, c18Styles)
		if h {
			cell = cell.Header()
		}
		if w {
			cell = cell.NoWrap()
		}
		cell = cell.Class(cls).Style(st)
		return c18Built{cell, "cell " + bit(h) + " " + bit(w) + " " + hexs(cls) + " " + hexs(st) + " " + b.desc, b.n + 1}
	case 10, 11:
		b := sub()
		name := c18Raw(r, c18TagNames)
		var attrs map[string]string
		d := ""
		k := 0
		if !r.Chance(1, 5) {
			attrs = map[string]string{}
			for i := r.Intn(4); i > 0; i-- {
				key := c18Raw(r, c18AttrNames)
				if _, dup := attrs[key]; dup {
					continue
				}
				v := c18Data(r)
				attrs[key] = v
				d += " " + hexs(key) + " " + hexs(v)
				k++
			}
		}
		return c18Built{core.NewTag(name, attrs, b.c), "tag " + hexs(name) + " " + strconv.Itoa(k) + d + " " + b.desc, b.n + 1}
	case 12:
		b := sub()
		cls := c18Data(r)
		return c18Built{core.NewDiv(cls, b.c), "div " + hexs(cls) + " " + b.desc, b.n + 1}
	case 13:
		b := sub()
		cls := c18Data(r)
		return c18Built{core.NewSpan(cls, b.c), "span " + hexs(cls) + " " + b.desc, b.n + 1}
	case 14:
		b := sub()
		n := 1 + r.Intn(6)
		cls := c18Raw(r, c18Classes)
		return c18Built{core.NewHeading(n, cls, b.c), "heading " + strconv.Itoa(n) + " " + hexs(cls) + " " + b.desc, b.n + 1}
	case 15:
		b := sub()
		w := 1 + r.Intn(12)
		return c18Built{core.NewColumn(w, b.c), "column " + strconv.Itoa(w) + " " + b.desc, b.n + 1}
	case 16:
		b := sub()
		col, cls := c18Raw(r, []string{"light", "secondary", "info"}), c18Raw(r, []string{"", "float-right"})
		return c18Built{core.NewBadgePill(col, cls, b.c), "badgepill " + hexs(col) + " " + hexs(cls) + " " + b.desc, b.n + 1}
	case 17:
		b := sub()
		n := 1 + r.Intn(4)
		return c18Built{core.NewBigTitle(n, b.c), "bigtitle " + strconv.Itoa(n) + " " + b.desc, b.n + 1}
	case 18:
		t, b := sub(), sub()
		n := []int{-1, 0, 3, 1234, 1000000}[r.Intn(5)]
		return c18Built{core.NewCard(t.c, n, b.c), "card " + strconv.Itoa(n) + " " + t.desc + " " + b.desc, t.n + b.n + 1}
	case 19:
		b := sub()
		t := c18Data(r)
		v := !r.Chance(1, 4)
		return c18Built{core.NewKeyedTableRow(t, b.c, v), "keyed " + hexs(t) + " " + bit(v) + " " + b.desc, b.n + 1}
	case 20, 21:
		b := sub()
		dst := c18Data(r)
		st := ""
		l := core.NewLink(b.c, dst)
		if r.Chance(1, 3) {
			st = c18Raw(r, c18Styles)
			l = l.Style(st)
		}
		return c18Built{l, "link " + hexs(dst) + " " + hexs(st) + " " + b.desc, b.n + 1}
	case 22:
		b := sub()
		act := r.Bool()
		h := c18Data(r)
		return c18Built{core.NewNavItem(b.c, act, h), "navitem " + bit(act) + " " + hexs(h) + " " + b.desc, b.n + 1}
	}
	b := sub()
	t := c18Data(r)
	ga := c18Raw(r, []string{"", "", "UA-78454410-2"})
	return c18Built{core.NewPage(t, b.c, ga), "page " + hexs(t) + " " + hexs(ga) + " " + b.desc, b.n + 1}
}

// c18Sink names the raw sink + page kind of a taint hit: the key of a known finding.
func c18FindingKey(h c18Hit, kind string) string {
	return "raw:" + h.Sink + "@" + kind
}

type c18PageCheck struct {
	job   *c18Job
	doc   *c18Doc
	what  string // publish/diff/query + options
	name  string
	kind  string
	data  []byte
	input map[string]interface{}
}

func init() {
	runners["C18"] = func(c *Ctx) {
		c.Rule = "component trees: distinct = (root kind, node count bucket, has hostile raw sink); pages: distinct = (page kind, visibility, taint hits)"
		// ---- which sink every page component feeds (go/ast, the same list the Lean obligation
		// raw_sinks_fed_by_literals is about) — into the evidence
		{
			raw := map[string]bool{}
			for _, p := range c18CoreParams() {
				if p.Raw {
					raw[p.Name] = true
				}
			}
			var fed []string
			for _, sc := range c18SinkCalls() {
				c.Count("sink:" + sc.Sink + "<-" + sc.Class)
				if (raw[sc.Sink] || strings.HasPrefix(sc.Sink, "html.") || sc.Sink == "q.Write") && sc.Class == "expr" {
					fed = append(fed, sc.File+" "+sc.Sink+"("+sc.Expr+")")
				}
			}
			c.Notes = append(c.Notes, "raw sinks fed by non-literal expressions (each on the Lean allow-list with a reason): "+strings.Join(fed, "; "))
			// the same judgement the obligation raw_sinks_fed_by_literals makes, readable
			if outs, err := c18LeanBatch(c.Driver, []string{"sinkcheck"}); err == nil && len(outs) == 1 {
				byID := map[string]c18SinkCall{}
				for _, sc := range c18SinkCalls() {
					byID[fmt.Sprint(sc.ID())] = sc
				}
				if i := strings.Index(outs[0], "offending="); i >= 0 && len(outs[0]) > i+10 {
					for _, id := range strings.Split(outs[0][i+10:], ",") {
						sc := byID[id]
						c.Oracle("", "a raw sink is fed by an expression that can carry file data and is not on the allow-list (or an unknown sink is used)",
							map[string]string{"file": sc.File, "function": sc.Func, "sink": sc.Sink, "argument": sc.Expr}, sc.Class, "a literal, or an allow-list entry with a reason in Model/HtmlSinks.lean")
					}
				}
				if strings.Contains(outs[0], "raw-params=0") {
					c.Oracle("", "the set of raw string parameters of html/core differs from the raw sinks of the model", map[string]string{"see": "Generated/Sinks.lean coreStringParams"}, outs[0], "raw-params=1")
				}
			}
		}
		// ---- boundary corpus, components (fixed shapes first: notes/boundary-audit.md)
		c18BoundaryComponents(c)
		// ---- component programs (Generated/Pages.lean): the real components against their programs, byte for byte
		c18ProgramTie(c)
		// ---- (T) text-level functions
		for _, s := range c18DataPool {
			c.Tie("text "+hexs(s), hexs(c18Render(core.NewText(s))))
			c.Eval()
		}
		nText := c.N(3000, 200000)
		for i := 0; i < nText; i++ {
			s := c18Data(c.R)
			if c.R.Chance(1, 3) {
				s += c18Data(c.R) + c18Data(c.R)
			}
			c.Tie("text "+hexs(s), hexs(c18Render(core.NewText(s))))
			c.Eval()
			c.Count("text")
		}
		// ---- (T) component trees
		nTrees := c.N(5000, 300000)
		for i := 0; i < nTrees; i++ {
			b := c18Comp(c.R, 1+c.R.Intn(5))
			out := c18Render(b.c)
			c.Tie("render "+b.desc, hexs(out))
			c.Eval()
			root := strings.SplitN(b.desc, " ", 2)[0]
			c.Count("tree:" + root)
			bucket := "1"
			switch {
			case b.n > 20:
				bucket = ">20"
			case b.n > 5:
				bucket = "6-20"
			case b.n > 1:
				bucket = "2-5"
			}
			c.Nontrivial("tree/" + root + "/" + bucket)
			if i < 2 {
				c.Sample(map[string]string{"component": b.desc, "bytes": out})
			}
		}

		// ---- (S) pages, in batches (pages are large)
		nSites := c.N(100, 5000)
		batch := 100
		seenHit := map[string]bool{}
		cover := map[string]int{}
		totalPages := c18BoundaryPages(c, seenHit, cover) // boundary corpus and histories, documents
		for lo := 0; lo < nSites; lo += batch {
			hi := lo + batch
			if hi > nSites {
				hi = nSites
			}
			totalPages += c18PageBatch(c, lo, hi, seenHit, cover)
		}
		for _, kind := range []string{"individual", "individual-list", "place", "place-list", "families", "surnames", "source", "source-list", "statistics"} {
			for _, vis := range []string{"show", "hide", "placeholder"} {
				if cover[kind+"/"+vis] == 0 {
					c.Untied = append(c.Untied, "no "+kind+" page was generated with visibility "+vis)
				}
			}
		}
		for _, kind := range []string{"diff", "query"} {
			if cover[kind] == 0 {
				c.Untied = append(c.Untied, "no "+kind+" page was generated")
			}
		}
		// ---- model side only: how many of the random trees are trusted, and (a sanity check of the
		// theorem's statement on executions) none of them renders to something not well nested
		{
			var reqs []string
			rr := c.R.Fork("trusted")
			for i := 0; i < c.N(1500, 20000); i++ {
				reqs = append(reqs, "trusted "+c18Comp(rr, 1+rr.Intn(5)).desc)
			}
			if outs, err := c18LeanBatch(c.Driver, reqs); err == nil {
				for i, o := range outs {
					c.Count("model:trusted/wellNested=" + o)
					if o == "10" {
						c.Oracle("", "model counterexample: with the regenerated encoder tables a trusted tree renders to bytes that are not well nested (render_wellNested no longer holds)",
							map[string]string{"component": reqs[i]}, o, "11, 01 or 00")
					}
				}
			}
		}

		{ // how the token variants were spread over the value kinds
			kinds, pairs := map[string]bool{}, 0
			for k := range cover {
				if strings.HasPrefix(k, "variant:(suffix)/") || strings.HasPrefix(k, "variant:(lead)/") {
					continue
				}
				if strings.HasPrefix(k, "variant:") {
					pairs++
					kinds[strings.SplitN(k[8:], "/", 2)[0]] = true
				}
			}
			c.Notes = append(c.Notes, fmt.Sprintf("taint variants: %d of %d (value kind x special-character set) combinations generated, %d value kinds x %d variants (all five, each single character, each pair, an attribute-injection payload; the same with full-width / small-form compatibility characters; half of the values end in entity-looking text: &nbsp; &amp; &lt; &#60; &nbsp; a quarter have an invalid UTF-8 lead byte C3/E9/F1/F5 before every special character)",
				pairs, len(kinds)*len(c18Variants), len(kinds), len(c18Variants)))
			for _, ch := range []string{"<", ">", "\"", "'", "&"} {
				for k := range kinds {
					if cover["variant:"+k+"/"+ch] == 0 && !c.Quick() {
						c.Untied = append(c.Untied, "no "+k+" value carried the single character "+ch)
					}
				}
			}
		}
		var hk []string
		for k := range seenHit {
			hk = append(hk, k)
		}
		sort.Strings(hk)
		if len(hk) > 0 {
			c.Notes = append(c.Notes, "raw sinks reached by file data: "+strings.Join(hk, "; "))
		}
		c.Notes = append(c.Notes, fmt.Sprintf("pages checked: %d (taint search in Go; wellNested and skeleton of tainted vs. de-tainted twin in Lean)", totalPages))
	}
}

// c18MinimalDoc keeps only the line that carries taint value `id` and its ancestors.
func c18MinimalDoc(text string, id int) string {
	lines := strings.Split(strings.TrimRight(text, "\n"), "\n")
	tok := fmt.Sprintf("q%05d", id)
	at := -1
	for i, l := range lines {
		if i > 0 && strings.Contains(l, tok) && !strings.HasPrefix(l, "0 ") || strings.HasPrefix(l, "0 @") && strings.Contains(strings.SplitN(l, "@ ", 2)[0], tok) {
			at = i
			break
		}
	}
	if at < 0 {
		return ""
	}
	level := func(l string) int { n, _ := strconv.Atoi(strings.SplitN(l, " ", 2)[0]); return n }
	keep := []string{lines[at]}
	cur := level(lines[at])
	for i := at - 1; i >= 0 && cur > 0; i-- {
		if lv := level(lines[i]); lv < cur {
			keep = append([]string{lines[i]}, keep...)
			cur = lv
		}
	}
	return "0 HEAD\n" + strings.Join(keep, "\n") + "\n0 TRLR\n"
}

// c18Minimize tries the minimal document for a hit: same job, smaller file; returns it if the same
// sink of the same page kind is still reached.
func c18Minimize(job *c18Job, id int, key string) string {
	m := c18MinimalDoc(string(job.Gedcom), id)
	if m == "" && len(job.Gedcom2) > 0 {
		m = c18MinimalDoc(string(job.Gedcom2), id)
	}
	if m == "" {
		return ""
	}
	j := *job
	j.Gedcom = []byte(m)
	if len(job.Gedcom2) > 0 {
		j.Gedcom2 = []byte(m)
	}
	j.Jobs = 1
	res := c18Child(&j, 30*time.Second)
	if res.Crashed || res.TimedOut || res.Panic != "" || len(res.Runs) == 0 {
		return ""
	}
	for _, f := range res.Runs[0].Files {
		kind := c18RefineKind(f.Name, f.Data)
		for _, h := range c18ScanPage(f.Data) {
			if c18FindingKey(h, kind) == key {
				return m
			}
		}
	}
	return ""
}

// c18InjectedAttrs lists the element.attribute pairs of the page that its twin does not have.
func c18InjectedAttrs(page, twin string) []string {
	set := func(s string) map[string]bool {
		m := map[string]bool{}
		if i := strings.Index(s, "attrs="); i >= 0 {
			for _, p := range strings.Split(s[i+6:], ",") {
				if p != "" {
					m[p] = true
				}
			}
		}
		return m
	}
	a, b := set(page), set(twin)
	var out []string
	for p := range a {
		if !b[p] {
			out = append(out, p)
		}
	}
	sort.Strings(out)
	return out
}

// c18Detaint replaces the special characters (they only occur inside taint tokens and their
// suffixes) by '!': harmless everywhere, and like the characters it replaces outside the class
// [a-z0-9_-] of file keys, so the twin document has the same shape, the same file keys (also next
// to an invalid lead byte, where both collapse into one '-') and the same sort order.
func c18Detaint(text string) string {
	pairs := []string{"<", "!", ">", "!", "\"", "!", "'", "!", "&", "!"}
	for _, ch := range c18CompatChars {
		pairs = append(pairs, ch, "!")
	}
	return strings.NewReplacer(pairs...).Replace(text)
}

// c18FixInput adds a base64 copy of every string of a failing input that is not valid UTF-8 (JSON
// cannot carry it byte for byte).
func c18FixInput(in map[string]interface{}) map[string]interface{} {
	for k, v := range in {
		if s, ok := v.(string); ok && !utf8.ValidString(s) {
			in[k+"_base64"] = base64.StdEncoding.EncodeToString([]byte(s))
		}
	}
	return in
}

var c18KeyRe = regexp.MustCompile(`[^a-z_0-9-]+`)

func c18PairName(name string) string { return c18KeyRe.ReplaceAllString(strings.ToLower(name), "-") }

// c18PageBatch publishes sites lo..hi-1 (each with its de-tainted twin), judges every page and
// returns the number of pages.
// c18SiteJob is one operation (publish / diff / query) on a taint document, with the same
// operation on the de-tainted twin.
type c18SiteJob struct {
	doc       *c18Doc
	job, twin *c18Job
	what      string
}

func c18MkSiteJob(d *c18Doc, j *c18Job, what string) c18SiteJob {
	t := *j
	t.Gedcom = []byte(c18Detaint(string(j.Gedcom)))
	if len(j.Gedcom2) > 0 {
		t.Gedcom2 = []byte(c18Detaint(string(j.Gedcom2)))
	}
	if len(j.Pre) > 0 {
		t.Pre = []byte(c18Detaint(string(j.Pre)))
	}
	return c18SiteJob{d, j, &t, what}
}

var c18Queries = []string{".Individuals", ".Individuals | .Name", ".Individuals | .Name | .String", ".Sources", ".Families",
	".Individuals | { name: .Name | .String, born: .Birth | .String }", ".Places", ".Nodes", "?", ".Individuals | First(1)", ".Warnings"}

func c18PageBatch(c *Ctx, lo, hi int, seenHit map[string]bool, cover map[string]int) int {
	year := time.Now().Year()
	var jobs []c18SiteJob
	mk := func(d *c18Doc, j *c18Job, what string) { jobs = append(jobs, c18MkSiteJob(d, j, what)) }
	for i := lo; i < hi; i++ {
		d := c18Generate(c.R, "taint", year, 0)
		for kv, n := range d.Variants {
			cover["variant:"+kv] += n
		}
		o := c18RandOpts(c.R)
		o.Living = []string{"show", "hide", "placeholder"}[i%3]
		mk(d, &c18Job{Kind: "publish", Gedcom: []byte(d.Text), Opts: o, Jobs: []int{1, 2, 8}[c.R.Intn(3)]}, "publish "+o.String())
		if i%4 == 0 { // diff report of the document against an independently generated one / itself
			d2 := d
			if c.R.Bool() {
				d2 = c18Generate(c.R, "taint", year, 50000)
				for k, v := range d2.Kinds { // the report shows values of both documents
					d.Kinds[k] = v
				}
			}
			show := []string{"all", "only-matches", "subset"}[c.R.Intn(3)]
			srt := []string{"written-name", "highest-similarity"}[c.R.Intn(2)]
			mk(d, &c18Job{Kind: "diff", Gedcom: []byte(d.Text), Gedcom2: []byte(d2.Text), Opts: o, Jobs: []int{1, 1, 2, 8}[c.R.Intn(4)], Show: show, Sort: srt},
				"diff show="+show+" sort="+srt+" living="+o.Living)
		}
		if i%4 == 1 { // html query output
			mk(d, &c18Job{Kind: "query", Gedcom: []byte(d.Text), Queries: c18Queries}, "query -format html")
		}
	}
	return c18JudgeJobs(c, jobs, seenHit, cover)
}

// c18JudgeJobs runs the jobs (and their twins) in child processes and judges every page: taint
// search, Lean wellNested, structure against the twin.  Returns the number of pages.
func c18JudgeJobs(c *Ctx, jobs []c18SiteJob, seenHit map[string]bool, cover map[string]int) int {
	results := make([]*c18Result, 2*len(jobs))
	c18Parallel(2*len(jobs), 12, func(i int) {
		if i%2 == 0 {
			results[i] = c18Child(jobs[i/2].job, 60*time.Second)
		} else {
			results[i] = c18Child(jobs[i/2].twin, 60*time.Second)
		}
	})

	var pages []c18PageCheck
	var twins [][]byte // twins[i] is the de-tainted counterpart of pages[i] (nil = none)
	for i, j := range jobs {
		res, tw := results[2*i], results[2*i+1]
		in := map[string]interface{}{"what": j.what, "gedcom": j.doc.Text}
		if len(j.job.Gedcom2) > 0 {
			in["gedcom2"] = string(j.job.Gedcom2)
		}
		c.Eval()
		if res.Crashed || res.TimedOut || res.Panic != "" || len(res.Runs) == 0 {
			// a crash while rendering is C14's property; it is counted, not judged here
			c.Count("site:crashed(" + j.job.Kind + ")")
			c.Notes = append(c.Notes, "crash outside C18: "+j.what+": "+res.Panic+c18FirstLine(res.Stderr))
			continue
		}
		c.Count("site:" + j.job.Kind + "/" + j.job.Opts.Living)
		twinBy := map[string][]byte{}
		twinDup := map[string]bool{}
		if !(tw.Crashed || tw.TimedOut || tw.Panic != "" || len(tw.Runs) == 0) {
			for _, f := range tw.Runs[0].Files {
				k := c18PairName(f.Name)
				if _, dup := twinBy[k]; dup {
					twinDup[k] = true
				}
				twinBy[k] = f.Data
			}
		}
		own := map[string]int{}
		for _, f := range res.Runs[0].Files {
			own[c18PairName(f.Name)]++
		}
		for _, f := range res.Runs[0].Files {
			kind := c18RefineKind(f.Name, f.Data)
			pages = append(pages, c18PageCheck{j.job, j.doc, j.what, f.Name, kind, f.Data, in})
			k := c18PairName(f.Name)
			// the order of equally similar rows of a diff report depends on the schedule when
			// jobs > 1 (C11's business): the twin comparison is kept to single-job reports
			if own[k] == 1 && !twinDup[k] && !(j.job.Kind == "diff" && j.job.Jobs > 1) {
				twins = append(twins, twinBy[k])
			} else {
				twins = append(twins, nil)
			}
			if j.job.Kind == "publish" {
				cover[kind+"/"+j.job.Opts.Living]++
			} else {
				cover[kind]++
			}
		}
	}
	// taint search
	firstKey := make([]string, len(pages))
	for i, p := range pages {
		c.Count("page:" + p.kind)
		if p.kind == "query" && bytes.Contains(p.data, []byte(`<th scope="col">Description</th></tr></thead><tr>`)) {
			c.Count("page:query/.Warnings table with rows")
		}
		hits := c18ScanPage(p.data)
		sig := "page/" + p.kind + "/" + strings.Fields(p.what)[0]
		for _, h := range hits {
			key := c18FindingKey(h, p.kind)
			if firstKey[i] == "" {
				firstKey[i] = key
			}
			id, _ := strconv.Atoi(h.ID)
			vk := p.doc.Kinds[id]
			sig += "/" + key
			in := map[string]interface{}{"what": p.what, "file": p.name, "gedcom": p.input["gedcom"], "value_kind": vk}
			if g2, ok := p.input["gedcom2"]; ok {
				in["gedcom2"] = g2
			}
			if !seenHit[key+" <- "+vk] && len(seenHit) < 40 { // first case of its class: shrink the document
				if m := c18Minimize(p.job, id, key); m != "" {
					in["minimal_gedcom"] = m
				}
			}
			c.Oracle(key, "a "+vk+" reaches "+h.Sink+" of the "+p.kind+" page unescaped", c18FixInput(in), h.String(),
				"every special character of the value HTML-escaped")
			seenHit[key+" <- "+vk] = true
		}
		c.Nontrivial(sig)
	}
	// the Lean-defined wellNested on every page, and the skeleton of every page and of its twin
	var reqs []string
	for _, p := range pages {
		reqs = append(reqs, "wellnested "+hexs(string(p.data)))
	}
	for i, p := range pages {
		if twins[i] != nil {
			reqs = append(reqs, "structure "+hexs(string(p.data)), "structure "+hexs(string(twins[i])))
		}
	}
	outs, err := c18LeanBatch(c.Driver, reqs)
	if err != nil {
		c.Notes = append(c.Notes, "Lean driver failed on pages: "+err.Error())
		c.Oracle("", "the Lean tokenizer could not be run on the generated pages", map[string]string{"error": err.Error()}, "driver error", "0/1 per page")
		return len(pages)
	}
	mkIn := func(p c18PageCheck) map[string]interface{} {
		in := map[string]interface{}{"what": p.what, "file": p.name, "gedcom": p.input["gedcom"]}
		if g2, ok := p.input["gedcom2"]; ok {
			in["gedcom2"] = g2
		}
		return c18FixInput(in)
	}
	for i, p := range pages {
		if outs[i] != "1" {
			// a page that is not well nested because of a taint hit shares the key of that hit
			c.Oracle(firstKey[i], "the "+p.kind+" page is not well-nested HTML", mkIn(p), outs[i]+" "+c18Excerpt(p.data, outs[i]), "1 (Gedcom.Html.wellNested)")
		}
	}
	k := len(pages)
	nTwin := 0
	for i, p := range pages {
		if twins[i] == nil {
			continue
		}
		a, b := outs[k], outs[k+1]
		k += 2
		nTwin++
		if a != b {
			what := "the structure of the " + p.kind + " page depends on the values in the file (tokens of the page differ from its de-tainted twin)"
			if inj := c18InjectedAttrs(a, b); len(inj) > 0 {
				what = "a value in the file injects an attribute into the " + p.kind + " page: " + strings.Join(inj, ", ")
			}
			c.Oracle(firstKey[i], what, mkIn(p), a, b+" (same document with < > \" ' & replaced by !)")
		}
	}
	c.Dist["page:compared-with-twin"] += nTwin
	return len(pages)
}

func (p c18PageCheck) in() map[string]interface{} { return p.input }

func c18FirstLine(s string) string {
	if i := strings.IndexByte(s, '\n'); i >= 0 {
		s = s[:i]
	}
	if len(s) > 200 {
		s = s[:200]
	}
	if s != "" {
		return " | " + s
	}
	return ""
}

// c18Excerpt shows the page around nothing in particular when no position is known: the first raw
// '<' that does not start a known tag is the usual culprit.
func c18Excerpt(page []byte, verdict string) string {
	i := bytes.Index(page, []byte("<q"))
	if i < 0 {
		return ""
	}
	lo, hi := i-60, i+60
	if lo < 0 {
		lo = 0
	}
	if hi > len(page) {
		hi = len(page)
	}
	return "…" + string(page[lo:hi]) + "…"
}
