package main

// C18 (Gedcom/Generated/Pages.lean): the WriteHTMLTo bodies of the page components of package html,
// translated (go/ast) into `Prog` terms over the html/core algebra (Gedcom/Model/HtmlProg.lean).
// Every string that is not a literal of the source becomes a hole; control (ints, bools, child
// components, slices of child components) becomes a control hole; a non-literal in a raw sink
// becomes a raw hole named by the call id of Generated.sinkCalls. Whatever is outside the fragment
// makes the component "untranslated" with a reason.

import (
	"bytes"
	"fmt"
	"go/ast"
	"go/parser"
	"go/printer"
	"go/token"
	"os"
	"path/filepath"
	"sort"
	"strconv"
	"strings"
)

type c18RawHole struct {
	ID   uint64
	Desc string
}

type c18PageProg struct {
	Name, File                     string
	Strs, Ints, Bools, Kids, Lists []string
	Raws                           []c18RawHole
	ItemOf                         string // "<Type>, list hole k" for the element program of a list hole
	UsesGA                         bool
	GAID                           uint64
	GADesc                         string
	Term                           string
}

type c18Untr struct{ reason string }

const (
	c18LProg = iota
	c18LSlice
	c18LOpaque
	c18LForbidden // a component local of the parent, seen from an item program
)

type c18Local struct {
	kind  int
	prog  string
	elems []string
	def   string
	ver   int     // bumped by every assignment inside an opaque statement
	lit   *string // a value local whose current definition is a string literal of the source
}

type c18Tr struct {
	file, typ string
	sigs      map[string]c18Sig
	consts    map[string]string // string constants of package html
	coreInts  map[string]int    // int constants of html/core
	locals    map[string]*c18Local
	p         *c18PageProg
	idx       [5]map[string]int // strs, ints, bools, kids, lists
	items     []c18PageProg     // the element programs of its list holes
	item      string            // item mode: the slice local that collects what one iteration appends
}

func c18Fail(format string, a ...interface{}) { panic(c18Untr{fmt.Sprintf(format, a...)}) }

// c18FullText is c18ExprText without the cut at 90 bytes (hole descriptions; call ids use c18ExprText)
func c18FullText(n ast.Node) string {
	var b bytes.Buffer
	printer.Fprint(&b, token.NewFileSet(), n)
	return strings.Join(strings.Fields(b.String()), " ")
}

func (t *c18Tr) hole(kind int, desc string) int {
	if i, ok := t.idx[kind][desc]; ok {
		return i
	}
	var l *[]string
	switch kind {
	case 0:
		l = &t.p.Strs
	case 1:
		l = &t.p.Ints
	case 2:
		l = &t.p.Bools
	case 3:
		l = &t.p.Kids
	default:
		l = &t.p.Lists
	}
	*l = append(*l, desc)
	t.idx[kind][desc] = len(*l) - 1
	return len(*l) - 1
}

func (t *c18Tr) localDef(name string) string {
	l := t.locals[name]
	s := name + " := " + l.def
	if l.ver > 0 {
		s += fmt.Sprintf(" [reassigned before this use: %d]", l.ver)
	}
	return s
}

// describe: the expression text; a bare local is shown with its definition, locals mentioned inside
// an expression are listed after "where" (transitively)
func (t *c18Tr) describe(e ast.Expr) string {
	if id, ok := e.(*ast.Ident); ok {
		if l := t.locals[id.Name]; l != nil && l.kind == c18LOpaque {
			return t.localDef(id.Name) + t.where(l.def, map[string]bool{id.Name: true})
		}
	}
	return c18FullText(e) + t.whereExpr(e, map[string]bool{})
}

func (t *c18Tr) whereExpr(e ast.Node, seen map[string]bool) string {
	var names []string
	ast.Inspect(e, func(n ast.Node) bool {
		if se, ok := n.(*ast.SelectorExpr); ok {
			// only the root of a selector can be a local
			ast.Inspect(se.X, func(m ast.Node) bool {
				if id, ok := m.(*ast.Ident); ok {
					if l := t.locals[id.Name]; l != nil && l.kind == c18LOpaque && !seen[id.Name] {
						seen[id.Name] = true
						names = append(names, id.Name)
					}
				}
				return true
			})
			return false
		}
		if id, ok := n.(*ast.Ident); ok {
			if l := t.locals[id.Name]; l != nil && l.kind == c18LOpaque && !seen[id.Name] {
				seen[id.Name] = true
				names = append(names, id.Name)
			}
		}
		return true
	})
	var parts []string
	for len(names) > 0 {
		n := names[0]
		names = names[1:]
		parts = append(parts, t.localDef(n))
		// locals mentioned in the definition
		if x, err := parser.ParseExpr(t.locals[n].defExprText()); err == nil {
			ast.Inspect(x, func(m ast.Node) bool {
				if id, ok := m.(*ast.Ident); ok {
					if l := t.locals[id.Name]; l != nil && l.kind == c18LOpaque && !seen[id.Name] {
						seen[id.Name] = true
						names = append(names, id.Name)
					}
				}
				return true
			})
		}
	}
	if len(parts) == 0 {
		return ""
	}
	return " where " + strings.Join(parts, ", ")
}

func (l *c18Local) defExprText() string {
	if i := strings.Index(l.def, " [result "); i >= 0 {
		return l.def[:i]
	}
	return l.def
}

func (t *c18Tr) where(def string, seen map[string]bool) string {
	d := def
	if i := strings.Index(d, " [result "); i >= 0 {
		d = d[:i]
	}
	x, err := parser.ParseExpr(d)
	if err != nil {
		return ""
	}
	return t.whereExpr(x, seen)
}

// ---- leaves ----

func c18IntLit(e ast.Expr) (int, bool) {
	switch x := e.(type) {
	case *ast.BasicLit:
		if x.Kind == token.INT {
			if n, err := strconv.ParseInt(x.Value, 0, 64); err == nil {
				return int(n), true
			}
		}
	case *ast.UnaryExpr:
		if x.Op == token.SUB {
			if n, ok := c18IntLit(x.X); ok {
				return -n, true
			}
		}
	case *ast.ParenExpr:
		return c18IntLit(x.X)
	}
	return 0, false
}

func (t *c18Tr) intConst(e ast.Expr) (int, bool) {
	if n, ok := c18IntLit(e); ok {
		return n, true
	}
	if se, ok := e.(*ast.SelectorExpr); ok {
		if id, ok := se.X.(*ast.Ident); ok && id.Name == "core" {
			if n, ok := t.coreInts[se.Sel.Name]; ok {
				return n, true
			}
		}
	}
	return 0, false
}

func c18LeanInt(n int) string {
	if n < 0 {
		return fmt.Sprintf("(%d)", n)
	}
	return strconv.Itoa(n)
}

func (t *c18Tr) strLit(e ast.Expr) (string, bool) {
	switch x := e.(type) {
	case *ast.BasicLit:
		if x.Kind == token.STRING {
			if v, err := strconv.Unquote(x.Value); err == nil {
				return v, true
			}
		}
	case *ast.ParenExpr:
		return t.strLit(x.X)
	case *ast.Ident:
		if l := t.locals[x.Name]; l != nil {
			// a local that was given a literal on this path and has not been assigned since
			if l.kind == c18LOpaque && l.lit != nil && l.ver == 0 {
				return *l.lit, true
			}
		} else if v, ok := t.consts[x.Name]; ok {
			return v, true
		}
	case *ast.BinaryExpr:
		if x.Op == token.ADD {
			a, ok1 := t.strLit(x.X)
			b, ok2 := t.strLit(x.Y)
			if ok1 && ok2 {
				return a + b, true
			}
		}
	}
	return "", false
}

func (t *c18Tr) iexp(e ast.Expr) string {
	if n, ok := t.intConst(e); ok {
		return "(.lit " + c18LeanInt(n) + ")"
	}
	t.noCompLocals(e, "int expression")
	return fmt.Sprintf("(.hole %d)", t.hole(1, t.describe(e)))
}

func (t *c18Tr) sexp(e ast.Expr) string {
	if v, ok := t.strLit(e); ok {
		return "(.lit " + c18LeanBytes(v) + ")"
	}
	switch x := e.(type) {
	case *ast.ParenExpr:
		return t.sexp(x.X)
	case *ast.BinaryExpr:
		if x.Op == token.ADD {
			return "(.cat " + t.sexp(x.X) + " " + t.sexp(x.Y) + ")"
		}
	case *ast.CallExpr:
		if se, ok := x.Fun.(*ast.SelectorExpr); ok && len(x.Args) == 1 {
			if id, ok := se.X.(*ast.Ident); ok && id.Name == "strconv" && se.Sel.Name == "Itoa" {
				return "(.itoa " + t.iexp(x.Args[0]) + ")"
			}
		}
	}
	t.noCompLocals(e, "string expression")
	return fmt.Sprintf("(.hole %d)", t.hole(0, t.describe(e)))
}

// bexp: literal true/false, or a bool hole
func (t *c18Tr) bexp(e ast.Expr) (lit bool, isLit bool, hole int) {
	if id, ok := e.(*ast.Ident); ok && t.locals[id.Name] == nil {
		if id.Name == "true" {
			return true, true, 0
		}
		if id.Name == "false" {
			return false, true, 0
		}
	}
	t.noCompLocals(e, "bool expression")
	return false, false, t.hole(2, t.describe(e))
}

func (t *c18Tr) rexp(e ast.Expr, sink string) string {
	if v, ok := t.strLit(e); ok {
		return "(.lit " + c18LeanBytes(v) + ")"
	}
	t.noCompLocals(e, "raw expression")
	id := c18SinkCall{File: t.file, Func: t.typ + ".WriteHTMLTo", Sink: sink, Expr: c18ExprText(e)}.ID()
	desc := sink + "(" + t.describe(e) + ")"
	found := false
	for _, r := range t.p.Raws {
		if r.ID == id {
			found = true
		}
	}
	if !found {
		t.p.Raws = append(t.p.Raws, c18RawHole{ID: id, Desc: desc})
	}
	return fmt.Sprintf("(.hole %d)", id)
}

// noCompLocals: a hole expression must not mention a local that is bound to a Prog or a slice
func (t *c18Tr) noCompLocals(e ast.Node, what string) {
	ast.Inspect(e, func(n ast.Node) bool {
		if id, ok := n.(*ast.Ident); ok {
			if l := t.locals[id.Name]; l != nil && l.kind != c18LOpaque {
				c18Fail("%s mentions the component local %s", what, id.Name)
			}
			if id.Name == "w" {
				c18Fail("%s mentions w", what)
			}
		}
		return true
	})
}

// ---- component expressions ----

func c18IsCoreNew(e ast.Expr) (string, *ast.CallExpr) {
	call, ok := e.(*ast.CallExpr)
	if !ok {
		return "", nil
	}
	se, ok := call.Fun.(*ast.SelectorExpr)
	if !ok {
		return "", nil
	}
	if id, ok := se.X.(*ast.Ident); ok && id.Name == "core" && strings.HasPrefix(se.Sel.Name, "New") {
		return se.Sel.Name, call
	}
	return "", nil
}

type c18Chain struct {
	name string
	args []ast.Expr
}

// c18CoreRoot: core.NewX(…).M1(…).M2(…) → ("NewX", call, [M1, M2])
func c18CoreRoot(e ast.Expr) (string, *ast.CallExpr, []c18Chain) {
	if p, ok := e.(*ast.ParenExpr); ok {
		return c18CoreRoot(p.X)
	}
	if n, c := c18IsCoreNew(e); c != nil {
		return n, c, nil
	}
	call, ok := e.(*ast.CallExpr)
	if !ok {
		return "", nil, nil
	}
	se, ok := call.Fun.(*ast.SelectorExpr)
	if !ok {
		return "", nil, nil
	}
	n, c, chain := c18CoreRoot(se.X)
	if c == nil {
		return "", nil, nil
	}
	return n, c, append(chain, c18Chain{se.Sel.Name, call.Args})
}

func c18IsSliceType(e ast.Expr) bool {
	at, ok := e.(*ast.ArrayType)
	if !ok || at.Len != nil {
		return false
	}
	s := c18FullText(at.Elt)
	return strings.HasPrefix(s, "core.") || strings.HasPrefix(s, "*core.")
}

func (t *c18Tr) kidHole(e ast.Expr) string {
	t.noCompLocals(e, "child component expression")
	return fmt.Sprintf("(.kid %d)", t.hole(3, t.describe(e)))
}

func (t *c18Tr) comp(e ast.Expr) string {
	switch x := e.(type) {
	case *ast.ParenExpr:
		return t.comp(x.X)
	case *ast.Ident:
		if l := t.locals[x.Name]; l != nil {
			switch l.kind {
			case c18LProg:
				return l.prog
			case c18LSlice:
				c18Fail("slice local %s in a component position", x.Name)
			case c18LForbidden:
				c18Fail("element mentions the component local %s of the enclosing body", x.Name)
			}
			return t.kidHole(e)
		}
		if x.Name == "nil" {
			return ".nil"
		}
		return t.kidHole(e)
	case *ast.CallExpr:
		if id, ok := x.Fun.(*ast.Ident); ok && id.Name == "writeNothing" && len(x.Args) == 0 {
			return ".nil"
		}
		if name, call, chain := c18CoreRoot(e); call != nil {
			return t.core(name, call, chain)
		}
	}
	return t.kidHole(e)
}

// comps: a variadic list of components (`xs...` with a slice local is the concatenation of its elements)
func (t *c18Tr) comps(args []ast.Expr, ellipsis bool) []string {
	var out []string
	for i, a := range args {
		if ellipsis && i == len(args)-1 {
			out = append(out, t.slice(a)...)
			continue
		}
		out = append(out, t.comp(a))
	}
	return out
}

func (t *c18Tr) slice(e ast.Expr) []string {
	switch x := e.(type) {
	case *ast.Ident:
		if l := t.locals[x.Name]; l != nil && l.kind == c18LSlice {
			return append([]string{}, l.elems...)
		}
	case *ast.CompositeLit:
		if c18IsSliceType(x.Type) {
			var out []string
			for _, el := range x.Elts {
				out = append(out, t.comp(el))
			}
			return out
		}
	}
	c18Fail("slice argument %s is neither a slice local nor a literal", c18ExprText(e))
	return nil
}

func c18LeanList(xs []string) string { return "[" + strings.Join(xs, ", ") + "]" }
func c18Seqs(xs []string) string     { return "(Prog.seqs " + c18LeanList(xs) + ")" }

// the constructors of html/core: parameter kinds s(tring) c(omponent) i(nt) b(ool) a(ttrs)
// C (slice of components); a trailing * marks the variadic parameter
var c18CtorKinds = map[string]string{
	"NewText": "s", "NewHTML": "s", "NewAnchor": "s", "NewTableHead": "s*", "NewNumber": "i",
	"NewTag": "sac", "NewTableCell": "c", "NewTable": "sc*", "NewTableRow": "c*", "NewRow": "c*",
	"NewPage": "scs", "NewComponents": "c*", "NewDiv": "sc", "NewSpan": "sc", "NewHeading": "isc",
	"NewColumn": "ic", "NewBadgePill": "ssc", "NewCountBadge": "i", "NewBigTitle": "ic",
	"NewCard": "cic", "NewEmpty": "", "NewLineBreak": "", "NewHorizontalRule": "",
	"NewHorizontalRuleRow": "", "NewSpace": "", "NewLink": "cs", "NewKeyedTableRow": "scb",
	"NewLines": "c*", "NewNavLink": "ssb", "NewNavItem": "cbs", "NewNavPills": "C",
	"NewNavPillsRow": "C", "NewNavTabs": "C", "NewOcticon": "ss",
}

func (t *c18Tr) checkSig(name string, call *ast.CallExpr) {
	kinds, ok := c18CtorKinds[name]
	if !ok {
		c18Fail("core.%s is outside the fragment", name)
	}
	sig, ok := t.sigs[name]
	if !ok {
		c18Fail("core.%s has no signature in html/core", name)
	}
	variadic := strings.HasSuffix(kinds, "*")
	ks := strings.TrimSuffix(kinds, "*")
	if len(ks) != len(sig.params) || variadic != sig.variadic {
		c18Fail("signature of core.%s changed", name)
	}
	for i, k := range ks {
		want := map[rune]string{'s': "string", 'c': "component", 'C': "component", 'i': "other", 'b': "other", 'a': "attrs"}[k]
		if sig.params[i] != want {
			c18Fail("signature of core.%s changed (parameter %d)", name, i)
		}
	}
	if variadic {
		if len(call.Args) < len(ks)-1 {
			c18Fail("core.%s: too few arguments", name)
		}
	} else if len(call.Args) != len(ks) {
		c18Fail("core.%s: %d arguments", name, len(call.Args))
	}
	if call.Ellipsis.IsValid() && !variadic {
		c18Fail("core.%s: unexpected ...", name)
	}
}

func (t *c18Tr) litArg(e ast.Expr, what string) string {
	v, ok := t.strLit(e)
	if !ok {
		c18Fail("%s is not a literal: %s", what, c18ExprText(e))
	}
	return v
}

func (t *c18Tr) intArg(e ast.Expr, what string) int {
	n, ok := t.intConst(e)
	if !ok {
		c18Fail("%s is not an integer literal: %s", what, c18ExprText(e))
	}
	return n
}

func (t *c18Tr) navAnchor(active ast.Expr, href ast.Expr, body func() string) string {
	lit, isLit, b := t.bexp(active)
	h := t.sexp(href)
	bd := body()
	if isLit {
		return fmt.Sprintf("(Prog.navAnchor %v %s %s)", lit, h, bd)
	}
	return fmt.Sprintf("(.cond %d (Prog.navAnchor true %s %s) (Prog.navAnchor false %s %s))", b, h, bd, h, bd)
}

func (t *c18Tr) core(name string, call *ast.CallExpr, chain []c18Chain) string {
	t.checkSig(name, call)
	a := call.Args
	ell := call.Ellipsis.IsValid()
	if len(chain) > 0 && name != "NewTableCell" && name != "NewLink" {
		c18Fail("method %s on core.%s is outside the fragment", chain[0].name, name)
	}
	switch name {
	case "NewText":
		return "(.text " + t.sexp(a[0]) + ")"
	case "NewHTML":
		return "(.raw " + t.rexp(a[0], "NewHTML.0") + ")"
	case "NewAnchor":
		return "(.anchor " + t.sexp(a[0]) + ")"
	case "NewTableHead":
		if ell {
			c18Fail("core.NewTableHead(xs...)")
		}
		var cols []string
		for _, x := range a {
			cols = append(cols, t.sexp(x))
		}
		return "(.tableHead " + c18LeanList(cols) + ")"
	case "NewNumber":
		return "(.number " + t.iexp(a[0]) + ")"
	case "NewCountBadge":
		return "(Prog.countBadge " + t.iexp(a[0]) + ")"
	case "NewTag":
		tag := t.litArg(a[0], "tag name")
		type kv struct{ k, v string }
		var kvs []kv
		switch m := a[1].(type) {
		case *ast.Ident:
			if m.Name != "nil" || t.locals["nil"] != nil {
				c18Fail("attributes of core.NewTag are not a map literal: %s", c18ExprText(a[1]))
			}
		case *ast.CompositeLit:
			for _, el := range m.Elts {
				p, ok := el.(*ast.KeyValueExpr)
				if !ok {
					c18Fail("attributes of core.NewTag: element without key")
				}
				bl, ok := p.Key.(*ast.BasicLit)
				if !ok || bl.Kind != token.STRING {
					c18Fail("attribute name is not a string literal: %s", c18ExprText(p.Key))
				}
				k, _ := strconv.Unquote(bl.Value)
				kvs = append(kvs, kv{k, t.sexp(p.Value)})
			}
		default:
			c18Fail("attributes of core.NewTag are not a map literal: %s", c18ExprText(a[1]))
		}
		sort.SliceStable(kvs, func(i, j int) bool { return kvs[i].k < kvs[j].k })
		for i := 1; i < len(kvs); i++ {
			if kvs[i].k == kvs[i-1].k {
				c18Fail("duplicate attribute name %q", kvs[i].k)
			}
		}
		var ps []string
		for _, p := range kvs {
			ps = append(ps, "("+c18LeanBytes(p.k)+", "+p.v+")")
		}
		return "(.tag " + c18LeanBytes(tag) + " " + c18LeanList(ps) + " " + c18Seqs([]string{t.comp(a[2])}) + ")"
	case "NewTableCell":
		hdr, noWrap, cls, style := false, false, "", ""
		body := t.comp(a[0])
		for _, m := range chain {
			switch {
			case m.name == "Header" && len(m.args) == 0:
				hdr = true
			case m.name == "NoWrap" && len(m.args) == 0:
				noWrap = true
			case m.name == "Class" && len(m.args) == 1:
				cls = t.litArg(m.args[0], "class of a table cell")
			case m.name == "Style" && len(m.args) == 1:
				style = t.litArg(m.args[0], "style of a table cell")
			default:
				c18Fail("method %s on core.NewTableCell", m.name)
			}
		}
		return fmt.Sprintf("(.cell %v %s %v %s %s)", hdr, c18LeanBytes(cls), noWrap, c18LeanBytes(style), body)
	case "NewTable":
		cls := t.litArg(a[0], "class of a table")
		return "(.table " + c18LeanBytes(cls) + " " + c18Seqs([]string{c18Seqs(t.comps(a[1:], ell))}) + ")"
	case "NewTableRow":
		return "(.tableRow " + c18Seqs(t.comps(a, ell)) + ")"
	case "NewRow":
		return "(.row " + c18Seqs(t.comps(a, ell)) + ")"
	case "NewComponents":
		return c18Seqs(t.comps(a, ell))
	case "NewLines":
		return c18Seqs([]string{"(Prog.lines " + c18LeanList(t.comps(a, ell)) + ")"})
	case "NewPage":
		title := t.sexp(a[0])
		ga := "none"
		if v, ok := t.strLit(a[2]); ok {
			if v != "" {
				c18Fail("Google Analytics id is a non-empty literal")
			}
		} else {
			t.noCompLocals(a[2], "Google Analytics id")
			id := c18SinkCall{File: t.file, Func: t.typ + ".WriteHTMLTo", Sink: "NewPage.2", Expr: c18ExprText(a[2])}.ID()
			if t.p.UsesGA && t.p.GAID != id {
				c18Fail("two different Google Analytics expressions")
			}
			t.p.UsesGA, t.p.GAID, t.p.GADesc = true, id, "NewPage.2("+t.describe(a[2])+")"
			ga = fmt.Sprintf("(some %d)", id)
		}
		return "(.page " + title + " " + ga + " " + t.comp(a[1]) + ")"
	case "NewDiv":
		return "(Prog.div " + t.sexp(a[0]) + " " + c18Seqs([]string{t.comp(a[1])}) + ")"
	case "NewSpan":
		return "(Prog.span " + t.sexp(a[0]) + " " + c18Seqs([]string{t.comp(a[1])}) + ")"
	case "NewHeading":
		n := t.intArg(a[0], "heading level")
		return "(Prog.heading " + c18LeanInt(n) + " " + t.sexp(a[1]) + " " + c18Seqs([]string{t.comp(a[2])}) + ")"
	case "NewColumn":
		n := t.intArg(a[0], "column width")
		return "(Prog.column " + c18LeanInt(n) + " " + c18Seqs([]string{t.comp(a[1])}) + ")"
	case "NewBadgePill":
		return "(Prog.badgePill " + t.sexp(a[0]) + " " + t.sexp(a[1]) + " " + c18Seqs([]string{t.comp(a[2])}) + ")"
	case "NewBigTitle":
		n := t.intArg(a[0], "title size")
		return "(Prog.bigTitle " + c18LeanInt(n) + " " + t.comp(a[1]) + ")"
	case "NewCard":
		title := t.comp(a[0])
		if n, ok := t.intConst(a[1]); ok {
			body := t.comp(a[2])
			if n == t.coreInts["CardNoBadgeCount"] {
				return "(Prog.cardNoCount " + title + " " + body + ")"
			}
			return "(Prog.cardCount " + title + " (.lit " + c18LeanInt(n) + ") " + body + ")"
		}
		// a length is never CardNoBadgeCount (-1); any other expression can be
		isLen := false
		if c, ok := a[1].(*ast.CallExpr); ok {
			if id, ok := c.Fun.(*ast.Ident); ok && id.Name == "len" && t.locals["len"] == nil {
				isLen = true
			}
		}
		if isLen {
			if id, ok := a[1].(*ast.CallExpr).Args[0].(*ast.Ident); ok {
				if l := t.locals[id.Name]; l != nil && l.kind == c18LSlice {
					c18Fail("card count is the length of the slice local %s", id.Name)
				}
			}
			n := t.iexp(a[1])
			return "(Prog.cardCount " + title + " " + n + " " + t.comp(a[2]) + ")"
		}
		t.noCompLocals(a[1], "card count")
		b := t.hole(2, t.describe(a[1])+" == core.CardNoBadgeCount")
		n := t.iexp(a[1])
		body := t.comp(a[2])
		return fmt.Sprintf("(.cond %d (Prog.cardNoCount %s %s) (Prog.cardCount %s %s %s))", b, title, body, title, n, body)
	case "NewEmpty":
		return "Prog.empty"
	case "NewLineBreak":
		return "Prog.lineBreak"
	case "NewHorizontalRule":
		return "Prog.horizontalRule"
	case "NewHorizontalRuleRow":
		return "Prog.horizontalRuleRow"
	case "NewSpace":
		return "Prog.space"
	case "NewLink":
		body := c18Seqs([]string{t.comp(a[0])})
		dest := t.sexp(a[1])
		style := "(.lit [])"
		for _, m := range chain {
			if m.name != "Style" || len(m.args) != 1 {
				c18Fail("method %s on core.NewLink", m.name)
			}
			style = t.sexp(m.args[0])
		}
		return "(Prog.link " + body + " " + dest + " " + style + ")"
	case "NewKeyedTableRow":
		lit, isLit, b := t.bexp(a[2])
		title := t.sexp(a[0])
		v := t.comp(a[1])
		if isLit {
			if lit {
				return "(Prog.keyedRow " + title + " " + v + ")"
			}
			return ".nil"
		}
		return fmt.Sprintf("(.cond %d (Prog.keyedRow %s %s) .nil)", b, title, v)
	case "NewNavLink":
		return t.navAnchor(a[2], a[1], func() string { return "(.text " + t.sexp(a[0]) + ")" })
	case "NewNavItem":
		return t.navAnchor(a[1], a[2], func() string { return c18Seqs([]string{t.comp(a[0])}) })
	case "NewNavPills":
		return "(Prog.navPills " + c18Seqs(t.slice(a[0])) + ")"
	case "NewNavPillsRow":
		return "(Prog.navPillsRow " + c18Seqs(t.slice(a[0])) + ")"
	case "NewNavTabs":
		return "(Prog.navTabs " + c18Seqs(t.slice(a[0])) + ")"
	case "NewOcticon":
		return "(Prog.octicon " + t.sexp(a[0]) + " " + t.sexp(a[1]) + ")"
	}
	c18Fail("core.%s is outside the fragment", name)
	return ""
}

// ---- statements ----

func (t *c18Tr) snapshot() map[string]*c18Local {
	m := map[string]*c18Local{}
	for k, l := range t.locals {
		c := *l
		c.elems = append([]string{}, l.elems...)
		m[k] = &c
	}
	return m
}

func (t *c18Tr) bindOne(name string, rhs ast.Expr, def string) {
	if name == "_" {
		return
	}
	if name == "w" {
		c18Fail("w is rebound")
	}
	if rhs != nil {
		if cl, ok := rhs.(*ast.CompositeLit); ok && c18IsSliceType(cl.Type) {
			t.locals[name] = &c18Local{kind: c18LSlice, elems: t.slice(rhs)}
			return
		}
		if n, call, chain := c18CoreRoot(rhs); call != nil {
			t.locals[name] = &c18Local{kind: c18LProg, prog: t.core(n, call, chain)}
			return
		}
		if id, ok := rhs.(*ast.Ident); ok {
			if l := t.locals[id.Name]; l != nil && l.kind != c18LOpaque {
				c := *l
				c.elems = append([]string{}, l.elems...)
				t.locals[name] = &c
				return
			}
		}
		t.noCompLocals(rhs, "definition of "+name)
		if bl, ok := rhs.(*ast.BasicLit); ok && bl.Kind == token.STRING {
			if v, err := strconv.Unquote(bl.Value); err == nil {
				t.locals[name] = &c18Local{kind: c18LOpaque, def: def, lit: &v}
				return
			}
		}
	}
	t.locals[name] = &c18Local{kind: c18LOpaque, def: def}
}

func (t *c18Tr) bind(s ast.Stmt) bool {
	switch x := s.(type) {
	case *ast.AssignStmt:
		if x.Tok != token.DEFINE {
			return false
		}
		var names []string
		for _, l := range x.Lhs {
			id, ok := l.(*ast.Ident)
			if !ok {
				c18Fail("definition of a non-identifier")
			}
			names = append(names, id.Name)
		}
		if len(x.Lhs) == len(x.Rhs) {
			for i := range names {
				t.bindOne(names[i], x.Rhs[i], c18FullText(x.Rhs[i]))
			}
			return true
		}
		if len(x.Rhs) == 1 {
			t.noCompLocals(x.Rhs[0], "definition")
			for i := range names {
				t.bindOne(names[i], nil, fmt.Sprintf("%s [result %d]", c18FullText(x.Rhs[0]), i))
			}
			return true
		}
		c18Fail("unbalanced definition")
	case *ast.DeclStmt:
		gd, ok := x.Decl.(*ast.GenDecl)
		if !ok || gd.Tok != token.VAR {
			return false
		}
		for _, sp := range gd.Specs {
			vs := sp.(*ast.ValueSpec)
			for i, id := range vs.Names {
				switch {
				case i < len(vs.Values) && len(vs.Values) == len(vs.Names):
					t.bindOne(id.Name, vs.Values[i], c18FullText(vs.Values[i]))
				case len(vs.Values) == 0 && vs.Type != nil && c18IsSliceType(vs.Type):
					t.locals[id.Name] = &c18Local{kind: c18LSlice}
				case len(vs.Values) == 0:
					t.bindOne(id.Name, nil, "zero value of "+c18FullText(vs.Type))
				default:
					c18Fail("unbalanced var declaration")
				}
			}
		}
		return true
	}
	return false
}

// appendTo: `x = append(x, e…)` with x a slice local
func (t *c18Tr) appendTo(s ast.Stmt) (string, []ast.Expr, bool) {
	as, ok := s.(*ast.AssignStmt)
	if !ok || as.Tok != token.ASSIGN || len(as.Lhs) != 1 || len(as.Rhs) != 1 {
		return "", nil, false
	}
	id, ok := as.Lhs[0].(*ast.Ident)
	if !ok {
		return "", nil, false
	}
	l := t.locals[id.Name]
	if l == nil || l.kind != c18LSlice {
		return "", nil, false
	}
	call, ok := as.Rhs[0].(*ast.CallExpr)
	if !ok || call.Ellipsis.IsValid() || len(call.Args) < 1 {
		return "", nil, false
	}
	if f, ok := call.Fun.(*ast.Ident); !ok || f.Name != "append" || t.locals["append"] != nil {
		return "", nil, false
	}
	if a0, ok := call.Args[0].(*ast.Ident); !ok || a0.Name != id.Name {
		return "", nil, false
	}
	return id.Name, call.Args[1:], true
}

// bindsThenAppend: a block of local definitions followed by exactly one append to a slice local
func (t *c18Tr) bindsThenAppend(stmts []ast.Stmt) (string, []ast.Expr, bool) {
	if len(stmts) == 0 {
		return "", nil, false
	}
	name, args, ok := t.appendTo(stmts[len(stmts)-1])
	if !ok {
		return "", nil, false
	}
	for _, s := range stmts[:len(stmts)-1] {
		as, isDef := s.(*ast.AssignStmt)
		if !isDef || as.Tok != token.DEFINE {
			return "", nil, false
		}
	}
	return name, args, true
}

func c18StmtKind(s ast.Stmt) string {
	switch s.(type) {
	case *ast.SwitchStmt, *ast.TypeSwitchStmt:
		return "switch"
	case *ast.IfStmt:
		return "if"
	case *ast.ForStmt, *ast.RangeStmt:
		return "loop"
	case *ast.AssignStmt:
		return "assignment"
	case *ast.ExprStmt:
		return "call statement"
	case *ast.IncDecStmt:
		return "increment"
	}
	return fmt.Sprintf("%T", s)
}

// opaque: a statement that only computes values — no return, no use of w, no mention of a local
// bound to a Prog or a slice; assignments to value locals are recorded
func (t *c18Tr) opaque(s ast.Stmt) {
	kind := c18StmtKind(s)
	var walk func(n ast.Node, inLit bool)
	walk = func(n ast.Node, inLit bool) {
		ast.Inspect(n, func(m ast.Node) bool {
			switch x := m.(type) {
			case *ast.FuncLit:
				if !inLit {
					walk(x.Body, true)
					return false
				}
			case *ast.ReturnStmt:
				if !inLit {
					c18Fail("return inside %s", kind)
				}
			case *ast.BranchStmt:
				if x.Tok == token.GOTO {
					c18Fail("goto")
				}
			case *ast.Ident:
				if x.Name == "w" {
					c18Fail("%s writes to w directly", kind)
				}
				if l := t.locals[x.Name]; l != nil && l.kind != c18LOpaque {
					c18Fail("%s touches the component local %s", kind, x.Name)
				}
			case *ast.AssignStmt:
				if x.Tok != token.DEFINE {
					for _, l := range x.Lhs {
						for {
							switch y := l.(type) {
							case *ast.IndexExpr:
								l = y.X
								continue
							case *ast.SelectorExpr:
								l = y.X
								continue
							case *ast.StarExpr:
								l = y.X
								continue
							case *ast.ParenExpr:
								l = y.X
								continue
							}
							break
						}
						if id, ok := l.(*ast.Ident); ok {
							if loc := t.locals[id.Name]; loc != nil {
								loc.ver++
							}
						}
					}
				}
			case *ast.IncDecStmt:
				if id, ok := x.X.(*ast.Ident); ok {
					if loc := t.locals[id.Name]; loc != nil {
						loc.ver++
					}
				}
			case *ast.UnaryExpr:
				if id, ok := x.X.(*ast.Ident); ok && x.Op == token.AND {
					if loc := t.locals[id.Name]; loc != nil {
						loc.ver++
					}
				}
			}
			return true
		})
	}
	walk(s, false)
}

func c18EndsWithReturn(b *ast.BlockStmt) bool {
	if len(b.List) == 0 {
		return false
	}
	_, ok := b.List[len(b.List)-1].(*ast.ReturnStmt)
	return ok
}

func (t *c18Tr) ret(r *ast.ReturnStmt) string {
	if len(r.Results) != 1 {
		c18Fail("return of %d values", len(r.Results))
	}
	call, ok := r.Results[0].(*ast.CallExpr)
	if !ok {
		c18Fail("return of %s", c18ExprText(r.Results[0]))
	}
	if id, ok := call.Fun.(*ast.Ident); ok && id.Name == "writeNothing" && len(call.Args) == 0 {
		return ".nil"
	}
	if se, ok := call.Fun.(*ast.SelectorExpr); ok && se.Sel.Name == "WriteHTMLTo" && len(call.Args) == 1 {
		if a, ok := call.Args[0].(*ast.Ident); ok && a.Name == "w" {
			return t.comp(se.X)
		}
	}
	// the raw write helpers of package html: everything after the writer is written as it is
	if id, ok := call.Fun.(*ast.Ident); ok && t.locals[id.Name] == nil && len(call.Args) >= 2 && !call.Ellipsis.IsValid() {
		if a, ok := call.Args[0].(*ast.Ident); ok && a.Name == "w" {
			switch id.Name {
			case "writeString":
				if len(call.Args) == 2 {
					return "(.raw " + t.rexp(call.Args[1], "html.writeString") + ")"
				}
			case "writeSprintf":
				return c18Seqs(t.sprintfPieces(call.Args[1:], "html.writeSprintf"))
			}
		}
	}
	c18Fail("return of %s", c18ExprText(r.Results[0]))
	return ""
}

// sprintfPieces: the literal pieces of the format and one raw hole per argument
func (t *c18Tr) sprintfPieces(a []ast.Expr, sink string) []string {
	format, ok := t.strLit(a[0])
	if !ok {
		c18Fail("format of a Sprintf helper is not a literal")
	}
	args := a[1:]
	var parts []string
	lit := ""
	flush := func() {
		if lit != "" {
			parts = append(parts, "(.raw (.lit "+c18LeanBytes(lit)+"))")
			lit = ""
		}
	}
	for i := 0; i < len(format); i++ {
		if format[i] != '%' {
			lit += string(format[i])
			continue
		}
		i++
		if i >= len(format) {
			c18Fail("format ends in %%")
		}
		switch format[i] {
		case '%':
			lit += "%"
		case 's', 'd':
			if len(args) == 0 {
				c18Fail("format has more verbs than arguments")
			}
			flush()
			parts = append(parts, "(.raw "+t.rexp(args[0], sink)+")")
			args = args[1:]
		default:
			c18Fail("verb %%%c in a Sprintf helper", format[i])
		}
	}
	flush()
	if len(args) != 0 {
		c18Fail("format has fewer verbs than arguments")
	}
	return parts
}

// writerStmt: `n += appendString(w, e)` / `appendComponent(w, x)` / `appendSprintf(w, fmt, …)` — the
// body writes piece by piece; the pieces are collected under the name of the writer
func (t *c18Tr) writerStmt(s ast.Stmt) ([]string, bool) {
	as, ok := s.(*ast.AssignStmt)
	if !ok || as.Tok != token.ADD_ASSIGN || len(as.Lhs) != 1 || len(as.Rhs) != 1 {
		return nil, false
	}
	n, ok := as.Lhs[0].(*ast.Ident)
	if !ok || t.locals[n.Name] == nil || t.locals[n.Name].kind != c18LOpaque {
		return nil, false
	}
	call, ok := as.Rhs[0].(*ast.CallExpr)
	if !ok || len(call.Args) < 2 || call.Ellipsis.IsValid() {
		return nil, false
	}
	f, ok := call.Fun.(*ast.Ident)
	if !ok || t.locals[f.Name] != nil {
		return nil, false
	}
	if a, ok := call.Args[0].(*ast.Ident); !ok || a.Name != "w" {
		return nil, false
	}
	if l := t.locals["w"]; l == nil || l.kind != c18LSlice {
		return nil, false
	}
	var out []string
	switch {
	case f.Name == "appendString" && len(call.Args) == 2:
		out = []string{"(.raw " + t.rexp(call.Args[1], "html.appendString") + ")"}
	case f.Name == "appendComponent" && len(call.Args) == 2:
		out = []string{t.comp(call.Args[1])}
	case f.Name == "appendSprintf":
		out = t.sprintfPieces(call.Args[1:], "html.appendSprintf")
	default:
		return nil, false
	}
	t.locals[n.Name].ver++
	return out, true
}

// c18IsCondAppend: `if cond { defs…; xs = append(xs, e…) }`, handled as a conditional element
func c18IsCondAppend(t *c18Tr, is *ast.IfStmt) bool {
	if is.Init != nil || is.Else != nil {
		return false
	}
	_, _, ok := t.bindsThenAppend(is.Body.List)
	return ok
}

func c18HasReturn(n ast.Node) bool {
	found := false
	ast.Inspect(n, func(m ast.Node) bool {
		if _, isLit := m.(*ast.FuncLit); isLit {
			return false
		}
		if _, ok := m.(*ast.ReturnStmt); ok {
			found = true
		}
		return !found
	})
	return found
}

func c18Concat(a, b []ast.Stmt) []ast.Stmt {
	out := make([]ast.Stmt, 0, len(a)+len(b))
	return append(append(out, a...), b...)
}

func c18CloneLocals(m map[string]*c18Local) map[string]*c18Local {
	out := map[string]*c18Local{}
	for k, l := range m {
		c := *l
		c.elems = append([]string{}, l.elems...)
		out[k] = &c
	}
	return out
}

// noShadow: the statements of a branch are translated in one list with what follows the branch, so
// a definition inside the branch must not hide a local of the enclosing body
func (t *c18Tr) noShadow(stmts []ast.Stmt) {
	for _, s := range stmts {
		switch x := s.(type) {
		case *ast.AssignStmt:
			if x.Tok == token.DEFINE {
				for _, l := range x.Lhs {
					if id, ok := l.(*ast.Ident); ok && id.Name != "_" && t.locals[id.Name] != nil {
						c18Fail("a branch that returns redefines %s", id.Name)
					}
				}
			}
		case *ast.DeclStmt:
			if gd, ok := x.Decl.(*ast.GenDecl); ok {
				for _, sp := range gd.Specs {
					if vs, ok := sp.(*ast.ValueSpec); ok {
						for _, id := range vs.Names {
							if t.locals[id.Name] != nil {
								c18Fail("a branch that returns redefines %s", id.Name)
							}
						}
					}
				}
			}
		}
	}
}

func c18Mentions(e ast.Expr, name string) bool {
	found := false
	ast.Inspect(e, func(n ast.Node) bool {
		if id, ok := n.(*ast.Ident); ok && id.Name == name {
			found = true
		}
		return true
	})
	return found
}

func (t *c18Tr) block(stmts []ast.Stmt) string {
	for i, s := range stmts {
		if r, ok := s.(*ast.ReturnStmt); ok {
			if t.item != "" {
				c18Fail("return inside a loop")
			}
			var written []string
			if l := t.locals["w"]; l != nil && l.kind == c18LSlice {
				written = l.elems
			}
			// `return n, nil` after the pieces were written one by one
			if len(r.Results) == 2 {
				if id, ok := r.Results[0].(*ast.Ident); ok && t.locals[id.Name] != nil && t.locals[id.Name].kind == c18LOpaque {
					if e, ok := r.Results[1].(*ast.Ident); ok && e.Name == "nil" && t.locals["nil"] == nil {
						return c18Seqs(written)
					}
				}
			}
			if len(written) > 0 {
				return c18Seqs(append(append([]string{}, written...), t.ret(r)))
			}
			return t.ret(r)
		}
		if pieces, ok := t.writerStmt(s); ok {
			t.locals["w"].elems = append(t.locals["w"].elems, pieces...)
			continue
		}
		if br, ok := s.(*ast.BranchStmt); ok && t.item != "" && br.Tok == token.CONTINUE && br.Label == nil {
			return c18Seqs(t.locals[t.item].elems) // the end of this iteration
		}
		if t.bind(s) {
			continue
		}
		if name, args, ok := t.appendTo(s); ok {
			l := t.locals[name]
			l.elems = append(l.elems, t.comps(args, false)...)
			continue
		}
		if rs, ok := s.(*ast.RangeStmt); ok {
			if name, args, ok := t.bindsThenAppend(rs.Body.List); ok {
				t.noCompLocals(rs.X, "range expression")
				saved := t.snapshot()
				for _, kv := range []ast.Expr{rs.Key, rs.Value} {
					if id, ok := kv.(*ast.Ident); ok && id.Name != "_" {
						t.locals[id.Name] = &c18Local{kind: c18LOpaque, def: "element of " + c18FullText(rs.X)}
					}
				}
				// the loop-local definitions are only used for the description
				for _, b := range rs.Body.List[:len(rs.Body.List)-1] {
					as := b.(*ast.AssignStmt)
					for j, l := range as.Lhs {
						if id, ok := l.(*ast.Ident); ok && id.Name != "_" {
							def := c18FullText(as.Rhs[0])
							if len(as.Lhs) == len(as.Rhs) {
								def = c18FullText(as.Rhs[j])
							} else {
								def += fmt.Sprintf(" [result %d]", j)
							}
							for _, rhs := range as.Rhs {
								t.noCompLocals(rhs, "loop-local definition")
							}
							t.locals[id.Name] = &c18Local{kind: c18LOpaque, def: def}
						}
					}
				}
				var ds []string
				for _, a := range args {
					t.noCompLocals(a, "loop element")
					ds = append(ds, t.describeLoopElem(a))
				}
				desc := "range " + c18FullText(rs.X) + ": " + strings.Join(ds, ", ")
				t.locals = saved
				if item := t.itemProgram(rs, args); item != "" {
					desc = "range " + c18FullText(rs.X) + ": every element is the program " + item + " = " + strings.Join(ds, ", ")
				}
				desc += t.whereExpr(rs.X, map[string]bool{})
				k := t.hole(4, desc)
				t.locals[name].elems = append(t.locals[name].elems, fmt.Sprintf("(.kids %d)", k))
				continue
			}
			if name, item := t.loopItem(rs); item != "" {
				desc := "range " + c18FullText(rs.X) + ": every iteration is the program " + item + t.whereExpr(rs.X, map[string]bool{})
				t.markAssigned(rs.Body)
				k := t.hole(4, desc)
				t.locals[name].elems = append(t.locals[name].elems, fmt.Sprintf("(.kids %d)", k))
				continue
			}
		}
		// `x = e` at the top level of the path that is being translated: a new definition of x
		if as, ok := s.(*ast.AssignStmt); ok && as.Tok == token.ASSIGN && len(as.Lhs) == 1 && len(as.Rhs) == 1 {
			if id, ok := as.Lhs[0].(*ast.Ident); ok && t.locals[id.Name] != nil && t.locals[id.Name].kind != c18LForbidden {
				if t.locals[id.Name].kind == c18LSlice {
					if cl, ok := as.Rhs[0].(*ast.CompositeLit); !ok || !c18IsSliceType(cl.Type) {
						c18Fail("assignment to the slice local %s", id.Name)
					}
				}
				if rid, ok := as.Rhs[0].(*ast.Ident); ok && rid.Name == "nil" && t.locals["nil"] == nil && t.locals[id.Name].kind == c18LProg {
					t.locals[id.Name] = &c18Local{kind: c18LProg, prog: ".nil"} // core.NewComponents drops a nil item
					continue
				}
				if !c18Mentions(as.Rhs[0], id.Name) { // `x = f(x)` stays an opaque reassignment
					t.bindOne(id.Name, as.Rhs[0], c18FullText(as.Rhs[0]))
					continue
				}
			}
		}
		// a branch that can return: translated by continuation, `.cond b (body ++ rest) rest`
		if is, ok := s.(*ast.IfStmt); ok && (t.exits(is) || (t.touches(is) && !c18IsCondAppend(t, is)) || t.assignsLit(is)) {
			rest := stmts[i+1:]
			thenStmts := c18Concat(is.Body.List, rest)
			if is.Init != nil {
				if is.Else != nil {
					c18Fail("if with an initialiser and an else")
				}
				t.noShadow([]ast.Stmt{is.Init})
				saved := t.snapshot()
				if !t.bind(is.Init) {
					c18Fail("if with an initialiser that is not a definition")
				}
				d := t.condDesc(is.Cond)
				t.locals = saved
				b := t.hole(2, d)
				t.noShadow(is.Body.List)
				base := t.snapshot()
				then := t.block(c18Concat([]ast.Stmt{is.Init}, thenStmts))
				t.locals = base
				return fmt.Sprintf("(.cond %d %s %s)", b, then, t.block(rest))
			}
			b := t.hole(2, t.condDesc(is.Cond))
			t.noShadow(is.Body.List)
			base := t.snapshot()
			then := t.block(thenStmts)
			t.locals = base
			var els []ast.Stmt
			switch e := is.Else.(type) {
			case nil:
				els = rest
			case *ast.BlockStmt:
				t.noShadow(e.List)
				els = c18Concat(e.List, rest)
			default:
				els = c18Concat([]ast.Stmt{e}, rest)
			}
			return fmt.Sprintf("(.cond %d %s %s)", b, then, t.block(els))
		}
		if sw, ok := s.(*ast.SwitchStmt); ok && (t.exits(sw) || t.touches(sw) || t.assignsLit(sw)) {
			if sw.Init != nil {
				c18Fail("switch with an initialiser and a return")
			}
			tag := ""
			if sw.Tag != nil {
				t.noCompLocals(sw.Tag, "switch tag")
				tag = c18FullText(sw.Tag)
			}
			rest := stmts[i+1:]
			type arm struct {
				desc string
				body []ast.Stmt
			}
			var arms []arm
			var deflt []ast.Stmt
			for _, cs := range sw.Body.List {
				cc := cs.(*ast.CaseClause)
				for _, b := range cc.Body {
					ast.Inspect(b, func(n ast.Node) bool {
						if _, isLit := n.(*ast.FuncLit); isLit {
							return false
						}
						if _, isLoop := n.(*ast.ForStmt); isLoop {
							return false
						}
						if _, isLoop := n.(*ast.RangeStmt); isLoop {
							return false
						}
						if br, ok := n.(*ast.BranchStmt); ok && !(t.item != "" && br.Tok == token.CONTINUE && br.Label == nil) {
							c18Fail("%s inside a switch that returns", br.Tok)
						}
						return true
					})
				}
				t.noShadow(cc.Body)
				if cc.List == nil {
					deflt = cc.Body
					if deflt == nil {
						deflt = []ast.Stmt{}
					}
					continue
				}
				var ds []string
				for _, e := range cc.List {
					t.noCompLocals(e, "case expression")
					if sw.Tag != nil {
						ds = append(ds, tag+" == "+c18FullText(e))
					} else {
						ds = append(ds, c18FullText(e))
					}
				}
				d := strings.Join(ds, " || ")
				if sw.Tag != nil {
					d += t.whereExpr(sw.Tag, map[string]bool{})
				} else {
					seen := map[string]bool{}
					for _, e := range cc.List {
						d += t.whereExpr(e, seen)
					}
				}
				arms = append(arms, arm{d, cc.Body})
			}
			// cases that do nothing and are followed by nothing but the end of the switch
			if len(deflt) == 0 {
				for len(arms) > 0 && len(arms[len(arms)-1].body) == 0 {
					arms = arms[:len(arms)-1]
				}
			}
			base := t.snapshot()
			var build func(k int) string
			build = func(k int) string {
				if k == len(arms) {
					t.locals = c18CloneLocals(base)
					return t.block(c18Concat(deflt, rest))
				}
				b := t.hole(2, arms[k].desc)
				t.locals = c18CloneLocals(base)
				then := t.block(c18Concat(arms[k].body, rest))
				return fmt.Sprintf("(.cond %d %s %s)", b, then, build(k+1))
			}
			return build(0)
		}
		if is, ok := s.(*ast.IfStmt); ok && is.Init == nil && is.Else == nil {
			// `if cond { x := …; xs = append(xs, e) }`: a conditional element
			if name, args, ok := t.bindsThenAppend(is.Body.List); ok {
				t.noCompLocals(is.Cond, "condition")
				b := t.hole(2, t.describe(is.Cond))
				saved := t.snapshot()
				for _, d := range is.Body.List[:len(is.Body.List)-1] {
					t.bind(d)
				}
				if l := t.locals[name]; l == nil || l.kind != c18LSlice {
					c18Fail("conditional append: %s is shadowed", name)
				}
				els := t.comps(args, false)
				t.locals = saved
				t.locals[name].elems = append(t.locals[name].elems, fmt.Sprintf("(.cond %d %s .nil)", b, c18Seqs(els)))
				continue
			}
		}
		t.opaque(s)
	}
	if t.item != "" {
		return c18Seqs(t.locals[t.item].elems)
	}
	c18Fail("no final return")
	return ""
}

// exits: the statement can end the body that is being translated (a return; in a loop body also a
// `continue` of that loop)
func (t *c18Tr) exits(n ast.Node) bool {
	if c18HasReturn(n) {
		return true
	}
	if t.item == "" {
		return false
	}
	found := false
	ast.Inspect(n, func(m ast.Node) bool {
		switch x := m.(type) {
		case *ast.FuncLit, *ast.ForStmt, *ast.RangeStmt:
			return false
		case *ast.BranchStmt:
			if x.Tok == token.CONTINUE && x.Label == nil {
				found = true
			}
		}
		return !found
	})
	return found
}

// assignsLit: the statement gives a string literal to a value local that holds a literal — the
// branches are translated one by one, so that the local is a literal on every path
func (t *c18Tr) assignsLit(n ast.Node) bool {
	found := false
	ast.Inspect(n, func(m ast.Node) bool {
		switch x := m.(type) {
		case *ast.FuncLit, *ast.ForStmt, *ast.RangeStmt:
			return false
		case *ast.AssignStmt:
			if x.Tok == token.ASSIGN && len(x.Lhs) == 1 && len(x.Rhs) == 1 {
				if id, ok := x.Lhs[0].(*ast.Ident); ok {
					if l := t.locals[id.Name]; l != nil && l.kind == c18LOpaque && l.lit != nil {
						if bl, ok := x.Rhs[0].(*ast.BasicLit); ok && bl.Kind == token.STRING {
							found = true
						}
					}
				}
			}
		}
		return !found
	})
	return found
}

// touches: the statement mentions a local that is bound to a Prog or a slice
func (t *c18Tr) touches(n ast.Node) bool {
	found := false
	ast.Inspect(n, func(m ast.Node) bool {
		if id, ok := m.(*ast.Ident); ok {
			if l := t.locals[id.Name]; l != nil && l.kind != c18LOpaque {
				found = true
			}
		}
		return !found
	})
	return found
}

// condDesc: the description of a branch condition; a slice local may only occur as `len(xs)`
func (t *c18Tr) condDesc(cond ast.Expr) string {
	lens := map[*ast.Ident]bool{}
	var names []string
	ast.Inspect(cond, func(m ast.Node) bool {
		if c, ok := m.(*ast.CallExpr); ok && len(c.Args) == 1 {
			if f, ok := c.Fun.(*ast.Ident); ok && f.Name == "len" && t.locals["len"] == nil {
				if a, ok := c.Args[0].(*ast.Ident); ok {
					if l := t.locals[a.Name]; l != nil && l.kind == c18LSlice {
						lens[a] = true
						names = append(names, a.Name)
					}
				}
			}
		}
		return true
	})
	ast.Inspect(cond, func(m ast.Node) bool {
		if id, ok := m.(*ast.Ident); ok && !lens[id] {
			if l := t.locals[id.Name]; l != nil && l.kind != c18LOpaque {
				c18Fail("condition mentions the component local %s", id.Name)
			}
			if id.Name == "w" {
				c18Fail("condition mentions w")
			}
		}
		return true
	})
	d := t.describe(cond)
	for _, n := range names {
		d += fmt.Sprintf(" [%s: the components collected so far, %d fixed and the list holes]", n, len(t.locals[n].elems))
	}
	return d
}

// markAssigned: the value locals a statement assigns to have a new value afterwards
func (t *c18Tr) markAssigned(n ast.Node) {
	ast.Inspect(n, func(m ast.Node) bool {
		var lhs []ast.Expr
		switch x := m.(type) {
		case *ast.AssignStmt:
			if x.Tok != token.DEFINE {
				lhs = x.Lhs
			}
		case *ast.IncDecStmt:
			lhs = []ast.Expr{x.X}
		}
		for _, l := range lhs {
			for {
				switch y := l.(type) {
				case *ast.IndexExpr:
					l = y.X
					continue
				case *ast.SelectorExpr:
					l = y.X
					continue
				case *ast.StarExpr:
					l = y.X
					continue
				}
				break
			}
			if id, ok := l.(*ast.Ident); ok {
				if loc := t.locals[id.Name]; loc != nil && loc.kind == c18LOpaque {
					loc.ver++
				}
			}
		}
		return true
	})
}

// loopItem: a loop body outside the simple shape (several appends, conditional appends, `continue`)
// that builds one slice local: the body is a program of its own — what one iteration appends —
// and the loop contributes a list hole with one such program per iteration
func (t *c18Tr) loopItem(rs *ast.RangeStmt) (slice string, item string) {
	var names []string
	ast.Inspect(rs.Body, func(m ast.Node) bool {
		if id, ok := m.(*ast.Ident); ok {
			if l := t.locals[id.Name]; l != nil && l.kind != c18LOpaque {
				dup := false
				for _, n := range names {
					dup = dup || n == id.Name
				}
				if !dup {
					names = append(names, id.Name)
				}
			}
		}
		return true
	})
	if len(names) != 1 || t.locals[names[0]].kind != c18LSlice || t.item != "" {
		return "", ""
	}
	if c18HasReturn(rs.Body) || t.touches(rs.X) {
		return "", ""
	}
	p := c18PageProg{Name: fmt.Sprintf("%s_item%d", t.typ, len(t.items)), File: t.file,
		ItemOf: fmt.Sprintf("%s, what one iteration of `range %s` appends to %s", t.typ, c18FullText(rs.X), names[0])}
	sub := &c18Tr{file: t.file, typ: t.typ, sigs: t.sigs, consts: t.consts, coreInts: t.coreInts,
		locals: map[string]*c18Local{}, p: &p, item: names[0]}
	for i := range sub.idx {
		sub.idx[i] = map[string]int{}
	}
	for k, l := range t.locals {
		switch {
		case l.kind == c18LOpaque:
			c := *l
			sub.locals[k] = &c
		case k == names[0]:
			sub.locals[k] = &c18Local{kind: c18LSlice}
		default:
			sub.locals[k] = &c18Local{kind: c18LForbidden}
		}
	}
	for _, kv := range []ast.Expr{rs.Key, rs.Value} {
		if id, ok := kv.(*ast.Ident); ok && id.Name != "_" {
			sub.locals[id.Name] = &c18Local{kind: c18LOpaque, def: "element of " + c18FullText(rs.X)}
		}
	}
	ok := func() (ok bool) {
		defer func() {
			if r := recover(); r != nil {
				if _, isU := r.(c18Untr); !isU {
					panic(r)
				}
				ok = false
			}
		}()
		sub.markAssigned(rs.Body) // what the body assigns is carried from one iteration to the next
		p.Term = sub.block(rs.Body.List)
		return true
	}()
	if !ok || len(sub.items) > 0 {
		return "", ""
	}
	t.items = append(t.items, p)
	return names[0], p.Name
}

// c18BareHtmlNew: `NewX(…)` of package html — the element is the component X itself
func c18BareHtmlNew(e ast.Expr) bool {
	c, ok := e.(*ast.CallExpr)
	if !ok {
		return false
	}
	id, ok := c.Fun.(*ast.Ident)
	return ok && strings.HasPrefix(id.Name, "New")
}

// itemProgram: when the element of `for … range E { defs…; xs = append(xs, e…) }` is more than a bare
// NewX(…) of package html, the element expression is translated into a program of its own
// (<Type>_item<k>), its holes described in terms of the loop variable. "" when every element is a
// bare constructor call or the element is outside the fragment (then the list hole stays opaque).
func (t *c18Tr) itemProgram(rs *ast.RangeStmt, args []ast.Expr) (name string) {
	defs := map[string]ast.Expr{}
	body := rs.Body.List[:len(rs.Body.List)-1]
	for _, b := range body {
		as := b.(*ast.AssignStmt)
		if len(as.Lhs) == len(as.Rhs) {
			for j, l := range as.Lhs {
				if id, ok := l.(*ast.Ident); ok {
					defs[id.Name] = as.Rhs[j]
				}
			}
		}
	}
	allBare := true
	for _, a := range args {
		e := a
		if id, ok := a.(*ast.Ident); ok && defs[id.Name] != nil {
			e = defs[id.Name]
		}
		if !c18BareHtmlNew(e) {
			allBare = false
		}
	}
	if allBare {
		return ""
	}
	p := c18PageProg{Name: fmt.Sprintf("%s_item%d", t.typ, len(t.items)), File: t.file,
		ItemOf: fmt.Sprintf("%s, element of the list hole `range %s`", t.typ, c18FullText(rs.X))}
	sub := &c18Tr{file: t.file, typ: t.typ, sigs: t.sigs, consts: t.consts, coreInts: t.coreInts,
		locals: map[string]*c18Local{}, p: &p}
	for i := range sub.idx {
		sub.idx[i] = map[string]int{}
	}
	for k, l := range t.locals {
		if l.kind == c18LOpaque {
			c := *l
			sub.locals[k] = &c
		} else {
			sub.locals[k] = &c18Local{kind: c18LForbidden}
		}
	}
	for _, kv := range []ast.Expr{rs.Key, rs.Value} {
		if id, ok := kv.(*ast.Ident); ok && id.Name != "_" {
			sub.locals[id.Name] = &c18Local{kind: c18LOpaque, def: "element of " + c18FullText(rs.X)}
		}
	}
	ok := func() (ok bool) {
		defer func() {
			if r := recover(); r != nil {
				if _, isU := r.(c18Untr); !isU {
					panic(r)
				}
				ok = false
			}
		}()
		for _, b := range body {
			sub.bind(b)
		}
		terms := sub.comps(args, false)
		if len(terms) == 1 {
			p.Term = terms[0]
		} else {
			p.Term = c18Seqs(terms)
		}
		return true
	}()
	if !ok || len(sub.items) > 0 {
		return ""
	}
	t.items = append(t.items, p)
	return p.Name
}

func (t *c18Tr) describeLoopElem(a ast.Expr) string {
	if id, ok := a.(*ast.Ident); ok {
		if l := t.locals[id.Name]; l != nil && l.kind == c18LOpaque {
			return l.def + t.where(l.def, map[string]bool{id.Name: true})
		}
	}
	return c18FullText(a) + t.whereExpr(a, map[string]bool{})
}

// ---- driver ----

type c18PagesResult struct {
	progs []c18PageProg
	untr  [][2]string
}

var c18PagesCache *c18PagesResult

func c18Pages() *c18PagesResult {
	if c18PagesCache != nil {
		return c18PagesCache
	}
	res := &c18PagesResult{}
	sigs := c18CoreSigs()
	coreInts := map[string]int{}
	fset := token.NewFileSet()
	notTest := func(fi os.FileInfo) bool { return !strings.HasSuffix(fi.Name(), "_test.go") }
	if pkgs, err := parser.ParseDir(fset, filepath.Join(c18RepoDir(), "html", "core"), notTest, 0); err == nil {
		for _, pkg := range pkgs {
			for _, f := range pkg.Files {
				for _, d := range f.Decls {
					if gd, ok := d.(*ast.GenDecl); ok && gd.Tok == token.CONST {
						for _, sp := range gd.Specs {
							vs := sp.(*ast.ValueSpec)
							for i, id := range vs.Names {
								if i < len(vs.Values) {
									if n, ok := c18IntLit(vs.Values[i]); ok {
										coreInts[id.Name] = n
									}
								}
							}
						}
					}
				}
			}
		}
	}
	pkgs, err := parser.ParseDir(fset, filepath.Join(c18RepoDir(), "html"), notTest, 0)
	if err != nil {
		return res
	}
	pkg := pkgs["html"]
	if pkg == nil {
		return res
	}
	consts := map[string]string{}
	var files []string
	for n := range pkg.Files {
		files = append(files, n)
	}
	sort.Strings(files)
	for _, n := range files {
		for _, d := range pkg.Files[n].Decls {
			if gd, ok := d.(*ast.GenDecl); ok && gd.Tok == token.CONST {
				for _, sp := range gd.Specs {
					vs := sp.(*ast.ValueSpec)
					for i, id := range vs.Names {
						if i < len(vs.Values) && vs.Type == nil {
							if bl, ok := vs.Values[i].(*ast.BasicLit); ok && bl.Kind == token.STRING {
								if v, err := strconv.Unquote(bl.Value); err == nil {
									consts[id.Name] = v
								}
							}
						}
					}
				}
			}
		}
	}
	type item struct {
		typ, file string
		fd        *ast.FuncDecl
	}
	var items []item
	for _, n := range files {
		for _, d := range pkg.Files[n].Decls {
			fd, ok := d.(*ast.FuncDecl)
			if !ok || fd.Body == nil || fd.Recv == nil || len(fd.Recv.List) != 1 || fd.Name.Name != "WriteHTMLTo" {
				continue
			}
			typ := strings.TrimPrefix(c18ExprText(fd.Recv.List[0].Type), "*")
			items = append(items, item{typ, filepath.Base(n), fd})
		}
	}
	sort.Slice(items, func(i, j int) bool { return items[i].typ < items[j].typ })
	for _, it := range items {
		p := c18PageProg{Name: it.typ, File: it.file}
		t := &c18Tr{file: it.file, typ: it.typ, sigs: sigs, consts: consts, coreInts: coreInts,
			locals: map[string]*c18Local{}, p: &p}
		for i := range t.idx {
			t.idx[i] = map[string]int{}
		}
		reason := func() (reason string) {
			defer func() {
				if r := recover(); r != nil {
					if u, ok := r.(c18Untr); ok {
						reason = u.reason
						return
					}
					reason = fmt.Sprintf("translator panic: %v", r)
				}
			}()
			ps := it.fd.Type.Params
			if ps == nil || len(ps.List) != 1 || len(ps.List[0].Names) != 1 || ps.List[0].Names[0].Name != "w" {
				c18Fail("the writer parameter is not called w")
			}
			t.locals["w"] = &c18Local{kind: c18LSlice} // what is written to w piece by piece
			p.Term = t.block(it.fd.Body.List)
			return ""
		}()
		if reason != "" {
			res.untr = append(res.untr, [2]string{it.typ, reason})
			continue
		}
		res.progs = append(res.progs, p)
		res.progs = append(res.progs, t.items...)
	}
	sort.SliceStable(res.progs, func(i, j int) bool { return res.progs[i].Name < res.progs[j].Name })
	c18PagesCache = res
	return res
}

func c18PagePrograms() []c18PageProg   { return c18Pages().progs }
func c18PageUntranslated() [][2]string { return c18Pages().untr }

func c18DocText(s string) string {
	s = strings.Map(func(r rune) rune {
		if r < 32 || r == 127 {
			return ' '
		}
		return r
	}, s)
	s = strings.ReplaceAll(s, "-/", "- /")
	s = strings.ReplaceAll(s, "/-", "/ -")
	return s
}

func c18LeanString(s string) string {
	var b strings.Builder
	b.WriteByte('"')
	for _, r := range s {
		switch {
		case r == '"':
			b.WriteString("\\\"")
		case r == '\\':
			b.WriteString("\\\\")
		case r < 32 || r == 127:
			b.WriteByte(' ')
		default:
			b.WriteRune(r)
		}
	}
	b.WriteByte('"')
	return b.String()
}

func init() {
	extractors["Pages"] = func() string {
		progs, untr := c18PagePrograms(), c18PageUntranslated()
		if len(progs)+len(untr) == 0 {
			return ""
		}
		var b strings.Builder
		b.WriteString("-- Source: go/ast of html/*.go — the WriteHTMLTo bodies of the page components as programs over the core algebra\n")
		b.WriteString("import Gedcom.Model.HtmlProg\nnamespace Gedcom.Generated\nopen Gedcom Gedcom.Html\n\n")
		holes := func(label string, ds []string) {
			if len(ds) == 0 {
				return
			}
			var xs []string
			for i, d := range ds {
				xs = append(xs, fmt.Sprintf("%d = %s", i, c18DocText(d)))
			}
			fmt.Fprintf(&b, "    %s holes: %s\n", label, strings.Join(xs, "; "))
		}
		for _, p := range progs {
			fmt.Fprintf(&b, "/-- %s (%s)\n", p.Name, p.File)
			if p.ItemOf != "" {
				fmt.Fprintf(&b, "    element program: %s\n", c18DocText(p.ItemOf))
			}
			holes("string", p.Strs)
			holes("int", p.Ints)
			holes("bool", p.Bools)
			holes("kid", p.Kids)
			holes("list", p.Lists)
			var rs []string
			for _, r := range p.Raws {
				rs = append(rs, fmt.Sprintf("%d = %s", r.ID, r.Desc))
			}
			if p.UsesGA {
				rs = append(rs, fmt.Sprintf("%d = %s (the Google Analytics option)", p.GAID, p.GADesc))
			}
			if len(rs) > 0 {
				fmt.Fprintf(&b, "    raw holes: %s\n", c18DocText(strings.Join(rs, "; ")))
			}
			b.WriteString("    -/\n")
			fmt.Fprintf(&b, "def prog_%s : Prog := %s\n\n", p.Name, strings.TrimSuffix(strings.TrimPrefix(p.Term, "("), ")"))
		}
		b.WriteString("/-- the translated components, by type name (sorted) -/\ndef pagePrograms : List (String × Prog) := [")
		for i, p := range progs {
			if i > 0 {
				b.WriteString(",")
			}
			fmt.Fprintf(&b, "\n  (%s, prog_%s)", c18LeanString(p.Name), p.Name)
		}
		b.WriteString("]\n\n")
		b.WriteString("/-- components of package html outside the translator's fragment (execution only), with the reason -/\ndef pageUntranslated : List (String × String) := [")
		for i, u := range untr {
			if i > 0 {
				b.WriteString(",")
			}
			fmt.Fprintf(&b, "\n  (%s, %s)", c18LeanString(u[0]), c18LeanString(u[1]))
		}
		b.WriteString("]\n\nend Gedcom.Generated\n")
		return b.String()
	}
}
