package main

// C18 program tie, third table: the components that take an entry of the places map. The map comes
// from Publisher.Places(); its element type cannot be named outside package html.

import (
	"fmt"
	"reflect"
	"sort"

	"github.com/elliotchance/gedcom/v39"
	ghtml "github.com/elliotchance/gedcom/v39/html"
	"github.com/elliotchance/gedcom/v39/html/core"
)

// c18PlaceNodes: the nodes of an entry of Publisher.Places() — the field is not exported, so its
// elements are identified by address among the nodes of Document.Places()
func c18PlaceNodes(doc *gedcom.Document, p interface{}) ([]gedcom.Node, bool) {
	v := reflect.ValueOf(p)
	if v.Kind() != reflect.Ptr || v.IsNil() {
		return nil, false
	}
	f := v.Elem().FieldByName("nodes")
	if !f.IsValid() || f.Kind() != reflect.Slice {
		return nil, false
	}
	index := map[uintptr]gedcom.Node{}
	for _, n := range doc.Places() {
		index[reflect.ValueOf(n).Pointer()] = n
	}
	var out []gedcom.Node
	for i := 0; i < f.Len(); i++ {
		e := f.Index(i)
		if e.Kind() == reflect.Interface {
			e = e.Elem()
		}
		n, ok := index[e.Pointer()]
		if !ok {
			return nil, false
		}
		out = append(out, n)
	}
	return out, true
}

type c18PlaceCtx struct {
	doc      *gedcom.Document
	o        *ghtml.PublishShowOptions
	keys     []string
	entry    func(key string) (pretty string, nodes []gedcom.Node, ok bool)
	inList   func(key string) core.Component
	page     func(key, ga string, ls []rune) core.Component
	country  func(key string) string
	listPage func(ga string, ls []rune) core.Component
	done     func()
}

// c18PlaceSetup: a document with places, its publisher's places map; the page-name functions of the
// generator answer under that map until done() is called
func c18PlaceSetup(g *c18ProgGen) *c18PlaceCtx {
	for k := 0; ; k++ {
		doc := g.doc()
		o := g.options()
		o.ShowPlaces = true
		places := ghtml.NewPublisher(doc, o).Places()
		if len(places) == 0 && k < 40 {
			continue
		}
		var keys []string
		for key := range places {
			keys = append(keys, key)
		}
		sort.Strings(keys)
		g.nPlaces = len(places)
		g.pageIndividual = func(d *gedcom.Document, ind *gedcom.IndividualNode, vis ghtml.LivingVisibility) string {
			return ghtml.PageIndividual(d, ind, vis, places)
		}
		g.pagePlace = func(place string) string { return ghtml.PagePlace(place, places) }
		return &c18PlaceCtx{doc: doc, o: o, keys: keys,
			entry: func(key string) (string, []gedcom.Node, bool) {
				p := places[key]
				nodes, ok := c18PlaceNodes(doc, p)
				return p.PrettyName, nodes, ok
			},
			inList: func(key string) core.Component { return ghtml.NewPlaceInList(doc, places[key], places) },
			page: func(key, ga string, ls []rune) core.Component {
				return ghtml.NewPlacePage(doc, key, ga, o, ls, places)
			},
			country:  func(key string) string { return c18PlaceCountry(places[key]) },
			listPage: func(ga string, ls []rune) core.Component { return ghtml.NewPlaceListPage(doc, ga, o, ls, places) },
			done:     func() { g.nPlaces, g.pageIndividual, g.pagePlace = 0, nil, nil },
		}
	}
}

func c18ProgDrivers4() []c18ProgDriver {
	return []c18ProgDriver{
		{"PlaceInList", func(g *c18ProgGen) (core.Component, *c18Env, string) {
			pc := c18PlaceSetup(g)
			defer pc.done()
			if len(pc.keys) == 0 {
				panic("no places")
			}
			key := pc.keys[g.r.Intn(len(pc.keys))]
			pretty, nodes, ok := pc.entry(key)
			if !ok {
				panic("place nodes not identified")
			}
			e := c18NewEnv()
			e.I["len(c.place.nodes)"] = len(nodes)
			e.K["placeLink := NewPlaceLink(c.document, c.place.PrettyName, c.placesMap)"] = g.nest("PlaceLink", g.envPlaceLink(pretty))
			return pc.inList(key), e, c18Bucket(len(nodes))
		}},
		{"PlacePage", func(g *c18ProgGen) (core.Component, *c18Env, string) {
			pc := c18PlaceSetup(g)
			defer pc.done()
			if len(pc.keys) == 0 {
				panic("no places")
			}
			key := pc.keys[g.r.Intn(len(pc.keys))]
			pretty, nodes, ok := pc.entry(key)
			if !ok {
				panic("place nodes not identified")
			}
			ls := g.letters(pc.doc, pc.o.LivingVisibility)
			ga := g.ga()
			e := c18NewEnv()
			e.GA = ga
			e.S["place.PrettyName"] = pretty
			e.K["NewPublishHeader(c.document, place.PrettyName, selectedExtraTab, c.options, c.indexLetters, c.placesMap)"] =
				g.nest("PublishHeader", g.envPublishHeader(pc.doc, pretty, "extra", pc.o, ls))
			l := []string{}
			for _, n := range nodes {
				l = append(l, g.nest("PlaceEvent", g.envPlaceEvent(pc.doc, n, pc.o.LivingVisibility)))
			}
			e.L["range place.nodes: NewPlaceEvent(c.document, node, c.options.LivingVisibility, c.placesMap)"] = l
			return pc.page(key, ga, ls), e, fmt.Sprint(c18Bucket(len(nodes)), ga == "", pc.o.LivingVisibility)
		}},
	}
}
