package main

import (
	"fmt"
	"go/ast"
	"go/parser"
	"go/token"
	"path/filepath"
	"strconv"
	"strings"

	"github.com/elliotchance/gedcom/v39"
)

// Translator for the continuation rules of Decoder.Decode (blank lines, lines that do not parse)
// and for the role-tag test of parseLine: conditions over AllowMultiLine / previousNode != nil,
// what is appended to the previous node's value, and the tags that need a family.
// Props/C02 proves that interpreting them is the model's `step` on such lines.

func leanCExp(e ast.Expr) string {
	switch e := e.(type) {
	case *ast.ParenExpr:
		return leanCExp(e.X)
	case *ast.SelectorExpr:
		if x, ok := e.X.(*ast.Ident); ok && x.Name == "dec" && e.Sel.Name == "AllowMultiLine" {
			return ".multi"
		}
	case *ast.BinaryExpr:
		if e.Op == token.LAND {
			a, b := leanCExp(e.X), leanCExp(e.Y)
			if a == ".bad" || b == ".bad" {
				return ".bad"
			}
			return "(.and " + a + " " + b + ")"
		}
		if e.Op == token.NEQ {
			x, _ := e.X.(*ast.Ident)
			y, _ := e.Y.(*ast.Ident)
			if x != nil && y != nil && x.Name == "previousNode" && y.Name == "nil" {
				return ".prev"
			}
		}
	}
	return ".bad"
}

// leanAppend translates `previousNode.RawSimpleNode().value += E` (E built from string literals
// and the variable `line` with +) into a list of pieces; "" when the statement is something else.
func leanAppend(st ast.Stmt) string {
	as, ok := st.(*ast.AssignStmt)
	if !ok || as.Tok != token.ADD_ASSIGN || len(as.Lhs) != 1 || len(as.Rhs) != 1 {
		return ""
	}
	sel, ok := as.Lhs[0].(*ast.SelectorExpr)
	if !ok || sel.Sel.Name != "value" {
		return ""
	}
	call, ok := sel.X.(*ast.CallExpr)
	if !ok {
		return ""
	}
	s2, ok := call.Fun.(*ast.SelectorExpr)
	if !ok || s2.Sel.Name != "RawSimpleNode" {
		return ""
	}
	if x, ok := s2.X.(*ast.Ident); !ok || x.Name != "previousNode" {
		return ""
	}
	var pieces func(e ast.Expr) []string
	pieces = func(e ast.Expr) []string {
		switch e := e.(type) {
		case *ast.BasicLit:
			if e.Kind == token.STRING {
				s, err := strconv.Unquote(e.Value)
				if err == nil {
					return []string{"(.lit " + leanBytes(s) + ")"}
				}
			}
		case *ast.Ident:
			if e.Name == "line" {
				return []string{".line"}
			}
		case *ast.BinaryExpr:
			if e.Op == token.ADD {
				a, b := pieces(e.X), pieces(e.Y)
				if a != nil && b != nil {
					return append(a, b...)
				}
			}
		}
		return nil
	}
	ps := pieces(as.Rhs[0])
	if ps == nil {
		return ""
	}
	return "[" + strings.Join(ps, ", ") + "]"
}

func init() {
	extractors["DecodeCont"] = func() string {
		var b strings.Builder
		b.WriteString("-- Source: decoder.go — the continuation rules of Decoder.Decode and the role-tag test of\n")
		b.WriteString("-- parseLine, translated from go/ast (see harness/extract_decodecont.go).\n")
		b.WriteString("import Gedcom.Model.DecodeLogic\nnamespace Gedcom.Generated\nopen Gedcom.DecodeLogic\n\n")
		blankCond, blankAppend, contCond, contAppend := ".bad", "[.bad]", ".bad", "[.bad]"
		blankContinues, contContinues, errorReturns := false, false, false
		errorFormat := ""
		roleTags := []string{}
		familyCursor := false
		fset := token.NewFileSet()
		file, err := parser.ParseFile(fset, filepath.Join(repoRoot(), "decoder.go"), nil, 0)
		if err == nil {
			for _, d := range file.Decls {
				fn, ok := d.(*ast.FuncDecl)
				if !ok || fn.Body == nil {
					continue
				}
				if fn.Name.Name == "Decode" {
					ast.Inspect(fn.Body, func(n ast.Node) bool {
						ifs, ok := n.(*ast.IfStmt)
						if !ok {
							return true
						}
						be, _ := ifs.Cond.(*ast.BinaryExpr)
						// if line == "" { if C { append }; continue }
						if be != nil && be.Op == token.EQL {
							x, _ := be.X.(*ast.Ident)
							y, _ := be.Y.(*ast.BasicLit)
							if x != nil && x.Name == "line" && y != nil && y.Value == `""` && len(ifs.Body.List) == 2 {
								if inner, ok := ifs.Body.List[0].(*ast.IfStmt); ok && inner.Else == nil && len(inner.Body.List) == 1 {
									blankCond = leanCExp(inner.Cond)
									if a := leanAppend(inner.Body.List[0]); a != "" {
										blankAppend = a
									}
								}
								blankContinues = endsWith(ifs.Body.List, "continue")
							}
						}
						// if err != nil { if C { append; continue }; return nil, fmt.Errorf("line %d: %s", lineNumber, err) }
						if be != nil && be.Op == token.NEQ && len(ifs.Body.List) == 2 {
							x, _ := be.X.(*ast.Ident)
							y, _ := be.Y.(*ast.Ident)
							if x != nil && x.Name == "err" && y != nil && y.Name == "nil" {
								if inner, ok := ifs.Body.List[0].(*ast.IfStmt); ok && inner.Else == nil && len(inner.Body.List) == 2 {
									if a := leanAppend(inner.Body.List[0]); a != "" {
										contCond = leanCExp(inner.Cond)
										contAppend = a
										contContinues = endsWith(inner.Body.List, "continue")
										if ret, ok := ifs.Body.List[1].(*ast.ReturnStmt); ok && len(ret.Results) == 2 {
											errorReturns = true
											if call, ok := ret.Results[1].(*ast.CallExpr); ok && len(call.Args) >= 2 {
												if lit, ok := call.Args[0].(*ast.BasicLit); ok {
													errorFormat, _ = strconv.Unquote(lit.Value)
												}
												if id, ok := call.Args[1].(*ast.Ident); !ok || id.Name != "lineNumber" {
													errorFormat = ""
												}
											}
										}
									}
								}
							}
						}
						// if f, ok := node.(*FamilyNode); ok { family = f }
						if ifs.Init != nil && len(ifs.Body.List) == 1 {
							if as, ok := ifs.Body.List[0].(*ast.AssignStmt); ok && len(as.Lhs) == 1 {
								if id, ok := as.Lhs[0].(*ast.Ident); ok && id.Name == "family" && strings.Contains(printNode(fset, ifs.Init), "node.(*FamilyNode)") {
									familyCursor = true
								}
							}
						}
						return true
					})
				}
				if fn.Name.Name == "parseLine" {
					ast.Inspect(fn.Body, func(n ast.Node) bool {
						cc, ok := n.(*ast.CaseClause)
						if !ok || len(cc.Body) != 1 {
							return true
						}
						ifs, ok := cc.Body[0].(*ast.IfStmt)
						if !ok || printNode(fset, ifs.Cond) != "family == nil" || !endsWith(ifs.Body.List, "return") {
							return true
						}
						for _, e := range cc.List {
							if id, ok := e.(*ast.Ident); ok {
								// resolve the constant through the package
								switch id.Name {
								case "TagChild":
									roleTags = append(roleTags, leanBytes(gedcom.TagChild.Tag()))
								case "TagHusband":
									roleTags = append(roleTags, leanBytes(gedcom.TagHusband.Tag()))
								case "TagWife":
									roleTags = append(roleTags, leanBytes(gedcom.TagWife.Tag()))
								default:
									roleTags = append(roleTags, "[0]")
								}
							} else {
								roleTags = append(roleTags, "[0]")
							}
						}
						return true
					})
				}
			}
		}
		fmt.Fprintf(&b, "/-- blank line: `if line == \"\" { if C { previousNode…value += E }; continue }` -/\ndef blankCond : CExp := %s\ndef blankAppend : List SPiece := %s\ndef blankContinues : Bool := %v\n\n", blankCond, blankAppend, blankContinues)
		fmt.Fprintf(&b, "/-- a line parseLine rejects: `if C { previousNode…value += E; continue }`, else the error -/\ndef contCond : CExp := %s\ndef contAppend : List SPiece := %s\ndef contContinues : Bool := %v\ndef errorReturns : Bool := %v\n", contCond, contAppend, contContinues, errorReturns)
		fmt.Fprintf(&b, "/-- the error's format, its first argument being `lineNumber` -/\ndef errorFormat : String := %s\n\n", strconv.Quote(errorFormat))
		fmt.Fprintf(&b, "/-- parseLine: the tags of the `case` whose body is `if family == nil { return … error }` -/\ndef roleTags : List (List UInt8) := [%s]\n", strings.Join(roleTags, ", "))
		fmt.Fprintf(&b, "/-- `if f, ok := node.(*FamilyNode); ok { family = f }` -/\ndef familyCursorSet : Bool := %v\n", familyCursor)
		b.WriteString("\nend Gedcom.Generated\n")
		return b.String()
	}
}
