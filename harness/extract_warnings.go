package main

import (
	"fmt"
	"strings"
	"time"

	"github.com/elliotchance/gedcom/v39"
)

// c20ProbeSiblings reports whether two siblings born `gap` days apart are reported as born too close.
func c20ProbeSiblings(gap int) bool {
	base := time.Date(1850, 3, 1, 0, 0, 0, 0, time.UTC)
	d2 := base.AddDate(0, 0, gap)
	f := func(t time.Time) string { return fmt.Sprintf("%d %s %d", t.Day(), t.Month().String()[:3], t.Year()) }
	src := "0 @I1@ INDI\n1 BIRT\n2 DATE " + f(base) + "\n0 @I2@ INDI\n1 BIRT\n2 DATE " + f(d2) +
		"\n0 @F1@ FAM\n1 CHIL @I1@\n1 CHIL @I2@\n"
	doc, err := gedcom.NewDocumentFromString(src)
	if err != nil {
		panic(err)
	}
	for _, n := range doc.Nodes() {
		if fam, ok := n.(*gedcom.FamilyNode); ok {
			for _, w := range fam.Warnings() {
				if w.Name() == "SiblingsBornTooClose" {
					return true
				}
			}
		}
	}
	return false
}

func init() {
	extractors["Warnings"] = func() string {
		var b strings.Builder
		b.WriteString("-- Source: exported constants gedcom.Year, DefaultMinMarriageAge, DefaultMaxMarriageAge,\n")
		b.WriteString("-- DefaultMaxLivingAge; behavioural probe of FamilyNode.Warnings on two siblings born 0..400\n")
		b.WriteString("-- days apart (the gaps that are reported form the half-open window [siblingMinDays, siblingMaxDays)).\n")
		b.WriteString("namespace Gedcom.Generated\n\n")
		intOf := func(name string, v float64) int64 {
			if v != float64(int64(v)) {
				panic(name + " is not a whole number; the model needs an integer limit")
			}
			return int64(v)
		}
		fmt.Fprintf(&b, "/-- `gedcom.Year` in nanoseconds (365.25 days) -/\ndef yearNs : Int := %d\n", int64(gedcom.Year))
		fmt.Fprintf(&b, "def minMarriageAge : Int := %d\n", intOf("DefaultMinMarriageAge", gedcom.DefaultMinMarriageAge))
		fmt.Fprintf(&b, "def maxMarriageAge : Int := %d\n", intOf("DefaultMaxMarriageAge", gedcom.DefaultMaxMarriageAge))
		fmt.Fprintf(&b, "def maxLivingAge : Int := %d\n", intOf("DefaultMaxLivingAge", gedcom.DefaultMaxLivingAge))
		lo, hi, contiguous := -1, -1, true
		for g := 0; g <= 400; g++ {
			hit := c20ProbeSiblings(g)
			switch {
			case hit && lo < 0:
				lo = g
			case hit && hi >= 0:
				contiguous = false
			case !hit && lo >= 0 && hi < 0:
				hi = g
			}
		}
		if lo < 0 || hi < 0 {
			panic("sibling window not found")
		}
		fmt.Fprintf(&b, "/-- smallest gap in days between two siblings' exact births that is reported -/\ndef siblingMinDays : Int := %d\n", lo)
		fmt.Fprintf(&b, "/-- smallest gap in days above the window that is no longer reported -/\ndef siblingMaxDays : Int := %d\n", hi)
		fmt.Fprintf(&b, "/-- the reported gaps were exactly the integers of the window (no holes) -/\ndef siblingWindowContiguous : Bool := %v\n", contiguous)
		b.WriteString("\nend Gedcom.Generated\n")
		return b.String()
	}
}
