package main

// Facts for C18 (Gedcom/Generated/Html.lean):
//   * per-byte tables of every encoder that stands between a value and a sink of html/core,
//     recovered behaviourally through the public constructors (all 256 bytes);
//   * the literal / format strings of the primitive components, read from the source with go/ast
//     and checked against a rendering; a literal that cannot be located falls back to the
//     expected text (then it is tied by the correspondence only — said in a comment).

import (
	"bytes"
	"fmt"
	"go/ast"
	"go/parser"
	"go/token"
	"os"
	"path/filepath"
	"sort"
	"strconv"
	"strings"

	ghtml "github.com/elliotchance/gedcom/v39/html"
	"github.com/elliotchance/gedcom/v39/html/core"
)

func c18Render(c core.Component) (s string) {
	defer func() {
		if r := recover(); r != nil {
			s = "\x00PANIC"
		}
	}()
	var b bytes.Buffer
	c.WriteHTMLTo(&b)
	return b.String()
}

func c18RepoDir() string {
	if d := os.Getenv("VERIF_REPO"); d != "" {
		return d
	}
	return "/repo"
}

// c18Literals returns the string literals of method `fn` in html/core/<file>, in source order.
func c18Literals(file, fn string) []string {
	fset := token.NewFileSet()
	f, err := parser.ParseFile(fset, filepath.Join(c18RepoDir(), "html", "core", file), nil, 0)
	if err != nil {
		return nil
	}
	var lits []string
	for _, d := range f.Decls {
		fd, ok := d.(*ast.FuncDecl)
		if !ok || fd.Name.Name != fn || fd.Body == nil {
			continue
		}
		ast.Inspect(fd.Body, func(n ast.Node) bool {
			if bl, ok := n.(*ast.BasicLit); ok && bl.Kind == token.STRING {
				if v, err := strconv.Unquote(bl.Value); err == nil {
					lits = append(lits, v)
				}
			}
			return true
		})
	}
	return lits
}

func c18LeanBytes(s string) string {
	var sb strings.Builder
	sb.WriteByte('[')
	for i := 0; i < len(s); i++ {
		if i > 0 {
			sb.WriteString(", ")
		}
		sb.WriteString(strconv.Itoa(int(s[i])))
	}
	sb.WriteByte(']')
	return sb.String()
}

func c18LeanComment(s string) string {
	s = strings.Map(func(r rune) rune {
		if r < 32 || r == 127 {
			return ' '
		}
		return r
	}, s)
	s = strings.ReplaceAll(s, "-/", "- /")
	if len(s) > 100 {
		s = s[:100] + "…"
	}
	return s
}

// c18EncTable probes an encoder: enc(v) is what stands between the two markers in render(v).
func c18EncTable(render func(v string) string) (string, bool) {
	var sb strings.Builder
	sb.WriteString("[")
	first := true
	okAll := true
	for b := 0; b < 256; b++ {
		m1, m2 := "\x01", "\x02"
		if b == 1 || b == 2 {
			m1, m2 = "\x03", "\x04"
		}
		out := render(m1 + string([]byte{byte(b)}) + m2)
		i := strings.Index(out, m1)
		j := strings.Index(out, m2)
		if i < 0 || j < i {
			okAll = false
			continue
		}
		enc := out[i+1 : j]
		if enc == string([]byte{byte(b)}) {
			continue
		}
		if !first {
			sb.WriteString(", ")
		}
		first = false
		fmt.Fprintf(&sb, "(%d, %s)", b, c18LeanBytes(enc))
	}
	sb.WriteString("]")
	return sb.String(), okAll
}

func init() {
	extractors["Html"] = func() string {
		var b strings.Builder
		b.WriteString("-- Source: html/core — per-byte encoder tables probed through the public constructors\n")
		b.WriteString("-- (NewText, NewTableHead, NewAnchor, NewTag, TableCell.Class/Style, NewTable,\n")
		b.WriteString("-- NewGoogleAnalytics on all 256 bytes) and the literal strings of the primitive components\n")
		b.WriteString("-- (go/ast, checked against a rendering).\n")
		b.WriteString("import Gedcom.Model.Types\nnamespace Gedcom.Generated\nopen Gedcom\n\n")
		empty := func() core.Component { return core.NewComponents() }
		tables := []struct {
			name, doc string
			f         func(v string) string
		}{
			{"textEscTable", "core.NewText(v)", func(v string) string { return c18Render(core.NewText(v)) }},
			{"headEscTable", "core.NewTableHead(v)", func(v string) string { return c18Render(core.NewTableHead(v)) }},
			{"anchorEscTable", "core.NewAnchor(v)", func(v string) string { return c18Render(core.NewAnchor(v)) }},
			{"attrEscTable", "core.NewTag(\"x\", {\"k\": v}, …)", func(v string) string {
				return c18Render(core.NewTag("x", map[string]string{"k": v}, empty()))
			}},
			{"cellAttrEscTable", "core.NewTableCell(…).Class(v)", func(v string) string {
				return c18Render(core.NewTableCell(empty()).Class(v))
			}},
			{"cellStyleEscTable", "core.NewTableCell(…).Style(v)", func(v string) string {
				return c18Render(core.NewTableCell(empty()).Style(v))
			}},
			{"tableClassEscTable", "core.NewTable(v)", func(v string) string { return c18Render(core.NewTable(v)) }},
			{"gaEscTable", "core.NewGoogleAnalytics(v)", func(v string) string { return c18Render(core.NewGoogleAnalytics(v)) }},
		}
		for _, t := range tables {
			tbl, ok := c18EncTable(t.f)
			fmt.Fprintf(&b, "/-- bytes that %s does not copy, with what it writes instead", t.doc)
			if !ok {
				b.WriteString(" (PROBE INCOMPLETE: some byte lost its markers)")
			}
			fmt.Fprintf(&b, " -/\ndef %s : List (UInt8 × Str) := %s\n\n", t.name, tbl)
		}

		// literals
		type litSpec struct {
			name, file, fn string
			idx            int
			expect         string
		}
		specs := []litSpec{
			{"anchorFmt", "anchor.go", "WriteHTMLTo", 0, `<a name="%s"/>`},
			{"headPre", "table_head.go", "WriteHTMLTo", 0, `<thead><tr>`},
			{"headCellFmt", "table_head.go", "WriteHTMLTo", 1, `<th scope="col">%s</th>`},
			{"headPost", "table_head.go", "WriteHTMLTo", 2, `</tr></thead>`},
			{"cellTagTd", "table_cell.go", "WriteHTMLTo", 0, `td`},
			{"cellTagTh", "table_cell.go", "WriteHTMLTo", 1, `th`},
			{"cellOpenFmt", "table_cell.go", "WriteHTMLTo", 2, `<%s scope="col"`},
			{"cellClassFmt", "table_cell.go", "WriteHTMLTo", 4, ` class="%s"`},
			{"cellNoWrap", "table_cell.go", "WriteHTMLTo", 5, ` nowrap="nowrap"`},
			{"cellStyleFmt", "table_cell.go", "WriteHTMLTo", 7, ` style="%s"`},
			{"cellOpenEnd", "table_cell.go", "WriteHTMLTo", 8, `>`},
			{"cellCloseFmt", "table_cell.go", "WriteHTMLTo", 9, `</%s>`},
			{"tableOpenFmt", "table.go", "WriteHTMLTo", 0, `<table class="table %s">`},
			{"tableClose", "table.go", "WriteHTMLTo", 1, `</table>`},
			{"trOpen", "table_row.go", "WriteHTMLTo", 0, `<tr>`},
			{"trClose", "table_row.go", "WriteHTMLTo", 1, `</tr>`},
			{"rowOpen", "row.go", "WriteHTMLTo", 0, `<div class="row">`},
			{"rowClose", "row.go", "WriteHTMLTo", 1, `</div>`},
			{"gaFmt", "google_analytics.go", "WriteHTMLTo", 1, ""},
			{"pageTitleTag", "page.go", "WriteHTMLTo", 0, `title`},
			{"pageHead", "page.go", "WriteHTMLTo", 1, `<html><head><meta charset="UTF-8">`},
			{"pageMid", "page.go", "WriteHTMLTo", 2, ""},
			{"pageTail", "page.go", "WriteHTMLTo", 3, `</div></body></html>`},
		}
		vals := map[string]string{}
		cache := map[string][]string{}
		for _, s := range specs {
			key := s.file + "/" + s.fn
			if _, ok := cache[key]; !ok {
				cache[key] = c18Literals(s.file, s.fn)
			}
			lits := cache[key]
			if s.idx < len(lits) {
				vals[s.name] = lits[s.idx]
			} else {
				vals[s.name] = "\x00MISSING"
			}
		}
		// check the located literals against renderings; a mismatch marks the whole file's facts unavailable
		sprintf := func(f string, args ...interface{}) string { return fmt.Sprintf(f, args...) }
		checks := map[string]bool{
			"anchor.go":     c18Render(core.NewAnchor("N")) == sprintf(vals["anchorFmt"], "N"),
			"table_head.go": c18Render(core.NewTableHead("A", "B")) == vals["headPre"]+sprintf(vals["headCellFmt"], "A")+sprintf(vals["headCellFmt"], "B")+vals["headPost"],
			"table_cell.go": c18Render(core.NewTableCell(core.NewText("x")).Class("c").Style("s").NoWrap().Header()) ==
				sprintf(vals["cellOpenFmt"], vals["cellTagTh"])+sprintf(vals["cellClassFmt"], "c")+vals["cellNoWrap"]+sprintf(vals["cellStyleFmt"], "s")+vals["cellOpenEnd"]+"x"+sprintf(vals["cellCloseFmt"], vals["cellTagTh"]) &&
				c18Render(core.NewTableCell(core.NewText("x"))) == sprintf(vals["cellOpenFmt"], vals["cellTagTd"])+vals["cellOpenEnd"]+"x"+sprintf(vals["cellCloseFmt"], vals["cellTagTd"]),
			"table.go":            c18Render(core.NewTable("c", core.NewText("x"))) == sprintf(vals["tableOpenFmt"], "c")+"x"+vals["tableClose"],
			"table_row.go":        c18Render(core.NewTableRow(core.NewText("x"))) == vals["trOpen"]+"x"+vals["trClose"],
			"row.go":              c18Render(core.NewRow()) == vals["rowOpen"]+vals["rowClose"],
			"google_analytics.go": c18Render(core.NewGoogleAnalytics("G")) == sprintf(vals["gaFmt"], "G", "G"),
			"page.go": c18Render(core.NewPage("T", core.NewText("B"), "")) ==
				vals["pageHead"]+"<"+vals["pageTitleTag"]+">T</"+vals["pageTitleTag"]+">"+vals["pageMid"]+"B"+c18Render(core.NewFooterRow())+vals["pageTail"],
		}
		for _, s := range specs {
			v := vals[s.name]
			note := ""
			if !checks[s.file] {
				if s.expect == "" {
					note = " — FACT UNAVAILABLE (literal not located in " + s.file + "); no fallback: the model will disagree with the code"
					v = ""
				} else {
					note = " — FACT UNAVAILABLE (literal not located in " + s.file + "): expected text used, tied by correspondence only"
					v = s.expect
				}
			}
			fmt.Fprintf(&b, "/-- %s:%s literal %d%s: `%s` -/\ndef %s : Str := %s\n\n", s.file, s.fn, s.idx, note, c18LeanComment(v), s.name, c18LeanBytes(v))
		}

		// the two strings.Replace calls of core.Text (marker that protects &nbsp;)
		tl := c18Literals("text.go", "WriteHTMLTo")
		before, after := [2]string{"&nbsp;", "~~space~~"}, [2]string{"~~space~~", "&nbsp;"}
		note := " — FACT UNAVAILABLE: expected text used"
		if len(tl) == 4 {
			cand1, cand2 := [2]string{tl[0], tl[1]}, [2]string{tl[2], tl[3]}
			want := strings.Replace(strings.Replace("a"+cand1[0]+"<", cand1[0], cand1[1], -1), "<", "&lt;", -1)
			want = strings.Replace(want, cand2[0], cand2[1], -1)
			if c18Render(core.NewText("a"+cand1[0]+"<")) == want {
				before, after, note = cand1, cand2, ""
			}
		}
		fmt.Fprintf(&b, "/-- text.go: strings.Replace before escaping (`%s` → `%s`)%s -/\ndef textReplaceBefore : Str × Str := (%s, %s)\n\n",
			c18LeanComment(before[0]), c18LeanComment(before[1]), note, c18LeanBytes(before[0]), c18LeanBytes(before[1]))
		fmt.Fprintf(&b, "/-- text.go: strings.Replace after escaping (`%s` → `%s`)%s -/\ndef textReplaceAfter : Str × Str := (%s, %s)\n\n",
			c18LeanComment(after[0]), c18LeanComment(after[1]), note, c18LeanBytes(after[0]), c18LeanBytes(after[1]))
		// raw HTML written by package html itself (never through an encoder): literal arguments of
		// core.NewHTML / writeString / appendString, string constants holding markup, and the 16
		// renderings of PlusSVG
		raw := map[string]bool{}
		fset := token.NewFileSet()
		pkgs, _ := parser.ParseDir(fset, filepath.Join(c18RepoDir(), "html"), func(fi os.FileInfo) bool {
			return !strings.HasSuffix(fi.Name(), "_test.go")
		}, 0)
		for _, pkg := range pkgs {
			for _, f := range pkg.Files {
				ast.Inspect(f, func(n ast.Node) bool {
					switch x := n.(type) {
					case *ast.CallExpr:
						name := ""
						switch fn := x.Fun.(type) {
						case *ast.Ident:
							name = fn.Name
						case *ast.SelectorExpr:
							name = fn.Sel.Name
						}
						if name == "NewHTML" || name == "writeString" || name == "appendString" {
							for _, a := range x.Args {
								if bl, ok := a.(*ast.BasicLit); ok && bl.Kind == token.STRING {
									if v, err := strconv.Unquote(bl.Value); err == nil {
										raw[v] = true
									}
								}
							}
						}
					case *ast.ValueSpec:
						for _, v := range x.Values {
							if bl, ok := v.(*ast.BasicLit); ok && bl.Kind == token.STRING {
								if sv, err := strconv.Unquote(bl.Value); err == nil && strings.ContainsAny(sv, "<>&") {
									raw[sv] = true
								}
							}
						}
					}
					return true
				})
			}
		}
		for i := 0; i < 16; i++ {
			raw[c18Render(ghtml.NewPlusSVG(i&1 != 0, i&2 != 0, i&4 != 0, i&8 != 0))] = true
		}
		var rawList []string
		for v := range raw {
			rawList = append(rawList, v)
		}
		sort.Strings(rawList)
		b.WriteString("/-- raw HTML that package html writes itself (literals of NewHTML/writeString/appendString,\n    markup constants, the 16 PlusSVG renderings) -/\ndef htmlRawLiterals : List Str := [\n")
		for i, v := range rawList {
			sep := ","
			if i == len(rawList)-1 {
				sep = ""
			}
			fmt.Fprintf(&b, "  %s%s -- %s\n", c18LeanBytes(v), sep, c18LeanComment(v))
		}
		b.WriteString("]\n\n")
		// the <pre> frame of q.HTMLFormatter's JSON fallback
		ql := []string{}
		if f, err := parser.ParseFile(fset, filepath.Join(c18RepoDir(), "q", "html_formatter.go"), nil, 0); err == nil {
			ast.Inspect(f, func(n ast.Node) bool {
				if bl, ok := n.(*ast.BasicLit); ok && bl.Kind == token.STRING {
					if v, err := strconv.Unquote(bl.Value); err == nil && strings.Contains(v, "pre>") {
						ql = append(ql, v)
					}
				}
				return true
			})
		}
		open, closeLit, qnote := "<pre>", "\n</pre>", " — FACT UNAVAILABLE: expected text used"
		if len(ql) == 2 {
			open, closeLit, qnote = ql[0], ql[1], ""
		}
		fmt.Fprintf(&b, "/-- q/html_formatter.go: what is written before the JSON fallback%s -/\ndef queryPreOpen : Str := %s\n\n", qnote, c18LeanBytes(open))
		fmt.Fprintf(&b, "/-- q/html_formatter.go: what is written after the JSON fallback%s -/\ndef queryPreClose : Str := %s\n\n", qnote, c18LeanBytes(closeLit))
		b.WriteString("end Gedcom.Generated\n")
		return b.String()
	}
}
