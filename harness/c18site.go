package main

// Shared by C18 and C19: family-graph documents (GEDCOM text) with taint tokens / hostile pointers /
// colliding names, and a child-process publisher with an in-memory core.FileWriter.  Goroutine
// panics inside Publisher.Files kill the process, a blocked producer would hang it: every publish
// runs in a child (`gvh worker c18pub`), with a timeout.

import (
	"bytes"
	"encoding/json"
	"errors"
	"fmt"
	"os"
	"os/exec"
	"sort"
	"strings"
	"sync"
	"time"

	"github.com/elliotchance/gedcom/v39"
	"github.com/elliotchance/gedcom/v39/html"
	"github.com/elliotchance/gedcom/v39/html/core"
	"github.com/elliotchance/gedcom/v39/q"
)

// ---------------------------------------------------------------- jobs for the child process

type c18Opts struct {
	Individuals, Places, Families, Surnames, Sources, Statistics bool
	Living                                                       string // show|hide|placeholder
}

func (o c18Opts) String() string {
	b := func(x bool, s string) string {
		if x {
			return s
		}
		return "-"
	}
	return b(o.Individuals, "I") + b(o.Places, "P") + b(o.Families, "F") + b(o.Surnames, "N") +
		b(o.Sources, "S") + b(o.Statistics, "T") + "/" + o.Living
}

func (o c18Opts) real() *html.PublishShowOptions {
	return &html.PublishShowOptions{ShowIndividuals: o.Individuals, ShowPlaces: o.Places,
		ShowFamilies: o.Families, ShowSurnames: o.Surnames, ShowSources: o.Sources,
		ShowStatistics: o.Statistics, LivingVisibility: html.NewLivingVisibility(o.Living)}
}

type c18Job struct {
	Kind    string   // publish | diff | query
	Gedcom  []byte   // the document
	Gedcom2 []byte   // diff: right-hand document; publish: document published first in the same process
	Opts    c18Opts  //
	Jobs    int      // parallel
	FailAt  int      // publish: the writer fails at the FailAt-th WriteFile call (1-based); 0 = never
	FailAll bool     // … and at every later call
	Queries []string // query: gedcomq programs rendered with the HTML formatter
	Show    string   // diff
	Sort    string   // diff
	Repeat  int      // publish: number of repetitions in the same process (each compared by the parent)
	Pre     []byte   // diff / query: the same operation is done on this document first, in the same process
}

type c18File struct {
	Name string
	Data []byte
}

type c18Run struct {
	Files []c18File
	Err   string // error returned by Publish ("" = nil)
	Calls int    // WriteFile calls made
	Order []string
}

type c18Result struct {
	Runs     []c18Run
	Panic    string
	Crashed  bool   // child died (goroutine panic, fatal error)
	TimedOut bool   // child did not finish within the timeout
	Stderr   string // tail
}

// c18MemWriter renders every file into memory, in the calling worker goroutine exactly like
// DirectoryFileWriter does, and can be told to fail.
type c18MemWriter struct {
	mu      sync.Mutex
	files   []c18File
	calls   int
	failAt  int
	failAll bool
}

func (w *c18MemWriter) WriteFile(file *core.File) error {
	w.mu.Lock()
	w.calls++
	n := w.calls
	w.mu.Unlock()
	if w.failAt > 0 && (n == w.failAt || (w.failAll && n > w.failAt)) {
		return errors.New("c18: injected writer failure")
	}
	var buf bytes.Buffer
	file.Component.WriteHTMLTo(&buf)
	w.mu.Lock()
	w.files = append(w.files, c18File{file.Name, buf.Bytes()})
	w.mu.Unlock()
	return nil
}

func c18PublishOnce(src []byte, o c18Opts, jobs, failAt int, failAll bool) (run c18Run, err error) {
	doc, derr := gedcom.NewDocumentFromString(string(src))
	if derr != nil {
		return run, derr
	}
	w := &c18MemWriter{failAt: failAt, failAll: failAll}
	p := html.NewPublisher(doc, o.real())
	perr := p.Publish(w, jobs)
	if perr != nil {
		run.Err = perr.Error()
	}
	run.Calls = w.calls
	for _, f := range w.files {
		run.Order = append(run.Order, f.Name)
	}
	run.Files = w.files
	sort.SliceStable(run.Files, func(i, j int) bool { return run.Files[i].Name < run.Files[j].Name })
	return run, nil
}

func c18RenderDiff(job *c18Job) (c18Run, error) {
	var run c18Run
	l, err := gedcom.NewDocumentFromString(string(job.Gedcom))
	if err != nil {
		return run, err
	}
	r, err := gedcom.NewDocumentFromString(string(job.Gedcom2))
	if err != nil {
		return run, err
	}
	co := gedcom.NewIndividualNodesCompareOptions()
	co.Jobs = job.Jobs
	cmp := l.Individuals().Compare(r.Individuals(), co)
	ff := &gedcom.FilterFlags{}
	page := html.NewDiffPage(cmp, ff, "", job.Show, job.Sort, nil, co, html.NewLivingVisibility(job.Opts.Living))
	var buf bytes.Buffer
	if _, err := page.WriteHTMLTo(&buf); err != nil {
		run.Err = err.Error()
	}
	run.Files = []c18File{{"diff.html", buf.Bytes()}}
	return run, nil
}

func c18RenderQueries(job *c18Job) (c18Run, error) {
	var run c18Run
	doc, err := gedcom.NewDocumentFromString(string(job.Gedcom))
	if err != nil {
		return run, err
	}
	for i, qs := range job.Queries {
		var buf bytes.Buffer
		func() {
			defer func() {
				if r := recover(); r != nil {
					buf.Reset() // a crashing query is C15's business, not ours
				}
			}()
			engine, err := q.NewParser().ParseString(qs)
			if err != nil {
				return
			}
			res, err := engine.Evaluate([]*gedcom.Document{doc})
			if err != nil {
				return
			}
			f := &q.HTMLFormatter{Writer: &buf}
			f.Write(res)
		}()
		run.Files = append(run.Files, c18File{fmt.Sprintf("query-%d.html", i), append([]byte(nil), buf.Bytes()...)})
	}
	return run, nil
}

func init() {
	workers["c18pub"] = func(args []string) int {
		var job c18Job
		if err := json.NewDecoder(os.Stdin).Decode(&job); err != nil {
			fmt.Fprintln(os.Stderr, "c18pub: bad job:", err)
			return 2
		}
		var res c18Result
		func() {
			defer func() {
				if r := recover(); r != nil {
					res.Panic = fmt.Sprint(r)
				}
			}()
			switch job.Kind {
			case "diff":
				if len(job.Pre) > 0 { // history: an earlier report in the same process
					pre := job
					pre.Gedcom, pre.Gedcom2 = job.Pre, job.Pre
					c18RenderDiff(&pre)
				}
				run, err := c18RenderDiff(&job)
				if err != nil {
					res.Panic = "decode: " + err.Error()
					return
				}
				res.Runs = append(res.Runs, run)
			case "query":
				if len(job.Pre) > 0 {
					pre := job
					pre.Gedcom = job.Pre
					c18RenderQueries(&pre)
				}
				run, err := c18RenderQueries(&job)
				if err != nil {
					res.Panic = "decode: " + err.Error()
					return
				}
				res.Runs = append(res.Runs, run)
			default:
				if len(job.Gedcom2) > 0 { // history: another document is published first
					if _, err := c18PublishOnce(job.Gedcom2, job.Opts, job.Jobs, 0, false); err != nil {
						res.Panic = "decode: " + err.Error()
						return
					}
				}
				n := job.Repeat
				if n < 1 {
					n = 1
				}
				for i := 0; i < n; i++ {
					run, err := c18PublishOnce(job.Gedcom, job.Opts, job.Jobs, job.FailAt, job.FailAll)
					if err != nil {
						res.Panic = "decode: " + err.Error()
						return
					}
					res.Runs = append(res.Runs, run)
				}
			}
		}()
		json.NewEncoder(os.Stdout).Encode(&res)
		return 0
	}
}

// c18Child runs one job in a child process.
func c18Child(job *c18Job, timeout time.Duration) *c18Result {
	bin := os.Getenv("GVH_BIN")
	if bin == "" {
		bin, _ = os.Executable()
	}
	in, _ := json.Marshal(job)
	cmd := exec.Command(bin, "worker", "c18pub")
	cmd.Stdin = bytes.NewReader(in)
	var out, errb bytes.Buffer
	cmd.Stdout = &out
	cmd.Stderr = &errb
	cmd.Env = append(os.Environ(), "GOMEMLIMIT=2GiB", "GOTRACEBACK=single")
	if err := cmd.Start(); err != nil {
		return &c18Result{Crashed: true, Stderr: err.Error()}
	}
	done := make(chan error, 1)
	go func() { done <- cmd.Wait() }()
	res := &c18Result{}
	select {
	case err := <-done:
		if jerr := json.Unmarshal(out.Bytes(), res); jerr != nil || err != nil {
			res.Crashed = true
		}
	case <-time.After(timeout):
		cmd.Process.Kill()
		<-done
		res.TimedOut = true
	}
	s := errb.String()
	if len(s) > 1500 {
		s = s[:1500]
	}
	res.Stderr = s
	return res
}

// c18Parallel runs f(i) for i in [0,n) on up to `par` goroutines (child processes do the work).
func c18Parallel(n, par int, f func(i int)) {
	var wg sync.WaitGroup
	sem := make(chan struct{}, par)
	for i := 0; i < n; i++ {
		wg.Add(1)
		sem <- struct{}{}
		go func(i int) {
			defer wg.Done()
			defer func() { <-sem }()
			f(i)
		}(i)
	}
	wg.Wait()
}

// c18LeanBatch pipes requests through the Lean driver in up to 16 parallel chunks (the shared
// runDriver uses chunks of >= 2000 requests, too coarse for whole pages).
func c18LeanBatch(driver string, reqs []string) ([]string, error) {
	if len(reqs) == 0 {
		return nil, nil
	}
	nw := 16
	if len(reqs) < nw {
		nw = len(reqs)
	}
	outs := make([]string, len(reqs))
	errs := make([]error, nw)
	var wg sync.WaitGroup
	for w := 0; w < nw; w++ {
		wg.Add(1)
		go func(w int) {
			defer wg.Done()
			var in bytes.Buffer
			var idx []int
			for i := w; i < len(reqs); i += nw {
				in.WriteString(reqs[i])
				in.WriteByte('\n')
				idx = append(idx, i)
			}
			cmd := exec.Command(driver)
			cmd.Stdin = &in
			var out, errb bytes.Buffer
			cmd.Stdout = &out
			cmd.Stderr = &errb
			if err := cmd.Run(); err != nil {
				errs[w] = fmt.Errorf("driver: %v: %s", err, errb.String())
				return
			}
			lines := strings.Split(strings.TrimRight(out.String(), "\n"), "\n")
			if len(lines) != len(idx) {
				errs[w] = fmt.Errorf("driver returned %d lines for %d requests", len(lines), len(idx))
				return
			}
			for k, i := range idx {
				outs[i] = lines[k]
			}
		}(w)
	}
	wg.Wait()
	for _, e := range errs {
		if e != nil {
			return nil, e
		}
	}
	return outs, nil
}

// ---------------------------------------------------------------- document generator

// c18Token is the taint token of value number n: every special character is preceded by the marker
// "q<n>", so that each of them can be looked for separately whatever case folding, trimming or
// splitting the value went through.  No space, comma, slash or '@' (those are structure in NAME,
// PLAC and pointers).
func c18Token(n int) string { return c18TokenV(n, 0) }

// c18Variants: which special characters a token carries.  A token with all five never reaches a
// fast path that is only wrong for some of them (an escaper that is skipped unless the value
// contains '&', '<' or '>'), so every single character and every pair is used too, and one
// variant is an attribute-injection payload.  The same again spelled with compatibility characters
// (full-width and small forms): they pass every escaper untouched and must stay what they are — a
// later normalisation (NFKC) would turn them into the ASCII characters.
var c18Variants = []string{"<\"'>&", "<", ">", "\"", "'", "&", "<>", "<\"", "<'", "<&", ">\"", ">'", ">&", "\"'", "\"&", "'&", "\"P",
	"＜＂＇＞＆", "＜", "＞", "＂", "＇", "＆", "﹤﹥﹠", "＂P", "＜／P"}

// c18CompatChars are the compatibility spellings used above (and the full-width solidus).
var c18CompatChars = []string{"＜", "＞", "＂", "＇", "＆", "／", "﹤", "﹥", "﹠"}

// c18Suffixes: entity-looking text after the token.  core.Text keeps a literal &nbsp; — whatever
// stands before it must be escaped all the same.
var c18Suffixes = []string{"&nbsp;", "x&nbsp;y", "&nbsp;&nbsp;", "&amp;", "&lt;", "&#60;", "&nbsp"}

func c18HasSpace(variant int) bool {
	return strings.HasSuffix(c18Variants[variant%len(c18Variants)], "P") && !strings.HasPrefix(c18Variants[variant%len(c18Variants)], "＜")
}

func c18TokenV(n, variant int) string { return c18TokenL(n, variant, "") }

// c18Leads: bytes that announce a 2-, 3- or 4-byte UTF-8 sequence but stand alone (Latin-1 é ñ õ,
// a lone 0xC3) — files in a legacy 8-bit encoding pass through the decoder byte for byte.  Put
// immediately before a special character they must not make an escaper skip it.
var c18Leads = []string{"\xc3", "\xe9", "\xf1", "\xf5"}

// c18TokenL: like c18TokenV with `lead` inserted between every marker and its special character.
func c18TokenL(n, variant int, lead string) string {
	m := fmt.Sprintf("q%05d", n)
	v := c18Variants[variant%len(c18Variants)]
	switch v {
	case "\"P":
		return m + lead + "\" onmouseover=\"" + m + "z"
	case "＂P":
		return m + lead + "＂ onmouseover=＂" + m + "z"
	case "＜／P":
		return m + lead + "＜／td" + m + lead + "＞" + m + "z"
	}
	s := ""
	for _, ch := range v {
		s += m + lead + string(ch)
	}
	return s + m + "z"
}

type c18Doc struct {
	Text     string
	Kinds    map[int]string // taint id -> value kind
	NIndi    int
	NFam     int
	NSour    int
	Notes    []string // generator decisions, for the replay
	Taint    bool
	Places   []string
	Variants map[string]int // value kind / special characters -> number of values
}

type c18Gen struct {
	r        *Rand
	taint    bool
	next     int
	kinds    map[int]string
	sb       strings.Builder
	notes    []string
	places   []string
	rot      int
	perKind  map[string]int
	variants map[string]int
}

// val decorates a benign value with a taint token (taint mode) — kind is recorded for the report.
func (g *c18Gen) val(kind, benign string) string {
	if !g.taint {
		return benign
	}
	g.next++
	g.kinds[g.next] = kind
	tok := c18TokenL(g.next, g.variant(kind, true), g.lead())
	suffix := g.suffix()
	switch g.r.Intn(3) {
	case 0:
		return tok + suffix
	case 1:
		return benign + tok + suffix
	}
	return tok + benign + suffix
}

// lead: a quarter of the tokens have an invalid UTF-8 lead byte before every special character.
func (g *c18Gen) lead() string {
	if !g.r.Chance(1, 4) {
		return ""
	}
	l := g.r.Pick(c18Leads)
	g.variants[fmt.Sprintf("(lead)/%x", l)]++
	return l
}

// suffix: half of the values end in entity-looking text.
func (g *c18Gen) suffix() string {
	if g.r.Bool() {
		return ""
	}
	sfx := g.r.Pick(c18Suffixes)
	g.variants["(suffix)/"+sfx]++
	return sfx
}

// variant rotates the token variants over the value kinds: the k-th value of a kind in document
// number d gets variant (k + d) — over a few documents every kind meets every variant.
func (g *c18Gen) variant(kind string, payloadOK bool) int {
	if g.perKind == nil {
		g.perKind = map[string]int{}
	}
	g.perKind[kind]++
	v := (g.perKind[kind] + g.rot) % len(c18Variants)
	if c18HasSpace(v) && !payloadOK {
		v = 3 // the bare quote
	}
	g.variants[kind+"/"+c18Variants[v]]++
	return v
}

func (g *c18Gen) line(level int, rest string) {
	fmt.Fprintf(&g.sb, "%d %s\n", level, rest)
}

var c18Given = []string{"Ann", "Bob", "Cy", "Dee", "Eve", "Flo", "Gus", "Old", "places", "Élan", "王", "O'Neil", "a&b", "Jo-Ann", "X Æ", "families"}
var c18Surn = []string{"Smith", "Jones", "Town", "town", "1st", "#hash", "Éclair", "王", "O'Brien", "de la Cruz", "Smith-Jones", "", "K", "İz", "zz top", "&co", "surnames", "\"Quote\"", "<Tag>"}
var c18PlaceNames = []string{"Old Town", "old-town", "Oldtown", "Ann Smith", "Bob Jones", "Paris, France", "Paris,,France", "Sydney, NSW, Australia", ",", "places", "statistics", "Ünter, Öst", "New York, USA", "A & B, \"C\"", "İstanbul", "K", "St. John's", "individuals-a", "ann-smith", "Bob  Jones"}

// hostile pointers named by the property
var c18HostilePtr = []string{"../x", "a/b", "places", "S/../x", "..", "/etc/passwd", "a b", "S1?x=1", "S#1", "x.html", "CON", "sources", "é", "a\\b", "S'1", "S\"1", "<S>", "S&1", "individuals-a", "ann-smith"}

// c18Generate builds a family graph.  mode: "taint" (C18), "hostile" (C19: hostile pointers and
// colliding names), "plain".
func c18Generate(r *Rand, mode string, nowYear int, firstID int) *c18Doc {
	g := &c18Gen{r: r, taint: mode == "taint", kinds: map[int]string{}, next: firstID, variants: map[string]int{}}
	g.rot = r.Intn(len(c18Variants))
	hostile := mode == "hostile"
	nI := 1 + r.Intn(7)
	if r.Chance(1, 8) {
		nI = 8 + r.Intn(10)
	}
	nS := r.Intn(4)
	nF := 0
	if nI > 1 {
		nF = r.Intn(nI/2 + 2)
	}
	usedPtr := map[string]bool{}
	ptr := func(prefix string, i int, kind string) string {
		p := fmt.Sprintf("%s%d", prefix, i+1)
		switch {
		case g.taint && r.Chance(1, 3):
			g.next++
			g.kinds[g.next] = kind
			p = prefix + c18TokenL(g.next, g.variant(kind, false), g.lead())
		case hostile && r.Chance(1, 2):
			p = r.Pick(c18HostilePtr)
		}
		for usedPtr[p] {
			p += "x"
		}
		usedPtr[p] = true
		return p
	}
	iptr := make([]string, nI)
	for i := range iptr {
		iptr[i] = ptr("I", i, "individual pointer")
	}
	sptr := make([]string, nS)
	for i := range sptr {
		sptr[i] = ptr("S", i, "source pointer")
	}
	fptr := make([]string, nF)
	for i := range fptr {
		fptr[i] = ptr("F", i, "family pointer")
	}
	place := func() string {
		p := r.Pick(c18PlaceNames)
		if g.taint || (!hostile && !r.Chance(1, 4)) {
			p = []string{"Paris, France", "Sydney, NSW, Australia", "New York, USA", "Old Town", "Leeds"}[r.Intn(5)]
		}
		g.places = append(g.places, p)
		if g.taint && !r.Chance(1, 4) {
			// 1..6 comma separated jurisdictions, a token in every part: PlaceNode.Country() is the raw
			// fourth part of exactly four, County/State/Name are other parts, and the known-country
			// fallback looks at the end of the value
			k := 1 + r.Intn(6)
			if r.Chance(1, 3) {
				k = 4
			}
			words := []string{"Springfield", "Clark", "Ohio", "USA", "Earth", "Sol"}
			parts := make([]string, k)
			for i := range parts {
				g.next++
				kind := fmt.Sprintf("place part %d of %d", i+1, k)
				g.kinds[g.next] = kind
				tok := c18TokenL(g.next, g.variant(kind, true), g.lead())
				switch r.Intn(3) {
				case 0:
					parts[i] = tok
				case 1:
					parts[i] = words[i] + tok
				default:
					parts[i] = tok + words[i]
				}
				if r.Chance(1, 3) {
					parts[i] += g.suffix()
				}
			}
			sep := ","
			if r.Bool() {
				sep = ", "
			}
			return strings.Join(parts, sep)
		}
		return g.val("place", p)
	}
	date := func(alive bool) string {
		y := 1700 + r.Intn(200)
		if alive {
			y = nowYear - 1 - r.Intn(60)
		}
		d := fmt.Sprintf("%d %s %d", 1+r.Intn(28), []string{"Jan", "Feb", "Mar", "Sep", "Dec"}[r.Intn(5)], y)
		switch r.Intn(6) {
		case 0:
			d = fmt.Sprintf("%d", y)
		case 1:
			d = fmt.Sprintf("Abt. %d", y)
		case 2:
			d = fmt.Sprintf("Bet. %d and %d", y, y+2)
		}
		if g.taint && r.Chance(1, 2) {
			if r.Chance(1, 2) {
				return g.val("date", d)
			}
			return d + " (" + g.val("date phrase", "x") + ")"
		}
		return d
	}
	event := func(tag string, alive bool) {
		if g.taint && r.Chance(1, 3) {
			g.line(1, tag+" "+g.val("event value", "Y"))
		} else {
			g.line(1, tag)
		}
		if r.Chance(4, 5) {
			g.line(2, "DATE "+date(alive))
		}
		if r.Chance(2, 3) {
			g.line(2, "PLAC "+place())
		}
		if r.Chance(1, 4) {
			g.line(2, "NOTE "+g.val("event note", "a note"))
		}
		if nS > 0 && r.Chance(1, 4) {
			g.line(2, "SOUR @"+sptr[r.Intn(nS)]+"@")
		}
	}
	g.line(0, "HEAD")
	g.line(1, "CHAR UTF-8")
	for i := 0; i < nI; i++ {
		g.line(0, "@"+iptr[i]+"@ INDI")
		alive := r.Chance(1, 3)
		nNames := 1
		if r.Chance(1, 4) {
			nNames = 2 + r.Intn(2)
		}
		if r.Chance(1, 12) {
			nNames = 0
		}
		for k := 0; k < nNames; k++ {
			gv, sn := r.Pick(c18Given), r.Pick(c18Surn)
			if g.taint || (!hostile && !r.Chance(1, 3)) {
				gv, sn = c18Given[r.Intn(8)], c18Surn[r.Intn(4)]
			}
			if hostile && r.Chance(1, 3) { // a person called like a place, or like a fixed page
				gv, sn = r.Pick([]string{"Old", "old", "Ann", "Bob", "Paris", "places", "statistics", "individuals"}), r.Pick([]string{"Town", "town", "Smith", "Jones", "France", "", "a"})
			}
			name := g.val("given name", gv)
			if sn != "" || g.taint {
				name += " /" + g.val("surname", sn) + "/"
			}
			if r.Chance(1, 6) {
				name += " " + g.val("name suffix", "Jr")
			}
			g.line(1, "NAME "+name)
			if r.Chance(1, 4) {
				g.line(2, "NPFX "+g.val("name prefix", "Dr"))
			}
			if r.Chance(1, 6) {
				g.line(2, "SPFX "+g.val("surname prefix", "van"))
			}
			if r.Chance(1, 6) {
				g.line(2, "NSFX "+g.val("name suffix", "III"))
			}
			if r.Chance(1, 6) {
				g.line(2, "TITL "+g.val("name title", "Sir"))
			}
			if k > 0 || r.Chance(1, 5) {
				g.line(2, "TYPE "+g.val("name type", "aka"))
			}
		}
		switch r.Intn(4) {
		case 0:
			g.line(1, "SEX M")
		case 1:
			g.line(1, "SEX F")
		case 2:
			g.line(1, "SEX "+g.val("sex", "U"))
		}
		if r.Chance(5, 6) {
			event("BIRT", alive)
		}
		if r.Chance(1, 4) {
			event("BAPM", alive)
		}
		if !alive {
			if r.Chance(3, 4) {
				event("DEAT", false)
			}
			if r.Chance(1, 4) {
				event("BURI", false)
			}
		}
		if r.Chance(1, 3) {
			event("RESI", alive)
		}
		if r.Chance(1, 4) {
			g.line(1, "OCCU "+g.val("occupation", "smith"))
		}
		if r.Chance(1, 4) {
			g.line(1, "NOTE "+g.val("note", "hello"))
		}
		if r.Chance(1, 5) {
			g.line(1, "_CUSTOM "+g.val("custom value", "v"))
		}
	}
	for f := 0; f < nF; f++ {
		g.line(0, "@"+fptr[f]+"@ FAM")
		perm := r.Perm(nI)
		k := 0
		if r.Chance(4, 5) && k < len(perm) {
			g.line(1, "HUSB @"+iptr[perm[k]]+"@")
			k++
		}
		if r.Chance(4, 5) && k < len(perm) {
			g.line(1, "WIFE @"+iptr[perm[k]]+"@")
			k++
		}
		for nc := r.Intn(5); nc > 0 && k < len(perm); nc-- {
			g.line(1, "CHIL @"+iptr[perm[k]]+"@")
			k++
		}
		if r.Chance(2, 3) {
			g.line(1, "MARR")
			if r.Chance(4, 5) {
				g.line(2, "DATE "+date(false))
			}
			if r.Chance(2, 3) {
				g.line(2, "PLAC "+place())
			}
		}
		if r.Chance(1, 6) {
			g.line(1, "DIV")
		}
	}
	for s := 0; s < nS; s++ {
		g.line(0, "@"+sptr[s]+"@ SOUR")
		if r.Chance(5, 6) {
			g.line(1, "TITL "+g.val("source title", "Parish register"))
		}
		if r.Chance(1, 2) {
			g.line(1, "AUTH "+g.val("source author", "A. Clerk"))
		}
		if r.Chance(1, 2) {
			g.line(1, "PUBL "+g.val("source property", "1850"))
			if r.Chance(1, 2) {
				g.line(2, "NOTE "+g.val("nested source property", "deep"))
			}
		}
		if r.Chance(1, 3) {
			g.line(1, "_CUSTOM "+g.val("custom source property", "c"))
		}
	}
	g.line(0, "TRLR")
	return &c18Doc{Text: g.sb.String(), Kinds: g.kinds, NIndi: nI, NFam: nF, NSour: nS, Taint: g.taint, Places: g.places, Variants: g.variants}
}

func c18RandOpts(r *Rand) c18Opts {
	o := c18Opts{true, true, true, true, true, true, []string{"show", "hide", "placeholder"}[r.Intn(3)]}
	if r.Chance(1, 3) { // a random subset of page groups
		o.Individuals, o.Places, o.Families = r.Bool(), r.Bool(), r.Bool()
		o.Surnames, o.Sources, o.Statistics = r.Bool(), r.Bool(), r.Bool()
	}
	return o
}

// c18PageKind classifies a published file by its name and the options.
func c18PageKind(name string) string {
	switch {
	case strings.HasPrefix(name, "individuals-"):
		return "individual-list"
	case name == "places.html":
		return "place-list"
	case name == "families.html":
		return "families"
	case name == "surnames.html":
		return "surnames"
	case name == "sources.html":
		return "source-list"
	case name == "statistics.html":
		return "statistics"
	case name == "diff.html":
		return "diff"
	case strings.HasPrefix(name, "query-"):
		return "query"
	}
	return "page" // individual, place or source page: refined by the caller from the title row
}
