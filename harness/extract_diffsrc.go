package main

import (
	"fmt"
	"go/ast"
	"go/parser"
	"go/token"
	"path/filepath"
	"strings"
)

// Translator for the decision logic of node_diff.go (C08): the guarded side assignments at the head
// of (*NodeDiff).traverse, the conditions under which its inner loop sends a child into an existing
// entry, and the comparison cascade of isLessThan are read with go/ast and printed as terms of
// Gedcom.DiffSrc (lean/Gedcom/Model/DiffSrc.lean). Props/C08 proves that interpreting them in
// source order gives fillL/fillR, Diff.matchesNode and lessKey of the model. Nothing is guessed:
// a shape outside the fragment becomes `.bad` (or a false shape fact) and an obligation rejects it.

type c08tr struct {
	recv, n, isLeft string // receiver, node parameter, side parameter of traverse
	child, entry    string // loop variables of the two range statements
	env             map[string]string
}

func c08sel(e ast.Expr) (x, sel string, ok bool) {
	s, ok1 := e.(*ast.SelectorExpr)
	if !ok1 {
		return "", "", false
	}
	id, ok2 := s.X.(*ast.Ident)
	if !ok2 {
		return "", "", false
	}
	return id.Name, s.Sel.Name, true
}

func c08isNil(e ast.Expr) bool {
	id, ok := e.(*ast.Ident)
	return ok && id.Name == "nil"
}

// side context: isLeft, nd.Left == nil, nd.Right == nil, !, &&, ||
func (t *c08tr) sideB(e ast.Expr) string {
	switch e := e.(type) {
	case *ast.ParenExpr:
		return t.sideB(e.X)
	case *ast.Ident:
		if e.Name == t.isLeft {
			return "(.atom .isLeft)"
		}
	case *ast.UnaryExpr:
		if e.Op == token.NOT {
			if x := t.sideB(e.X); x != ".bad" {
				return "(.not " + x + ")"
			}
		}
	case *ast.BinaryExpr:
		switch e.Op {
		case token.LAND, token.LOR:
			a, b := t.sideB(e.X), t.sideB(e.Y)
			if a == ".bad" || b == ".bad" {
				return ".bad"
			}
			if e.Op == token.LAND {
				return "(.and " + a + " " + b + ")"
			}
			return "(.or " + a + " " + b + ")"
		case token.EQL:
			if x, sel, ok := c08sel(e.X); ok && x == t.recv && c08isNil(e.Y) {
				switch sel {
				case "Left":
					return "(.atom .leftNil)"
				case "Right":
					return "(.atom .rightNil)"
				}
			}
		}
	}
	return ".bad"
}

// matching context: diffChild.Left != nil, diffChild.Left.Equals(child), the same for Right, &&, ||, !
func (t *c08tr) matchB(e ast.Expr) string {
	switch e := e.(type) {
	case *ast.ParenExpr:
		return t.matchB(e.X)
	case *ast.UnaryExpr:
		if e.Op == token.NOT {
			if x := t.matchB(e.X); x != ".bad" {
				return "(.not " + x + ")"
			}
		}
	case *ast.BinaryExpr:
		switch e.Op {
		case token.LAND, token.LOR:
			a, b := t.matchB(e.X), t.matchB(e.Y)
			if a == ".bad" || b == ".bad" {
				return ".bad"
			}
			if e.Op == token.LAND {
				return "(.and " + a + " " + b + ")"
			}
			return "(.or " + a + " " + b + ")"
		case token.NEQ:
			if x, sel, ok := c08sel(e.X); ok && x == t.entry && c08isNil(e.Y) {
				switch sel {
				case "Left":
					return "(.atom .leftNonNil)"
				case "Right":
					return "(.atom .rightNonNil)"
				}
			}
		}
	case *ast.CallExpr:
		// <entry>.<Left|Right>.Equals(<child>)
		if fn, ok := e.Fun.(*ast.SelectorExpr); ok && fn.Sel.Name == "Equals" && len(e.Args) == 1 {
			if a, ok := e.Args[0].(*ast.Ident); ok && a.Name == t.child {
				if x, sel, ok := c08sel(fn.X); ok && x == t.entry {
					switch sel {
					case "Left":
						return "(.atom .leftEquals)"
					case "Right":
						return "(.atom .rightEquals)"
					}
				}
			}
		}
	}
	return ".bad"
}

// less context. env maps a local variable to what it was assigned from:
//   "who:a" / "who:b"   the flattened operands
//   "yearer:a"          the value of x.(Yearer)
//   "(.atom (.yearer .a))", "(.value .a)" …  ready terms
func (t *c08tr) who(e ast.Expr) string {
	if id, ok := e.(*ast.Ident); ok {
		if v, ok := t.env[id.Name]; ok && strings.HasPrefix(v, "who:") {
			return "." + strings.TrimPrefix(v, "who:")
		}
	}
	return ""
}

func (t *c08tr) lessV(e ast.Expr) string {
	switch e := e.(type) {
	case *ast.ParenExpr:
		return t.lessV(e.X)
	case *ast.Ident:
		if v, ok := t.env[e.Name]; ok && strings.HasPrefix(v, "(.") && !strings.HasPrefix(v, "(.atom") {
			return v
		}
	case *ast.SelectorExpr:
		// x.Tag().sortValue
		if e.Sel.Name == "sortValue" {
			if call, ok := e.X.(*ast.CallExpr); ok && len(call.Args) == 0 {
				if fn, ok := call.Fun.(*ast.SelectorExpr); ok && fn.Sel.Name == "Tag" {
					if w := t.who(fn.X); w != "" {
						return "(.level " + w + ")"
					}
				}
			}
		}
	case *ast.CallExpr:
		if fn, ok := e.Fun.(*ast.SelectorExpr); ok && len(e.Args) == 0 {
			switch fn.Sel.Name {
			case "Value":
				if w := t.who(fn.X); w != "" {
					return "(.value " + w + ")"
				}
			case "Years":
				if id, ok := fn.X.(*ast.Ident); ok {
					if v, ok := t.env[id.Name]; ok && strings.HasPrefix(v, "yearer:") {
						return "(.years ." + strings.TrimPrefix(v, "yearer:") + ")"
					}
				}
			}
		}
	}
	return ".bad"
}

func (t *c08tr) lessB(e ast.Expr) string {
	switch e := e.(type) {
	case *ast.ParenExpr:
		return t.lessB(e.X)
	case *ast.Ident:
		if v, ok := t.env[e.Name]; ok && strings.HasPrefix(v, "(.atom") {
			return v
		}
	case *ast.UnaryExpr:
		if e.Op == token.NOT {
			if x := t.lessB(e.X); x != ".bad" {
				return "(.not " + x + ")"
			}
		}
	case *ast.BinaryExpr:
		switch e.Op {
		case token.LAND, token.LOR:
			a, b := t.lessB(e.X), t.lessB(e.Y)
			if a == ".bad" || b == ".bad" {
				return ".bad"
			}
			if e.Op == token.LAND {
				return "(.and " + a + " " + b + ")"
			}
			return "(.or " + a + " " + b + ")"
		case token.NEQ, token.LSS, token.GTR:
			a, b := t.lessV(e.X), t.lessV(e.Y)
			if a == ".bad" || b == ".bad" {
				return ".bad"
			}
			switch e.Op {
			case token.NEQ:
				return "(.ne " + a + " " + b + ")"
			case token.LSS:
				return "(.lt " + a + " " + b + ")"
			default:
				return "(.lt " + b + " " + a + ")"
			}
		}
	}
	return ".bad"
}

// lessAssign records `a, b := x.LeftNode(), y.LeftNode()`, `y, ok := x.(Yearer)`, `v := x.Value()`;
// returns false for any other assignment (the variables it defines become unusable)
func (t *c08tr) lessAssign(as *ast.AssignStmt, recv, param string, operands *[]string) bool {
	if as.Tok != token.DEFINE {
		return false
	}
	names := []string{}
	for _, l := range as.Lhs {
		id, ok := l.(*ast.Ident)
		if !ok {
			return false
		}
		names = append(names, id.Name)
	}
	// operands
	if len(as.Rhs) == len(as.Lhs) {
		all := true
		vals := []string{}
		for _, r := range as.Rhs {
			call, ok := r.(*ast.CallExpr)
			if !ok || len(call.Args) != 0 {
				all = false
				break
			}
			x, sel, ok := c08sel(call.Fun)
			if !ok {
				all = false
				break
			}
			switch {
			case (sel == "LeftNode" || sel == "RightNode") && x == recv:
				vals = append(vals, "who:a")
				*operands = append(*operands, sel)
			case (sel == "LeftNode" || sel == "RightNode") && x == param:
				vals = append(vals, "who:b")
				*operands = append(*operands, sel)
			case sel == "Value":
				if w := t.who(call.Fun.(*ast.SelectorExpr).X); w != "" {
					vals = append(vals, "(.value "+w+")")
				} else {
					all = false
				}
			default:
				all = false
			}
			if !all {
				break
			}
		}
		if all {
			for i, n := range names {
				t.env[n] = vals[i]
			}
			return true
		}
	}
	// y, ok := x.(Yearer)
	if len(as.Lhs) == 2 && len(as.Rhs) == 1 {
		if ta, ok := as.Rhs[0].(*ast.TypeAssertExpr); ok {
			if ty, ok := ta.Type.(*ast.Ident); ok && ty.Name == "Yearer" {
				if w := t.who(ta.X); w != "" {
					t.env[names[0]] = "yearer:" + strings.TrimPrefix(w, ".")
					t.env[names[1]] = "(.atom (.yearer " + w + "))"
					return true
				}
			}
		}
	}
	for _, n := range names {
		delete(t.env, n)
	}
	return false
}

func init() {
	extractors["DiffSrc"] = func() string {
		var b strings.Builder
		b.WriteString("-- Source: node_diff.go — the side assignments and match conditions of (*NodeDiff).traverse and the\n")
		b.WriteString("-- comparison cascade of (*NodeDiff).isLessThan, translated from go/ast (harness/extract_diffsrc.go).\n")
		b.WriteString("import Gedcom.Model.DiffSrc\nnamespace Gedcom.Generated.DiffSrc\nopen Gedcom.DiffSrc\n\n")
		nilGuard, loopOnlyIfs, bodiesUniform, outerLoopShape := false, false, false, false
		topKnown, ranges := false, 0
		assigns, conds, cases := []string{}, []string{}, []string{}
		dflt := ".bad"
		operands := []string{}
		lessClean := false
		fset := token.NewFileSet()
		file, err := parser.ParseFile(fset, filepath.Join(repoRoot(), "node_diff.go"), nil, 0)
		if err == nil {
			for _, d := range file.Decls {
				fn, ok := d.(*ast.FuncDecl)
				if !ok || fn.Body == nil || fn.Recv == nil || len(fn.Recv.List) != 1 || len(fn.Recv.List[0].Names) != 1 {
					continue
				}
				recv := fn.Recv.List[0].Names[0].Name
				switch fn.Name.Name {
				case "traverse":
					ps := fn.Type.Params.List
					if len(ps) != 2 || len(ps[0].Names) != 1 || len(ps[1].Names) != 1 {
						continue
					}
					t := &c08tr{recv: recv, n: ps[0].Names[0].Name, isLeft: ps[1].Names[0].Name}
					topKnown = true
					for i, st := range fn.Body.List {
						switch st := st.(type) {
						default:
							topKnown = false // a statement that is neither an `if` nor the loop
						case *ast.IfStmt:
							// if IsNil(n) { return }
							if i == 0 && st.Init == nil && st.Else == nil && len(st.Body.List) == 1 {
								if call, ok := st.Cond.(*ast.CallExpr); ok && len(call.Args) == 1 {
									f, _ := call.Fun.(*ast.Ident)
									a, _ := call.Args[0].(*ast.Ident)
									if _, isRet := st.Body.List[0].(*ast.ReturnStmt); isRet && f != nil && f.Name == "IsNil" && a != nil && a.Name == t.n {
										nilGuard = true
										continue
									}
								}
							}
							// if cond { nd.Left = n }   (no init, no else, one assignment)
							cond, slot := ".bad", ".bad"
							if st.Init == nil && st.Else == nil && len(st.Body.List) == 1 {
								if as, ok := st.Body.List[0].(*ast.AssignStmt); ok && as.Tok == token.ASSIGN && len(as.Lhs) == 1 && len(as.Rhs) == 1 {
									x, sel, ok1 := c08sel(as.Lhs[0])
									v, ok2 := as.Rhs[0].(*ast.Ident)
									if ok1 && ok2 && x == recv && v.Name == t.n {
										switch sel {
										case "Left":
											slot = ".left"
										case "Right":
											slot = ".right"
										}
										cond = t.sideB(st.Cond)
									}
								}
							}
							assigns = append(assigns, "⟨"+cond+", "+slot+"⟩")
						case *ast.RangeStmt:
							ranges++
							if i != len(fn.Body.List)-1 {
								topKnown = false
							}
							// for _, child := range n.Nodes() { found := false; for _, diffChild := range nd.Children { if … }; if !found { … } }
							v, _ := st.Value.(*ast.Ident)
							if v == nil || len(st.Body.List) != 3 {
								continue
							}
							t.child = v.Name
							inner, ok := st.Body.List[1].(*ast.RangeStmt)
							if !ok {
								continue
							}
							if x, sel, ok := c08sel(inner.X); !ok || x != recv || sel != "Children" {
								continue
							}
							iv, _ := inner.Value.(*ast.Ident)
							if iv == nil {
								continue
							}
							t.entry = iv.Name
							outerLoopShape = true
							loopOnlyIfs, bodiesUniform = true, true
							for _, ist := range inner.Body.List {
								ifs, ok := ist.(*ast.IfStmt)
								if !ok || ifs.Init != nil || ifs.Else != nil {
									loopOnlyIfs = false
									conds = append(conds, ".bad")
									continue
								}
								conds = append(conds, t.matchB(ifs.Cond))
								// body: <entry>.traverse(<child>, isLeft); found = true; break
								okBody := len(ifs.Body.List) == 3
								if okBody {
									es, ok1 := ifs.Body.List[0].(*ast.ExprStmt)
									_, ok2 := ifs.Body.List[1].(*ast.AssignStmt)
									br, ok3 := ifs.Body.List[2].(*ast.BranchStmt)
									okBody = ok1 && ok2 && ok3 && br.Tok == token.BREAK
									if okBody {
										call, ok := es.X.(*ast.CallExpr)
										okBody = ok && len(call.Args) == 2
										if okBody {
											x, sel, ok := c08sel(call.Fun)
											a0, _ := call.Args[0].(*ast.Ident)
											a1, _ := call.Args[1].(*ast.Ident)
											okBody = ok && x == t.entry && sel == "traverse" && a0 != nil && a0.Name == t.child && a1 != nil && a1.Name == t.isLeft
										}
									}
								}
								if !okBody {
									bodiesUniform = false
								}
							}
						}
					}
				case "isLessThan":
					ps := fn.Type.Params.List
					if len(ps) != 1 || len(ps[0].Names) != 1 {
						continue
					}
					t := &c08tr{env: map[string]string{}}
					lessClean = true
					for i, st := range fn.Body.List {
						switch st := st.(type) {
						case *ast.AssignStmt:
							if !t.lessAssign(st, recv, ps[0].Names[0].Name, &operands) {
								lessClean = false
							}
						case *ast.IfStmt:
							cond, res := ".bad", ".bad"
							if st.Init == nil && st.Else == nil && len(st.Body.List) == 1 {
								if ret, ok := st.Body.List[0].(*ast.ReturnStmt); ok && len(ret.Results) == 1 {
									cond, res = t.lessB(st.Cond), t.lessB(ret.Results[0])
								}
							}
							cases = append(cases, "⟨"+cond+", "+res+"⟩")
						case *ast.ReturnStmt:
							if i == len(fn.Body.List)-1 && len(st.Results) == 1 {
								dflt = t.lessB(st.Results[0])
							} else {
								lessClean = false
							}
						default:
							lessClean = false
						}
					}
				}
			}
		}
		fmt.Fprintf(&b, "/-- `traverse` starts with `if IsNil(n) { return }` -/\ndef traverseNilGuard : Bool := %v\n\n", nilGuard)
		fmt.Fprintf(&b, "/-- apart from that, `traverse` consists of `if` statements followed by exactly one loop, its last statement -/\ndef traverseStatementsRecognised : Bool := %v\n\n", topKnown && ranges == 1)
		fmt.Fprintf(&b, "/-- the `if cond { nd.Left|Right = n }` statements before the loop, in source order -/\ndef traverseAssigns : List Guarded :=\n  [%s]\n\n", strings.Join(assigns, ",\n   "))
		fmt.Fprintf(&b, "/-- the loops are `for _, child := range n.Nodes() { found := false; for _, entry := range nd.Children { … }; if !found { … } }` -/\ndef traverseLoopShape : Bool := %v\n\n", outerLoopShape)
		fmt.Fprintf(&b, "/-- the body of the inner loop consists of `if` statements without init and else -/\ndef matchLoopOnlyIfs : Bool := %v\n\n", loopOnlyIfs)
		fmt.Fprintf(&b, "/-- every one of them does `entry.traverse(child, isLeft); found = true; break` -/\ndef matchBodiesUniform : Bool := %v\n\n", bodiesUniform)
		fmt.Fprintf(&b, "/-- their conditions, in source order -/\ndef matchConds : List BExp :=\n  [%s]\n\n", strings.Join(conds, ",\n   "))
		q := []string{}
		for _, o := range operands {
			q = append(q, fmt.Sprintf("%q", o))
		}
		fmt.Fprintf(&b, "/-- the flattening method `isLessThan` applies to the receiver and to the argument -/\ndef lessOperands : List String := [%s]\n\n", strings.Join(q, ", "))
		fmt.Fprintf(&b, "/-- all statements of `isLessThan` are recognised assignments, `if c { return r }` and a final `return` -/\ndef lessStatementsRecognised : Bool := %v\n\n", lessClean)
		fmt.Fprintf(&b, "/-- the `if cond { return result }` statements of `isLessThan`, in source order -/\ndef lessCases : List Case :=\n  [%s]\n\n", strings.Join(cases, ",\n   "))
		fmt.Fprintf(&b, "/-- the final `return` -/\ndef lessDefault : BExp := %s\n\n", dflt)
		b.WriteString("end Gedcom.Generated.DiffSrc\n")
		return b.String()
	}
}
