#!/bin/bash
# mkseed5.sh Cxx : workspace for a wave-5 seeder
p=$1
mkdir -p /tmp/seed5-$p/out/1 /tmp/seed5-$p/out/2
git -C /repo worktree add --detach /tmp/seed5-$p/repo HEAD -q
python3 - "$p" <<'PY'
import json,sys
pid=sys.argv[1]
for l in open('/verif/properties.jsonl'):
    q=json.loads(l)
    if q['id']==pid:
        open(f'/tmp/seed5-{pid}/property.txt','w').write(f"{q['id']} — {q['title']}\n\n{q['statement']}\n\nQuantified over: {q['quantifier']['text']}\n\nAnchored in: {', '.join(q['anchors']['files'])}\n")
rows=json.load(open('/tmp/earlier_rows.json')).get(pid,[])
open(f'/tmp/seed5-{pid}/earlier.txt','w').write("Changes that earlier rounds already made for this property (do NOT repeat these mechanisms or triggers):\n\n"+"\n".join(rows)+"\n")
PY
