#!/bin/bash
# keep3.sh Cxx : archive wave-3 seeds 1,2 of Cxx as ids -7,-8 with verdicts from res files
p=$1
for k in 1 2; do
  r=$(grep -h "^RESULT" /tmp/seed5-$p/res$k.txt | grep -o "CAUGHT\|MISSED" | head -1)
  c=$(grep -h "^counts" /tmp/seed5-$p/res$k.txt)
  f=$(grep -m1 "^FAILING" /tmp/seed5-$p/res$k.txt | cut -c1-150 | tr '"' "'")
  v="$r (first run; $c) $f"
  python3 /verif/tools/keepseed.py /tmp/seed5-$p/out/$k $p-$((k+20)) $p "$v" "wave 5; tools/seedtest.sh patch.diff $p quick"
done
