#!/bin/bash
p=$1
mkdir -p /tmp/seed6-$p/out/1 /tmp/seed6-$p/out/2
git -C /repo worktree add --detach /tmp/seed6-$p/repo HEAD -q
python3 - "$p" <<'PY'
import json,sys
pid=sys.argv[1]
for l in open('/verif/properties.jsonl'):
    q=json.loads(l)
    if q['id']==pid:
        open(f'/tmp/seed6-{pid}/property.txt','w').write(f"{q['id']} — {q['title']}\n\n{q['statement']}\n\nQuantified over: {q['quantifier']['text']}\n\nAnchored in: {', '.join(q['anchors']['files'])}\n")
PY
