#!/bin/bash
# usage: w6.sh Cxx  -> runs seedtest for out/1 and out/2
p=$1
for k in 1 2; do
  d=/tmp/seed6-$p/out/$k
  demo=$(ls $d/*_test.go 2>/dev/null | head -1)
  pkg=.
  if [ -n "$demo" ]; then
    pk=$(grep -m1 '^package ' $demo | awk '{print $2}')
    case $pk in html_test|html) pkg=html;; q_test|q) pkg=q;; core_test|core) pkg=html/core;; util_test|util) pkg=util;; main|main_test) pkg=cmd/gedcom;; esac
  fi
  /verif/tools/seedtest.sh $d/patch.diff $p quick "$demo" $pkg > /tmp/seed6-$p/res$k.txt 2>&1 &
done; wait
grep -hE "^(RESULT|counts)" /tmp/seed6-$p/res[12].txt
