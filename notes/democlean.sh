#!/bin/bash
# democlean.sh Cxx... : run each wave-6 demo on a clean HEAD worktree (must pass)
export GOFLAGS=-mod=mod GOPROXY=off GOSUMDB=off GOTOOLCHAIN=local
W=$(mktemp -d /tmp/dc-XXXXXX)
git -C /repo worktree add --detach $W/repo HEAD -q
for p in "$@"; do for k in 1 2; do
  d=/tmp/seed6-$p/out/$k
  demo=$(ls $d/*_test.go 2>/dev/null | head -1)
  [ -z "$demo" ] && { echo "$p-$k no-test-demo"; continue; }
  pk=$(grep -m1 '^package ' $demo | awk '{print $2}'); pkg=.
  case $pk in html_test|html) pkg=html;; q_test|q) pkg=q;; core_test|core) pkg=html/core;; util_test|util) pkg=util;; main|main_test) pkg=cmd/gedcom;; esac
  cp $demo $W/repo/$pkg/zz_demo_test.go
  if (cd $W/repo/$pkg && go test -vet=off -count=1 -run . . > $W/out.log 2>&1); then echo "$p-$k demo-passes-on-HEAD"; else echo "$p-$k DEMO-FAILS-ON-HEAD"; tail -5 $W/out.log; fi
  rm -f $W/repo/$pkg/zz_demo_test.go
done; done
git -C /repo worktree remove --force $W/repo; rm -rf $W
