#!/bin/bash
# keep6.sh Cxx : archive wave-6 seeds 1,2 of Cxx as ids -41,-42 with verdicts from res files
p=$1
for k in 1 2; do
  r=$(grep -h "^RESULT" /tmp/seed6-$p/res$k.txt | grep -o "CAUGHT\|MISSED" | head -1)
  c=$(grep -h "^counts" /tmp/seed6-$p/res$k.txt)
  f=$(grep -m1 "^FAILING" /tmp/seed6-$p/res$k.txt | cut -c1-150 | tr '"' "'")
  v="$r (first run; $c) $f"
  python3 /verif/tools/keepseed.py /tmp/seed6-$p/out/$k $p-$((k+40)) $p "$v" "wave 6; tools/seedtest.sh patch.diff $p quick"
done
