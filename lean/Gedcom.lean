import Gedcom.Model.Compare
