/-
  The model's deterministic `Dec.parseLine` is the backtracking semantics (`Regex.find`) of the
  line pattern translated from decoder.go (`Generated.lineRegex`) followed by the field
  extraction `parseLine` performs on the submatches.  Helper lemmas; the property theorem is in
  Props/C02.lean.
-/
import Gedcom.Model.Regex
import Gedcom.Model.Decoder
import Gedcom.Generated.LineRegex

namespace Gedcom.Regex
open Gedcom Gedcom.Dec

/-! ## greedy repetition -/

/-- when the continuation cannot start with a byte of the class, only the longest run is tried
    with effect: the result is the continuation's at the longest run -/
theorem starG_max (t : UInt8 → Bool) (k : Str → Str → Option Caps)
    (hk : ∀ acc b r, t b = true → k acc (b :: r) = none) :
    ∀ (s acc : Str), starG t acc s k = k ((s.takeWhile t).reverse ++ acc) (s.dropWhile t) := by
  intro s
  induction s with
  | nil => intro acc; simp [starG]
  | cons b r ih =>
    intro acc
    by_cases hb : t b = true
    · simp only [starG, hb, ↓reduceIte, List.takeWhile_cons, List.dropWhile_cons]
      rw [ih (b :: acc), hk acc b r hb]
      simp only [List.reverse_cons, List.append_assoc, List.singleton_append]
      cases k ((List.takeWhile t r).reverse ++ b :: acc) (List.dropWhile t r) <;> rfl
    · simp [starG, hb, List.takeWhile_cons, List.dropWhile_cons]

/-- the longest run is tried first: if the continuation succeeds there, that is the result -/
theorem starG_first (t : UInt8 → Bool) (k : Str → Str → Option Caps) :
    ∀ (s acc : Str) (x : Caps),
      k ((s.takeWhile t).reverse ++ acc) (s.dropWhile t) = some x → starG t acc s k = some x := by
  intro s
  induction s with
  | nil => intro acc x h; simpa [starG] using h
  | cons b r ih =>
    intro acc x h
    by_cases hb : t b = true
    · simp only [List.takeWhile_cons, hb, ↓reduceIte, List.dropWhile_cons, List.reverse_cons,
        List.append_assoc, List.singleton_append] at h
      simp only [starG, hb, ↓reduceIte]
      rw [ih (b :: acc) x h]
    · simp only [List.takeWhile_cons, hb, List.dropWhile_cons] at h
      simp only [starG, hb]
      simpa using h

/-! ## the classes of the line pattern, on bytes -/

def digitCls : Cls := .ranges [(48, 57)]
def spaceCls : Cls := .ranges [(32, 32)]
def notAtCls : Cls := .ranges [(0, 63), (65, 1114111)]
def wordCls : Cls := .ranges [(48, 57), (65, 90), (95, 95), (97, 122)]

/-- a statement about every byte follows from the 256 cases -/
theorem forall_byte (P : UInt8 → Prop) (h : ∀ n, n < 256 → P (UInt8.ofNat n)) : ∀ b, P b := by
  intro b
  have := h b.toNat b.toNat_lt
  simpa using this

theorem digit_test : ∀ b : UInt8, digitCls.test b = isDigit b :=
  forall_byte _ (by decide +kernel)

theorem space_test : ∀ b : UInt8, spaceCls.test b = (b == SP) :=
  forall_byte _ (by decide +kernel)

theorem notAt_test : ∀ b : UInt8, notAtCls.test b = (b != AT) :=
  forall_byte _ (by decide +kernel)

theorem word_test : ∀ b : UInt8, wordCls.test b = isWord b :=
  forall_byte _ (by decide +kernel)

theorem anyNotNL_test (b : UInt8) : Cls.anyNotNL.test b = (b != LF) := rfl

end Gedcom.Regex
