/-
  The model's deterministic `Dec.parseLine` is the backtracking semantics (`Regex.find`) of the
  line pattern translated from decoder.go (`Generated.lineRegex`) followed by the field
  extraction `parseLine` performs on the submatches.  Helper lemmas; the property theorem is in
  Props/C02.lean.
-/
import Gedcom.Model.Regex
import Gedcom.Model.Decoder
import Gedcom.Generated.LineRegex

namespace Gedcom.Regex
open Gedcom Gedcom.Dec

/-! ## greedy repetition -/

/-- when the continuation cannot start with a byte of the class, only the longest run is tried
    with effect: the result is the continuation's at the longest run -/
theorem starG_max (t : UInt8 → Bool) (k : Str → Str → Option Caps)
    (hk : ∀ acc b r, t b = true → k acc (b :: r) = none) :
    ∀ (s acc : Str), starG t acc s k = k ((s.takeWhile t).reverse ++ acc) (s.dropWhile t) := by
  intro s
  induction s with
  | nil => intro acc; simp [starG]
  | cons b r ih =>
    intro acc
    by_cases hb : t b = true
    · simp only [starG, hb, ↓reduceIte, List.takeWhile_cons, List.dropWhile_cons]
      rw [ih (b :: acc), hk acc b r hb]
      simp only [List.reverse_cons, List.append_assoc, List.singleton_append]
      cases k ((List.takeWhile t r).reverse ++ b :: acc) (List.dropWhile t r) <;> rfl
    · simp [starG, hb, List.takeWhile_cons, List.dropWhile_cons]

/-- the longest run is tried first: if the continuation succeeds there, that is the result -/
theorem starG_first (t : UInt8 → Bool) (k : Str → Str → Option Caps) :
    ∀ (s acc : Str) (x : Caps),
      k ((s.takeWhile t).reverse ++ acc) (s.dropWhile t) = some x → starG t acc s k = some x := by
  intro s
  induction s with
  | nil => intro acc x h; simpa [starG] using h
  | cons b r ih =>
    intro acc x h
    by_cases hb : t b = true
    · simp only [List.takeWhile_cons, hb, ↓reduceIte, List.dropWhile_cons, List.reverse_cons,
        List.append_assoc, List.singleton_append] at h
      simp only [starG, hb, ↓reduceIte]
      rw [ih (b :: acc) x h]
    · simp only [List.takeWhile_cons, hb, List.dropWhile_cons] at h
      simp only [starG, hb]
      simpa using h

/-! ## the classes of the line pattern, on bytes -/

def digitCls : Cls := .ranges [(48, 57)]
def spaceCls : Cls := .ranges [(32, 32)]
def notAtCls : Cls := .ranges [(0, 63), (65, 1114111)]
def wordCls : Cls := .ranges [(48, 57), (65, 90), (95, 95), (97, 122)]

/-- a statement about every byte follows from the 256 cases -/
theorem forall_byte (P : UInt8 → Prop) (h : ∀ n, n < 256 → P (UInt8.ofNat n)) : ∀ b, P b := by
  intro b
  have := h b.toNat b.toNat_lt
  simpa using this

theorem digit_test : ∀ b : UInt8, digitCls.test b = isDigit b :=
  forall_byte _ (by decide +kernel)

theorem space_test : ∀ b : UInt8, spaceCls.test b = (b == SP) :=
  forall_byte _ (by decide +kernel)

theorem notAt_test : ∀ b : UInt8, notAtCls.test b = (b != AT) :=
  forall_byte _ (by decide +kernel)

theorem word_test : ∀ b : UInt8, wordCls.test b = isWord b :=
  forall_byte _ (by decide +kernel)

theorem anyNotNL_test (b : UInt8) : Cls.anyNotNL.test b = (b != LF) := rfl

theorem digit_fun : digitCls.test = isDigit := funext digit_test
theorem space_fun : spaceCls.test = (fun b => b == SP) := funext space_test
theorem notAt_fun : notAtCls.test = (fun b => b != AT) := funext notAt_test
theorem word_fun : wordCls.test = isWord := funext word_test

/-! ## the line pattern, stage by stage (from the right) -/

/-- `(.*)?$` -/
def restRe : Re := .seq (.quest (.cap 4 (.star .anyNotNL))) .eol
/-- ` ?(.*)?$` -/
def tailRe : Re := .seq (.quest (.lit [32])) restRe
/-- `(\w+) ?(.*)?$` -/
def tagRe : Re := .seq (.cap 3 (.plus wordCls)) tailRe
/-- `(@[^@]+@ )` -/
def ptrGroup : Re := .cap 2 (.seq (.lit [64]) (.seq (.plus notAtCls) (.lit [64, 32])))
/-- `(@[^@]+@ )?(\w+) ?(.*)?$` -/
def afterSpaces : Re := .seq (.quest ptrGroup) tagRe
/-- ` +(@[^@]+@ )?(\w+) ?(.*)?$` -/
def spacesRe : Re := .seq (.plus spaceCls) afterSpaces
/-- `(\d+) +(@[^@]+@ )?(\w+) ?(.*)?$` — the pattern of decoder.go after its leading `^` -/
def expected : Re := .seq (.cap 1 (.plus digitCls)) spacesRe

/-- the final continuation of `find` -/
def kf : Str → Str → Caps → Option Caps := fun _ _ c => some c

theorem takeWhile_all (p : UInt8 → Bool) : ∀ s : Str, (∀ b ∈ s, p b = true) → s.takeWhile p = s
  | [], _ => rfl
  | b :: r, h => by
    have hb := h b (by simp)
    simp only [List.takeWhile_cons, hb, ↓reduceIte]
    rw [takeWhile_all p r (fun x hx => h x (by simp [hx]))]

theorem dropWhile_all (p : UInt8 → Bool) : ∀ s : Str, (∀ b ∈ s, p b = true) → s.dropWhile p = []
  | [], _ => rfl
  | b :: r, h => by
    have hb := h b (by simp)
    simp only [List.dropWhile_cons, hb, ↓reduceIte]
    exact dropWhile_all p r (fun x hx => h x (by simp [hx]))

theorem noLF_all (s : Str) (h : LF ∉ s) : ∀ b ∈ s, Cls.anyNotNL.test b = true := by
  intro b hb
  simp only [Cls.test, bne_iff_ne, ne_eq]
  intro e; subst e; exact h hb

theorem rest_run (acc s : Str) (c : Caps) (h : LF ∉ s) :
    run restRe acc s c kf = some (c.set 4 s) := by
  simp only [restRe, run]
  rw [starG_first Cls.anyNotNL.test _ s [] (c.set 4 s)]
  rw [takeWhile_all _ s (noLF_all s h), dropWhile_all _ s (noLF_all s h)]
  simp [kf]

theorem tail_run (acc s : Str) (c : Caps) (h : LF ∉ s) :
    run tailRe acc s c kf = some (c.set 4 (afterTag s)) := by
  cases s with
  | nil =>
    simp only [tailRe, run, litG]
    rw [rest_run acc [] c h]; rfl
  | cons b r =>
    have hr : LF ∉ r := fun hm => h (by simp [hm])
    by_cases hb : b = SP
    · subst hb
      simp only [tailRe, run, litG, afterTag]
      have : SP.toNat = 32 := rfl
      simp only [this, ↓reduceIte]
      rw [rest_run _ r c hr]
      simp
    · have hne : ¬ b.toNat = 32 := fun e => hb (UInt8.toNat_inj.mp (by simpa [SP] using e))
      simp only [tailRe, run, litG, hne, ↓reduceIte, afterTag]
      rw [rest_run acc (b :: r) c h]
      have : (b == SP) = false := by simpa using hb
      simp [this]

/-- what the tag stage yields -/
def tagRes (c : Caps) (r : Str) : Option Caps :=
  if r.takeWhile isWord = [] then none
  else some ((c.set 3 (r.takeWhile isWord)).set 4 (afterTag (r.dropWhile isWord)))

theorem noLF_dropWhile (p : UInt8 → Bool) (s : Str) (h : LF ∉ s) : LF ∉ s.dropWhile p :=
  fun hm => h ((List.dropWhile_sublist p).subset hm)

theorem tag_run (acc r : Str) (c : Caps) (h : LF ∉ r) :
    run tagRe acc r c kf = tagRes c r := by
  cases r with
  | nil => simp [tagRe, run, tagRes]
  | cons b r' =>
    have hr : LF ∉ r' := fun hm => h (by simp [hm])
    simp only [tagRe, run, word_fun, tagRes, List.takeWhile_cons, List.dropWhile_cons]
    by_cases hb : isWord b = true
    · simp only [hb, ↓reduceIte]
      rw [starG_first isWord _ r' [b]
        ((c.set 3 (b :: r'.takeWhile isWord)).set 4 (afterTag (r'.dropWhile isWord)))]
      · simp
      · show run tailRe _ _ _ kf = _
        rw [tail_run _ _ _ (noLF_dropWhile isWord r' hr)]
        simp
    · simp [hb]

theorem tagRes_notWord (c : Caps) (b : UInt8) (r : Str) (hb : isWord b = false) :
    tagRes c (b :: r) = none := by
  simp [tagRes, List.takeWhile_cons, hb]

/-- what the optional pointer group followed by the tag stage yields -/
def ptrRes (c : Caps) (r2 : Str) : Option Caps :=
  match parsePtr r2 with
  | none => none
  | some (ptr, r) => tagRes (if ptr = [] then c else c.set 2 (AT :: ptr ++ [AT, SP])) r

theorem isWord_AT : isWord AT = false := by decide
theorem isWord_SP : isWord SP = false := by decide

theorem litG_at_none (acc : Str) (b : UInt8) (r : Str) (hb : (b != AT) = true) :
    litG [64, 32] acc (b :: r) = none := by
  have : ¬ b.toNat = 64 := fun e => by
    have : b = AT := UInt8.toNat_inj.mp (by simpa [AT] using e)
    simp [this] at hb
  simp [litG, this]

theorem ptr_run (acc r2 : Str) (c : Caps) (h : LF ∉ r2) :
    run afterSpaces acc r2 c kf = ptrRes c r2 := by
  cases r2 with
  | nil =>
    simp only [afterSpaces, ptrGroup, run, litG, ptrRes, parsePtr]
    rw [tag_run acc [] c h]; simp
  | cons c0 r3 =>
    have h3 : LF ∉ r3 := fun hm => h (by simp [hm])
    by_cases h0 : c0 = AT
    · subst h0
      have hAT : AT.toNat = 64 := rfl
      have fallback : run tagRe acc (AT :: r3) c kf = none := by
        rw [tag_run acc _ c h, tagRes_notWord c AT r3 isWord_AT]
      cases r3 with
      | nil =>
        simp only [afterSpaces, ptrGroup, run, litG, hAT, ↓reduceIte]
        rw [fallback]
        simp [ptrRes, parsePtr]
      | cons d r4 =>
        have h4 : LF ∉ r4 := fun hm => h3 (by simp [hm])
        by_cases hd : (d != AT) = true
        · -- `[^@]+` runs to the next `@`; the literal `@ ` must follow
          simp only [afterSpaces, ptrGroup, run, litG, hAT, ↓reduceIte, notAt_fun, hd]
          rw [starG_max (fun b => b != AT) _ (fun acc' b r hb => by
            simp only [litG_at_none acc' b r hb]) r4 [d, AT]]
          rw [fallback]
          have hp : ((d :: r4).takeWhile (· != AT)) = d :: r4.takeWhile (· != AT) := by
            simp [List.takeWhile_cons, hd]
          have hq : ((d :: r4).dropWhile (· != AT)) = r4.dropWhile (· != AT) := by
            simp [List.dropWhile_cons, hd]
          simp only [ptrRes, parsePtr, beq_self_eq_true, ↓reduceIte, hp, hq]
          have hdw : LF ∉ r4.dropWhile (· != AT) := noLF_dropWhile _ r4 h4
          match hm : r4.dropWhile (· != AT), hdw with
          | [], _ => simp [litG]
          | [a], _ =>
            by_cases ha : a.toNat = 64 <;> simp [litG, ha]
          | a :: b :: r5, hdw =>
            have h5 : LF ∉ r5 := fun hm5 => hdw (by simp [hm5])
            by_cases ha : a = AT
            · subst ha
              by_cases hb : b = SP
              · subst hb
                have hSP : SP.toNat = 32 := rfl
                simp only [litG, hAT, hSP, ↓reduceIte]
                rw [tag_run _ r5 _ h5]
                simp only [beq_self_eq_true, Bool.and_self, Bool.true_and, ne_eq, reduceCtorEq,
                  not_false_eq_true, decide_true, ↓reduceIte, List.cons_ne_nil]
                have : (SP :: AT :: ((List.takeWhile (fun b => b != AT) r4).reverse ++ [d, AT])).reverse
                    = AT :: (d :: List.takeWhile (fun x => x != AT) r4) ++ [AT, SP] := by simp
                rw [this]
                cases tagRes _ r5 <;> rfl
              · have hne : ¬ b.toNat = 32 := fun e => hb (UInt8.toNat_inj.mp (by simpa [SP] using e))
                have : (b == SP) = false := by simpa using hb
                simp [litG, hAT, hne, this]
            · have hne : ¬ a.toNat = 64 := fun e => ha (UInt8.toNat_inj.mp (by simpa [AT] using e))
              have : (a == AT) = false := by simpa using ha
              simp [litG, hne, this]
        · -- `@@…`: the group cannot match and `\w+` cannot start at `@`
          have hd' : d = AT := by simpa using hd
          subst hd'
          simp only [afterSpaces, ptrGroup, run, litG, hAT, ↓reduceIte, notAt_fun]
          have : (AT != AT) = false := by decide
          simp only [this, Bool.false_eq_true, ↓reduceIte]
          rw [fallback]
          simp only [ptrRes, parsePtr, beq_self_eq_true, ↓reduceIte]
          have e1 : (AT :: r4).takeWhile (· != AT) = [] := by simp [List.takeWhile_cons]
          have e2 : (AT :: r4).dropWhile (· != AT) = AT :: r4 := by simp [List.dropWhile_cons]
          rw [e1, e2]
          cases r4 with
          | nil => rfl
          | cons x y => simp
    · have hne : ¬ c0.toNat = 64 := fun e => h0 (UInt8.toNat_inj.mp (by simpa [AT] using e))
      have hb : (c0 == AT) = false := by simpa using h0
      simp only [afterSpaces, ptrGroup, run, litG, hne, ↓reduceIte, ptrRes, parsePtr, hb,
        Bool.false_eq_true]
      rw [tag_run acc _ c h]

theorem ptrRes_space (c : Caps) (r : Str) : ptrRes c (SP :: r) = none := by
  have : (SP == AT) = false := by decide
  simp [ptrRes, parsePtr, this, tagRes_notWord _ SP r isWord_SP]

/-- what ` +` followed by the rest yields -/
def spacesRes (c : Caps) (r1 : Str) : Option Caps :=
  if r1.takeWhile (· == SP) = [] then none else ptrRes c (r1.dropWhile (· == SP))

theorem spaces_run (acc r1 : Str) (c : Caps) (h : LF ∉ r1) :
    run spacesRe acc r1 c kf = spacesRes c r1 := by
  cases r1 with
  | nil => simp [spacesRe, run, spacesRes]
  | cons b r =>
    have hr : LF ∉ r := fun hm => h (by simp [hm])
    simp only [spacesRe, run, space_fun, spacesRes, List.takeWhile_cons, List.dropWhile_cons]
    by_cases hb : (b == SP) = true
    · simp only [hb, ↓reduceIte]
      rw [starG_max (fun b => b == SP) _ (fun acc' b' r' hb' => by
        have : b' = SP := by simpa using hb'
        subst this
        have hlf : LF ∉ (SP :: r') → run afterSpaces acc' (SP :: r') c kf = none := fun hh => by
          rw [ptr_run acc' _ c hh, ptrRes_space]
        by_cases hh : LF ∈ r'
        · -- the pointer stage still fails: the tag cannot start with a space
          simp [afterSpaces, ptrGroup, run, litG, tagRe, word_fun, isWord_SP]
          have : ¬ SP.toNat = 64 := by decide
          simp [this]
        · exact hlf (fun hm => by
            rcases List.mem_cons.mp hm with e | e
            · exact absurd e (by decide)
            · exact hh e)) r (b :: acc)]
      rw [ptr_run _ _ c (noLF_dropWhile _ r hr)]
      simp
    · simp [hb]

/-- what the whole pattern yields -/
def lineRes (s : Str) : Option Caps :=
  if s.takeWhile isDigit = [] then none
  else spacesRes (Caps.set (fun _ => []) 1 (s.takeWhile isDigit)) (s.dropWhile isDigit)

theorem spacesRes_digit (c : Caps) (b : UInt8) (r : Str) (hb : isDigit b = true) :
    spacesRes c (b :: r) = none := by
  have : (b == SP) = false := by
    cases hbs : b == SP with
    | false => rfl
    | true =>
      have : b = SP := by simpa using hbs
      subst this; exact absurd hb (by decide)
  simp [spacesRes, List.takeWhile_cons, this]

theorem spaces_digit_none (acc : Str) (c : Caps) (b : UInt8) (r : Str) (hb : isDigit b = true) :
    run spacesRe acc (b :: r) c kf = none := by
  have : (b == SP) = false := by
    cases hbs : b == SP with
    | false => rfl
    | true =>
      have : b = SP := by simpa using hbs
      subst this; exact absurd hb (by decide)
  simp [spacesRe, run, space_fun, this]

theorem find_kf (re : Re) (s : Str) : find re s = run re [] s (fun _ => []) kf := rfl

theorem find_expected (s : Str) (h : LF ∉ s) : find expected s = lineRes s := by
  rw [find_kf]
  cases s with
  | nil => simp [expected, run, lineRes]
  | cons b r =>
    have hr : LF ∉ r := fun hm => h (by simp [hm])
    simp only [expected, run, digit_fun, lineRes, List.takeWhile_cons, List.dropWhile_cons]
    by_cases hb : isDigit b = true
    · simp only [hb, ↓reduceIte]
      rw [starG_max isDigit _ (fun acc' b' r' hb' => by
        simp only [List.append_nil]
        exact spaces_digit_none _ _ b' r' hb') r [b]]
      simp only [List.append_nil]
      have := spaces_run ((List.takeWhile isDigit r).reverse ++ [b]) (List.dropWhile isDigit r)
        (Caps.set (fun _ => []) 1 ((List.takeWhile isDigit r).reverse ++ [b]).reverse)
        (noLF_dropWhile _ r hr)
      rw [this]
      simp
    · simp [hb]

/-! ## from submatches to the fields of a line -/

/-- what `parseLine` (decoder.go) does with the submatches: `indent, _ := strconv.Atoi(parts[1])`,
    `pointer = parts[2][1 : len(parts[2])-2]` when `parts[2] != ""`, `TagFromString(parts[3])`,
    `value := parts[4]`.  (`Atoi` saturates at the largest `int`; the model keeps the exact
    number — see the trusted base of C01–C03.) -/
def fields (c : Caps) : Line :=
  ⟨decToNat (c 1), if c 2 = [] then [] else ((c 2).take ((c 2).length - 2)).drop 1, c 3, c 4⟩

theorem ptr_slice (ptr : Str) :
    ((AT :: ptr ++ [AT, SP]).take ((AT :: ptr ++ [AT, SP]).length - 2)).drop 1 = ptr := by
  have : (AT :: ptr ++ [AT, SP]).length - 2 = (AT :: ptr).length := by simp
  rw [this]
  have : AT :: ptr ++ [AT, SP] = (AT :: ptr) ++ [AT, SP] := rfl
  rw [this, List.take_left']
  · rfl
  · rfl

theorem fields_lineRes (s : Str) : (lineRes s).map fields = parseLine s := by
  unfold lineRes parseLine spacesRes ptrRes tagRes
  simp only
  by_cases h1 : s.takeWhile isDigit = []
  · simp [h1]
  · simp only [h1, ↓reduceIte]
    by_cases h2 : (s.dropWhile isDigit).takeWhile (· == SP) = []
    · simp [h2]
    · simp only [h2, ↓reduceIte]
      cases hp : parsePtr ((s.dropWhile isDigit).dropWhile (· == SP)) with
      | none => simp
      | some pr =>
        obtain ⟨ptr, r⟩ := pr
        simp only
        by_cases h3 : r.takeWhile isWord = []
        · simp [h3]
        · simp only [h3, ↓reduceIte, Option.map_some]
          by_cases hptr : ptr = []
          · subst hptr
            simp [fields, Caps.set]
          · simp only [hptr, ↓reduceIte, fields, Caps.set]
            simp [ptr_slice]

end Gedcom.Regex
