/-
  Two deep-equal inputs give an all-two-sided diff (C08): the combinatorial allTwo_core.

  `PMatch R l r`: there is a perfect matching between `l` and `r` along `R` (the order of `r` is
  irrelevant by construction).  The diff children produced by the two passes are decomposed class by
  class (`traverseKids_split`): the first entry collects exactly the nodes equal to its first node,
  the remaining nodes behave as if they were traversed alone.  Core Lean only.
-/
import Gedcom.Lemmas.Diff
namespace Gedcom
open Diff

/-! ### perfect matchings -/

inductive PMatch {α : Type} (R : α → α → Prop) : List α → List α → Prop
  | nil : PMatch R [] []
  | cons {x y : α} {xs r s : List α} : R x y → r.Perm (y :: s) → PMatch R xs s → PMatch R (x :: xs) r

namespace PMatch
variable {α : Type} {R : α → α → Prop}

theorem length_eq {l r : List α} (h : PMatch R l r) : l.length = r.length := by
  induction h with
  | nil => rfl
  | cons _ hp _ ih => rw [hp.length_eq]; simp [ih]

theorem perm_right {l r r' : List α} (h : PMatch R l r) (hp : r.Perm r') : PMatch R l r' := by
  cases h with
  | nil => have := hp.nil_eq; subst this; exact PMatch.nil
  | cons hxy hr hm => exact PMatch.cons hxy (hp.symm.trans hr) hm

theorem append {l r l' r' : List α} (h : PMatch R l r) (h' : PMatch R l' r') :
    PMatch R (l ++ l') (r ++ r') := by
  induction h with
  | nil => simpa using h'
  | cons hxy hr _ ih =>
    exact PMatch.cons hxy ((hr.append_right _).trans (by simp)) ih

/-- a predicate that does not separate matched partners cuts a matching into two matchings -/
theorem filter {l r : List α} (p : α → Bool) (h : PMatch R l r)
    (hc : ∀ x ∈ l, ∀ y ∈ r, R x y → p x = p y) : PMatch R (l.filter p) (r.filter p) := by
  induction h with
  | nil => exact PMatch.nil
  | @cons x y xs r s hxy hr _ ih =>
    have hy : y ∈ r := hr.symm.subset (List.mem_cons_self)
    have hs : ∀ z ∈ s, z ∈ r := fun z hz => hr.symm.subset (List.mem_cons_of_mem _ hz)
    have ih' := ih (fun x' hx' y' hy' => hc x' (List.mem_cons_of_mem _ hx') y' (hs y' hy'))
    have hpxy := hc x List.mem_cons_self y hy hxy
    have hrf : (r.filter p).Perm ((y :: s).filter p) := hr.filter p
    cases hpx : p x with
    | true =>
      rw [List.filter_cons_of_pos (by simpa using hpx)]
      rw [List.filter_cons_of_pos (by rw [← hpxy]; simpa using hpx)] at hrf
      exact PMatch.cons hxy hrf ih'
    | false =>
      rw [List.filter_cons_of_neg (by simp [hpx])]
      rw [List.filter_cons_of_neg (by rw [← hpxy]; simp [hpx])] at hrf
      exact ih'.perm_right hrf.symm

theorem mono {R' : α → α → Prop} {l r : List α} (h : PMatch R l r)
    (hrr : ∀ x ∈ l, ∀ y ∈ r, R x y → R' x y) : PMatch R' l r := by
  induction h with
  | nil => exact PMatch.nil
  | @cons x y xs r s hxy hr _ ih =>
    have hy : y ∈ r := hr.symm.subset (List.mem_cons_self)
    have hs : ∀ z ∈ s, z ∈ r := fun z hz => hr.symm.subset (List.mem_cons_of_mem _ hz)
    exact PMatch.cons (hrr x List.mem_cons_self y hy hxy) hr
      (ih (fun x' hx' y' hy' => hrr x' (List.mem_cons_of_mem _ hx') y' (hs y' hy')))

end PMatch

/-- matched nodes have matched children, hence so have the concatenated children -/
theorem PMatch.flatMap_kids {R : INode → INode → Prop} {l r : List INode} (h : PMatch R l r)
    (hk : ∀ x ∈ l, ∀ y ∈ r, R x y → PMatch R x.kids y.kids) :
    PMatch R (l.flatMap INode.kids) (r.flatMap INode.kids) := by
  induction h with
  | nil => exact PMatch.nil
  | @cons x y xs r s hxy hr _ ih =>
    have hy : y ∈ r := hr.symm.subset (List.mem_cons_self)
    have hs : ∀ z ∈ s, z ∈ r := fun z hz => hr.symm.subset (List.mem_cons_of_mem _ hz)
    have h1 := hk x List.mem_cons_self y hy hxy
    have h2 := ih (fun x' hx' y' hy' => hk x' (List.mem_cons_of_mem _ hx') y' (hs y' hy'))
    have hp : (r.flatMap INode.kids).Perm ((y :: s).flatMap INode.kids) := hr.flatMap_right _
    rw [List.flatMap_cons]
    rw [List.flatMap_cons] at hp
    exact (h1.append h2).perm_right hp.symm

/-! ### feeding several nodes into one entry -/

/-- `nd.traverse(n₁, b); nd.traverse(n₂, b); …` -/
def feedDiff (eq : INode → INode → Bool) (b : Bool) : List INode → Diff → Diff
  | [], e => e
  | n :: ns, e => feedDiff eq b ns (traverse eq b n e)

section proj
variable (eq : INode → INode → Bool) (b : Bool)

theorem traverse_left (n : INode) (e : Diff) : (traverse eq b n e).left = fillL b n e.left := by
  cases n; rw [traverse]; rfl
theorem traverse_right (n : INode) (e : Diff) : (traverse eq b n e).right = fillR b n e.right := by
  cases n; rw [traverse]; rfl
theorem traverse_kids (n : INode) (e : Diff) :
    (traverse eq b n e).kids = traverseKids eq b n.kids e.kids := by
  cases n; rw [traverse]; rfl

theorem traverseKids_append : ∀ (a c : List INode) (cs : List Diff),
    traverseKids eq b (a ++ c) cs = traverseKids eq b c (traverseKids eq b a cs)
  | [], c, cs => by rw [List.nil_append, traverseKids]
  | k :: a, c, cs => by
    rw [List.cons_append, traverseKids, traverseKids, traverseKids_append a c]

theorem feed_kids : ∀ (ns : List INode) (e : Diff),
    (feedDiff eq b ns e).kids = traverseKids eq b (ns.flatMap INode.kids) e.kids
  | [], e => by rw [feedDiff, List.flatMap_nil, traverseKids]
  | n :: ns, e => by
    rw [feedDiff, feed_kids ns, traverse_kids, List.flatMap_cons, traverseKids_append]

theorem feed_left_some : ∀ (ns : List INode) (e : Diff) (x : INode), e.left = some x →
    (feedDiff eq b ns e).left = some x
  | [], _, _, h => by rw [feedDiff]; exact h
  | n :: ns, e, x, h => by
    rw [feedDiff]
    exact feed_left_some ns _ x (by rw [traverse_left, h, fillL_some])

theorem feed_right_some : ∀ (ns : List INode) (e : Diff) (y : INode), e.right = some y →
    (feedDiff eq b ns e).right = some y
  | [], _, _, h => by rw [feedDiff]; exact h
  | n :: ns, e, y, h => by
    rw [feedDiff]
    exact feed_right_some ns _ y (by rw [traverse_right, h, fillR_some])
end proj

theorem feed_true_right (eq : INode → INode → Bool) : ∀ (ns : List INode) (e : Diff),
    (feedDiff eq true ns e).right = e.right
  | [], e => by rw [feedDiff]
  | n :: ns, e => by rw [feedDiff, feed_true_right eq ns, traverse_right]; simp [fillR]

theorem feed_false_right (eq : INode → INode → Bool) (y : INode) (ys : List INode) (e : Diff) :
    ((feedDiff eq false (y :: ys) e).right).isSome = true := by
  rw [feedDiff]
  cases hr : e.right with
  | some y0 =>
    rw [feed_right_some eq false ys _ y0 (by rw [traverse_right, hr, fillR_some])]; rfl
  | none =>
    rw [feed_right_some eq false ys _ y (by rw [traverse_right, hr]; simp [fillR])]; rfl

theorem feed_true_cons_left (eq : INode → INode → Bool) (k : INode) (ks : List INode) :
    (feedDiff eq true (k :: ks) Diff.empty).left = some k := by
  rw [feedDiff]; exact feed_left_some eq true ks _ k (by rw [traverse_left]; rfl)

theorem feed_true_cons_right (eq : INode → INode → Bool) (k : INode) (ks : List INode) :
    (feedDiff eq true (k :: ks) Diff.empty).right = none := by
  rw [feedDiff, feed_true_right, traverse_right]; rfl

/-! ### the first entry collects its class -/

/-- If the match test of the first entry is the fixed predicate `q` on the nodes traversed, and stays
    so while matching nodes are fed into it, then that entry receives exactly the nodes satisfying
    `q` and the others are traversed as if it were not there. -/
theorem traverseKids_split (eq : INode → INode → Bool) (b : Bool) (q : INode → Bool)
    (Inv : Diff → Prop) :
    ∀ (ks : List INode) (e1 : Diff) (cs : List Diff), Inv e1 →
      (∀ e k, Inv e → k ∈ ks → Diff.matchesNode eq k e = q k) →
      (∀ e k, Inv e → k ∈ ks → q k = true → Inv (traverse eq b k e)) →
      traverseKids eq b ks (e1 :: cs) =
        feedDiff eq b (ks.filter q) e1 :: traverseKids eq b (ks.filter (fun k => !q k)) cs
  | [], e1, cs, _, _, _ => by simp [traverseKids, feedDiff]
  | k :: ks, e1, cs, hinv, hm, hstep => by
    have hmk := hm e1 k hinv List.mem_cons_self
    have hm' : ∀ e k', Inv e → k' ∈ ks → Diff.matchesNode eq k' e = q k' :=
      fun e k' he hk' => hm e k' he (List.mem_cons_of_mem _ hk')
    have hstep' : ∀ e k', Inv e → k' ∈ ks → q k' = true → Inv (traverse eq b k' e) :=
      fun e k' he hk' => hstep e k' he (List.mem_cons_of_mem _ hk')
    rw [traverseKids, placeWith]
    cases hq : q k with
    | true =>
      rw [hmk, hq, if_pos rfl]
      rw [traverseKids_split eq b q Inv ks _ cs (hstep e1 k hinv List.mem_cons_self hq) hm' hstep']
      rw [List.filter_cons_of_pos (by simpa using hq), feedDiff]
      rw [List.filter_cons_of_neg (by simp [hq])]
    | false =>
      rw [hmk, hq, if_neg (by simp)]
      rw [traverseKids_split eq b q Inv ks e1 _ hinv hm' hstep']
      rw [List.filter_cons_of_neg (by simp [hq])]
      rw [List.filter_cons_of_pos (by simp [hq]), traverseKids]

/-! ### sizes -/

theorem INode.size_pos (n : INode) : 1 ≤ n.size := by
  cases n; rw [INode.size]; omega

theorem INode.sizeL_append : ∀ (a c : List INode), INode.sizeL (a ++ c) = INode.sizeL a + INode.sizeL c
  | [], c => by simp [INode.sizeL]
  | k :: a, c => by rw [List.cons_append, INode.sizeL, INode.sizeL, INode.sizeL_append a c]; omega

theorem INode.sizeL_filter_le (p : INode → Bool) : ∀ (l : List INode),
    INode.sizeL (l.filter p) ≤ INode.sizeL l
  | [] => by simp [INode.sizeL]
  | k :: l => by
    have := INode.sizeL_filter_le p l
    cases hp : p k with
    | true => rw [List.filter_cons_of_pos (by simpa using hp), INode.sizeL, INode.sizeL]; omega
    | false => rw [List.filter_cons_of_neg (by simp [hp]), INode.sizeL]; omega

theorem INode.sizeL_flatMap_kids : ∀ (l : List INode),
    INode.sizeL (l.flatMap INode.kids) + l.length = INode.sizeL l
  | [] => by simp [INode.sizeL]
  | k :: l => by
    have := INode.sizeL_flatMap_kids l
    cases k with | mk i t v p ks =>
    rw [List.flatMap_cons, INode.sizeL_append, INode.sizeL, INode.size]
    simp only [INode.kids, List.length_cons]
    omega

/-! ### the guard: `Equals` is an equivalence on every level -/

/-- `a` lies `d` levels below (or is, for `d = 0`) a member of `S` -/
def BelowLevel (S : List INode) (d : Nat) (a : INode) : Prop := ∃ s ∈ S, INode.At s d a

/-- `eq` is reflexive, symmetric and transitive among the nodes of each level below `S` -/
def EquivGuard (eq : INode → INode → Bool) (S : List INode) : Prop :=
  ∀ d a b c, BelowLevel S d a → BelowLevel S d b → BelowLevel S d c →
    eq a a = true ∧ (eq a b = true → eq b a = true) ∧ (eq a b = true → eq b c = true → eq a c = true)

theorem EquivGuard.subset {eq : INode → INode → Bool} {S S' : List INode} (h : EquivGuard eq S)
    (hs : ∀ a ∈ S', a ∈ S) : EquivGuard eq S' := by
  intro d a b c ha hb hc
  have lift : ∀ x, BelowLevel S' d x → BelowLevel S d x := fun x ⟨s, hs', hat⟩ => ⟨s, hs s hs', hat⟩
  exact h d a b c (lift a ha) (lift b hb) (lift c hc)

theorem EquivGuard.kids {eq : INode → INode → Bool} {S S' : List INode} (h : EquivGuard eq S)
    (hs : ∀ a ∈ S', ∃ s ∈ S, a ∈ s.kids) : EquivGuard eq S' := by
  intro d a b c ha hb hc
  have lift : ∀ x, BelowLevel S' d x → BelowLevel S (d + 1) x := by
    intro x ⟨s', hs', hat⟩
    obtain ⟨s, hsS, hk⟩ := hs s' hs'
    cases s with | mk i t v p ks =>
    exact ⟨_, hsS, INode.At.kid hk hat⟩
  exact h (d + 1) a b c (lift a ha) (lift b hb) (lift c hc)

theorem EquivGuard.level0 {eq : INode → INode → Bool} {S : List INode} (h : EquivGuard eq S) {a b c : INode}
    (ha : a ∈ S) (hb : b ∈ S) (hc : c ∈ S) :
    eq a a = true ∧ (eq a b = true → eq b a = true) ∧ (eq a b = true → eq b c = true → eq a c = true) :=
  h 0 a b c ⟨a, ha, INode.At.root a⟩ ⟨b, hb, INode.At.root b⟩ ⟨c, hc, INode.At.root c⟩

/-! ### the allTwo_core -/

/-- every entry of every diff in the list is two-sided -/
def AllTwoL (cs : List Diff) : Prop :=
  ∀ c ∈ cs, Diff.All (fun _ L R => L.isSome = true ∧ R.isSome = true) 1 c

theorem all_two_shift {d d' : Nat} {D : Diff}
    (h : Diff.All (fun _ L R => L.isSome = true ∧ R.isSome = true) d D) :
    Diff.All (fun _ L R => L.isSome = true ∧ R.isSome = true) d' D := by
  apply Diff.All.of_entries
  intro k e he
  exact h.entry he

section allTwo_core
variable (eq : INode → INode → Bool) (DE : INode → INode → Prop)
  (hD1 : ∀ a b, DE a b → eq a b = true)
  (hD2 : ∀ a b, DE a b → PMatch DE a.kids b.kids)

include hD1 hD2 in
theorem allTwo_core : ∀ (n : Nat) (KL KR : List INode), INode.sizeL KL ≤ n → PMatch DE KL KR →
    EquivGuard eq (KL ++ KR) → AllTwoL (traverseKids eq false KR (traverseKids eq true KL []))
  | _, [], KR, _, hm, _ => by
    cases hm with
    | nil => intro c hc; simp [traverseKids] at hc
  | 0, k1 :: rest, _, hn, _, _ => by
    have := INode.size_pos k1
    rw [INode.sizeL] at hn; omega
  | n + 1, k1 :: rest, KR, hn, hm, hg => by
    -- facts about the level
    have hS : ∀ {a b c : INode}, a ∈ (k1 :: rest) ++ KR → b ∈ (k1 :: rest) ++ KR → c ∈ (k1 :: rest) ++ KR →
        eq a a = true ∧ (eq a b = true → eq b a = true) ∧
          (eq a b = true → eq b c = true → eq a c = true) := fun ha hb hc => hg.level0 ha hb hc
    have hk1S : k1 ∈ (k1 :: rest) ++ KR := List.mem_append_left _ List.mem_cons_self
    have hrestS : ∀ k ∈ rest, k ∈ (k1 :: rest) ++ KR :=
      fun k hk => List.mem_append_left _ (List.mem_cons_of_mem _ hk)
    have hKRS : ∀ k ∈ KR, k ∈ (k1 :: rest) ++ KR := fun k hk => List.mem_append_right _ hk
    have hrefl : eq k1 k1 = true := (hS hk1S hk1S hk1S).1
    let q : INode → Bool := fun k => eq k1 k
    -- the left pass: the first entry collects the class of k1
    have hleft : traverseKids eq true (k1 :: rest) [] =
        feedDiff eq true (k1 :: rest.filter q) Diff.empty ::
          traverseKids eq true (rest.filter (fun k => !q k)) [] := by
      rw [traverseKids, placeWith]
      rw [traverseKids_split eq true q (fun e => e.left = some k1 ∧ e.right = none) rest _ []]
      · rw [feedDiff]
      · constructor
        · rw [traverse_left]; rfl
        · rw [traverse_right]; rfl
      · intro e k he _
        simp [Diff.matchesNode, he.1, he.2, q]
      · intro e k he _ _
        constructor
        · rw [traverse_left, he.1, fillL_some]
        · rw [traverse_right, he.2]; rfl
    -- the right pass: the nodes equal to k1 go to the first entry, the others never touch it
    have hright : ∀ (e1 : Diff) (cs : List Diff), e1.left = some k1 → e1.right = none →
        traverseKids eq false KR (e1 :: cs) =
          feedDiff eq false (KR.filter q) e1 :: traverseKids eq false (KR.filter (fun k => !q k)) cs := by
      intro e1 cs hl hr
      apply traverseKids_split eq false q
        (fun e => e.left = some k1 ∧ ∀ y, e.right = some y → y ∈ KR ∧ eq k1 y = true)
      · exact ⟨hl, fun y hy => by rw [hr] at hy; cases hy⟩
      · intro e k he hk
        cases hre : e.right with
        | none => simp [Diff.matchesNode, he.1, hre, q]
        | some y =>
          have hy := he.2 y hre
          have hyS := hKRS y hy.1
          have hkS := hKRS k hk
          simp only [Diff.matchesNode, he.1, hre, q]
          cases h1 : eq k1 k with
          | true => simp
          | false =>
            simp only [Bool.false_or]
            cases h2 : eq y k with
            | false => rfl
            | true =>
              have := (hS hk1S hyS hkS).2.2 hy.2 h2
              rw [h1] at this; cases this
      · intro e k he hk hqk
        constructor
        · rw [traverse_left]; simp [fillL, he.1]
        · intro y hy
          rw [traverse_right] at hy
          cases hre : e.right with
          | some y0 =>
            rw [hre, fillR_some] at hy
            cases hy
            exact he.2 _ hre
          | none =>
            rw [hre] at hy
            simp [fillR] at hy
            subst hy
            exact ⟨hk, hqk⟩
    -- the matching splits along the class of k1
    have hcompat : ∀ x ∈ k1 :: rest, ∀ y ∈ KR, DE x y → q x = q y := by
      intro x hx y hy hxy
      have hxS : x ∈ (k1 :: rest) ++ KR := List.mem_append_left _ hx
      have hyS := hKRS y hy
      have hxy' := hD1 x y hxy
      show eq k1 x = eq k1 y
      cases h1 : eq k1 x with
      | true => exact ((hS hk1S hxS hyS).2.2 h1 hxy').symm
      | false =>
        cases h2 : eq k1 y with
        | false => rfl
        | true =>
          have hyx := (hS hxS hyS hyS).2.1 hxy'
          have := (hS hk1S hyS hxS).2.2 h2 hyx
          rw [h1] at this; cases this
    have hmq := hm.filter q hcompat
    have hmnq := hm.filter (fun k => !q k) (fun x hx y hy hxy => by
      simp only [hcompat x hx y hy hxy])
    rw [List.filter_cons_of_pos (by simpa [q] using hrefl)] at hmq
    rw [List.filter_cons_of_neg (by simp [q, hrefl])] at hmnq
    -- assemble
    rw [hleft, hright _ _ (feed_true_cons_left eq k1 _) (feed_true_cons_right eq k1 _)]
    intro c hc
    rcases List.mem_cons.mp hc with rfl | hc
    · -- the entry of the class of k1
      have hlen := hmq.length_eq
      cases hY : KR.filter q with
      | nil => rw [hY] at hlen; simp at hlen
      | cons y ys =>
        rw [hY] at hmq
        have hYmem : ∀ z ∈ y :: ys, z ∈ KR := fun z hz => by
          have : z ∈ KR.filter q := by rw [hY]; exact hz
          exact (List.mem_filter.mp this).1
        have hXmem : ∀ z ∈ k1 :: rest.filter q, z ∈ k1 :: rest := by
          intro z hz
          rcases List.mem_cons.mp hz with rfl | hz
          · exact List.mem_cons_self
          · exact List.mem_cons_of_mem _ (List.mem_filter.mp hz).1
        -- its children
        have hkids : AllTwoL (traverseKids eq false ((y :: ys).flatMap INode.kids)
            (traverseKids eq true ((k1 :: rest.filter q).flatMap INode.kids) [])) := by
          apply allTwo_core n
          · have h1 := INode.sizeL_flatMap_kids (k1 :: rest.filter q)
            have h2 : INode.sizeL (k1 :: rest.filter q) ≤ INode.sizeL (k1 :: rest) := by
              rw [INode.sizeL, INode.sizeL]
              have := INode.sizeL_filter_le q rest
              omega
            simp only [List.length_cons] at h1
            omega
          · exact hmq.flatMap_kids (fun x _ y _ hxy => hD2 x y hxy)
          · apply hg.kids
            intro a ha
            rcases List.mem_append.mp ha with ha | ha
            · obtain ⟨s, hs, hk⟩ := List.mem_flatMap.mp ha
              exact ⟨s, List.mem_append_left _ (hXmem s hs), hk⟩
            · obtain ⟨s, hs, hk⟩ := List.mem_flatMap.mp ha
              exact ⟨s, List.mem_append_right _ (hYmem s hs), hk⟩
        -- the entry itself
        have hform : ∀ (e : Diff), e.left.isSome = true → e.right.isSome = true → AllTwoL e.kids →
            Diff.All (fun _ L R => L.isSome = true ∧ R.isSome = true) 1 e := by
          intro e hl hr hk
          cases e with | mk L R cs =>
          exact Diff.All.mk ⟨hl, hr⟩ (fun c hc => all_two_shift (hk c hc))
        apply hform
        · rw [feed_left_some eq false _ _ k1 (feed_true_cons_left eq k1 _)]; rfl
        · exact feed_false_right eq y ys _
        · rw [feed_kids, feed_kids]
          exact hkids
    · -- the other classes
      have hrec : AllTwoL (traverseKids eq false (KR.filter (fun k => !q k))
          (traverseKids eq true (rest.filter (fun k => !q k)) [])) := by
        apply allTwo_core n
        · have := INode.sizeL_filter_le (fun k => !q k) rest
          have := INode.size_pos k1
          rw [INode.sizeL] at hn
          omega
        · exact hmnq
        · apply hg.subset
          intro a ha
          rcases List.mem_append.mp ha with ha | ha
          · exact hrestS a (List.mem_filter.mp ha).1
          · exact hKRS a (List.mem_filter.mp ha).1
      exact hrec c hc
end allTwo_core

end Gedcom
