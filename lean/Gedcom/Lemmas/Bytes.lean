/- Byte-level helper lemmas: takeWhile/dropWhile over appends, decimal round trip. -/
import Gedcom.Model.Decoder
namespace Gedcom.Dec
open Gedcom

theorem takeWhile_append_stop {α} (p : α → Bool) (a b : List α)
    (ha : ∀ x ∈ a, p x = true) (hb : ∀ y, b.head? = some y → p y = false) :
    (a ++ b).takeWhile p = a ∧ (a ++ b).dropWhile p = b := by
  induction a with
  | nil =>
    cases b with
    | nil => simp
    | cons y ys => simp [hb y rfl]
  | cons x xs ih =>
    have hx := ha x (by simp)
    have := ih (fun z hz => ha z (by simp [hz]))
    simp [hx, this.1, this.2]

theorem takeWhile_all {α} (p : α → Bool) (a : List α) (ha : ∀ x ∈ a, p x = true) :
    a.takeWhile p = a ∧ a.dropWhile p = [] := by
  have := takeWhile_append_stop p a [] ha (by simp)
  simpa using this

/-! decimal digits -/

theorem digit_isDigit (n : Nat) (h : n < 10) : isDigit (UInt8.ofNat (48 + n)) = true := by
  have : n = 0 ∨ n = 1 ∨ n = 2 ∨ n = 3 ∨ n = 4 ∨ n = 5 ∨ n = 6 ∨ n = 7 ∨ n = 8 ∨ n = 9 := by omega
  rcases this with h|h|h|h|h|h|h|h|h|h <;> subst h <;> decide

theorem digit_val (n : Nat) (h : n < 10) : (UInt8.ofNat (48 + n)).toNat - 48 = n := by
  have : n = 0 ∨ n = 1 ∨ n = 2 ∨ n = 3 ∨ n = 4 ∨ n = 5 ∨ n = 6 ∨ n = 7 ∨ n = 8 ∨ n = 9 := by omega
  rcases this with h|h|h|h|h|h|h|h|h|h <;> subst h <;> decide

theorem natToDec_digits (n : Nat) : ∀ x ∈ natToDec n, isDigit x = true := by
  induction n using Nat.strongRecOn with
  | _ n ih =>
    rw [natToDec]
    split
    · rename_i h; intro x hx; rw [List.mem_singleton] at hx; subst hx; exact digit_isDigit n h
    · rename_i h
      intro x hx
      rcases List.mem_append.mp hx with hx | hx
      · exact ih (n / 10) (by omega) x hx
      · rw [List.mem_singleton] at hx; subst hx; exact digit_isDigit (n % 10) (by omega)

theorem natToDec_ne_nil (n : Nat) : natToDec n ≠ [] := by
  rw [natToDec]; split <;> simp

theorem decToNat_append (a : Str) (c : UInt8) : decToNat (a ++ [c]) = decToNat a * 10 + (c.toNat - 48) := by
  simp [decToNat, List.foldl_append]

theorem decToNat_natToDec (n : Nat) : decToNat (natToDec n) = n := by
  induction n using Nat.strongRecOn with
  | _ n ih =>
    rw [natToDec]
    split
    · rename_i h
      have := digit_val n h
      simp only [decToNat, List.foldl_cons, List.foldl_nil]
      omega
    · rename_i h
      rw [decToNat_append, ih (n / 10) (by omega), digit_val (n % 10) (by omega)]
      omega

/-- no digit is a line break, a space or `@` -/
theorem isDigit_not_break {x : UInt8} (h : isDigit x = true) : x ≠ LF ∧ x ≠ CR ∧ x ≠ SP ∧ x ≠ AT := by
  unfold isDigit at h
  simp only [Bool.and_eq_true, decide_eq_true_eq] at h
  have h1 := UInt8.le_iff_toNat_le.mp h.1
  have h2 := UInt8.le_iff_toNat_le.mp h.2
  refine ⟨?_, ?_, ?_, ?_⟩ <;> intro e <;> subst e <;> simp [LF, CR, SP, AT] at h1 h2

end Gedcom.Dec
