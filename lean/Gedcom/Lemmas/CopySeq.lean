/-
  Sequences of `DeepCopy` calls between documents (Gedcom/Model/CopyDoc.lean, round 4):
  `World.step` / `World.run`.  Invariants, by induction over the sequence of operations:
  documents only grow, and only the destination of an operation, by new empty FAM records; every
  copy consists of new objects only, has the value of its source, and later copies are disjoint
  from earlier ones; the pointer index and the families cache stay coherent.
-/
import Gedcom.Lemmas.FilterDoc
import Gedcom.Lemmas.Equal
namespace Gedcom

/-! ### growth -/

/-- `d'` is `d` with new, empty FAM records (objects `lo ≤ id < hi`) appended -/
def DocGrows (lo hi : Nat) (d d' : DocSt) : Prop :=
  ∃ added, d'.nodes = d.nodes ++ added ∧
    ∀ x ∈ added, x.tag = tagFAM ∧ x.value = [] ∧ x.kids = [] ∧ lo ≤ x.id ∧ x.id < hi

/-- every object of every document was allocated before `next` -/
def World.Below (w : World) : Prop := ∀ d ∈ w.docs, ∀ i ∈ idsList d.nodes, i < w.next

def World.Grows (w w' : World) : Prop :=
  w.next ≤ w'.next ∧ w.docs.length = w'.docs.length ∧
  ∀ (k : Nat) (d : DocSt), w.docs[k]? = some d →
    ∃ d', w'.docs[k]? = some d' ∧ DocGrows w.next w'.next d d'

theorem DocGrows.refl (lo hi : Nat) (d : DocSt) : DocGrows lo hi d d := ⟨[], by simp, by simp⟩

theorem DocGrows.trans {lo mid hi : Nat} {a b c : DocSt} (h1 : DocGrows lo mid a b)
    (h2 : DocGrows mid hi b c) (hlm : lo ≤ mid) (hmh : mid ≤ hi) : DocGrows lo hi a c := by
  obtain ⟨x, hx, px⟩ := h1
  obtain ⟨y, hy, py⟩ := h2
  refine ⟨x ++ y, by rw [hy, hx, List.append_assoc], ?_⟩
  intro z hz
  rcases List.mem_append.mp hz with hz | hz
  · obtain ⟨p1, p2, p3, p4, p5⟩ := px z hz; exact ⟨p1, p2, p3, p4, by omega⟩
  · obtain ⟨p1, p2, p3, p4, p5⟩ := py z hz; exact ⟨p1, p2, p3, by omega, p5⟩

theorem World.Grows.refl (w : World) : World.Grows w w :=
  ⟨Nat.le_refl _, rfl, fun _ d h => ⟨d, h, DocGrows.refl _ _ _⟩⟩

theorem World.Grows.trans {a b c : World} (h1 : World.Grows a b) (h2 : World.Grows b c) :
    World.Grows a c := by
  obtain ⟨n1, l1, g1⟩ := h1
  obtain ⟨n2, l2, g2⟩ := h2
  refine ⟨by omega, l1.trans l2, ?_⟩
  intro k d hd
  obtain ⟨d', hd', gd⟩ := g1 k d hd
  obtain ⟨d'', hd'', gd'⟩ := g2 k d' hd'
  exact ⟨d'', hd'', gd.trans gd' n1 n2⟩

theorem findRec_append {k : Nat} {l : List INode} {x : INode × INode} (m : List INode)
    (h : findRec k l = some x) : findRec k (l ++ m) = some x := by
  induction l with
  | nil => simp [findRec] at h
  | cons r rs ih =>
    simp only [List.cons_append, findRec] at h ⊢
    split
    · rename_i y hy; rw [hy] at h; exact h
    · rename_i hy; rw [hy] at h; exact ih h

/-! ### one operation -/

/-- what one event says, relative to the world `w` it started from and the world `w'` it left -/
structure EventOK (w w' : World) (op : CopyOp) (e : CopyEvent) : Prop where
  op_eq : e.op = op
  start_eq : e.start = w.next
  next_eq : e.result.next = w'.next
  value : pruneNode op.keep e.source.erase = some e.result.copy.erase
  fresh : ∀ i ∈ e.result.copy.ids, w.next ≤ i ∧ i < w'.next
  writes : ∀ i ∈ e.result.writes, w.next ≤ i ∧ i < w'.next
  src : ∃ s r0, w.docs[op.src]? = some s ∧ findRec op.node s.nodes = some (r0, e.source) ∧
    e.ctx = ctxOf r0
  dstDoc : ∃ d', w'.docs[op.dst]? = some d' ∧ e.result.doc = d'.nodes
  notRec : ∀ d' ∈ w'.docs, ∀ i ∈ e.result.copy.ids, i ∉ idsList d'.nodes

theorem step_spec (w : World) (op : CopyOp) (hb : w.Below) :
    (w.step op).1.Below ∧ World.Grows w (w.step op).1 ∧
    (∀ k, k ≠ op.dst → (w.step op).1.docs[k]? = w.docs[k]?) ∧
    ((w.step op).2 = none → (w.step op).1 = w) ∧
    ∀ e, (w.step op).2 = some e → EventOK w (w.step op).1 op e := by
  have triv : w.Below ∧ World.Grows w w ∧ (∀ k, k ≠ op.dst → w.docs[k]? = w.docs[k]?) ∧
      ((none : Option CopyEvent) = none → w = w) ∧
      ∀ e, (none : Option CopyEvent) = some e → EventOK w w op e :=
    ⟨hb, World.Grows.refl w, fun _ _ => rfl, fun _ => rfl, fun _ h => by cases h⟩
  unfold World.step
  split
  · rename_i s d hs hd
    split
    · exact triv
    · rename_i r t hf
      split
      · rename_i hfil
        split
        · exact triv
        · rename_i c nx wr adds hc
          have hcopy : c = (copyTree w.next t).1 ∧ nx = (copyTree w.next t).2.1 ∧
              wr = (copyTree w.next t).2.2 := by
            unfold deepCopyIn at hc
            split at hc
            · cases hc
            · injection hc with h1 h2 h3; exact ⟨h1.symm, h2.symm, h3.symm⟩
          obtain ⟨hc1, hc2, hc3⟩ := hcopy
          obtain ⟨i1, i2, i3⟩ := copyTree_ids w.next t
          rw [← hc1, ← hc2] at i2
          rw [← hc3, ← hc2] at i3
          rw [← hc2] at i1
          obtain ⟨a1, a2⟩ := addFamilies_spec d nx adds
          obtain ⟨f1, f2, f3, f4⟩ := newFams_spec nx adds
          have hnext : (d.addFamilies nx adds).2 = nx + adds.length := by rw [a2, f1]
          have hfam : ∀ x ∈ (newFams nx adds).1, x.tag = tagFAM ∧ x.value = [] ∧ x.kids = [] ∧
              nx ≤ x.id ∧ x.id < nx + adds.length := by
            intro x hx
            have hid : x.id ∈ List.range' nx adds.length := f3 ▸ List.mem_map_of_mem (f := (·.id)) hx
            have := List.mem_range'_1.mp hid
            obtain ⟨p1, p2, p3⟩ := f4 x hx
            exact ⟨p1, p2, p3, this.1, this.2⟩
          have hdlt : op.dst < w.docs.length := by
            rcases Nat.lt_or_ge op.dst w.docs.length with h | h
            · exact h
            · rw [List.getElem?_eq_none h] at hd; cases hd
          have hgrow : DocGrows w.next (nx + adds.length) d (d.addFamilies nx adds).1 :=
            ⟨(newFams nx adds).1, a1, fun x hx => by
              obtain ⟨p1, p2, p3, p4, p5⟩ := hfam x hx; exact ⟨p1, p2, p3, by omega, p5⟩⟩
          have hbelow' : ∀ d' ∈ w.docs.set op.dst (d.addFamilies nx adds).1,
              ∀ i ∈ idsList d'.nodes, (i < w.next ∨ (nx ≤ i ∧ i < nx + adds.length)) := by
            intro d' hd' i hi
            rcases List.mem_or_eq_of_mem_set hd' with hm | rfl
            · exact Or.inl (hb d' hm i hi)
            · rw [a1, idsList_append] at hi
              rcases List.mem_append.mp hi with hi | hi
              · exact Or.inl (hb d (List.mem_of_getElem? hd) i hi)
              · obtain ⟨x, hx, hix⟩ := idsList_mem.mp hi
                obtain ⟨_, _, p3, p4, p5⟩ := hfam x hx
                rw [ids_of_leaf p3] at hix
                simp at hix
                subst hix
                exact Or.inr ⟨p4, p5⟩
          dsimp only
          refine ⟨?_, ?_, ?_, ?_, ?_⟩
          · intro d' hd' i hi
            simp only [hnext]
            rcases hbelow' d' hd' i hi with h | h <;> omega
          · refine ⟨by simp only [hnext]; omega, by simp, ?_⟩
            intro k d0 hk
            simp only [hnext]
            by_cases hkd : op.dst = k
            · subst hkd
              rw [hd] at hk
              injection hk with hk
              subst hk
              exact ⟨_, by simp [hdlt], hgrow⟩
            · refine ⟨d0, by simp [hkd, hk], ?_⟩
              exact DocGrows.refl _ _ _
          · intro k hk
            simp [Ne.symm hk]
          · intro h; cases h
          · intro e he
            injection he with he
            subst he
            refine ⟨rfl, rfl, rfl, ?_, ?_, ?_, ⟨s, r, hs, hf, rfl⟩, ?_, ?_⟩
            · simp only [CopyOp.keep, hfil]; rw [hc1, copyTree_erase]; exact pruneNode_all _
            · intro i hi; simp only at hi ⊢; have := i2 i hi; rw [hnext]; omega
            · intro i hi; simp only at hi ⊢; have := i3 i hi; rw [hnext]; omega
            · exact ⟨_, by simp [hdlt], rfl⟩
            · intro d' hd' i hi hm
              simp only at hi hd'
              have := i2 i hi
              rcases hbelow' d' hd' i hm with h | h <;> omega
      · rename_i white tags hfil
        have hdlt : op.dst < w.docs.length := by
          rcases Nat.lt_or_ge op.dst w.docs.length with h | h
          · exact h
          · rw [List.getElem?_eq_none h] at hd; cases hd
        split
        · rename_i res d' hfo
          obtain ⟨e1, e2, e3, e4, ⟨added, ea, _, _, _, eadd⟩, _, e7⟩ :=
            filter_effect (ctxOf r) d d' w.next (tagFilter white tags) t res hfo
          have hgrow : DocGrows w.next res.next d d' :=
            ⟨added, ea, fun x hx => by
              obtain ⟨p1, p2, p3, p4, p5, _⟩ := eadd x hx; exact ⟨p1, p2, p3, p4, p5⟩⟩
          have hbelow' : ∀ d0 ∈ w.docs.set op.dst d', ∀ i ∈ idsList d0.nodes,
              (i < w.next ∨ ((w.next ≤ i ∧ i < res.next) ∧ ∀ j ∈ res.copy.ids, i ≠ j)) := by
            intro d0 hd0 i hi
            rcases List.mem_or_eq_of_mem_set hd0 with hm | rfl
            · exact Or.inl (hb d0 hm i hi)
            · rw [ea, idsList_append] at hi
              rcases List.mem_append.mp hi with hi | hi
              · exact Or.inl (hb d (List.mem_of_getElem? hd) i hi)
              · obtain ⟨x, hx, hix⟩ := idsList_mem.mp hi
                obtain ⟨_, _, p3, p4, p5, p6⟩ := eadd x hx
                rw [ids_of_leaf p3] at hix
                simp at hix
                subst hix
                exact Or.inr ⟨⟨p4, p5⟩, fun j hj e => p6 (e ▸ hj)⟩
          dsimp only
          refine ⟨?_, ?_, ?_, ?_, ?_⟩
          · intro d0 hd0 i hi
            rcases hbelow' d0 hd0 i hi with h | h
            · simp only; omega
            · exact h.1.2
          · refine ⟨by simp only; omega, by simp, ?_⟩
            intro k d0 hk
            by_cases hkd : op.dst = k
            · subst hkd
              rw [hd] at hk
              injection hk with hk
              subst hk
              exact ⟨_, by simp [hdlt], hgrow⟩
            · refine ⟨d0, by simp [hkd, hk], ?_⟩
              exact DocGrows.refl _ _ _
          · intro k hk
            simp [Ne.symm hk]
          · intro h; cases h
          · intro e he
            injection he with he
            subst he
            refine ⟨rfl, rfl, rfl, ?_, e2, e3, ⟨s, r, hs, hf, rfl⟩, ?_, ?_⟩
            · simp only [CopyOp.keep, hfil]; exact e1
            · exact ⟨_, by simp [hdlt], e4⟩
            · intro d0 hd0 i hi hm
              have := e2 i hi
              rcases hbelow' d0 hd0 i hm with h | h
              · omega
              · exact h.2 i hi rfl
        · exact triv
  · exact triv

/-! ### sequences -/

/-- the events of a run -/
def eventsOf (l : List (Option CopyEvent)) : List CopyEvent := l.filterMap id

/-- FULL, every sequence.  Documents only grow: after any sequence of copies every document is its
    old record list — the same objects with the same content — followed by new empty FAM records;
    a document that is not the destination of any operation of the sequence is unchanged. -/
theorem run_grows (w : World) (ops : List CopyOp) (hb : w.Below) :
    (w.run ops).1.Below ∧ World.Grows w (w.run ops).1 ∧
    (∀ k, (∀ op ∈ ops, op.dst ≠ k) → (w.run ops).1.docs[k]? = w.docs[k]?) := by
  induction ops generalizing w with
  | nil => exact ⟨hb, World.Grows.refl w, fun _ _ => rfl⟩
  | cons op ops ih =>
    obtain ⟨s1, s2, s3, _, _⟩ := step_spec w op hb
    obtain ⟨r1, r2, r3⟩ := ih (w.step op).1 s1
    simp only [World.run]
    refine ⟨r1, s2.trans r2, ?_⟩
    intro k hk
    rw [r3 k (fun o ho => hk o (by simp [ho])), s3 k (Ne.symm (hk op (by simp)))]

/-- FULL, every sequence.  Every copy made by the sequence consists of objects that did not exist
    when its operation started (so: of no object of any document, and of no object of an earlier
    copy), writes only to such objects, and has the value of its source. -/
theorem run_events (w : World) (ops : List CopyOp) (hb : w.Below) :
    (∀ e ∈ eventsOf (w.run ops).2, w.next ≤ e.start ∧ e.result.next ≤ (w.run ops).1.next ∧
      pruneNode e.op.keep e.source.erase = some e.result.copy.erase ∧
      (∀ i ∈ e.result.copy.ids, e.start ≤ i ∧ i < e.result.next) ∧
      (∀ i ∈ e.result.writes, e.start ≤ i ∧ i < e.result.next)) ∧
    (eventsOf (w.run ops).2).Pairwise (fun a b => a.result.next ≤ b.start) := by
  induction ops generalizing w with
  | nil => simp [World.run, eventsOf]
  | cons op ops ih =>
    obtain ⟨s1, s2, _, _, s5⟩ := step_spec w op hb
    obtain ⟨r1, r2⟩ := ih (w.step op).1 s1
    obtain ⟨g1, _, _⟩ := run_grows (w.step op).1 ops s1
    have hn := (run_grows (w.step op).1 ops s1).2.1.1
    simp only [World.run]
    cases he : (w.step op).2 with
    | none =>
      simp only [eventsOf, List.filterMap_cons, id_eq]
      refine ⟨?_, r2⟩
      intro e hm
      obtain ⟨p1, p2⟩ := r1 e hm
      exact ⟨by have := s2.1; omega, p2⟩
    | some e0 =>
      have ok := s5 e0 he
      simp only [eventsOf, List.filterMap_cons, id_eq]
      refine ⟨?_, List.pairwise_cons.mpr ⟨?_, r2⟩⟩
      · intro e hm
        rcases List.mem_cons.mp hm with rfl | hm
        · refine ⟨by rw [ok.start_eq]; exact Nat.le_refl _, by rw [ok.next_eq]; exact hn,
            by rw [ok.op_eq]; exact ok.value, ?_, ?_⟩
          · intro i hi; rw [ok.start_eq, ok.next_eq]; exact ok.fresh i hi
          · intro i hi; rw [ok.start_eq, ok.next_eq]; exact ok.writes i hi
        · obtain ⟨p1, p2⟩ := r1 e hm
          exact ⟨by have := s2.1; omega, p2⟩
      · intro e hm
        rw [ok.next_eq]
        exact (r1 e hm).1

/-- FULL, every sequence.  Two different copies of a sequence share no object. -/
theorem run_disjoint (w : World) (ops : List CopyOp) (hb : w.Below) :
    (eventsOf (w.run ops).2).Pairwise
      (fun a b => ∀ i ∈ a.result.copy.ids, i ∉ b.result.copy.ids) := by
  obtain ⟨h1, h2⟩ := run_events w ops hb
  refine List.Pairwise.imp_of_mem ?_ h2
  intro a b ha hb' hab i hia hib
  have := (h1 a ha).2.2.2.1 i hia
  have := (h1 b hb').2.2.2.1 i hib
  omega

/-- FULL, every sequence.  No copy contains an object of a document — neither of the documents as
    they were before the sequence nor of the FAM records the sequence added. -/
theorem run_copies_outside_documents (w : World) (ops : List CopyOp) (hb : w.Below) :
    ∀ e ∈ eventsOf (w.run ops).2, ∀ d ∈ w.docs, ∀ i ∈ e.result.copy.ids, i ∉ idsList d.nodes := by
  intro e he d hd i hi hm
  have := (run_events w ops hb).1 e he
  have h1 := this.2.2.2.1 i hi
  have h2 := hb d hd i hm
  omega

/-- FULL, every sequence.  The object copied by an operation is the object as it was in the world
    the sequence started from: an earlier operation of the sequence never changes what a later one
    copies (documents only gain records, and the lookup of an existing object finds it first). -/
theorem run_source_stable (w0 w : World) (ops : List CopyOp) (hb : w.Below)
    (hg : World.Grows w0 w) :
    ∀ e ∈ eventsOf (w.run ops).2, ∀ s r t, w0.docs[e.op.src]? = some s →
      findRec e.op.node s.nodes = some (r, t) → e.source = t ∧ e.ctx = ctxOf r := by
  induction ops generalizing w with
  | nil => simp [World.run, eventsOf]
  | cons op ops ih =>
    obtain ⟨s1, s2, _, _, s5⟩ := step_spec w op hb
    have rest := ih (w.step op).1 s1 (hg.trans s2)
    simp only [World.run]
    cases he : (w.step op).2 with
    | none => simpa [eventsOf] using rest
    | some e0 =>
      simp only [eventsOf, List.filterMap_cons, id_eq]
      intro e hm
      rcases List.mem_cons.mp hm with rfl | hm
      · intro s r t hs hf
        have ok := s5 e he
        obtain ⟨s', r0, hs', hf', hctx⟩ := ok.src
        rw [ok.op_eq] at hs hf
        obtain ⟨d', hd', added, hadd, _⟩ := hg.2.2 _ s hs
        rw [hs'] at hd'
        injection hd' with hd'
        subst hd'
        have := findRec_append added hf
        rw [← hadd, hf'] at this
        injection this with this
        injection this with h1 h2
        exact ⟨h2, by rw [hctx, h1]⟩
      · exact rest e hm

/-- FULL.  Copying the same object twice (anywhere in a sequence, into the same or different
    documents) gives two results that are deep-equal to each other and to the source, and share
    no object. -/
theorem run_copy_twice (w : World) (ops : List CopyOp) (hb : w.Below) (a b : CopyEvent)
    (hab : [a, b].Sublist (eventsOf (w.run ops).2))
    (hsrc : a.op.src = b.op.src) (hnode : a.op.node = b.op.node)
    (hfil : a.op.filter = b.op.filter)
    (hin : ∃ s x, w.docs[a.op.src]? = some s ∧ findRec a.op.node s.nodes = some x) :
    deepEqual a.result.copy.erase b.result.copy.erase = true ∧
    (a.op.filter = none → deepEqual a.source.erase a.result.copy.erase = true) ∧
    (∀ i ∈ a.result.copy.ids, i ∉ b.result.copy.ids) := by
  obtain ⟨s, ⟨r, t⟩, hs, hf⟩ := hin
  have ha : a ∈ eventsOf (w.run ops).2 := hab.subset (by simp)
  have hb' : b ∈ eventsOf (w.run ops).2 := hab.subset (by simp)
  have st := run_source_stable w w ops hb (World.Grows.refl w)
  have sa := (st a ha s r t hs hf).1
  have sb := (st b hb' s r t (by rw [← hsrc]; exact hs) (by rw [← hnode]; exact hf)).1
  have ev := (run_events w ops hb).1
  have va := (ev a ha).2.2.1
  have vb := (ev b hb').2.2.1
  have hk : a.op.keep = b.op.keep := by unfold CopyOp.keep; rw [hfil]
  rw [sa] at va
  rw [sb, ← hk, va] at vb
  injection vb with vb
  refine ⟨by rw [vb]; exact deepEqual_refl _, ?_, ?_⟩
  · intro hn
    have : a.op.keep = fun _ => true := by unfold CopyOp.keep; rw [hn]
    rw [this, pruneNode_all] at va
    injection va with va
    rw [sa, va]; exact deepEqual_refl _
  · have hp := (run_disjoint w ops hb).sublist hab
    simp only [List.pairwise_cons, List.mem_singleton, forall_eq] at hp
    exact hp.1

/-- FULL, every sequence.  Cache coherence of every document is preserved: `NodeByPointer` answers
    what a scan of the record list would (the record stored last under the pointer), and a cached
    `Families()` slice is the list of FAM records — the new ones included. -/
theorem run_coherent (w : World) (ops : List CopyOp) (hc : ∀ d ∈ w.docs, d.coherent) :
    ∀ d ∈ (w.run ops).1.docs, d.coherent := by
  induction ops generalizing w with
  | nil => exact hc
  | cons op ops ih =>
    simp only [World.run]
    apply ih
    intro d hd
    unfold World.step at hd
    split at hd
    · rename_i s d0 hs hd0
      split at hd
      · exact hc d hd
      · split at hd
        · split at hd
          · exact hc d hd
          · simp only at hd
            rcases List.mem_or_eq_of_mem_set hd with hm | rfl
            · exact hc d hm
            · exact addFamilies_coherent _ _ _ (hc d0 (List.mem_of_getElem? hd0))
        · split at hd
          · rename_i res d' hfo
            simp only at hd
            rcases List.mem_or_eq_of_mem_set hd with hm | rfl
            · exact hc d hm
            · exact (filter_effect _ _ _ _ _ _ _ hfo).2.2.2.2.2.1 (hc d0 (List.mem_of_getElem? hd0))
          · exact hc d hd
    · exact hc d hd

/-! ### the family of the role nodes of a copy -/

theorem deepCopyIn_adds (ctx : Option (Nat × Str)) (next : Nat) (t c : INode) (n : Nat)
    (w : List Nat) (adds : List Str) (h : deepCopyIn ctx next t = .ok c n w adds) :
    adds = (firstNew [] (famsUsed ctx t).2).2 := by
  unfold deepCopyIn at h
  split at h
  · cases h
  · rename_i fam' seen' adds' hw
    injection h with _ _ _ h4
    have sp := (famWalk_spec ctx [] t fam' seen' adds' hw).2
    rw [← h4]; exact congrArg Prod.snd sp

theorem idxOf_lt_of_mem {l : List Nat} {a : Nat} (h : a ∈ l) : l.idxOf a < l.length :=
  List.idxOf_lt_length_of_mem h

/-- FULL.  Every role node (HUSB / WIFE / CHIL) of a copy belongs to one of the FAM records the
    same walk added to the destination document — never to a family of the source. -/
theorem roleFamilies_new (ctx : Option (Nat × Str)) (next : Nat) (t c : INode) (n : Nat)
    (w : List Nat) (adds : List Str) (h : deepCopyIn ctx next t = .ok c n w adds) :
    ∀ f ∈ roleFamilies ctx n t, n ≤ f ∧ f < n + adds.length := by
  intro f hf
  unfold roleFamilies at hf
  simp only [List.mem_map] at hf
  obtain ⟨u, hu, rfl⟩ := hf
  have hadds : adds = (firstNew [] (famsUsed ctx t).2).2 := deepCopyIn_adds ctx next t c n w adds h
  obtain ⟨new, hn, hl⟩ := firstNew_shape [] (famsUsed ctx t).2
  have hmem : u.1 ∈ (firstNew [] (famsUsed ctx t).2).1.reverse := by
    rw [List.mem_reverse, firstNew_mem]
    exact Or.inr (List.mem_map_of_mem (f := (·.1)) hu)
  have hlen : (firstNew [] (famsUsed ctx t).2).1.reverse.length = adds.length := by
    rw [List.length_reverse, hn, List.append_nil, hl, ← hadds]
  have := idxOf_lt_of_mem hmem
  rw [hlen] at this
  omega

end Gedcom
