/- The mutual induction behind C01: running the decoder over the text of a legal forest. -/
import Gedcom.Lemmas.Machine
import Gedcom.Lemmas.Trim
namespace Gedcom.Dec
open Gedcom

/-- legality of one node's own fields (C01's "GEDCOM-legal parts") -/
structure LegalHdr (t v p : Str) : Prop where
  tag_ne : t ≠ []
  tag_word : ∀ x ∈ t, isWord x = true
  ptr_ok : ∀ x ∈ p, x ≠ AT ∧ x ≠ LF ∧ x ≠ CR
  val_ok : ∀ x ∈ v, x ≠ LF ∧ x ≠ CR
  val_trim : trimSpace v = v
  record_no_value : isRecordTag t = true → v = []

mutual
def LegalT : Node → Prop
  | .mk t v p ks => LegalHdr t v p ∧ LegalF ks
def LegalF : List Node → Prop
  | [] => True
  | n :: ns => LegalT n ∧ LegalF ns
end

theorem legalHdrB_sound {t v p : Str} (h : legalHdrB t v p = true) : LegalHdr t v p := by
  unfold legalHdrB at h
  simp only [Bool.and_eq_true, List.all_eq_true, bne_iff_ne, ne_eq, beq_iff_eq, Bool.or_eq_true,
    Bool.not_eq_eq_eq_not, Bool.not_true, decide_eq_true_eq] at h
  obtain ⟨⟨⟨⟨⟨h1, h2⟩, h3⟩, h4⟩, h5⟩, h6⟩ := h
  refine ⟨h1, h2, ?_, ?_, h5, ?_⟩
  · intro x hx; have := h3 x hx; exact ⟨this.1.1, this.1.2, this.2⟩
  · intro x hx; exact h4 x hx
  · intro hr; rcases h6 with h6 | h6
    · rw [hr] at h6; exact absurd h6 (by simp)
    · exact h6

mutual
theorem legalTB_sound (t : Node) (h : legalTB t = true) : LegalT t := by
  match t with
  | .mk tg v p ks =>
    rw [legalTB, Bool.and_eq_true] at h
    rw [LegalT]
    exact ⟨legalHdrB_sound h.1, legalFB_sound ks h.2⟩
theorem legalFB_sound (f : List Node) (h : legalFB f = true) : LegalF f := by
  match f with
  | [] => rw [LegalF]; trivial
  | n :: ns =>
    rw [legalFB, Bool.and_eq_true] at h
    rw [LegalF]
    exact ⟨legalTB_sound n h.1, legalFB_sound ns h.2⟩
end

theorem LegalHdr.line {t v p : Str} (h : LegalHdr t v p) (lvl : Nat) : LegalLine ⟨lvl, p, t, v⟩ :=
  ⟨h.tag_ne, h.tag_word, fun x hx => (h.ptr_ok x hx).1⟩

/-- a rendered legal line contains no line break -/
theorem renderLine_nobreak {t v p : Str} (h : LegalHdr t v p) (lvl : Nat) :
    ∀ x ∈ renderLine ⟨lvl, p, t, v⟩, x ≠ LF ∧ x ≠ CR := by
  intro x hx
  unfold renderLine at hx
  simp only [List.mem_append] at hx
  rcases hx with ((hx | hx) | hx) | hx
  · rcases hx with hx | hx
    · have := isDigit_not_break (natToDec_digits lvl x hx); exact ⟨this.1, this.2.1⟩
    · simp at hx; subst hx; decide
  · by_cases hp : p = []
    · simp [hp] at hx
    · simp only [hp, if_false, List.mem_append, List.mem_cons, List.not_mem_nil, or_false] at hx
      rcases hx with (hx | hx) | hx
      · subst hx; decide
      · exact (h.ptr_ok x hx).2
      · rcases hx with hx | hx <;> subst hx <;> decide
  · have := isWord_not (h.tag_word x hx); exact ⟨this.2.2.1, this.2.2.2⟩
  · by_cases hv : v = []
    · simp [hv] at hx
    · simp only [hv, if_false, List.mem_cons] at hx
      rcases hx with hx | hx
      · subst hx; decide
      · exact h.val_ok x hx

theorem renderLine_ne_nil (l : Line) : renderLine l ≠ [] := by
  unfold renderLine
  have := natToDec_ne_nil l.level
  cases h : natToDec l.level with
  | nil => exact absurd h this
  | cons a b => simp

/-- `splitLines` on `line ++ LF :: rest` -/
theorem splitGo_line (a rest cur : Str) (ha : ∀ x ∈ a, x ≠ LF ∧ x ≠ CR) :
    splitLines.go (a ++ LF :: rest) cur = (cur.reverse ++ a) :: splitLines.go rest [] := by
  induction a generalizing cur with
  | nil => simp [splitLines.go]
  | cons x xs ih =>
    have hx := ha x (by simp)
    have h1 : (x == LF) = false := by simpa using hx.1
    have h2 : (x == CR) = false := by simpa using hx.2
    simp only [List.cons_append, splitLines.go, h1, h2, Bool.or_self, Bool.false_eq_true, if_false]
    rw [ih (x :: cur) (fun z hz => ha z (by simp [hz]))]
    simp

/-- the step taken on the written line of a legal node -/
theorem step_rendered (o : Opts) (s : St) (lvl : Nat) {t v p : Str} (h : LegalHdr t v p)
    (hl : lvl ≤ s.stack.length) (htop : TopOK s) (hrole : (!isRoleTag t || s.seenFam) = true) :
    step o s (renderLine ⟨lvl, p, t, v⟩) =
      .next (push (closeTo lvl (setFam (s.seenFam || t == tFAM) s)) ⟨t, v, p⟩) := by
  have hpl := parseLine_renderLine ⟨lvl, p, t, v⟩ (h.line lvl)
  have hne := renderLine_ne_nil ⟨lvl, p, t, v⟩
  have hhdr : hdrOf ⟨lvl, p, t, v⟩ = ⟨t, v, p⟩ := by
    unfold hdrOf
    by_cases hr : isRecordTag t = true
    · simp [hr, h.record_no_value hr]
    · simp [hr]
  have hrole' : (isRoleTag t && !s.seenFam) = false := by
    cases h1 : isRoleTag t <;> cases h2 : s.seenFam <;> simp_all
  have htrim : trimTop (setFam (s.seenFam || t == tFAM) s) = setFam (s.seenFam || t == tFAM) s :=
    trimTop_of_TopOK _ (TopOK_setFam _ s htop)
  unfold step place
  simp only [hne, if_false, hpl, hrole', Bool.false_eq_true]
  have hs : ({ s with seenFam := s.seenFam || t == tFAM } : St) = setFam (s.seenFam || t == tFAM) s := rfl
  simp only [hs, htrim, hhdr]
  by_cases h0 : lvl = 0
  · simp [h0]
  · have : ¬ (s.stack.length ≤ lvl - 1) := by omega
    simp [h0, this]

end Gedcom.Dec

namespace Gedcom.Dec
open Gedcom

theorem TopOK_push (s : St) (h : Hdr) (hv : trimSpace h.value = h.value) : TopOK (push s h) := by
  intro f fs hf
  simp only [push, List.cons.injEq] at hf
  rw [← hf.1]; exact hv

theorem encNode_append (lvl : Nat) (t v p : Str) (ks : List Node) (rest : Str) :
    encNode lvl (.mk t v p ks) ++ rest =
      renderLine ⟨lvl, p, t, v⟩ ++ LF :: (encForest (lvl + 1) ks ++ rest) := by
  simp [encNode, List.append_assoc]

mutual
/-- running the decoder loop over the text of one legal tree: the tree ends up attached at
    level `lvl`, whatever text follows -/
theorem runT (o : Opts) (t : Node) (lvl : Nat) (s : St) (n : Nat) (rest : Str)
    (hl : lvl ≤ s.stack.length) (htop : TopOK s) (hleg : LegalT t)
    (hrole : rolesOKT s.seenFam t = true) :
    ∃ s' n', run o s n (splitLines.go (encNode lvl t ++ rest) []) = run o s' n' (splitLines.go rest []) ∧
      lvl < s'.stack.length ∧ TopOK s' ∧ s'.seenFam = famAfterT s.seenFam t ∧
      closeTo lvl s' = setFam s'.seenFam (attach (closeTo lvl s) [t]) := by
  match t with
  | .mk tg v p ks =>
    rw [LegalT] at hleg
    obtain ⟨hh, hks⟩ := hleg
    rw [rolesOKT, Bool.and_eq_true] at hrole
    obtain ⟨hr1, hr2⟩ := hrole
    let b := s.seenFam || tg == tFAM
    let s1 : St := push (closeTo lvl (setFam b s)) ⟨tg, v, p⟩
    have hstep := step_rendered o s lvl hh hl htop hr1
    have hlen0 : (closeTo lvl (setFam b s)).stack.length = lvl := closeTo_len lvl _ (by simpa using hl)
    have hs1len : s1.stack.length = lvl + 1 := by simp [s1, push, hlen0]
    have hs1top : TopOK s1 := TopOK_push _ _ hh.val_trim
    have hs1seen : s1.seenFam = b := by simp [s1, push]
    obtain ⟨s2, n2, hrun, hlen2, htop2, hseen2, hclose2⟩ :=
      runF o ks (lvl + 1) s1 (n + 1) rest (by omega) hs1top hks (by rw [hs1seen]; exact hr2)
    refine ⟨s2, n2, ?_, by omega, htop2, ?_, ?_⟩
    · rw [encNode_append, splitGo_line _ _ _ (renderLine_nobreak hh lvl)]
      simp only [List.reverse_nil, List.nil_append]
      rw [run_next o s s1 n _ _ hstep]
      exact hrun
    · rw [hseen2, hs1seen, famAfterT]
    · rw [← closeTo_closeTo lvl (lvl + 1) s2 (by omega), hclose2,
        closeTo_self s1 (lvl + 1) (by omega), closeTo_setFam]
      have hatt : attach s1 ks =
          ⟨(closeTo lvl (setFam b s)).roots, ⟨⟨tg, v, p⟩, ks⟩ :: (closeTo lvl (setFam b s)).stack,
            (closeTo lvl (setFam b s)).seenFam⟩ := by
        simp [s1, push, attach]
      rw [hatt]
      have hp := closeTo_push (closeTo lvl (setFam b s)) ⟨tg, v, p⟩ ks
      rw [hlen0] at hp
      rw [hp, closeTo_setFam, attach_setFam, setFam_setFam]
theorem runF (o : Opts) (f : List Node) (lvl : Nat) (s : St) (n : Nat) (rest : Str)
    (hl : lvl ≤ s.stack.length) (htop : TopOK s) (hleg : LegalF f)
    (hrole : rolesOKF s.seenFam f = true) :
    ∃ s' n', run o s n (splitLines.go (encForest lvl f ++ rest) []) = run o s' n' (splitLines.go rest []) ∧
      lvl ≤ s'.stack.length ∧ TopOK s' ∧ s'.seenFam = famAfterF s.seenFam f ∧
      closeTo lvl s' = setFam s'.seenFam (attach (closeTo lvl s) f) := by
  match f with
  | [] =>
    refine ⟨s, n, by simp [encForest], hl, htop, by simp [famAfterF], ?_⟩
    rw [attach_nil, ← closeTo_setFam, setFam_self]
  | t :: ts =>
    rw [LegalF] at hleg
    obtain ⟨ht, hts⟩ := hleg
    rw [rolesOKF, Bool.and_eq_true] at hrole
    obtain ⟨hr1, hr2⟩ := hrole
    obtain ⟨s1, n1, hrun1, hlen1, htop1, hseen1, hclose1⟩ :=
      runT o t lvl s n (encForest lvl ts ++ rest) hl htop ht hr1
    obtain ⟨s2, n2, hrun2, hlen2, htop2, hseen2, hclose2⟩ :=
      runF o ts lvl s1 n1 rest (by omega) htop1 hts (by rw [hseen1]; exact hr2)
    refine ⟨s2, n2, ?_, hlen2, htop2, ?_, ?_⟩
    · rw [encForest, List.append_assoc, hrun1, hrun2]
    · rw [hseen2, hseen1, famAfterF]
    · rw [hclose2, hclose1, attach_setFam, attach_attach, setFam_setFam]
      simp
end

/-- a trailing blank line (the text ends with a line feed) leaves the last node as it was,
    also when blank lines continue values -/
theorem trimTop_appendTop_LF (s : St) (h : TopOK s) : trimTop (appendTop [LF] s) = s := by
  rcases s with ⟨r, _ | ⟨f, fs⟩, sf⟩
  · rfl
  · have := trimSpace_append_LF f.hdr.value (h f fs rfl)
    simp [appendTop, trimTop, this]

end Gedcom.Dec
