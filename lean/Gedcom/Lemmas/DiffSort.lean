/-
  `Sort` only reorders: every entry of the sorted diff is an entry of the original at the same
  depth with the same two nodes, and conversely (C08).
-/
import Gedcom.Lemmas.Diff
namespace Gedcom
open Diff

theorem insRev_perm {α : Type} (lt : α → α → Bool) (x : α) : ∀ (l : List α), (sliceStableIns lt x l).Perm (x :: l)
  | [] => List.Perm.refl _
  | e :: es => by
    rw [sliceStableIns]
    by_cases h : lt x e = true
    · rw [if_pos h]
      exact (List.Perm.cons e (insRev_perm lt x es)).trans (List.Perm.swap x e es)
    · rw [if_neg h]

theorem isort_perm {α : Type} (lt : α → α → Bool) (l : List α) : (sliceStable lt l).Perm l := by
  unfold sliceStable
  have h : ∀ (l acc : List α), (l.foldl (fun acc x => sliceStableIns lt x acc) acc).Perm (l.reverse ++ acc) := by
    intro l
    induction l with
    | nil => intro acc; exact List.Perm.refl _
    | cons x xs ih =>
      intro acc
      rw [List.foldl_cons]
      refine (ih _).trans ?_
      rw [List.reverse_cons, List.append_assoc]
      exact List.Perm.append_left _ (insRev_perm lt x acc)
  have := h l []
  rw [List.append_nil] at this
  exact (List.reverse_perm _).trans (this.trans (List.reverse_perm _))

theorem sortKeyed_eq : ∀ (cs : List Diff),
    Diff.sortKeyed cs = cs.map (fun c => (sortKeyOf (c.flatten true), c.sort))
  | [] => by rw [Diff.sortKeyed]; rfl
  | c :: cs => by rw [Diff.sortKeyed, sortKeyed_eq cs]; rfl

/-- the children of the sorted entry are the sorted children, in some order -/
theorem sort_kids_perm (L R : Option INode) (cs : List Diff) :
    ((Diff.mk L R cs).sort).kids.Perm (cs.map Diff.sort) := by
  rw [Diff.sort]
  show ((sliceStable _ (Diff.sortKeyed cs)).map (·.2)).Perm _
  have h := (isort_perm (fun a b : SortKey × Diff => lessKey a.1 b.1) (Diff.sortKeyed cs)).map (·.2)
  rw [sortKeyed_eq] at h ⊢
  simpa [List.map_map, Function.comp_def] using h

theorem sort_left (D : Diff) : D.sort.left = D.left := by cases D; rw [Diff.sort]; rfl
theorem sort_right (D : Diff) : D.sort.right = D.right := by cases D; rw [Diff.sort]; rfl

theorem mem_sort_kids {L R : Option INode} {cs : List Diff} {c' : Diff} :
    c' ∈ ((Diff.mk L R cs).sort).kids ↔ ∃ c ∈ cs, c' = c.sort := by
  rw [(sort_kids_perm L R cs).mem_iff, List.mem_map]
  constructor
  · rintro ⟨c, hc, rfl⟩; exact ⟨c, hc, rfl⟩
  · rintro ⟨c, hc, rfl⟩; exact ⟨c, hc, rfl⟩

theorem EntryAt.zero {D e : Diff} (h : EntryAt D 0 e) : e = D := by cases h; rfl

theorem EntryAt.succ {D e : Diff} {d : Nat} (h : EntryAt D (d + 1) e) :
    ∃ c ∈ D.kids, EntryAt c d e := by
  cases h with
  | kid hc he => exact ⟨_, hc, he⟩

theorem EntryAt.of_kid {D c e : Diff} {d : Nat} (hc : c ∈ D.kids) (he : EntryAt c d e) :
    EntryAt D (d + 1) e := by
  cases D with | mk L R cs => exact EntryAt.kid hc he

theorem sort_entry_of : ∀ (d : Nat) (D e' : Diff), EntryAt D.sort d e' →
    ∃ e, EntryAt D d e ∧ e.left = e'.left ∧ e.right = e'.right
  | 0, D, e', h => by
    have := EntryAt.zero h
    subst this
    exact ⟨D, EntryAt.root D, (sort_left D).symm, (sort_right D).symm⟩
  | d + 1, .mk L R cs, e', h => by
    obtain ⟨c', hc', he⟩ := EntryAt.succ h
    obtain ⟨c, hcm, rfl⟩ := mem_sort_kids.mp hc'
    obtain ⟨e, hee, hl, hr⟩ := sort_entry_of d c e' he
    exact ⟨e, EntryAt.kid hcm hee, hl, hr⟩

theorem sort_entry_to : ∀ (d : Nat) (D e : Diff), EntryAt D d e →
    ∃ e', EntryAt D.sort d e' ∧ e'.left = e.left ∧ e'.right = e.right
  | 0, D, e, h => by
    have := EntryAt.zero h
    subst this
    exact ⟨e.sort, EntryAt.root _, sort_left e, sort_right e⟩
  | d + 1, .mk L R cs, e, h => by
    obtain ⟨c, hc, he⟩ := EntryAt.succ h
    obtain ⟨e', hee, hl, hr⟩ := sort_entry_to d c e he
    have hmem := (mem_sort_kids (L := L) (R := R) (cs := cs)).mpr ⟨c, hc, rfl⟩
    exact ⟨e', EntryAt.of_kid hmem hee, hl, hr⟩

end Gedcom
